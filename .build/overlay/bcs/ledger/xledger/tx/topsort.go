package tx

import vhook "github.com/xuperchain/xupercore/verifshim/vhook"

import (
	pb "github.com/xuperchain/xupercore/bcs/ledger/xledger/xldgpb"
)

// 交易依赖关系图
type TxGraph map[string][]string

// TopSortDFS 对依赖关系图进行拓扑排序
// 输入：依赖关系图，就是个map
// 输出: order: 排序后的有序数组，依赖者排在前面，被依赖的排在后面
//
//	cyclic: 如果发现有环形依赖关系则输出这个数组
//
// 实现参考： https://rosettacode.org/wiki/Topological_sort#Go
// 在我们映射中，RefTx是边的源点
func TopSortDFS(g TxGraph) (order []string, cyclic bool, childDAGSize []int) {
	reverseG := TxGraph{}
	for _, n := range vhook.OrderedKeys("TopSortDFS#1", g) {
		outputs := g[n]
		for _, m := range outputs {
			if g[m] == nil {
				g[m] = []string{} //预处理一下，coinbase交易可能没有依赖
			}
			if reverseG[m] == nil {
				reverseG[m] = []string{}
			}
			reverseG[m] = append(reverseG[m], n)
		}
	}
	L := make([]string, len(g))
	i := len(L)
	temp := map[string]bool{} //临时访问标记
	perm := map[string]bool{} //永久访问标记
	var cycleFound bool
	var visit func(string)
	visit = func(n string) {
		switch {
		case temp[n]: //临时标记里面有，说明产生环了
			cycleFound = true
			return
		case perm[n]:
			return
		}
		temp[n] = true
		for _, m := range g[n] {
			visit(m)
			if cycleFound {
				cyclic = true
				return
			}
		}
		delete(temp, n)
		perm[n] = true
		i--
		L[i] = n
	}
	subGraphs := [][]string{}
	marked := map[string]bool{}
	subG := []string{}
	var dfs func(string)
	dfs = func(n string) {
		if marked[n] {
			return
		}
		marked[n] = true
		for _, m := range g[n] {
			dfs(m)
		}
		for _, m := range reverseG[n] {
			dfs(m)
		}
		subG = append(subG, n)
	}
	// dfs变量切分出多个连通的子图
	for _, n := range vhook.OrderedKeys("TopSortDFS#2", g) {
		if marked[n] {
			continue
		}
		dfs(n)
		subGraphs = append(subGraphs, subG)
		subG = []string{}
	}

	childDAGSize = make([]int, len(subGraphs))
	for i, g := range subGraphs {
		//记录每个DAG子图的大小
		childDAGSize[len(subGraphs)-i-1] = len(g)
		for _, n := range g {
			if perm[n] {
				continue
			}
			visit(n)
			if cycleFound {
				return nil, cyclic, childDAGSize
			}
		}
	}
	return L, false, childDAGSize
}

func SplitToDags(block *pb.InternalBlock) [][]*pb.Transaction {
	txs := block.Transactions
	oneDag := []*pb.Transaction{}
	dags := [][]*pb.Transaction{}
	previousTxids := map[string]bool{}
	noDepends := func(tx *pb.Transaction) bool {
		for _, input := range tx.TxInputs {
			if previousTxids[string(input.RefTxid)] {
				return false
			}
		}
		for _, input := range tx.TxInputsExt {
			if previousTxids[string(input.RefTxid)] {
				return false
			}
		}
		return true
	}
	for i, tx := range txs {
		if noDepends(tx) && i > 0 {
			dags = append(dags, oneDag)
			oneDag = []*pb.Transaction{}
		}
		oneDag = append(oneDag, tx)
		previousTxids[string(tx.Txid)] = true
	}
	if len(oneDag) == 0 {
		return dags
	}
	dags = append(dags, oneDag)
	return dags
}
