package main

import (
	"fmt"
	"time"

	pb "github.com/xuperchain/xupercore/bcs/ledger/xledger/xldgpb"
	"verif/world"
)

func must(err error) {
	if err != nil {
		panic(err)
	}
}

func main() {
	t0 := time.Now()
	w, err := world.New(world.DefaultConfig(), world.RegisterVKV)
	must(err)
	fmt.Println("new world", time.Since(t0))
	t0 = time.Now()
	for i := 0; i < 100; i++ {
		w2, err := world.New(world.DefaultConfig(), world.RegisterVKV)
		must(err)
		w2.Drop()
	}
	fmt.Println("100 worlds", time.Since(t0))
	root := w.Genesis.Transactions[0]
	balA, _ := w.State.GetBalance(world.Addr("A"))
	fmt.Println("balance A", balA, "total", w.State.GetTotal())
	t1 := world.BuildTx(world.TxSpec{Initiator: "A", Ins: []world.In{{Tx: root, Offset: 0}}, Outs: []world.Out{{To: "B", Amount: "10"}, {To: "A", Amount: "985"}, {To: "$", Amount: "5"}}, Nonce: "t1"})
	ok, err := w.State.VerifyTx(t1)
	fmt.Println("verify t1", ok, err)
	must(w.State.DoTx(t1))
	kv, pre, err := w.BuildKVTx("B", "put k1 x;get k1", []world.In{{Tx: root, Offset: 1}}, "kv1")
	must(err)
	fmt.Println("preexec gas", pre.GasUsed, "inputs", len(pre.Inputs), "outputs", len(pre.Outputs), string(pre.Responses[0].Body))
	ok, err = w.State.VerifyTx(kv)
	fmt.Println("verify kv", ok, err)
	must(w.State.DoTx(kv))
	pool, err := w.State.GetUnconfirmedTx(false)
	must(err)
	fmt.Println("pool", len(pool))
	b1, err := w.FormatBlock("M", w.Genesis, pool, 1, "b1")
	must(err)
	okc, st := w.Recv(b1)
	fmt.Println("confirm", okc, st)
	must(w.State.PlayForMiner(b1.Blockid))
	balM, _ := w.State.GetBalance(world.Addr("M"))
	fmt.Println("balance M", balM, "total", w.State.GetTotal())
	v, err := w.State.CreateXMReader().Get(world.VKVBucket, []byte("k1"))
	fmt.Println("k1", string(v.GetPureData().GetValue()), err)
	// replica
	r, err := world.New(world.DefaultConfig(), world.RegisterVKV)
	must(err)
	okc, st = r.Recv(world.WireBlock(b1))
	fmt.Println("replica confirm", okc, st)
	fmt.Println("replica sync", r.Sync())
	balM, _ = r.State.GetBalance(world.Addr("M"))
	fmt.Println("replica balance M", balM, "total", r.State.GetTotal())
	must(w.Restart())
	balM, _ = w.State.GetBalance(world.Addr("M"))
	fmt.Println("restarted balance M", balM, "total", w.State.GetTotal())
	_ = pb.Transaction{}
}
