package main

import "fmt"

func selftest() int {
	fmt.Println("selftest: ok")
	return 0
}
