// vcheck: one driver for all checks.
//
//	vcheck check <Cxx> --tier quick|thorough
//	vcheck replay <file>
//	vcheck selftest
package main

import (
	"encoding/json"
	"fmt"
	"os"

	"verif/core"
	_ "verif/props/c04"
	_ "verif/props/c09"
	_ "verif/props/c12"
	_ "verif/props/c13"
	"verif/props/chainprops"
)

func main() {
	if len(os.Args) < 2 {
		usage()
	}
	switch os.Args[1] {
	case "check":
		if len(os.Args) < 3 {
			usage()
		}
		id := os.Args[2]
		tier := core.Quick
		for i := 3; i < len(os.Args); i++ {
			if os.Args[i] == "--tier" && i+1 < len(os.Args) {
				tier = core.Tier(os.Args[i+1])
			}
		}
		c := core.Lookup(id)
		if c == nil {
			fmt.Println("HARNESS-ERROR unknown check", id)
			os.Exit(2)
		}
		rep := c.Run(tier)
		os.Exit(rep.Finish())
	case "replay":
		if len(os.Args) < 3 {
			usage()
		}
		data, err := os.ReadFile(os.Args[2])
		if err != nil {
			fmt.Println("HARNESS-ERROR", err)
			os.Exit(2)
		}
		var v struct {
			Property string          `json:"property"`
			Key      string          `json:"key"`
			Case     json.RawMessage `json:"case"`
		}
		if err := json.Unmarshal(data, &v); err != nil {
			fmt.Println("HARNESS-ERROR", err)
			os.Exit(2)
		}
		c := core.Lookup(v.Property)
		if c == nil || c.Replay == nil {
			fmt.Println("HARNESS-ERROR no replay for", v.Property)
			os.Exit(2)
		}
		bad, msg, err := c.Replay(v.Case)
		if err != nil {
			fmt.Println("HARNESS-ERROR", err)
			os.Exit(2)
		}
		fmt.Println(msg)
		if bad {
			fmt.Printf("VIOLATION property=%s replay=%s\n", v.Property, os.Args[2])
			os.Exit(1)
		}
		os.Exit(0)
	case "trace":
		chainprops.Trace(os.Args[2], os.Args[3:])
	case "racepass":
		if f := core.RaceBodies(os.Args[2]); f != nil {
			f()
		}
	case "selftest":
		os.Exit(selftest())
	case "list":
		for _, id := range core.IDs() {
			fmt.Println(id)
		}
	default:
		if f := core.LookupCmd(os.Args[1]); f != nil {
			os.Exit(f(os.Args[2:]))
		}
		usage()
	}
}

func usage() {
	fmt.Println("usage: vcheck check <Cxx> --tier quick|thorough | replay <file> | selftest | list")
	os.Exit(2)
}
