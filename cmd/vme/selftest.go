package main

import (
	"fmt"
	"os"
	"path/filepath"
	"strings"
	"sync"

	"github.com/xuperchain/xupercore/lib/storage/kvdb"
	_ "github.com/xuperchain/xupercore/lib/storage/kvdb/leveldb"
	"github.com/xuperchain/xupercore/verifshim/vsync"

	"verif/core"
	"verif/engine/vkv"
	"verif/engine/vsched"
	"verif/engine/xplore"
	"verif/world"
)

// selftest: (1) differential conformance of the in-memory kv engine against the
// real leveldb engine over all operation sequences up to a length; (2) the
// explicit-state explorer finds a planted bug in a toy system and nothing in
// the correct one; (3) the scheduler replays a recorded schedule identically
// and finds a planted lost update within preemption bound 1.
func selftest() int {
	deep := false
	for _, a := range os.Args[2:] {
		if a == "--deep" {
			deep = true
		}
	}
	ok := true
	n := 3
	if deep {
		n = 4
	}
	seqs, err := kvConformance(n)
	if err != nil {
		fmt.Println("selftest: kv conformance FAILED:", err)
		ok = false
	} else {
		fmt.Printf("selftest: kv conformance ok, %d sequences of length <= %d agree between vmem and leveldb\n", seqs, n)
	}
	if err := xploreSelf(); err != nil {
		fmt.Println("selftest: xplore FAILED:", err)
		ok = false
	} else {
		fmt.Println("selftest: xplore ok (planted bug found at minimal depth, correct toy clean)")
	}
	if err := vschedSelf(); err != nil {
		fmt.Println("selftest: vsched FAILED:", err)
		ok = false
	} else {
		fmt.Println("selftest: vsched ok (replay deterministic, planted lost update found with 1 preemption, none with 0)")
	}
	if !ok {
		return 2
	}
	fmt.Println("selftest: ok")
	return 0
}

type kvOp struct {
	name string
	run  func(db kvdb.Database, st *kvState) string
}

type kvState struct {
	pending kvdb.Iterator
}

func iterDump(it kvdb.Iterator) string {
	var sb strings.Builder
	for it.Next() {
		fmt.Fprintf(&sb, "%s=%s,", it.Key(), it.Value())
	}
	if it.Error() != nil {
		sb.WriteString("ERR")
	}
	it.Release()
	return sb.String()
}

func kvOps() []kvOp {
	var ops []kvOp
	keys := []string{"a", "ab", "b"}
	for _, k := range keys {
		k := k
		for _, v := range []string{"1", ""} {
			v := v
			ops = append(ops, kvOp{"put " + k + "=" + v, func(db kvdb.Database, st *kvState) string { return fmt.Sprint(db.Put([]byte(k), []byte(v))) }})
		}
		ops = append(ops, kvOp{"del " + k, func(db kvdb.Database, st *kvState) string { return fmt.Sprint(db.Delete([]byte(k))) }})
		ops = append(ops, kvOp{"get " + k, func(db kvdb.Database, st *kvState) string {
			v, err := db.Get([]byte(k))
			if err != nil {
				return fmt.Sprintf("notfound=%v", kvdb.ErrNotFound(err))
			}
			return fmt.Sprintf("%q nil=%v", v, v == nil)
		}})
		ops = append(ops, kvOp{"has " + k, func(db kvdb.Database, st *kvState) string {
			h, err := db.Has([]byte(k))
			return fmt.Sprint(h, err)
		}})
	}
	ops = append(ops, kvOp{"batch put a=2,del b", func(db kvdb.Database, st *kvState) string {
		b := db.NewBatch()
		b.Put([]byte("a"), []byte("2"))
		b.Delete([]byte("b"))
		return fmt.Sprint(b.Write(), b.ValueSize())
	}})
	ops = append(ops, kvOp{"batch put ab=3,put ab=4,del ab,put b=5", func(db kvdb.Database, st *kvState) string {
		b := db.NewBatch()
		b.Put([]byte("ab"), []byte("3"))
		b.Put([]byte("ab"), []byte("4"))
		b.Delete([]byte("ab"))
		b.Put([]byte("b"), []byte("5"))
		e1 := b.PutIfAbsent([]byte("x"), []byte("1"))
		e2 := b.PutIfAbsent([]byte("x"), []byte("2"))
		ex := b.Exist([]byte("x"))
		b.Delete([]byte("x"))
		return fmt.Sprint(b.Write(), e1 == nil, e2 == nil, ex)
	}})
	ops = append(ops, kvOp{"batch reset", func(db kvdb.Database, st *kvState) string {
		b := db.NewBatch()
		b.Put([]byte("a"), []byte("9"))
		b.Reset()
		b.Put([]byte("b"), []byte("7"))
		return fmt.Sprint(b.Write(), b.ValueSize())
	}})
	for _, p := range []string{"a", ""} {
		p := p
		ops = append(ops, kvOp{"prefix " + p, func(db kvdb.Database, st *kvState) string { return iterDump(db.NewIteratorWithPrefix([]byte(p))) }})
	}
	type rng struct{ s, l []byte }
	for _, r := range []rng{{nil, nil}, {[]byte("ab"), nil}, {nil, []byte("b")}, {[]byte("a"), []byte{}}, {[]byte("ab"), []byte("b")}, {[]byte("b"), []byte("a")}} {
		r := r
		ops = append(ops, kvOp{fmt.Sprintf("range %q %q", r.s, r.l), func(db kvdb.Database, st *kvState) string {
			return iterDump(db.NewIteratorWithRange(r.s, r.l))
		}})
	}
	ops = append(ops, kvOp{"iter-open", func(db kvdb.Database, st *kvState) string {
		if st.pending != nil {
			st.pending.Release()
		}
		st.pending = db.NewIteratorWithPrefix([]byte(""))
		return "opened"
	}})
	ops = append(ops, kvOp{"iter-read", func(db kvdb.Database, st *kvState) string {
		if st.pending == nil {
			return "none"
		}
		s := iterDump(st.pending)
		st.pending = nil
		return s
	}})
	ops = append(ops, kvOp{"iter-first-last-prev", func(db kvdb.Database, st *kvState) string {
		it := db.NewIteratorWithPrefix([]byte(""))
		defer it.Release()
		var sb strings.Builder
		fmt.Fprintf(&sb, "last=%v %s;", it.Last(), it.Key())
		fmt.Fprintf(&sb, "prev=%v %s;", it.Prev(), it.Key())
		fmt.Fprintf(&sb, "first=%v %s;", it.First(), it.Key())
		fmt.Fprintf(&sb, "next=%v %s;", it.Next(), it.Key())
		return sb.String()
	}})
	return ops
}

func kvConformance(maxLen int) (int, error) {
	world.Init()
	dir := filepath.Join(world.ScratchDir(), fmt.Sprintf("ldb-conf-%d", os.Getpid()))
	os.RemoveAll(dir)
	defer os.RemoveAll(dir)
	ops := kvOps()
	type job struct{ seq []int }
	workers := 8
	var wg sync.WaitGroup
	jobs := make(chan []int, 1024)
	var mu sync.Mutex
	var firstErr error
	count := 0
	for w := 0; w < workers; w++ {
		wg.Add(1)
		go func(w int) {
			defer wg.Done()
			ldb, err := kvdb.CreateKVInstance(&kvdb.KVParameter{DBPath: filepath.Join(dir, fmt.Sprint(w)), KVEngineType: "leveldb", StorageType: "single", MemCacheSize: 8, FileHandlersCacheSize: 16})
			if err != nil {
				mu.Lock()
				firstErr = fmt.Errorf("open leveldb: %v", err)
				mu.Unlock()
				for range jobs {
				}
				return
			}
			defer ldb.Close()
			sp := vkv.NewSpace()
			defer sp.Drop()
			mem, err := kvdb.CreateKVInstance(&kvdb.KVParameter{DBPath: sp.Root() + "/db", KVEngineType: vkv.EngineName, StorageType: "single"})
			if err != nil {
				mu.Lock()
				firstErr = fmt.Errorf("open vmem: %v", err)
				mu.Unlock()
				for range jobs {
				}
				return
			}
			for seq := range jobs {
				// clear both
				for _, db := range []kvdb.Database{ldb, mem} {
					for _, k := range []string{"a", "ab", "b", "x"} {
						db.Delete([]byte(k))
					}
				}
				s1, s2 := &kvState{}, &kvState{}
				for i, o := range seq {
					a := ops[o].run(ldb, s1)
					b := ops[o].run(mem, s2)
					if a != b {
						var names []string
						for _, x := range seq[:i+1] {
							names = append(names, ops[x].name)
						}
						mu.Lock()
						if firstErr == nil {
							firstErr = fmt.Errorf("after %v: leveldb says %q, vmem says %q", names, a, b)
						}
						mu.Unlock()
						break
					}
				}
				if s1.pending != nil {
					s1.pending.Release()
				}
				if s2.pending != nil {
					s2.pending.Release()
				}
				mu.Lock()
				count++
				mu.Unlock()
			}
		}(w)
	}
	var rec func(prefix []int, n int)
	rec = func(prefix []int, n int) {
		if len(prefix) > 0 {
			jobs <- append([]int(nil), prefix...)
		}
		if n == 0 {
			return
		}
		for o := range ops {
			rec(append(prefix, o), n-1)
		}
	}
	rec(nil, maxLen)
	close(jobs)
	wg.Wait()
	return count, firstErr
}

// ---------------------------------------------------------------------------
// toy system for the explorer: a counter with inc / dec / reset where the
// planted bug lets the counter go negative after [inc reset dec dec].

type toy struct {
	v, floor int
	buggy    bool
}

func (t *toy) Enabled() []string { return []string{"inc", "dec", "reset"} }
func (t *toy) Apply(ev string) string {
	switch ev {
	case "inc":
		t.v++
	case "dec":
		if t.v > t.floor {
			t.v--
		}
	case "reset":
		t.v = 0
		if t.buggy {
			t.floor = -1 // planted: reset forgets the floor
		}
	}
	return fmt.Sprint(t.v)
}
func (t *toy) Key() string { return fmt.Sprint(t.v, t.floor) }
func (t *toy) Check(hist []string) []core.Violation {
	if t.v < 0 {
		return []core.Violation{{Key: "toy.negative", Summary: fmt.Sprint(hist)}}
	}
	return nil
}
func (t *toy) Close() {}

func xploreSelf() error {
	for _, buggy := range []bool{false, true} {
		rep := core.NewReport("SELF", core.Quick, "model_checking")
		st := xplore.Explore(xplore.Config{Name: "toy", New: func() xplore.Instance { return &toy{buggy: buggy} }, MaxDepth: 5, Report: rep, Workers: 4})
		if !st.Completed {
			return fmt.Errorf("toy exploration did not complete")
		}
		if buggy && rep.ViolationCount() != 1 {
			return fmt.Errorf("planted bug not found (states=%d)", st.States)
		}
		if !buggy && rep.ViolationCount() != 0 {
			return fmt.Errorf("false alarm on the correct toy")
		}
	}
	return nil
}

// toy for the scheduler: two threads doing a non-atomic read-modify-write on a
// shared counter with scheduling points between read and write.
func vschedSelf() error {
	mk := func() vsched.Instance {
		var x int
		body := func() {
			vsyncPoint("read")
			v := x
			vsyncPoint("write")
			x = v + 1
		}
		return vsched.Instance{Bodies: []func(){body, body}, Check: func(o vsched.Outcome) []string {
			if o.Deadlock || len(o.Panics) > 0 {
				return []string{"toy.broken"}
			}
			if x != 2 {
				return []string{"toy.lost_update"}
			}
			return nil
		}}
	}
	for bound, want := range map[int]int{0: 0, 1: 1} {
		x := &vsched.Explorer{New: mk, Bound: bound, Workers: 2}
		x.Explore()
		if len(x.Violations) != want {
			return fmt.Errorf("preemption bound %d: %d violation kinds, want %d (%d schedules)", bound, len(x.Violations), want, x.Executions)
		}
		if want == 1 {
			// replay the recorded schedule twice: identical traces
			var sched []int
			for _, o := range x.Violations {
				sched = o.Choices
			}
			a := vsched.Run(mk().Bodies, sched, 100, true)
			b := vsched.Run(mk().Bodies, sched, 100, true)
			if strings.Join(a.Trace, " ") != strings.Join(b.Trace, " ") || len(a.Trace) == 0 {
				return fmt.Errorf("replay not deterministic: %v vs %v", a.Trace, b.Trace)
			}
		}
	}
	return nil
}

func vsyncPoint(kind string) { vsync.Point(nil, kind) }
