// vrewrite generates the build overlay from /repo's current working tree.
//
// Rewrites (all on copies; /repo is untouched):
//
//	(a) `go f(x)` in listed functions  -> vhook.Go(func(){ f(x) })
//	(b) `sync.X` in listed packages    -> vsync.X (except in excluded functions)
//	(c) `for k, v := range m` in listed functions over a map
//	    -> iteration over vhook.MapOrder-chosen key order
//
// plus virtual files: the vhook / vsync packages inside the xupercore module
// namespace and the export shims from /verif/hooks.
package main

import (
	"bytes"
	"encoding/json"
	"flag"
	"fmt"
	"go/ast"
	"go/format"
	"go/parser"
	"go/token"
	"os"
	"path/filepath"
	"sort"
	"strconv"
	"strings"
)

const modPath = "github.com/xuperchain/xupercore"

// goRewrites: file -> functions whose go statements are rewritten.
var goRewrites = map[string][]string{
	"bcs/ledger/xledger/state/state.go":     {"Walk"},
	"kernel/engines/xuperos/miner/miner.go": {"mining"},
	"kernel/network/p2p/dispatcher.go":      {"Dispatch"},
}

// mapOrderRewrites: file -> functions whose `range` over maps become ordered.
var mapOrderRewrites = map[string]map[string][]string{
	"bcs/ledger/xledger/tx/tx.go":      {"SortUnconfirmedTx": {"txMap"}},
	"bcs/ledger/xledger/tx/topsort.go": {"TopSortDFS": {"g"}},
	// order-independent in the unchanged code; owned so that a change that makes
	// the outcome depend on it shows as a deterministic violation, not as noise
	"bcs/ledger/xledger/state/state.go": {"processUnconfirmTxs": {"unconfirmTxMap"}, "RollBackUnconfirmedTx": {"unconfirmTxMap"}},
}

// syncRewrites: package dir -> functions excluded from the rewrite.
var syncRewrites = map[string][]string{
	"bcs/ledger/xledger/state/utxo":   {},
	"bcs/ledger/xledger/state/xmodel": {},
	"bcs/ledger/xledger/state/meta":   {},
	"bcs/ledger/xledger/tx":           {},
	"kernel/network/p2p":              {},
}

// virtual files: destination (relative to repo) -> source (relative to /verif/hooks)
var virtualFiles = map[string]string{
	"verifshim/vhook/vhook.go": "vhook/vhook.go",
	"verifshim/vsync/vsync.go": "vsync/vsync.go",
}

// export shims: destination dir (relative to repo) -> file in /verif/hooks/export
var exportShims = map[string]string{
	"kernel/consensus/base/driver/chained-bft/export_verif.go": "export/chainedbft.go",
	"kernel/engines/xuperos/miner/export_verif.go":             "export/miner.go",
	"bcs/consensus/tdpos/export_verif.go":                      "export/tdpos.go",
	"bcs/consensus/xpoa/export_verif.go":                       "export/xpoa.go",
	"bcs/ledger/xledger/state/export_verif.go":                 "export/state.go",
	"kernel/network/p2p/export_verif.go":                       "export/p2p.go",
	"kernel/engines/xuperos/export_verif.go":                   "export/xuperos.go",
	"bcs/ledger/xledger/state/utxo/export_verif.go":            "export/utxo.go",
}

func main() {
	repo := flag.String("repo", "/repo", "repository root")
	hooks := flag.String("hooks", "/verif/hooks", "hooks directory")
	out := flag.String("out", "/verif/.build/overlay", "output directory")
	flag.Parse()

	replace := map[string]string{}
	os.MkdirAll(*out, 0755)

	write := func(rel string, data []byte) {
		dst := filepath.Join(*out, rel)
		os.MkdirAll(filepath.Dir(dst), 0755)
		old, err := os.ReadFile(dst)
		if err != nil || !bytes.Equal(old, data) {
			if err := os.WriteFile(dst, data, 0644); err != nil {
				fatal(err)
			}
		}
		replace[filepath.Join(*repo, rel)] = dst
	}

	// collect files to rewrite
	files := map[string]bool{}
	for f := range goRewrites {
		files[f] = true
	}
	for f := range mapOrderRewrites {
		files[f] = true
	}
	for dir := range syncRewrites {
		ents, err := os.ReadDir(filepath.Join(*repo, dir))
		if err != nil {
			warn("sync rewrite: %v", err)
			continue
		}
		for _, e := range ents {
			n := e.Name()
			if strings.HasSuffix(n, ".go") && !strings.HasSuffix(n, "_test.go") {
				files[filepath.Join(dir, n)] = true
			}
		}
	}
	names := make([]string, 0, len(files))
	for f := range files {
		names = append(names, f)
	}
	sort.Strings(names)
	for _, rel := range names {
		src := filepath.Join(*repo, rel)
		data, err := os.ReadFile(src)
		if err != nil {
			warn("skip %s: %v", rel, err)
			continue
		}
		fset := token.NewFileSet()
		f, err := parser.ParseFile(fset, src, data, parser.ParseComments)
		if err != nil {
			warn("skip %s: %v", rel, err)
			continue
		}
		changed := false
		needHook := false
		if fns, ok := goRewrites[rel]; ok {
			if rewriteGo(f, fns) {
				changed, needHook = true, true
			}
		}
		if fns, ok := mapOrderRewrites[rel]; ok {
			if rewriteMapOrder(f, fns) {
				changed, needHook = true, true
			}
		}
		if excl, ok := syncRewrites[filepath.Dir(rel)]; ok {
			if rewriteSync(f, excl) {
				changed = true
			}
		}
		if !changed {
			continue
		}
		if needHook {
			addImport(f, "vhook", modPath+"/verifshim/vhook")
		}
		var buf bytes.Buffer
		if err := format.Node(&buf, fset, f); err != nil {
			fatal(fmt.Errorf("format %s: %v", rel, err))
		}
		write(rel, buf.Bytes())
	}
	for dst, src := range virtualFiles {
		data, err := os.ReadFile(filepath.Join(*hooks, src))
		if err != nil {
			continue
		}
		write(dst, data)
	}
	for dst, src := range exportShims {
		data, err := os.ReadFile(filepath.Join(*hooks, src))
		if err != nil {
			continue
		}
		if _, err := os.Stat(filepath.Join(*repo, filepath.Dir(dst))); err != nil {
			continue
		}
		write(dst, data)
	}
	js, _ := json.MarshalIndent(map[string]interface{}{"Replace": replace}, "", " ")
	if err := os.WriteFile(filepath.Join(filepath.Dir(*out), "overlay.json"), js, 0644); err != nil {
		fatal(err)
	}
}

func fatal(err error) {
	fmt.Fprintln(os.Stderr, "vrewrite:", err)
	os.Exit(2)
}

func warn(f string, a ...interface{}) {
	fmt.Fprintf(os.Stderr, "vrewrite: "+f+"\n", a...)
}

func has(list []string, s string) bool {
	for _, x := range list {
		if x == s {
			return true
		}
	}
	return false
}

func addImport(f *ast.File, name, path string) {
	for _, im := range f.Imports {
		if im.Path.Value == strconv.Quote(path) {
			return
		}
	}
	spec := &ast.ImportSpec{Name: ast.NewIdent(name), Path: &ast.BasicLit{Kind: token.STRING, Value: strconv.Quote(path)}}
	decl := &ast.GenDecl{Tok: token.IMPORT, Specs: []ast.Spec{spec}}
	f.Decls = append([]ast.Decl{decl}, f.Decls...)
	f.Imports = append(f.Imports, spec)
}

// rewriteGo turns go statements of the listed functions into vhook.Go calls.
func rewriteGo(f *ast.File, fns []string) bool {
	changed := false
	for _, d := range f.Decls {
		fd, ok := d.(*ast.FuncDecl)
		if !ok || fd.Body == nil || !has(fns, fd.Name.Name) {
			continue
		}
		rewriteStmts(fd.Body, func(s ast.Stmt) ast.Stmt {
			g, ok := s.(*ast.GoStmt)
			if !ok {
				return s
			}
			changed = true
			// arguments are evaluated at the go statement, as Go does
			var pre []ast.Stmt
			call := &ast.CallExpr{Fun: g.Call.Fun, Ellipsis: g.Call.Ellipsis}
			for ai, a := range g.Call.Args {
				tmp := ast.NewIdent(fmt.Sprintf("vhArg%d", ai))
				pre = append(pre, &ast.AssignStmt{Lhs: []ast.Expr{tmp}, Tok: token.DEFINE, Rhs: []ast.Expr{a}})
				call.Args = append(call.Args, ast.NewIdent(tmp.Name))
			}
			lit := &ast.FuncLit{
				Type: &ast.FuncType{Params: &ast.FieldList{}},
				Body: &ast.BlockStmt{List: []ast.Stmt{&ast.ExprStmt{X: call}}},
			}
			goCall := &ast.ExprStmt{X: &ast.CallExpr{
				Fun:  &ast.SelectorExpr{X: ast.NewIdent("vhook"), Sel: ast.NewIdent("Go")},
				Args: []ast.Expr{lit},
			}}
			return &ast.BlockStmt{List: append(pre, goCall)}
		})
	}
	return changed
}

// rewriteStmts applies fn to every statement in every statement list under n.
func rewriteStmts(n ast.Node, fn func(ast.Stmt) ast.Stmt) {
	ast.Inspect(n, func(x ast.Node) bool {
		switch b := x.(type) {
		case *ast.BlockStmt:
			for i, s := range b.List {
				b.List[i] = fn(s)
			}
		case *ast.CaseClause:
			for i, s := range b.Body {
				b.Body[i] = fn(s)
			}
		case *ast.CommClause:
			for i, s := range b.Body {
				b.Body[i] = fn(s)
			}
		}
		return true
	})
}

// rewriteMapOrder rewrites `for k, v := range m {body}` (m not obviously a
// slice: we only rewrite ranges with both or one ident on a plain identifier
// whose name is listed by the heuristics below) into
//
//	for _, k := range vhook.MapKeys(m).([]K) ...
//
// Without type information we use a reflection helper:
//
//	for _, vhK := range vhook.OrderedKeys(m) { k := vhK.(T) ... }
//
// To stay type-agnostic the helper returns []string for map[string]T (the only
// key type used in the listed functions).
func rewriteMapOrder(f *ast.File, fns map[string][]string) bool {
	changed := false
	for _, d := range f.Decls {
		fd, ok := d.(*ast.FuncDecl)
		if !ok || fd.Body == nil || fns[fd.Name.Name] == nil {
			continue
		}
		idents := fns[fd.Name.Name]
		site := 0
		ast.Inspect(fd.Body, func(x ast.Node) bool {
			rs, ok := x.(*ast.RangeStmt)
			if !ok || rs.Tok != token.DEFINE {
				return true
			}
			// a range that re-defines one of the names shadows it: leave its body alone
			for _, e := range []ast.Expr{rs.Key, rs.Value} {
				if di, ok := e.(*ast.Ident); ok && has(idents, di.Name) {
					return false
				}
			}
			id, ok := rs.X.(*ast.Ident)
			if !ok {
				return true
			}
			if !has(idents, id.Name) {
				return true
			}
			site++
			label := fmt.Sprintf("%s#%d", fd.Name.Name, site)
			keyIdent := rs.Key
			valIdent := rs.Value
			// for _, k := range vhook.OrderedKeys("label", m) { v := m[k]; body }
			call := &ast.CallExpr{
				Fun:  &ast.SelectorExpr{X: ast.NewIdent("vhook"), Sel: ast.NewIdent("OrderedKeys")},
				Args: []ast.Expr{&ast.BasicLit{Kind: token.STRING, Value: strconv.Quote(label)}, ast.NewIdent(id.Name)},
			}
			kname := "vhKey"
			if ki, ok := keyIdent.(*ast.Ident); ok && ki.Name != "_" {
				kname = ki.Name
			}
			if valIdent != nil {
				if vi, ok := valIdent.(*ast.Ident); ok && vi.Name != "_" {
					assign := &ast.AssignStmt{
						Lhs: []ast.Expr{ast.NewIdent(vi.Name)},
						Tok: token.DEFINE,
						Rhs: []ast.Expr{&ast.IndexExpr{X: ast.NewIdent(id.Name), Index: ast.NewIdent(kname)}},
					}
					rs.Body.List = append([]ast.Stmt{assign}, rs.Body.List...)
				}
			}
			rs.Key = ast.NewIdent("_")
			rs.Value = ast.NewIdent(kname)
			rs.X = call
			changed = true
			return true
		})
	}
	return changed
}

// rewriteSync replaces the selector sync.X by vsync.X outside excluded functions.
func rewriteSync(f *ast.File, excluded []string) bool {
	imported := false
	for _, im := range f.Imports {
		if im.Path.Value == `"sync"` && im.Name == nil {
			imported = true
		}
	}
	if !imported {
		return false
	}
	changed := false
	remaining := false
	for _, d := range f.Decls {
		if fd, ok := d.(*ast.FuncDecl); ok && has(excluded, fd.Name.Name) {
			ast.Inspect(fd, func(x ast.Node) bool {
				if se, ok := x.(*ast.SelectorExpr); ok {
					if id, ok := se.X.(*ast.Ident); ok && id.Name == "sync" {
						remaining = true
					}
				}
				return true
			})
			continue
		}
		ast.Inspect(d, func(x ast.Node) bool {
			if se, ok := x.(*ast.SelectorExpr); ok {
				if id, ok := se.X.(*ast.Ident); ok && id.Name == "sync" && id.Obj == nil {
					switch se.Sel.Name {
					case "Mutex", "RWMutex", "WaitGroup", "Once", "Map":
						id.Name = "vsync"
						changed = true
					default:
						remaining = true
					}
				}
			}
			return true
		})
	}
	if changed {
		addImport(f, "vsync", modPath+"/verifshim/vsync")
		if !remaining {
			// drop the now unused "sync" import
			for _, d := range f.Decls {
				gd, ok := d.(*ast.GenDecl)
				if !ok || gd.Tok != token.IMPORT {
					continue
				}
				var keep []ast.Spec
				for _, s := range gd.Specs {
					is := s.(*ast.ImportSpec)
					if is.Path.Value == `"sync"` && is.Name == nil {
						continue
					}
					keep = append(keep, s)
				}
				gd.Specs = keep
			}
			var imps []*ast.ImportSpec
			for _, im := range f.Imports {
				if im.Path.Value == `"sync"` && im.Name == nil {
					continue
				}
				imps = append(imps, im)
			}
			f.Imports = imps
			// remove empty import decls
			var decls []ast.Decl
			for _, d := range f.Decls {
				if gd, ok := d.(*ast.GenDecl); ok && gd.Tok == token.IMPORT && len(gd.Specs) == 0 {
					continue
				}
				decls = append(decls, d)
			}
			f.Decls = decls
		}
	}
	return changed
}
