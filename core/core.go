// Package core holds what every check shares: the report (evidence file,
// VIOLATION / KNOWN-FINDING lines, replay artefacts), the known-findings file
// and the property registry.
package core

import (
	"bytes"
	"crypto/sha256"
	"encoding/hex"
	"encoding/json"
	"fmt"
	"os"
	"os/exec"
	"path/filepath"
	"sort"
	"strconv"
	"strings"
	"sync"
	"time"
)

// Root returns /verif (or VERIF_ROOT).
func Root() string {
	if r := os.Getenv("VERIF_ROOT"); r != "" {
		return r
	}
	return "/verif"
}

// Tier is quick or thorough.
type Tier string

const (
	Quick    Tier = "quick"
	Thorough Tier = "thorough"
)

// Violation is one counterexample.
type Violation struct {
	Property string      `json:"property"`
	Key      string      `json:"key"`     // classification used to match known findings
	Summary  string      `json:"summary"` // one line
	Case     interface{} `json:"case"`    // replayable description (history, schedule, input)
	Expected string      `json:"expected,omitempty"`
	Observed string      `json:"observed,omitempty"`
}

// Finding is one entry of known_findings.json.
type Finding struct {
	Property string `json:"property"`
	Status   string `json:"status"` // open | fixed
	Key      string `json:"key"`
	What     string `json:"what"`
	Commit   string `json:"commit,omitempty"`
}

// Report collects what a check run covered and found.
type Report struct {
	mu          sync.Mutex
	Property    string
	Tier        Tier
	Level       string
	Seed        int64
	Coverage    map[string]interface{}
	Assumptions []string
	start       time.Time
	viol        map[string]*Violation // by key: first (shortest) counterexample per key
	violCount   map[string]int
	samples     []interface{}
	maxSamples  int
	Deadline    time.Time
	hitDeadline bool
}

// NewReport starts a report.
func NewReport(prop string, tier Tier, level string) *Report {
	seed, _ := strconv.ParseInt(os.Getenv("VERIF_SEED"), 10, 64)
	r := &Report{Property: prop, Tier: tier, Level: level, Seed: seed, Coverage: map[string]interface{}{},
		start: time.Now(), viol: map[string]*Violation{}, violCount: map[string]int{}, maxSamples: 5}
	budget := 25 * time.Minute
	if tier == Quick {
		budget = 4 * time.Minute
	}
	if s := os.Getenv("VERIF_DEADLINE_S"); s != "" {
		if n, err := strconv.Atoi(s); err == nil {
			budget = time.Duration(n) * time.Second
		}
	}
	r.Deadline = r.start.Add(budget)
	return r
}

// Expired reports whether the internal deadline passed (and remembers it).
func (r *Report) Expired() bool {
	if time.Now().After(r.Deadline) {
		r.mu.Lock()
		r.hitDeadline = true
		r.mu.Unlock()
		return true
	}
	return false
}

// HitDeadline reports whether Expired ever returned true.
func (r *Report) HitDeadline() bool {
	r.mu.Lock()
	defer r.mu.Unlock()
	return r.hitDeadline
}

// Violation records a counterexample. Only the first per key is kept.
func (r *Report) Violation(v Violation) {
	r.mu.Lock()
	defer r.mu.Unlock()
	v.Property = r.Property
	r.violCount[v.Key]++
	if _, ok := r.viol[v.Key]; !ok {
		vv := v
		r.viol[v.Key] = &vv
	}
}

// ViolationCount returns the number of distinct violation keys.
func (r *Report) ViolationCount() int {
	r.mu.Lock()
	defer r.mu.Unlock()
	return len(r.viol)
}

// Sample records an example case (at most a few are kept).
func (r *Report) Sample(s interface{}) {
	r.mu.Lock()
	defer r.mu.Unlock()
	if len(r.samples) < r.maxSamples {
		r.samples = append(r.samples, s)
	}
}

// Set sets a coverage key.
func (r *Report) Set(k string, v interface{}) {
	r.mu.Lock()
	defer r.mu.Unlock()
	r.Coverage[k] = v
}

// Add adds n to an integer coverage key.
func (r *Report) Add(k string, n int) {
	r.mu.Lock()
	defer r.mu.Unlock()
	cur, _ := r.Coverage[k].(int)
	r.Coverage[k] = cur + n
}

// Assume records an assumption.
func (r *Report) Assume(s string) {
	r.mu.Lock()
	defer r.mu.Unlock()
	r.Assumptions = append(r.Assumptions, s)
}

// LoadFindings reads known_findings.json.
func LoadFindings() []Finding {
	data, err := os.ReadFile(filepath.Join(Root(), "known_findings.json"))
	if err != nil {
		return nil
	}
	var f struct {
		Findings []Finding `json:"findings"`
	}
	if err := json.Unmarshal(data, &f); err != nil {
		fmt.Fprintln(os.Stderr, "known_findings.json:", err)
		return nil
	}
	return f.Findings
}

// Finish writes the evidence file, prints verdict lines and returns the exit code.
func (r *Report) Finish() int {
	r.mu.Lock()
	defer r.mu.Unlock()
	findings := LoadFindings()
	open := map[string]Finding{}
	for _, f := range findings {
		if f.Property == r.Property && f.Status == "open" {
			open[f.Key] = f
		}
	}
	keys := make([]string, 0, len(r.viol))
	for k := range r.viol {
		keys = append(keys, k)
	}
	sort.Strings(keys)
	exit := 0
	unknown := 0
	known := []string{}
	os.MkdirAll(filepath.Join(Root(), "replays"), 0755)
	for _, k := range keys {
		v := r.viol[k]
		if f, ok := open[k]; ok {
			fmt.Printf("KNOWN-FINDING: property=%s %s [key=%s, %d occurrence(s) this run]\n", r.Property, f.What, k, r.violCount[k])
			known = append(known, k)
			continue
		}
		unknown++
		exit = 1
		data, _ := json.MarshalIndent(v, "", " ")
		h := sha256.Sum256([]byte(k))
		path := filepath.Join(Root(), "replays", fmt.Sprintf("%s-%s.json", r.Property, hex.EncodeToString(h[:6])))
		os.WriteFile(path, data, 0644)
		fmt.Printf("VIOLATION property=%s replay=%s\n", r.Property, path)
		fmt.Printf("  key=%s occurrences=%d\n  %s\n", k, r.violCount[k], v.Summary)
		if v.Expected != "" || v.Observed != "" {
			fmt.Printf("  expected: %s\n  observed: %s\n", v.Expected, v.Observed)
		}
	}
	cov := r.Coverage
	if _, ok := cov["samples"]; !ok {
		if len(r.samples) == 0 {
			r.samples = append(r.samples, "no sample recorded")
		}
		cov["samples"] = r.samples
	}
	if _, ok := cov["exhaustive"]; !ok {
		cov["exhaustive"] = !r.hitDeadline
	} else if r.hitDeadline {
		cov["exhaustive"] = false
	}
	if r.hitDeadline {
		cov["deadline_hit"] = true
	}
	cov["known_findings_matched"] = known
	ev := map[string]interface{}{
		"property_id": r.Property,
		"tier":        string(r.Tier),
		"seed":        r.Seed,
		"level":       r.Level,
		"coverage":    cov,
		"assumptions": r.Assumptions,
		"wall_s":      time.Since(r.start).Seconds(),
		"violations":  unknown,
	}
	if r.Assumptions == nil {
		ev["assumptions"] = []string{}
	}
	data, err := json.MarshalIndent(ev, "", " ")
	if err != nil {
		fmt.Fprintln(os.Stderr, "HARNESS-ERROR evidence marshal:", err)
		return 2
	}
	os.MkdirAll(filepath.Join(Root(), "evidence"), 0755)
	if err := os.WriteFile(filepath.Join(Root(), "evidence", r.Property+".json"), data, 0644); err != nil {
		fmt.Fprintln(os.Stderr, "HARNESS-ERROR evidence write:", err)
		return 2
	}
	fmt.Printf("%s %s: wall=%.1fs violations=%d known=%d exhaustive=%v\n", r.Property, r.Tier, time.Since(r.start).Seconds(), unknown, len(known), cov["exhaustive"])
	return exit
}

// Check is a registered property check.
type Check struct {
	ID     string
	Run    func(tier Tier) *Report
	Replay func(c json.RawMessage) (violated bool, msg string, err error)
}

var registry = map[string]*Check{}

// Register adds a check.
func Register(c *Check) { registry[c.ID] = c }

// Lookup finds a check.
func Lookup(id string) *Check { return registry[id] }

// IDs lists registered checks.
func IDs() []string {
	out := []string{}
	for k := range registry {
		out = append(out, k)
	}
	sort.Strings(out)
	return out
}

// HarnessError prints a harness error and exits 2 (never a VIOLATION line).
func HarnessError(format string, a ...interface{}) {
	fmt.Printf("HARNESS-ERROR "+format+"\n", a...)
	os.Exit(2)
}

// Sub-commands (worker entry points) that checks register for their own
// subprocess sharding: `vcheck <name> args...`.
var subcmds = map[string]func(args []string) int{}

// RegisterCmd registers a worker sub-command.
func RegisterCmd(name string, f func(args []string) int) { subcmds[name] = f }

// LookupCmd finds a worker sub-command.
func LookupCmd(name string) func(args []string) int { return subcmds[name] }

// Race pass: harness bodies that a separately built -race binary runs
// free-running (the cooperative scheduler's hand-offs are happens-before edges
// that blind the detector).
var raceBodies = map[string]func(){}

// RegisterRace registers free-running bodies for the race pass of a property.
func RegisterRace(id string, f func()) { raceBodies[id] = f }

// RaceBodies returns the registered bodies.
func RaceBodies(id string) func() { return raceBodies[id] }

// RacePass runs the -race binary's free-running pass for id and records every
// distinct data race as a violation (clause: "does not crash the node").
func RacePass(rep *Report, id, keyPrefix string) {
	bin := filepath.Join(Root(), ".build", "vcheck-race")
	if b := os.Getenv("VERIF_RACE_BIN"); b != "" { // development builds outside .build (run.sh, VERIF_BUILD)
		bin = b
	}
	if _, err := os.Stat(bin); err != nil {
		rep.Set("race_pass", "skipped: "+bin+" not built")
		return
	}
	cmd := exec.Command(bin, "racepass", id)
	cmd.Env = append(os.Environ(), "GORACE=halt_on_error=0 exitcode=0")
	var stderr bytes.Buffer
	cmd.Stderr = &stderr
	cmd.Stdout = &stderr
	err := cmd.Run()
	out := stderr.String()
	blocks := strings.Split(out, "WARNING: DATA RACE")
	seen := map[string]bool{}
	var other []string
	for _, b := range blocks[1:] {
		// the two access stacks: the first frame that is not the Go runtime names
		// the site; a runtime map frame on top makes the race crash-grade (the
		// runtime turns concurrent map access into a fatal error)
		var funcs []string
		mapRace := false
		lines := strings.Split(b, "\n")
		for i, l := range lines {
			t := strings.TrimSpace(l)
			if strings.HasPrefix(t, "Read at") || strings.HasPrefix(t, "Write at") || strings.HasPrefix(t, "Previous read at") || strings.HasPrefix(t, "Previous write at") {
				for j := i + 1; j < len(lines); j += 2 {
					fn := strings.TrimSpace(lines[j])
					if fn == "" {
						break
					}
					if strings.HasPrefix(fn, "runtime.") {
						if strings.HasPrefix(fn, "runtime.map") {
							mapRace = true
						}
						continue
					}
					fn = strings.TrimSuffix(fn, "()")
					if k := strings.LastIndex(fn, "/"); k >= 0 {
						fn = fn[k+1:]
					}
					funcs = append(funcs, fn)
					break
				}
			}
		}
		sort.Strings(funcs)
		name := strings.Join(funcs, "|")
		if !mapRace {
			// not a crash by itself (word-sized field or pointer): recorded, not judged
			if !seen["o:"+name] {
				seen["o:"+name] = true
				other = append(other, name)
			}
			continue
		}
		k := keyPrefix + ".race." + name
		if seen[k] {
			continue
		}
		seen[k] = true
		if len(b) > 3000 {
			b = b[:3000]
		}
		rep.Violation(Violation{Key: k, Summary: "concurrent map access between " + strings.Join(funcs, " and ") + " in the free-running pass (a fatal runtime error when it happens)",
			Case: map[string]interface{}{"part": "race", "report": b}})
	}
	sort.Strings(other)
	if err != nil && len(blocks) == 1 {
		tail := out
		if len(tail) > 2000 {
			tail = tail[len(tail)-2000:]
		}
		if strings.Contains(out, "fatal error") || strings.Contains(out, "panic:") {
			rep.Violation(Violation{Key: keyPrefix + ".race.crash", Summary: "the free-running pass crashed: " + firstLineOf(tail, "fatal error", "panic:"),
				Case: map[string]interface{}{"part": "race", "report": tail}})
		} else {
			rep.Set("race_pass_error", err.Error()+": "+tail)
		}
	}
	rep.Set("race_pass", map[string]interface{}{"ran": true, "crash_grade_map_races": len(seen) - len(other), "other_races_observed_not_judged": other})
}

func firstLineOf(s string, markers ...string) string {
	for _, l := range strings.Split(s, "\n") {
		for _, m := range markers {
			if strings.Contains(l, m) {
				return strings.TrimSpace(l)
			}
		}
	}
	return ""
}
