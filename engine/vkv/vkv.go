// Package vkv is an in-memory kvdb.Database engine registered through the
// repository's own plug-in registry (kvdb.Register). It mirrors the goleveldb
// semantics the ledger and state machine rely on, logs every write with a
// global sequence number per Space (ledger DB + state DB), can materialise the
// image after any prefix of that log (crash point), can fail the k-th write
// (fault point) and calls an optional hook before every operation (scheduling
// point).
package vkv

import (
	"bytes"
	"errors"
	"fmt"
	"sort"
	"strings"
	"sync"

	"github.com/xuperchain/xupercore/lib/storage/kvdb"
)

// EngineName is the value for XLedgerConf.KVEngineType.
const EngineName = "vmem"

// ErrNotFound mirrors goleveldb's error text ("leveldb: not found").
var ErrNotFound = errors.New("vkv: not found")

// ErrInjected is returned by a write that a fault plan makes fail.
var ErrInjected = errors.New("vkv: injected write error")

// ErrClosed is returned when a closed handle is used.
var ErrClosed = errors.New("vkv: closed")

// Op is one element of an atomic write unit.
type Op struct {
	Del bool
	Key string
	Val []byte
}

// Write is one atomic unit of the write log: a single put / delete or a batch.
type Write struct {
	Seq   int    // global sequence number inside the space, starting at 1
	Store string // path of the store
	Batch bool
	Ops   []Op
}

// Space groups the stores of one node (ledger + state) and owns the write log.
type Space struct {
	mu      sync.Mutex
	name    string
	stores  map[string]*Store
	log     []Write
	logging bool
	seq     int
	// fault injection: when failAt > 0 the write whose ordinal (counted from
	// the moment Arm was called) equals failAt returns ErrInjected and is not
	// applied.
	armed     bool
	failAt    int
	writeCnt  int
	failedHit bool
	// Hook, if set, is called before every read and write operation with the
	// store path and a short operation kind ("get","put","del","batch","iter").
	Hook func(store, kind string)
}

var (
	regMu  sync.Mutex
	spaces = map[string]*Space{}
	nextID int
)

func init() {
	kvdb.Register(EngineName, open)
}

// NewSpace creates a fresh space. Its Root() is to be used as EnvConf.RootPath.
func NewSpace() *Space {
	regMu.Lock()
	defer regMu.Unlock()
	nextID++
	s := &Space{name: fmt.Sprintf("/vkv/%d", nextID), stores: map[string]*Store{}}
	spaces[s.name] = s
	return s
}

// Root returns the path prefix that selects this space.
func (s *Space) Root() string { return s.name }

// Drop removes the space from the registry (frees memory).
func (s *Space) Drop() {
	regMu.Lock()
	defer regMu.Unlock()
	delete(spaces, s.name)
}

func spaceOf(path string) *Space {
	regMu.Lock()
	defer regMu.Unlock()
	if !strings.HasPrefix(path, "/vkv/") {
		return nil
	}
	rest := path[len("/vkv/"):]
	i := strings.IndexByte(rest, '/')
	name := path
	if i >= 0 {
		name = "/vkv/" + rest[:i]
	}
	return spaces[name]
}

func open(p *kvdb.KVParameter) (kvdb.Database, error) {
	sp := spaceOf(p.DBPath)
	if sp == nil {
		return nil, fmt.Errorf("vkv: no space for path %s", p.DBPath)
	}
	sp.mu.Lock()
	defer sp.mu.Unlock()
	st := sp.stores[p.DBPath]
	if st == nil {
		st = &Store{space: sp, path: p.DBPath, data: map[string][]byte{}}
		sp.stores[p.DBPath] = st
	}
	return &handle{st: st}, nil
}

// Store is the persistent content behind one DB path.
type Store struct {
	space *Space
	path  string
	data  map[string][]byte
}

// Stores returns the store paths of the space in sorted order.
func (s *Space) Stores() []string {
	s.mu.Lock()
	defer s.mu.Unlock()
	out := make([]string, 0, len(s.stores))
	for k := range s.stores {
		out = append(out, k)
	}
	sort.Strings(out)
	return out
}

// StartLog starts recording the write log (and clears it).
func (s *Space) StartLog() {
	s.mu.Lock()
	defer s.mu.Unlock()
	s.logging = true
	s.log = nil
}

// Log returns a copy of the write log.
func (s *Space) Log() []Write {
	s.mu.Lock()
	defer s.mu.Unlock()
	return append([]Write(nil), s.log...)
}

// Arm makes the k-th write from now on fail (k >= 1). k = 0 disarms.
func (s *Space) Arm(k int) {
	s.mu.Lock()
	defer s.mu.Unlock()
	s.armed = k > 0
	s.failAt = k
	s.writeCnt = 0
	s.failedHit = false
}

// Disarm stops fault injection and reports the number of writes seen since Arm
// and whether the fault fired.
func (s *Space) Disarm() (writes int, fired bool) {
	s.mu.Lock()
	defer s.mu.Unlock()
	w, f := s.writeCnt, s.failedHit
	s.armed = false
	s.failAt = 0
	return w, f
}

// CountWrites arms a counter that never fails; Disarm returns the count.
func (s *Space) CountWrites() {
	s.mu.Lock()
	defer s.mu.Unlock()
	s.armed = true
	s.failAt = -1
	s.writeCnt = 0
	s.failedHit = false
}

// Snapshot returns a deep copy of all stores (path -> key -> value).
func (s *Space) Snapshot() map[string]map[string][]byte {
	s.mu.Lock()
	defer s.mu.Unlock()
	out := map[string]map[string][]byte{}
	for p, st := range s.stores {
		m := make(map[string][]byte, len(st.data))
		for k, v := range st.data {
			m[k] = append([]byte(nil), v...)
		}
		out[p] = m
	}
	return out
}

// CloneInto builds a new space whose stores hold a copy of this space's data.
// Store paths are rewritten to the new root.
func (s *Space) Clone() *Space {
	n := NewSpace()
	snap := s.Snapshot()
	n.mu.Lock()
	defer n.mu.Unlock()
	for p, m := range snap {
		np := n.name + strings.TrimPrefix(p, s.name)
		n.stores[np] = &Store{space: n, path: np, data: m}
	}
	return n
}

// FromImage builds a new space from base (a Snapshot of a space rooted at
// baseRoot) plus the first n writes of log.
func FromImage(baseRoot string, base map[string]map[string][]byte, log []Write, n int) *Space {
	sp := NewSpace()
	sp.mu.Lock()
	defer sp.mu.Unlock()
	get := func(p string) *Store {
		np := sp.name + strings.TrimPrefix(p, baseRoot)
		st := sp.stores[np]
		if st == nil {
			st = &Store{space: sp, path: np, data: map[string][]byte{}}
			sp.stores[np] = st
		}
		return st
	}
	for p, m := range base {
		st := get(p)
		for k, v := range m {
			st.data[k] = append([]byte(nil), v...)
		}
	}
	for i := 0; i < n && i < len(log); i++ {
		w := log[i]
		st := get(w.Store)
		for _, op := range w.Ops {
			if op.Del {
				delete(st.data, op.Key)
			} else {
				st.data[op.Key] = append([]byte(nil), op.Val...)
			}
		}
	}
	return sp
}

// Dump returns the sorted (key,value) pairs of the store whose path ends in
// suffix (e.g. "ledger", "state").
func (s *Space) Dump(suffix string) [][2][]byte {
	s.mu.Lock()
	defer s.mu.Unlock()
	for p, st := range s.stores {
		if strings.HasSuffix(p, suffix) {
			keys := make([]string, 0, len(st.data))
			for k := range st.data {
				keys = append(keys, k)
			}
			sort.Strings(keys)
			out := make([][2][]byte, 0, len(keys))
			for _, k := range keys {
				out = append(out, [2][]byte{[]byte(k), append([]byte(nil), st.data[k]...)})
			}
			return out
		}
	}
	panic("vkv: no store with suffix " + suffix)
}

func (s *Space) hook(store, kind string) {
	if h := s.Hook; h != nil {
		h(store, kind)
	}
}

// apply performs one atomic write unit; returns ErrInjected if the fault plan
// says so.
func (st *Store) apply(batch bool, ops []Op) error {
	sp := st.space
	sp.mu.Lock()
	defer sp.mu.Unlock()
	if sp.armed {
		sp.writeCnt++
		if sp.failAt > 0 && sp.writeCnt == sp.failAt {
			sp.failedHit = true
			return ErrInjected
		}
	}
	for _, op := range ops {
		if op.Del {
			delete(st.data, op.Key)
		} else {
			st.data[op.Key] = append([]byte(nil), op.Val...)
		}
	}
	sp.seq++
	if sp.logging {
		cp := make([]Op, len(ops))
		for i, op := range ops {
			cp[i] = Op{Del: op.Del, Key: op.Key, Val: append([]byte(nil), op.Val...)}
		}
		sp.log = append(sp.log, Write{Seq: sp.seq, Store: st.path, Batch: batch, Ops: cp})
	}
	return nil
}

type handle struct {
	st     *Store
	closed bool
}

func (h *handle) Open(path string, options map[string]interface{}) error { return nil }

func (h *handle) Put(key, value []byte) error {
	h.st.space.hook(h.st.path, "put")
	return h.st.apply(false, []Op{{Key: string(key), Val: value}})
}

func (h *handle) Delete(key []byte) error {
	h.st.space.hook(h.st.path, "del")
	return h.st.apply(false, []Op{{Del: true, Key: string(key)}})
}

func (h *handle) Get(key []byte) ([]byte, error) {
	h.st.space.hook(h.st.path, "get")
	sp := h.st.space
	sp.mu.Lock()
	defer sp.mu.Unlock()
	v, ok := h.st.data[string(key)]
	if !ok {
		return nil, ErrNotFound
	}
	return append([]byte{}, v...), nil
}

func (h *handle) Has(key []byte) (bool, error) {
	h.st.space.hook(h.st.path, "get")
	sp := h.st.space
	sp.mu.Lock()
	defer sp.mu.Unlock()
	_, ok := h.st.data[string(key)]
	return ok, nil
}

func (h *handle) Close() { h.closed = true }

func (h *handle) NewBatch() kvdb.Batch {
	return &batch{st: h.st, keys: map[string]bool{}}
}

func (h *handle) NewIteratorWithRange(start, limit []byte) kvdb.Iterator {
	h.st.space.hook(h.st.path, "iter")
	return h.st.iter(func(k string) bool {
		if start != nil && k < string(start) {
			return false
		}
		if limit != nil && k >= string(limit) {
			return false
		}
		return true
	})
}

func (h *handle) NewIteratorWithPrefix(prefix []byte) kvdb.Iterator {
	h.st.space.hook(h.st.path, "iter")
	p := string(prefix)
	return h.st.iter(func(k string) bool { return strings.HasPrefix(k, p) })
}

func (st *Store) iter(match func(string) bool) kvdb.Iterator {
	sp := st.space
	sp.mu.Lock()
	defer sp.mu.Unlock()
	it := &iterator{pos: -1}
	for k := range st.data {
		if match(k) {
			it.keys = append(it.keys, k)
		}
	}
	sort.Strings(it.keys)
	it.vals = make([][]byte, len(it.keys))
	for i, k := range it.keys {
		it.vals[i] = append([]byte{}, st.data[k]...)
	}
	return it
}

// iterator is a snapshot taken at creation, positioned before the first entry.
type iterator struct {
	keys []string
	vals [][]byte
	pos  int // -1 before first, len after last
}

func (it *iterator) valid() bool { return it.pos >= 0 && it.pos < len(it.keys) }
func (it *iterator) Key() []byte {
	if !it.valid() {
		return nil
	}
	return []byte(it.keys[it.pos])
}
func (it *iterator) Value() []byte {
	if !it.valid() {
		return nil
	}
	return append([]byte{}, it.vals[it.pos]...)
}
func (it *iterator) Next() bool {
	if it.pos < len(it.keys) {
		it.pos++
	}
	return it.valid()
}
func (it *iterator) Prev() bool {
	if it.pos >= 0 {
		it.pos--
	}
	return it.valid()
}
func (it *iterator) Last() bool {
	it.pos = len(it.keys) - 1
	return it.valid()
}
func (it *iterator) First() bool {
	it.pos = 0
	return it.valid()
}
func (it *iterator) Error() error { return nil }
func (it *iterator) Release()     {}

type batch struct {
	st   *Store
	ops  []Op
	size int
	keys map[string]bool
}

func (b *batch) Put(key, value []byte) error {
	b.ops = append(b.ops, Op{Key: string(key), Val: append([]byte(nil), value...)})
	b.size += len(value)
	return nil
}

func (b *batch) Delete(key []byte) error {
	b.ops = append(b.ops, Op{Del: true, Key: string(key)})
	b.size += len(key)
	return nil
}

func (b *batch) PutIfAbsent(key, value []byte) error {
	if !b.keys[string(key)] {
		b.Put(key, value)
		b.keys[string(key)] = true
		return nil
	}
	return fmt.Errorf("duplicated key in batch, (HEX) %x", key)
}

func (b *batch) Exist(key []byte) bool { return b.keys[string(key)] }

func (b *batch) Write() error {
	b.st.space.hook(b.st.path, "batch")
	return b.st.apply(true, b.ops)
}

func (b *batch) ValueSize() int { return b.size }

func (b *batch) Reset() {
	b.ops = nil
	b.size = 0
	b.keys = map[string]bool{}
}

// Equal reports whether two dumps are identical.
func Equal(a, b [][2][]byte) bool {
	if len(a) != len(b) {
		return false
	}
	for i := range a {
		if !bytes.Equal(a[i][0], b[i][0]) || !bytes.Equal(a[i][1], b[i][1]) {
			return false
		}
	}
	return true
}
