// Package vsched is a cooperative scheduler for real goroutines plus a DFS over
// schedules with iterative preemption bounding. Controlled threads only run
// while they hold the baton; before every vsync / vkv operation a thread
// publishes whether the operation is enabled (modelled state) and parks. The
// scheduler picks among the enabled threads in canonical order (the running
// thread first, then ascending ids); a recorded choice list replays an
// execution deterministically.
package vsched

import (
	"fmt"
	"runtime/debug"
	"sync"
	"verif/core"

	"github.com/xuperchain/xupercore/verifshim/vhook"
	"github.com/xuperchain/xupercore/verifshim/vsync"
)

func init() {
	// rewritten `go` statements become controlled threads inside an execution
	vhook.Spawn = vsync.TrySpawn
}

// Outcome of one execution.
type Outcome struct {
	Choices  []int // choice index at every scheduling point
	Points   []PointInfo
	Deadlock bool
	Livelock bool
	Panics   []string
	Blocked  []string // descriptions of threads blocked at deadlock
	Steps    int
	Trace    []string // thread/op at every point (only when Record is set)
	// Diverged is set when a prescribed prefix asks for a choice that does not
	// exist at its point (a recorded schedule replayed on another tree, or
	// nondeterminism): the execution is abandoned like a deadlock would be.
	Diverged string
}

// PointInfo describes one scheduling point.
type PointInfo struct {
	Enabled        int  // number of enabled threads
	RunningEnabled bool // the thread that ran before this point is among them
	Chosen         int
}

type thread struct {
	id      int
	wake    chan struct{}
	done    bool
	started bool
	enabled func() bool
	obj     interface{}
	kind    string
}

// Exec is one controlled execution.
type Exec struct {
	mu       sync.Mutex
	threads  []*thread
	running  *thread
	prefix   []int
	out      Outcome
	horizon  int
	record   bool
	finished chan struct{}
	aborted  bool
	wg       sync.WaitGroup
	filter   func(obj interface{}, kind string) bool
}

type abortSignal struct{}

// Run executes the thread bodies under the schedule given by prefix (choice 0
// afterwards). horizon bounds the number of scheduling points.
func Run(bodies []func(), prefix []int, horizon int, record bool) Outcome {
	return RunFiltered(bodies, prefix, horizon, record, nil)
}

// RunFiltered is Run with a filter: operations for which filter returns false
// are not scheduling points (they still block, modelled, when not enabled).
func RunFiltered(bodies []func(), prefix []int, horizon int, record bool, filter func(obj interface{}, kind string) bool) Outcome {
	e := &Exec{prefix: prefix, horizon: horizon, record: record, finished: make(chan struct{}), filter: filter}
	for _, b := range bodies {
		e.addThread(b)
	}
	// start: pick the first thread to run
	e.mu.Lock()
	e.schedule(nil)
	e.mu.Unlock()
	<-e.finished
	e.wg.Wait()
	return e.out
}

func (e *Exec) addThread(body func()) *thread {
	t := &thread{id: len(e.threads), wake: make(chan struct{}, 1)}
	e.threads = append(e.threads, t)
	e.wg.Add(1)
	go func() {
		defer e.wg.Done()
		vsync.Register(e)
		defer vsync.Unregister()
		<-t.wake // wait until first scheduled
		if e.isAborted() {
			return
		}
		defer func() {
			if r := recover(); r != nil {
				if _, ok := r.(abortSignal); ok {
					return
				}
				e.mu.Lock()
				e.out.Panics = append(e.out.Panics, fmt.Sprintf("thread %d: %v\n%s", t.id, r, debug.Stack()))
				e.mu.Unlock()
			}
			e.mu.Lock()
			t.done = true
			e.schedule(t)
			e.mu.Unlock()
		}()
		body()
	}()
	t.started = true
	t.kind = "start"
	return t
}

func (e *Exec) isAborted() bool {
	e.mu.Lock()
	defer e.mu.Unlock()
	return e.aborted
}

// threadOf finds the calling thread: the one that is running.
func (e *Exec) current() *thread { return e.running }

// Point implements vsync.Controller.
func (e *Exec) Point(obj interface{}, kind string, enabled func() bool) {
	e.mu.Lock()
	t := e.running
	if t == nil || e.aborted {
		e.mu.Unlock()
		if e.aborted {
			panic(abortSignal{})
		}
		return
	}
	if e.filter != nil && !e.filter(obj, kind) && (enabled == nil || enabled()) {
		e.mu.Unlock()
		return
	}
	t.enabled = enabled
	t.obj = obj
	t.kind = kind
	e.schedule(t)
	e.mu.Unlock()
	<-t.wake
	if e.isAborted() {
		panic(abortSignal{})
	}
}

// Spawn implements vsync.Controller.
func (e *Exec) Spawn(f func()) {
	e.mu.Lock()
	e.addThread(f)
	e.mu.Unlock()
}

// schedule picks the next thread (called with e.mu held). prev is the thread
// that just reached a point or finished (nil at start).
func (e *Exec) schedule(prev *thread) {
	if e.aborted {
		return
	}
	var enabled []*thread
	if prev != nil && !prev.done && (prev.enabled == nil || prev.enabled()) {
		enabled = append(enabled, prev)
	}
	for _, t := range e.threads {
		if t == prev || t.done {
			continue
		}
		if t.enabled == nil || t.enabled() {
			enabled = append(enabled, t)
		}
	}
	if len(enabled) == 0 {
		allDone := true
		for _, t := range e.threads {
			if !t.done {
				allDone = false
				e.out.Blocked = append(e.out.Blocked, fmt.Sprintf("thread %d at %s(%T)", t.id, t.kind, t.obj))
			}
		}
		if !allDone {
			e.out.Deadlock = true
		}
		e.finish()
		return
	}
	idx := 0
	n := len(e.out.Choices)
	if n < len(e.prefix) {
		idx = e.prefix[n]
		if idx >= len(enabled) {
			// not a panic: we hold e.mu and the recovering thread would lock it again
			e.out.Diverged = fmt.Sprintf("vsched: replay divergence at point %d: choice %d of %d enabled", n, idx, len(enabled))
			e.finish()
			return
		}
	}
	runningEnabled := len(enabled) > 0 && prev != nil && enabled[0] == prev
	e.out.Choices = append(e.out.Choices, idx)
	e.out.Points = append(e.out.Points, PointInfo{Enabled: len(enabled), RunningEnabled: runningEnabled, Chosen: idx})
	e.out.Steps++
	next := enabled[idx]
	if e.record {
		e.out.Trace = append(e.out.Trace, fmt.Sprintf("t%d:%s", next.id, next.kind))
	}
	if e.out.Steps > e.horizon {
		e.out.Livelock = true
		e.finish()
		return
	}
	e.running = next
	next.enabled = nil
	next.wake <- struct{}{}
}

// finish aborts every parked thread and signals completion.
func (e *Exec) finish() {
	if e.aborted {
		return
	}
	e.aborted = true
	e.running = nil
	for _, t := range e.threads {
		if !t.done {
			select {
			case t.wake <- struct{}{}:
			default:
			}
		}
	}
	close(e.finished)
}

// ---------------------------------------------------------------------------
// DFS with preemption bounding.

// Instance is one fresh system under schedule exploration.
type Instance struct {
	Bodies  []func()
	Check   func(Outcome) []string
	Cleanup func()
	// Filter: operations for which it returns false are not scheduling points.
	Filter func(obj interface{}, kind string) bool
}

// Explorer enumerates schedules.
type Explorer struct {
	// New returns the thread bodies of a fresh instance plus a function that
	// checks the execution's outcome (called after all threads finished) and a
	// cleanup function.
	New     func() Instance
	Bound   int // preemption bound
	Horizon int
	Workers int
	// Stop, if set, is polled; when it returns true the search stops early.
	Stop func() bool

	mu         sync.Mutex
	Executions int
	Violations map[string]Outcome // message -> first outcome
	MaxPoints  int
	Outcomes   map[string]int
	Stopped    bool
}

// Explore runs the search and returns when the space within Bound is exhausted.
func (x *Explorer) Explore() {
	if x.Workers <= 0 {
		x.Workers = 8
	}
	if x.Horizon <= 0 {
		x.Horizon = 5000
	}
	x.Violations = map[string]Outcome{}
	x.Outcomes = map[string]int{}
	type job struct{ prefix []int }
	var wg sync.WaitGroup
	jobs := make(chan job, 1<<16)
	var pending sync.WaitGroup
	var push func(p []int)
	push = func(p []int) {
		pending.Add(1)
		select {
		case jobs <- job{p}:
		default:
			// queue full: run inline (depth-first) to bound memory
			x.runOne(p, push)
			pending.Done()
		}
	}
	for w := 0; w < x.Workers; w++ {
		wg.Add(1)
		go func() {
			defer wg.Done()
			for j := range jobs {
				x.runOne(j.prefix, push)
				pending.Done()
			}
		}()
	}
	push(nil)
	pending.Wait()
	close(jobs)
	wg.Wait()
}

func (x *Explorer) runOne(prefix []int, push func([]int)) {
	if x.Stop != nil && x.Stop() {
		x.mu.Lock()
		x.Stopped = true
		x.mu.Unlock()
		return
	}
	in := x.New()
	out := RunFiltered(in.Bodies, prefix, x.Horizon, false, in.Filter)
	if out.Diverged != "" {
		// a prefix the explorer derived itself no longer fits: nondeterminism the scheduler does not own
		if in.Cleanup != nil {
			in.Cleanup()
		}
		core.HarnessError("%s (prefix %v)", out.Diverged, prefix)
	}
	msgs := in.Check(out)
	if in.Cleanup != nil {
		in.Cleanup()
	}
	x.mu.Lock()
	x.Executions++
	if len(out.Points) > x.MaxPoints {
		x.MaxPoints = len(out.Points)
	}
	for _, m := range msgs {
		if _, ok := x.Violations[m]; !ok {
			x.Violations[m] = out
		}
	}
	x.mu.Unlock()
	// children: deviate at every later point within the preemption bound
	pre := 0
	for i := 0; i < len(out.Points); i++ {
		p := out.Points[i]
		if i >= len(prefix) {
			for alt := 1; alt < p.Enabled; alt++ {
				cost := pre
				if p.RunningEnabled {
					cost++
				}
				if cost > x.Bound {
					continue
				}
				np := make([]int, i+1)
				copy(np, out.Choices[:i])
				np[i] = alt
				push(np)
			}
		}
		if p.RunningEnabled && p.Chosen != 0 {
			pre++
		}
	}
}

// NoteOutcome counts a distinct observable outcome (vacuity guard).
func (x *Explorer) NoteOutcome(s string) {
	x.mu.Lock()
	x.Outcomes[s]++
	x.mu.Unlock()
}
