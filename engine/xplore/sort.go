package xplore

import "sort"

func lessSort(idx []int, less func(a, b int) bool) {
	sort.SliceStable(idx, func(i, j int) bool { return less(idx[i], idx[j]) })
}
