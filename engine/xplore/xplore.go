// Package xplore is an explicit-state explorer over real objects. Real ledgers
// and state machines cannot be cloned, so a state is the shortest known event
// history that reaches it; a successor is "fresh real instance + replay the
// history + one more event". BFS by levels, de-duplication on a canonical key,
// deviation (cost) bound, depth bound, in-process worker pool.
package xplore

import (
	"crypto/sha256"
	"fmt"
	"runtime"
	"runtime/debug"
	"strings"
	"sync"
	"sync/atomic"

	"verif/core"
)

// Instance is one real system under exploration.
type Instance interface {
	// Enabled lists the events offered in the current state, simplest first.
	Enabled() []string
	// Apply performs ev and returns a deterministic observation.
	Apply(ev string) string
	// Key is the canonical key of the current state.
	Key() string
	// Check evaluates the oracles after history hist (the last element is the
	// event just applied; empty for the initial state).
	Check(hist []string) []core.Violation
	// Close releases resources.
	Close()
}

// Config configures one exploration.
type Config struct {
	Name     string
	New      func() Instance
	MaxDepth int
	// Cost of an event (deviation); histories whose total cost exceeds MaxCost
	// are not explored. nil = all zero.
	Cost    func(ev string) int
	MaxCost int
	Workers int
	Report  *core.Report
	// Stateless disables de-duplication (every history is expanded).
	Stateless bool
	// MaxStates caps the seen set (0 = unlimited); hitting it marks the run
	// non-exhaustive.
	MaxStates int
	// Drop says that the successor reached by ev with observation obs need not be
	// kept (it is checked and counted like every other): a fault variant whose
	// fault never fired reaches exactly the state of the plain event.
	Drop func(ev, obs string) bool
}

type node struct {
	hist    []string
	obs     []string
	enabled []string
	cost    int
}

// Stats is what an exploration covered.
type Stats struct {
	States      int
	Transitions int
	MaxDepth    int
	Completed   bool // every level up to MaxDepth fully expanded
	Histories   int
	Samples     [][]string
	LevelSizes  []int
	Outcomes    int
	// ByEvent counts transitions per (event kind, observation class): the
	// vacuity guard (an event kind whose every transition is refused, a fault
	// that never fires, show up here)
	ByEvent map[string]int
}

// Explore runs the search.
func Explore(cfg Config) Stats {
	if cfg.Workers <= 0 {
		cfg.Workers = runtime.NumCPU()
	}
	rep := cfg.Report
	var seenMu sync.Mutex
	seen := map[[16]byte]bool{}
	outcomes := map[[16]byte]bool{}
	byEvent := map[string]int{}
	st := Stats{Completed: true}
	hash := func(s string) [16]byte {
		h := sha256.Sum256([]byte(s))
		var k [16]byte
		copy(k[:], h[:16])
		return k
	}

	// de-duplication: a state is (canonical key, deviations spent) when a deviation
	// budget is in force - a visit that spent less budget may go where a visit
	// that spent more may not, so the two are not merged
	dedupKey := func(key string, cost int) [16]byte {
		if cfg.MaxCost > 0 {
			return hash(fmt.Sprintf("%s\x00cost=%d", key, cost))
		}
		return hash(key)
	}
	// initial state
	root := &node{}
	func() {
		inst := cfg.New()
		defer inst.Close()
		for _, v := range inst.Check(nil) {
			rep.Violation(v)
		}
		seen[dedupKey(inst.Key(), 0)] = true
		root.enabled = inst.Enabled()
	}()
	frontier := []*node{root}
	st.States = 1
	st.LevelSizes = append(st.LevelSizes, 1)
	var transitions int64

	for depth := 1; depth <= cfg.MaxDepth && len(frontier) > 0; depth++ {
		type job struct {
			n  *node
			ev string
		}
		type cand struct {
			n *node
			k [16]byte
		}
		jobs := make(chan job, 1024)
		var candMu sync.Mutex
		var cands []cand
		var wg sync.WaitGroup
		var aborted int32
		for w := 0; w < cfg.Workers; w++ {
			wg.Add(1)
			go func() {
				defer wg.Done()
				for j := range jobs {
					if atomic.LoadInt32(&aborted) != 0 {
						continue
					}
					if rep.Expired() {
						atomic.StoreInt32(&aborted, 1)
						continue
					}
					nn, key, obsKey := step(cfg, j.n, j.ev, rep)
					atomic.AddInt64(&transitions, 1)
					if nn == nil {
						continue
					}
					k := dedupKey(key, nn.cost)
					seenMu.Lock()
					outcomes[hash(obsKey)] = true
					byEvent[classify(obsKey)]++
					dup := seen[k] && !cfg.Stateless // seen holds earlier levels only while a level runs
					seenMu.Unlock()
					if dup {
						continue
					}
					if cfg.Drop != nil && cfg.Drop(j.ev, nn.obs[len(nn.obs)-1]) {
						continue
					}
					candMu.Lock()
					cands = append(cands, cand{nn, k})
					candMu.Unlock()
				}
			}()
		}
		for _, n := range frontier {
			for _, ev := range n.enabled {
				c := 0
				if cfg.Cost != nil {
					c = cfg.Cost(ev)
				}
				if n.cost+c > cfg.MaxCost {
					continue
				}
				jobs <- job{n, ev}
			}
		}
		close(jobs)
		wg.Wait()
		if atomic.LoadInt32(&aborted) != 0 {
			st.Completed = false
			st.MaxDepth = depth - 1
			break
		}
		st.MaxDepth = depth
		// the representative of a new state is chosen deterministically: fewest
		// deviations, then the smallest history (worker timing plays no part)
		all := make([]*node, len(cands))
		byNode := make(map[*node][16]byte, len(cands))
		for i, c := range cands {
			all[i] = c.n
			byNode[c.n] = c.k
		}
		sortNodes(all)
		var next []*node
		full := false
		for _, n := range all {
			k := byNode[n]
			if seen[k] && !cfg.Stateless {
				continue
			}
			seen[k] = true
			next = append(next, n)
			if cfg.MaxStates > 0 && len(seen) >= cfg.MaxStates {
				full = true
				break
			}
		}
		frontier = next
		st.LevelSizes = append(st.LevelSizes, len(next))
		if len(next) > 0 && len(st.Samples) < 5 {
			st.Samples = append(st.Samples, append([]string(nil), next[len(next)/2].hist...))
		}
		if full {
			st.Completed = false
			break
		}
	}
	st.States = len(seen)
	st.Transitions = int(transitions)
	st.Outcomes = len(outcomes)
	st.ByEvent = byEvent
	return st
}

func sortNodes(ns []*node) {
	// simple insertion-friendly sort by joined history
	keys := make([]string, len(ns))
	for i, n := range ns {
		keys[i] = fmt.Sprintf("%04d\x00", n.cost) + strings.Join(n.hist, "\x00")
	}
	idx := make([]int, len(ns))
	for i := range idx {
		idx[i] = i
	}
	quickSort(idx, keys)
	out := make([]*node, len(ns))
	for i, j := range idx {
		out[i] = ns[j]
	}
	copy(ns, out)
}

func quickSort(idx []int, keys []string) {
	if len(idx) < 2 {
		return
	}
	// stdlib sort without closures over big slices is fine here
	lessSort(idx, func(a, b int) bool { return keys[a] < keys[b] })
}

// step replays n.hist on a fresh instance, applies ev, checks, and returns the
// successor node with its canonical key.
func step(cfg Config, n *node, ev string, rep *core.Report) (nn *node, key string, obsKey string) {
	hist := append(append([]string(nil), n.hist...), ev)
	defer func() {
		if r := recover(); r != nil {
			rep.Violation(core.Violation{
				Key:     "panic:" + cfg.Name + ":" + firstLine(fmt.Sprint(r)),
				Summary: fmt.Sprintf("panic while applying %q after %v: %v", ev, n.hist, r),
				Case:    map[string]interface{}{"engine": cfg.Name, "history": hist, "panic": fmt.Sprint(r), "stack": string(debug.Stack())},
			})
			nn = nil
		}
	}()
	inst := cfg.New()
	defer inst.Close()
	setHorizon(inst, len(hist))
	for i, e := range n.hist {
		o := inst.Apply(e)
		if o != n.obs[i] {
			core.HarnessError("nondeterminism in %s: replaying %v step %d (%s) observed %q, first time %q", cfg.Name, n.hist, i, e, o, n.obs[i])
		}
	}
	o := inst.Apply(ev)
	for _, v := range inst.Check(hist) {
		rep.Violation(v)
	}
	c := 0
	if cfg.Cost != nil {
		c = cfg.Cost(ev)
	}
	nn = &node{hist: hist, obs: append(append([]string(nil), n.obs...), o), enabled: inst.Enabled(), cost: n.cost + c}
	return nn, inst.Key(), ev + "=>" + o
}

// setHorizon tells an instance how many events this execution will apply. An
// oracle that judges single transitions (the crash images of one event) may
// then skip the replayed prefix: every prefix was judged when it was the end of
// its own history (step checks every successor it builds, before de-duplication).
func setHorizon(inst Instance, n int) {
	if h, ok := inst.(interface{ SetHorizon(int) }); ok {
		h.SetHorizon(n)
	}
}

// classify maps "ev=>observation" to "kind => class": the event without its
// argument (recv:a1 -> recv, fail2/recv:a1 -> fail2/recv) and the first word of
// the observation.
func classify(obsKey string) string {
	i := strings.Index(obsKey, "=>")
	if i < 0 {
		return obsKey
	}
	ev, o := obsKey[:i], obsKey[i+2:]
	if j := strings.IndexByte(ev, ':'); j >= 0 {
		ev = ev[:j]
	}
	o = strings.TrimSpace(o)
	if j := strings.IndexAny(o, " :("); j > 0 {
		o = o[:j]
	}
	if len(o) > 24 {
		o = o[:24]
	}
	return ev + " => " + o
}

func firstLine(s string) string {
	if i := strings.IndexByte(s, '\n'); i >= 0 {
		s = s[:i]
	}
	if len(s) > 120 {
		s = s[:120]
	}
	return s
}

// Replay runs one history on a fresh instance and returns the violations found
// along it (used by replay files and by the determinism self-check).
func Replay(newInst func() Instance, hist []string) (obs []string, viol []core.Violation) {
	inst := newInst()
	defer inst.Close()
	setHorizon(inst, len(hist))
	for _, e := range hist {
		obs = append(obs, inst.Apply(e))
	}
	// the oracles are evaluated on the final state only, exactly as the
	// explorer does (their queries can fill caches, so evaluating them on
	// intermediate states would be a different history)
	viol = inst.Check(hist)
	return
}

// Fill copies the stats into the report's coverage map.
func (s Stats) Fill(rep *core.Report, prefix string) {
	rep.Add("states", s.States)
	rep.Add("transitions", s.Transitions)
	rep.Add("traces_validated_against_impl", s.Transitions)
	rep.Set(prefix+"max_depth_completed", s.MaxDepth)
	rep.Set(prefix+"level_sizes", s.LevelSizes)
	rep.Set(prefix+"distinct_outcomes", s.Outcomes)
	rep.Set(prefix+"completed", s.Completed)
	rep.Set(prefix+"transitions_by_event_and_outcome", s.ByEvent)
	for _, h := range s.Samples {
		rep.Sample(map[string]interface{}{"engine": prefix, "history": h})
	}
}
