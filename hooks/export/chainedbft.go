//go:build verif

package chained_bft

import (
	"sort"

	chainedBftPb "github.com/xuperchain/xupercore/kernel/consensus/base/driver/chained-bft/pb"
	xuperp2p "github.com/xuperchain/xupercore/protos"
)

// Export shim for the verification harness (property C15): thin wrappers
// around private methods and fields, no logic of their own.

func (t *QCPendingTree) VUpdateQcStatus(n *ProposalNode) error { return t.updateQcStatus(n) }
func (t *QCPendingTree) VUpdateHighQC(id []byte)               { t.updateHighQC(id) }
func (t *QCPendingTree) VEnforceUpdateHighQC(id []byte) error  { return t.enforceUpdateHighQC(id) }
func (t *QCPendingTree) VUpdateCommit(id []byte)               { t.updateCommit(id) }

func (s *Smr) VHandleReceivedProposal(msg *xuperp2p.XuperMessage) { s.handleReceivedProposal(msg) }
func (s *Smr) VHandleReceivedVoteMsg(msg *xuperp2p.XuperMessage) error {
	return s.handleReceivedVoteMsg(msg)
}
func (s *Smr) VQcTree() *QCPendingTree { return s.qcTree }
func (s *Smr) VLedgerState() int64     { return s.ledgerState }

// VVoteAddrs lists, per proposal id (utils.F form), the addresses whose vote
// signatures are stored.
func (s *Smr) VVoteAddrs() map[string][]string {
	out := map[string][]string{}
	s.qcVoteMsgs.Range(func(k, v interface{}) bool {
		signs, _ := v.([]*chainedBftPb.QuorumCertSign)
		var a []string
		for _, sg := range signs {
			a = append(a, sg.GetAddress())
		}
		out[k.(string)] = a
		return true
	})
	return out
}

// VLocalProposals lists the proposal ids (utils.F form) already seen.
func (s *Smr) VLocalProposals() []string {
	var out []string
	s.localProposal.Range(func(k, v interface{}) bool {
		out = append(out, k.(string))
		return true
	})
	sort.Strings(out)
	return out
}

func (s *DefaultSaftyRules) VRounds() (lastVote, preferred int64) {
	return s.lastVoteRound, s.preferredRound
}
