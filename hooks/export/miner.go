//go:build verif

package miner

import (
	xctx "github.com/xuperchain/xupercore/kernel/common/xcontext"
)

// VMining runs one producer step (the body of the miner loop): walk to the
// ledger tip if needed, consensus pre-processing, pack, confirm, play.
func (t *Miner) VMining(ctx xctx.XContext) error { return t.mining(ctx) }
