//go:build verif

package state

import "github.com/xuperchain/xupercore/bcs/ledger/xledger/state/utxo"

// VSpinLock exposes the spin lock of the state machine's utxo component.
func (t *State) VSpinLock() *utxo.SpinLock { return t.utxo.SpLock }
