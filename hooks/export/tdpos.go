//go:build verif

package tdpos

import "github.com/xuperchain/xupercore/kernel/consensus/base"

// VerifMinerScheduling exposes the private slot schedule of a plugin instance
// built by NewTdposConsensus: (term, pos, blockPos) for a timestamp in ns.
func VerifMinerScheduling(c base.ConsensusImplInterface, timestamp int64) (term, pos, blockPos int64, ok bool) {
	tp, isTdpos := c.(*tdposConsensus)
	if !isTdpos || tp == nil || tp.election == nil {
		return 0, 0, 0, false
	}
	term, pos, blockPos = tp.election.minerScheduling(timestamp)
	return term, pos, blockPos, true
}
