//go:build verif

package utxo

// VObjects returns the synchronisation objects of the lock protocol (the key
// map and the reference-counter mutex) so a scheduler can recognise them.
func (sp *SpinLock) VObjects() []interface{} {
	return []interface{}{sp.m, &sp.refCounter.mu}
}
