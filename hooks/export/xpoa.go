//go:build verif

package xpoa

import "github.com/xuperchain/xupercore/kernel/consensus/base"

// VerifMinerScheduling exposes the private slot schedule of a plugin instance
// built by NewXpoaConsensus: (term, pos, blockPos) for a timestamp in ns and a
// validator-set size.
func VerifMinerScheduling(c base.ConsensusImplInterface, timestamp int64, length int) (term, pos, blockPos int64, ok bool) {
	x, isXpoa := c.(*xpoaConsensus)
	if !isXpoa || x == nil || x.election == nil {
		return 0, 0, 0, false
	}
	term, pos, blockPos = x.election.minerScheduling(timestamp, length)
	return term, pos, blockPos, true
}
