//go:build verif

package xuperos

import (
	lpb "github.com/xuperchain/xupercore/bcs/ledger/xledger/xldgpb"
	xctx "github.com/xuperchain/xupercore/kernel/common/xcontext"
	"github.com/xuperchain/xupercore/kernel/engines/xuperos/common"

	"github.com/patrickmn/go-cache"
)

// VNewChain wraps an already wired chain context into a Chain so that the
// real PreExec / SubmitTx code can be driven without a full engine (no miner,
// no rely agent, no cache janitor goroutine).
func VNewChain(ctx *common.ChainCtx) *Chain {
	return &Chain{ctx: ctx, log: ctx.XLog, txIdCache: cache.New(TxIdCacheExpired, 0)}
}

// VSubmit is SubmitTx without the 120 s "same txid was posted recently" guard
// (a wall-clock device outside the verified properties).
func (t *Chain) VSubmit(ctx xctx.XContext, tx *lpb.Transaction) error {
	t.txIdCache.Delete(string(tx.GetTxid()))
	return t.SubmitTx(ctx, tx)
}
