// Package vhook is injected into the xupercore module namespace by the build
// overlay (github.com/xuperchain/xupercore/verifshim/vhook). Rewritten `go`
// statements call Go; a harness goroutine that called Capture gets the
// functions queued instead of spawned, and runs them with Drain.
package vhook

import (
	"reflect"
	"runtime"
	"sort"
	"sync"
)

var (
	mu     sync.Mutex
	queues = map[int64]*[]func(){}
	// Spawn, if set, is asked first (scheduler mode); returning true means it
	// took ownership of f.
	Spawn func(f func()) bool
)

func gid() int64 {
	var buf [64]byte
	n := runtime.Stack(buf[:], false)
	// "goroutine 123 [running]:..."
	var id int64
	for i := len("goroutine "); i < n; i++ {
		c := buf[i]
		if c < '0' || c > '9' {
			break
		}
		id = id*10 + int64(c-'0')
	}
	return id
}

// Capture makes later Go calls from this goroutine queue their function.
func Capture() {
	g := gid()
	mu.Lock()
	q := []func(){}
	queues[g] = &q
	mu.Unlock()
}

// Release undoes Capture; pending functions are dropped.
func Release() {
	g := gid()
	mu.Lock()
	delete(queues, g)
	mu.Unlock()
}

// Go replaces a `go f()` statement.
func Go(f func()) {
	if s := Spawn; s != nil && s(f) {
		return
	}
	g := gid()
	mu.Lock()
	q := queues[g]
	if q != nil {
		*q = append(*q, f)
	}
	mu.Unlock()
	if q == nil {
		go f()
	}
}

// Pending returns the number of queued functions of this goroutine.
func Pending() int {
	g := gid()
	mu.Lock()
	defer mu.Unlock()
	if q := queues[g]; q != nil {
		return len(*q)
	}
	return 0
}

// Drain runs the queued functions of this goroutine in order (functions queued
// while draining are run too) and returns how many ran.
func Drain() int {
	g := gid()
	n := 0
	for {
		mu.Lock()
		q := queues[g]
		if q == nil || len(*q) == 0 {
			mu.Unlock()
			return n
		}
		f := (*q)[0]
		*q = (*q)[1:]
		mu.Unlock()
		f()
		n++
	}
}

// Discard drops the queued functions of this goroutine.
func Discard() int {
	g := gid()
	mu.Lock()
	defer mu.Unlock()
	if q := queues[g]; q != nil {
		n := len(*q)
		*q = (*q)[:0]
		return n
	}
	return 0
}

// MapOrder, if set for the calling goroutine (see SetMapOrder), chooses the
// iteration order of a rewritten map range. keys are sorted ascending.
var mapOrders = map[int64]func(label string, keys []string) []string{}

// SetMapOrder installs (or with nil removes) the order chooser for this goroutine.
func SetMapOrder(f func(label string, keys []string) []string) {
	g := gid()
	mu.Lock()
	if f == nil {
		delete(mapOrders, g)
	} else {
		mapOrders[g] = f
	}
	mu.Unlock()
}

// OrderedKeys returns the keys of m (a map with string keys) in sorted order,
// or in the order chosen by the goroutine's chooser.
func OrderedKeys(label string, m interface{}) []string {
	rv := reflect.ValueOf(m)
	ks := rv.MapKeys()
	out := make([]string, len(ks))
	for i, k := range ks {
		out[i] = k.String()
	}
	sort.Strings(out)
	g := gid()
	mu.Lock()
	f := mapOrders[g]
	mu.Unlock()
	if f != nil {
		return f(label, out)
	}
	return out
}
