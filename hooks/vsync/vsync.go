// Package vsync is injected into the xupercore module namespace by the build
// overlay (github.com/xuperchain/xupercore/verifshim/vsync) and replaces the
// sync primitives of the rewritten packages. Outside a controlled execution
// the types behave exactly like the embedded real primitives. Inside one
// (goroutines registered with a Controller) every acquiring / map operation is
// a scheduling point with MODELLED blocking: the controller decides who runs.
package vsync

import (
	"runtime"
	"sync"
	"sync/atomic"
)

// Controller is implemented by the scheduler (verif/engine/vsched).
type Controller interface {
	// Point is called by a controlled goroutine before an operation. enabled
	// reports whether the operation can proceed now (modelled state); Point
	// returns when this goroutine is chosen to perform it.
	Point(obj interface{}, kind string, enabled func() bool)
	// Spawn starts f as a new controlled thread.
	Spawn(f func())
}

var (
	mu    sync.RWMutex
	ctrls = map[int64]Controller{}
	// active is a fast-path flag: number of registered goroutines.
	active int32
)

func gid() int64 {
	var buf [64]byte
	n := runtime.Stack(buf[:], false)
	var id int64
	for i := len("goroutine "); i < n; i++ {
		c := buf[i]
		if c < '0' || c > '9' {
			break
		}
		id = id*10 + int64(c-'0')
	}
	return id
}

// Register binds the calling goroutine to a controller.
func Register(c Controller) {
	g := gid()
	mu.Lock()
	ctrls[g] = c
	mu.Unlock()
	atomic.AddInt32(&active, 1)
}

// Unregister removes the calling goroutine's binding.
func Unregister() {
	g := gid()
	mu.Lock()
	if _, ok := ctrls[g]; ok {
		delete(ctrls, g)
		atomic.AddInt32(&active, -1)
	}
	mu.Unlock()
}

func cur() Controller {
	if atomic.LoadInt32(&active) == 0 {
		return nil
	}
	g := gid()
	mu.RLock()
	c := ctrls[g]
	mu.RUnlock()
	return c
}

// Point is a pure yield point (always enabled), e.g. a storage operation.
func Point(obj interface{}, kind string) {
	if c := cur(); c != nil {
		c.Point(obj, kind, nil)
	}
}

// Go starts f as a controlled thread when called from one, else as a goroutine.
func Go(f func()) {
	if c := cur(); c != nil {
		c.Spawn(f)
		return
	}
	go f()
}

// Mutex replaces sync.Mutex.
type Mutex struct {
	real   sync.Mutex
	locked int32 // modelled state (only meaningful for controlled goroutines)
}

func (m *Mutex) Lock() {
	if c := cur(); c != nil {
		c.Point(m, "Lock", func() bool { return atomic.LoadInt32(&m.locked) == 0 })
		atomic.StoreInt32(&m.locked, 1)
	}
	m.real.Lock()
}

func (m *Mutex) Unlock() {
	atomic.StoreInt32(&m.locked, 0)
	m.real.Unlock()
}

// RWMutex replaces sync.RWMutex.
type RWMutex struct {
	real    sync.RWMutex
	writer  int32
	readers int32
}

func (m *RWMutex) Lock() {
	if c := cur(); c != nil {
		c.Point(m, "Lock", func() bool { return atomic.LoadInt32(&m.writer) == 0 && atomic.LoadInt32(&m.readers) == 0 })
		atomic.StoreInt32(&m.writer, 1)
	}
	m.real.Lock()
}

func (m *RWMutex) Unlock() {
	atomic.StoreInt32(&m.writer, 0)
	m.real.Unlock()
}

func (m *RWMutex) RLock() {
	if c := cur(); c != nil {
		c.Point(m, "RLock", func() bool { return atomic.LoadInt32(&m.writer) == 0 })
		atomic.AddInt32(&m.readers, 1)
		m.real.RLock()
		return
	}
	m.real.RLock()
	atomic.AddInt32(&m.readers, 1)
}

func (m *RWMutex) RUnlock() {
	atomic.AddInt32(&m.readers, -1)
	m.real.RUnlock()
}

// RLocker mirrors sync.RWMutex.RLocker.
func (m *RWMutex) RLocker() sync.Locker { return (*rlocker)(m) }

type rlocker RWMutex

func (r *rlocker) Lock()   { (*RWMutex)(r).RLock() }
func (r *rlocker) Unlock() { (*RWMutex)(r).RUnlock() }

// WaitGroup replaces sync.WaitGroup.
type WaitGroup struct {
	real sync.WaitGroup
	n    int32
}

func (w *WaitGroup) Add(d int) {
	atomic.AddInt32(&w.n, int32(d))
	w.real.Add(d)
}

func (w *WaitGroup) Done() { w.Add(-1) }

func (w *WaitGroup) Wait() {
	if c := cur(); c != nil {
		c.Point(w, "Wait", func() bool { return atomic.LoadInt32(&w.n) <= 0 })
	}
	w.real.Wait()
}

// Once replaces sync.Once.
type Once struct {
	real sync.Once
	m    Mutex
	done int32
}

func (o *Once) Do(f func()) {
	if cur() == nil {
		o.real.Do(f)
		return
	}
	if atomic.LoadInt32(&o.done) == 1 {
		return
	}
	o.m.Lock()
	defer o.m.Unlock()
	if o.done == 0 {
		defer atomic.StoreInt32(&o.done, 1)
		o.real.Do(f)
	}
}

// Map replaces sync.Map: every method is one atomic step and a yield point.
type Map struct {
	real sync.Map
}

func (m *Map) Load(key interface{}) (interface{}, bool) {
	Point(m, "Map.Load")
	return m.real.Load(key)
}

func (m *Map) Store(key, value interface{}) {
	Point(m, "Map.Store")
	m.real.Store(key, value)
}

func (m *Map) LoadOrStore(key, value interface{}) (interface{}, bool) {
	Point(m, "Map.LoadOrStore")
	return m.real.LoadOrStore(key, value)
}

func (m *Map) LoadAndDelete(key interface{}) (interface{}, bool) {
	Point(m, "Map.LoadAndDelete")
	return m.real.LoadAndDelete(key)
}

func (m *Map) Delete(key interface{}) {
	Point(m, "Map.Delete")
	m.real.Delete(key)
}

// Range snapshots the entries in one step, then calls f outside the map.
func (m *Map) Range(f func(key, value interface{}) bool) {
	if cur() == nil {
		m.real.Range(f)
		return
	}
	Point(m, "Map.Range")
	type kv struct{ k, v interface{} }
	var all []kv
	m.real.Range(func(k, v interface{}) bool {
		all = append(all, kv{k, v})
		return true
	})
	for _, e := range all {
		if !f(e.k, e.v) {
			return
		}
	}
}

// TrySpawn starts f as a controlled thread if the caller is controlled.
func TrySpawn(f func()) bool {
	if c := cur(); c != nil {
		c.Spawn(f)
		return true
	}
	return false
}

// Controlled reports whether the calling goroutine runs under a controller.
func Controlled() bool { return cur() != nil }
