// Package c04: ledger main-chain integrity under forks, reorganisations and
// truncation. Explicit-state search over the real Ledger: every parent-closed
// confirmation order of a block universe, invalid blocks, truncations.
package c04

import (
	"crypto/sha256"
	"encoding/json"
	"fmt"
	"sort"
	"strings"

	"verif/core"
	"verif/engine/xplore"
	"verif/world"

	"github.com/xuperchain/xupercore/verifshim/vhook"
)

type inst struct {
	u      *world.Universe
	w      *world.World
	ref    *world.RefTree
	failed map[string]bool
	trunc  int
	// refOK is false once the reference has no opinion (e.g. a bad block stored
	// on a side branch): then only structural invariants are kept.
	hidden map[string]bool
	// tainted: transactions of bad blocks that were ever stored where the
	// reference has no opinion; their mapping is not judged.
	tainted       map[string]bool
	justRestarted bool
	justQueried   bool
	restarts      int
}

func newInst(u *world.Universe) *inst {
	vhook.Capture()
	return &inst{u: u, w: u.NewWorld(), ref: world.NewRefTree(u), failed: map[string]bool{}, hidden: map[string]bool{"o1": true, "g": true}, tainted: map[string]bool{}}
}

func (i *inst) Close() { i.w.Drop() }

func (i *inst) Enabled() []string {
	var evs []string
	for _, n := range i.u.BOrder {
		if i.hidden[n] || i.ref.Stored[n] {
			continue
		}
		p := i.u.Parent[n]
		if i.ref.Stored[p] || p == "o1" {
			if i.failed["recv:"+n] {
				// a refused block may be offered again once (after the state changed)
				if i.failed["recv2:"+n] {
					continue
				}
			}
			evs = append(evs, "recv:"+n)
		}
	}
	if !i.justRestarted {
		evs = append(evs, "restart")
	}
	if !i.justQueried {
		// a client issuing every query now (queries fill caches)
		evs = append(evs, "query")
	}
	// truncation targets: blocks on the main chain below the tip
	trunk := i.ref.Trunk()
	for k := len(trunk) - 2; k >= 0; k-- {
		evs = append(evs, "trunc:"+trunk[k])
	}
	return evs
}

func (i *inst) Apply(ev string) string {
	parts := strings.SplitN(ev, ":", 2)
	if ev != "restart" {
		i.justRestarted = false
	}
	i.justQueried = ev == "query"
	switch parts[0] {
	case "query":
		world.CheckLedger(i.w.Ledger, i.ref, i.tainted)
		return "ok"
	case "restart":
		if err := i.w.Restart(); err != nil {
			return "err " + err.Error()
		}
		i.justRestarted = true
		i.restarts++
		return "ok"
	case "recv":
		n := parts[1]
		blk := i.u.Block(n)
		if i.w.Ledger.ExistBlock(blk.Blockid) {
			return "exists"
		}
		ok, st := i.w.Recv(blk)
		if ok {
			i.ref.Accept(n)
			if i.u.Bad[n] {
				for _, t := range blk.Transactions {
					i.tainted[string(t.Txid)] = true
				}
			}
		} else {
			if i.failed[ev] {
				i.failed["recv2:"+n] = true
			}
			i.failed[ev] = true
		}
		return st
	case "trunc":
		n := parts[1]
		err := i.w.Ledger.Truncate(i.u.ID(n))
		if err != nil {
			i.failed[ev] = true
			return "err"
		}
		i.ref.Truncate(n)
		i.trunc++
		return "ok"
	}
	panic("bad event " + ev)
}

func (i *inst) Key() string {
	h := sha256.New()
	for _, kv := range i.w.Space.Dump("ledger") {
		h.Write(kv[0])
		h.Write([]byte{0})
		h.Write(kv[1])
		h.Write([]byte{1})
	}
	var f []string
	for k := range i.failed {
		f = append(f, k)
	}
	sort.Strings(f)
	// live answers that caches may influence
	var live []string
	for _, n := range i.ref.StoredSorted() {
		b, err := i.w.Ledger.QueryBlock(i.u.ID(n))
		if err == nil {
			live = append(live, fmt.Sprintf("%s:%v:%s", n, b.InTrunk, i.u.Names.Of(b.NextHash)))
		}
	}
	return fmt.Sprintf("%x|%v|%v|%d|%v", h.Sum(nil), f, live, i.trunc, i.justRestarted || i.justQueried)
}

func (i *inst) context() string {
	c := ""
	if len(i.failed) > 0 {
		c += ".after_refusal"
	}
	if i.restarts > 0 {
		c += ".after_restart"
	}
	if i.trunc == 1 {
		c += ".after_truncate"
	} else if i.trunc > 1 {
		c += ".after_2_truncates"
	}
	return c
}

func (i *inst) Check(hist []string) []core.Violation {
	var out []core.Violation
	// acceptance vs reference for the last event
	issues := world.CheckLedger(i.w.Ledger, i.ref, i.tainted)
	seen := map[string]bool{}
	for _, is := range issues {
		key := "c04." + is.Code + i.context()
		if seen[key] {
			continue
		}
		seen[key] = true
		out = append(out, core.Violation{
			Key:     key,
			Summary: fmt.Sprintf("after %v: %s", hist, is.Detail),
			Case:    map[string]interface{}{"universe": i.u.Name, "history": hist, "issue": is.String()},
		})
	}
	return out
}

// acceptance oracle: evaluated inside a wrapper so Check stays about states.
type accInst struct {
	*inst
	lastViol []core.Violation
}

func (a *accInst) Apply(ev string) string {
	a.lastViol = nil
	if strings.HasPrefix(ev, "recv:") {
		n := ev[5:]
		if !a.w.Ledger.ExistBlock(a.u.ID(n)) {
			reject, ok := a.ref.WouldReject(n)
			o := a.inst.Apply(ev)
			accepted := strings.HasPrefix(o, "succ=true")
			if ok && accepted == reject && len(a.tainted) == 0 {
				a.lastViol = append(a.lastViol, core.Violation{
					Key:     fmt.Sprintf("c04.acceptance.%s.ref_reject=%v", badKind(a.u, n), reject),
					Summary: fmt.Sprintf("block %s: ledger accepted=%v, reference says reject=%v", n, accepted, reject),
				})
			}
			if !ok && accepted {
				// a bad block is now stored where the reference has no opinion:
				// nothing further is judged about its transactions (CheckLedger skips them)
			}
			return o
		}
	}
	return a.inst.Apply(ev)
}

func badKind(u *world.Universe, n string) string {
	if !u.Bad[n] {
		return "honest"
	}
	return "bad:" + n
}

func (a *accInst) Check(hist []string) []core.Violation {
	out := a.inst.Check(hist)
	for _, v := range a.lastViol {
		v.Summary = fmt.Sprintf("after %v: %s", hist, v.Summary)
		v.Case = map[string]interface{}{"universe": a.u.Name, "history": hist}
		out = append(out, v)
	}
	return out
}

func run(tier core.Tier) *core.Report {
	rep := core.NewReport("C04", tier, "model_checking")
	world.Init()
	vhook.Capture()
	depth := 7
	if tier == core.Thorough {
		depth = 10
	}
	u := world.Universe3Way(true)
	cfg := xplore.Config{Name: "c04/" + u.Name, New: func() xplore.Instance { return &accInst{inst: newInst(u)} }, MaxDepth: depth, Report: rep}
	st := xplore.Explore(cfg)
	st.Fill(rep, "u3way.")
	// stateless cross-check pass to a smaller depth
	sl := cfg
	sl.Stateless = true
	sl.MaxDepth = depth - 3
	st2 := xplore.Explore(sl)
	rep.Set("stateless_pass", map[string]interface{}{"depth": sl.MaxDepth, "histories": st2.Transitions, "completed": st2.Completed})
	rep.Add("transitions", st2.Transitions)
	rep.Add("traces_validated_against_impl", st2.Transitions)
	rep.Set("bound", fmt.Sprintf("universe %s (%d blocks incl. 4 invalid), all parent-closed confirmation orders and truncations, depth <= %d", u.Name, len(u.BOrder)-1, depth))
	rep.Set("exhaustive", st.Completed && st2.Completed)
	rep.Assume("vkv in-memory engine behaves as goleveldb for the operations used (conformance test in setup)")
	rep.Assume("duplicate submissions are filtered by ExistBlock as the node does before ConfirmBlock (miner.go trySyncBlock)")
	return rep
}

func replay(c json.RawMessage) (bool, string, error) {
	var cs struct {
		Universe string   `json:"universe"`
		History  []string `json:"history"`
	}
	if err := json.Unmarshal(c, &cs); err != nil {
		return false, "", err
	}
	world.Init()
	u := world.Universe3Way(true)
	_, viol := xplore.Replay(func() xplore.Instance { return &accInst{inst: newInst(u)} }, cs.History)
	if len(viol) > 0 {
		return true, viol[0].Key + ": " + viol[0].Summary, nil
	}
	return false, "history replayed without violation", nil
}

func init() {
	core.Register(&core.Check{ID: "C04", Run: run, Replay: replay})
}
