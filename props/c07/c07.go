// Package c07: transaction integrity and authorisation. Exhaustive bounded
// enumeration: a base set of accepted transactions (versions 1-3; address,
// multi-signer, aggregated-signature, contract, account forms), every
// single-field mutation reachable by walking the protobuf schema, every
// signature swap / removal / replay / re-sign, forged authorisations by keys that
// own nothing, each judged at State.VerifyTx and at the Chain.SubmitTx sequence;
// spend attempts on an unspent output of every OWNER KIND (key, accounts with
// threshold / key-set / nested / zero / member-less rules, account-shaped names
// without a rule, records that cannot be evaluated) by every initiator / signer
// subset / entry style / signature form / contract route (owners.go);
// plus the digest clause over a small structural domain.
package c07

import (
	"bytes"
	"crypto/sha256"
	"encoding/hex"
	"encoding/json"
	"fmt"
	"os"
	"runtime"
	"sort"
	"strings"
	"sync"

	"github.com/golang/protobuf/proto"

	"github.com/xuperchain/xupercore/bcs/ledger/xledger/state/utxo/txhash"
	pb "github.com/xuperchain/xupercore/bcs/ledger/xledger/xldgpb"

	"verif/core"
	"verif/world"
)

func init() { core.Register(&core.Check{ID: "C07", Run: run, Replay: replay}) }

// ---------------------------------------------------------------------------
// exemptions: fields the statement does not call covered. Fixed list, printed
// in the evidence. A mutant accepted by VerifyTx is a violation unless its path
// falls under one of these (and then it is only counted as an observation).

type exemption struct {
	Name   string
	Prefix string // schema path prefix
	OnlyV1 bool
	Why    string
}

var exemptions = []exemption{
	{Name: "Blockid", Prefix: "Blockid", Why: "outside the digest by design: filled in by the ledger when a block confirms the transaction; DoTx refuses a submitted transaction that carries one"},
	{Name: "ReceivedTimestamp", Prefix: "ReceivedTimestamp", Why: "outside the digest by design: local bookkeeping, overwritten by DoTx"},
	{Name: "ModifyBlock", Prefix: "ModifyBlock", Why: "outside the digest by design: the regulator's annotation of a confirmed transaction; a mutant keeps every signed field, so nothing unsigned is spent (its effect at the SubmitTx seam is recorded as an observation)"},
	{Name: "HDInfo(version 1)", Prefix: "HDInfo", OnlyV1: true, Why: "the version-1 digest predates HDInfo (encodeTxData adds it for version >= 2 only) and no state-machine code interprets the field"},
}

// Txid itself needs no exemption: left inconsistent it must be (and is checked
// to be) rejected; recomputed consistently the mutant is the base transaction.
// Mutants whose protobuf wire form equals the base's (nil vs empty) are the same
// message and are counted as identities, not judged.

func exemptFor(b *baseTx, m mutation) *exemption {
	if m.Family != "schema" {
		return nil
	}
	s := m.Path.Schema()
	for i := range exemptions {
		e := &exemptions[i]
		if e.OnlyV1 && b.Version != 1 {
			continue
		}
		if s == e.Prefix || strings.HasPrefix(s, e.Prefix+".") || strings.HasPrefix(s, e.Prefix+"[") {
			return e
		}
	}
	return nil
}

// ---------------------------------------------------------------------------
// observation seams

func verifyTx(f *fixture, tx *pb.Transaction) (ok bool, errS string, panicked bool) {
	defer func() {
		if r := recover(); r != nil {
			ok, errS, panicked = false, fmt.Sprintf("panic: %v", r), true
		}
	}()
	good, err := f.w.State.VerifyTx(tx)
	if err != nil {
		return good, err.Error(), false
	}
	return good, "", false
}

// submitTx runs the real Chain.SubmitTx (kernel/engines/xuperos/chain.go) of the
// fixture node, without its recently-posted-txid guard (world.Submit).
func submitTx(f *fixture, tx *pb.Transaction) (admitted bool, why string) {
	defer func() {
		if r := recover(); r != nil {
			admitted, why = false, fmt.Sprintf("panic: %v", r)
		}
	}()
	if tx == nil {
		return false, "parameter"
	}
	if err := f.w.Submit(tx); err != nil {
		return false, "submit: " + err.Error()
	}
	return true, ""
}

func unwire(buf []byte) *pb.Transaction {
	t := &pb.Transaction{}
	if err := proto.Unmarshal(buf, t); err != nil {
		return nil
	}
	return t
}

// ---------------------------------------------------------------------------
// replay case

type caseT struct {
	Oracle   string  `json:"oracle"` // verify | submit | digest
	Setup    *recipe `json:"setup,omitempty"`
	Base     string  `json:"base,omitempty"`
	BaseTxid string  `json:"base_txid,omitempty"`
	Mutation string  `json:"mutation,omitempty"`
	Variant  string  `json:"txid_variant,omitempty"`
	Tx       string  `json:"tx,omitempty"` // hex(proto.Marshal(mutant))
	BaseTx   string  `json:"base_tx,omitempty"`
	Class    string  `json:"class,omitempty"` // unauthorised | content_changed | malleability | forged | panic
	Version  int32   `json:"version,omitempty"`
	TxA      string  `json:"tx_a,omitempty"`
	TxB      string  `json:"tx_b,omitempty"`
	Note     string  `json:"note,omitempty"`
}

func replay(raw json.RawMessage) (bool, string, error) {
	world.Init()
	restore := muteStdout()
	defer restore()
	var c caseT
	if err := json.Unmarshal(raw, &c); err != nil {
		return false, "", err
	}
	dec := func(h string) (*pb.Transaction, error) {
		buf, err := hex.DecodeString(h)
		if err != nil {
			return nil, err
		}
		t := unwire(buf)
		if t == nil {
			return nil, fmt.Errorf("transaction does not unmarshal")
		}
		return t, nil
	}
	switch c.Oracle {
	case "digest":
		a, err := dec(c.TxA)
		if err != nil {
			return false, "", err
		}
		b, err := dec(c.TxB)
		if err != nil {
			return false, "", err
		}
		da, _ := txhash.MakeTxDigestHash(a)
		db, _ := txhash.MakeTxDigestHash(b)
		differ := canon(a) != canon(b)
		if c.Class == "txid" {
			da, _ = txhash.MakeTransactionID(a)
			db, _ = txhash.MakeTransactionID(b)
			differ = canon(a)+sigCanon(a) != canon(b)+sigCanon(b)
		}
		bad := differ && bytes.Equal(da, db)
		return bad, fmt.Sprintf("hash(a)=%x hash(b)=%x covered content differs=%v in %v", da, db, differ, diffFields(a, b)), nil
	case "verify", "submit":
		if c.Setup == nil {
			return false, "", fmt.Errorf("case has no setup")
		}
		tx, err := dec(c.Tx)
		if err != nil {
			return false, "", err
		}
		f, err := c.Setup.instantiate()
		if err != nil {
			return false, "", err
		}
		defer f.drop()
		ok, errS, _ := verifyTx(f, world.CloneTx(tx))
		accepted := ok && errS == ""
		if c.Oracle == "verify" {
			msg := fmt.Sprintf("VerifyTx(%s of %s) = (%v, %q)", c.Mutation, c.Base, ok, errS)
			if !accepted {
				return false, msg, nil
			}
			switch c.Class {
			case "unauthorised", "content_changed", "malleability":
				base, err := dec(c.BaseTx)
				if err != nil {
					return false, "", err
				}
				class, ref, same := classify(f, base, tx)
				msg += fmt.Sprintf("; class=%q reference authorised=%v %s; covered content unchanged=%v", class, ref.Authorised, ref.Why, same)
				return class != "", msg, nil
			}
			if c.Class == "contract_justification" {
				ref := reference(f, tx)
				msg += fmt.Sprintf("; reference authorised=%v %s; the carried code's execution spends from %v", ref.Authorised, ref.Why, payerList(contractPayers(f, tx)))
				return !ref.Authorised, msg, nil
			}
			// forged authorisations and panics: acceptance itself is the violation
			return true, msg, nil
		}
		g, err := c.Setup.instantiate()
		if err != nil {
			return false, "", err
		}
		defer g.drop()
		adm, why := submitTx(g, world.CloneTx(tx))
		return !accepted && adm, fmt.Sprintf("VerifyTx(%s of %s) = (%v, %q); SubmitTx sequence admitted=%v %s", c.Mutation, c.Base, ok, errS, adm, why), nil
	}
	return false, "", fmt.Errorf("unknown oracle %q", c.Oracle)
}

// ---------------------------------------------------------------------------
// run

type job struct {
	base    *baseTx
	mut     *mutation
	variant string
	wire    []byte
	fg      *forged
	sp      *spendSpec
	trp     *trPlan
	tr      *trSpec
}

type baseStat struct {
	Planned  int `json:"mutations"`
	Judged   int `json:"judged"`
	Rejected int `json:"rejected"`
	Accepted int `json:"accepted"`
}

type stats struct {
	planned, inapplicable, identity, duplicate, evaluated    int
	rejectedErr, rejectedBool, acceptedExempt, acceptedOther int
	panics, semanticIdentity, rejectedThoughAuthorised       int
	acceptedBySeverity                                       map[string]int
	submitChecks, submitAdmitted                             int
	forged, forgedRejected, forgedAccepted, forgedAdmitted   int
	rejectedBoolBySetup                                      map[string]int
	samples                                                  map[string]map[string]interface{}
	viol                                                     map[string]*violRec
	errKinds                                                 map[string]int
	byEdit                                                   map[string]int
	byFamily                                                 map[string]int
	fields                                                   map[string]bool
	exemptAccepted                                           map[string]int
	exemptAdmitted                                           map[string]int
	perBase                                                  map[string]*baseStat
}

func newStats() *stats {
	return &stats{viol: map[string]*violRec{}, rejectedBoolBySetup: map[string]int{}, samples: map[string]map[string]interface{}{}, acceptedBySeverity: map[string]int{}, errKinds: map[string]int{}, byEdit: map[string]int{}, byFamily: map[string]int{}, fields: map[string]bool{},
		exemptAccepted: map[string]int{}, exemptAdmitted: map[string]int{}, perBase: map[string]*baseStat{}}
}

func (s *stats) base(n string) *baseStat {
	b := s.perBase[n]
	if b == nil {
		b = &baseStat{}
		s.perBase[n] = b
	}
	return b
}

// violRec: per key the counterexample with the smallest order string (so the
// kept one does not depend on worker scheduling) and the occurrence count.
type violRec struct {
	v     core.Violation
	order string
	n     int
}

func (s *stats) addViol(order string, v core.Violation, n int) {
	r, ok := s.viol[v.Key]
	if !ok {
		s.viol[v.Key] = &violRec{v: v, order: order, n: n}
		return
	}
	r.n += n
	if order < r.order {
		r.v, r.order = v, order
	}
}

func (w *worker) violate(order string, v core.Violation) { w.st.addViol(order, v, 1) }

// orderOf ranks counterexamples: forged authorisations (an outright theft) first,
// then smaller base transactions, then by label.
func orderOf(b *baseTx, label, variant string) string {
	p := 1
	if strings.HasPrefix(label, "forged:") {
		p = 0
	}
	// (signature lengths vary from run to run, so size is counted structurally)
	t := b.Tx
	size := len(t.TxInputs) + len(t.TxOutputs) + len(t.AuthRequire) + len(t.InitiatorSigns) + 10*len(t.ContractRequests) + len(t.TxOutputsExt)
	if t.XuperSign != nil {
		size += 5
	}
	return fmt.Sprintf("%d|%04d|%s|%s|%s", p, size, b.Name, label, variant)
}

// sample keeps, per outcome class, the case with the smallest label (so the
// choice does not depend on worker scheduling).
func (s *stats) sample(class string, c map[string]interface{}) {
	cur, ok := s.samples[class]
	if !ok || fmt.Sprint(c["base"], c["mutation"], c["txid"]) < fmt.Sprint(cur["base"], cur["mutation"], cur["txid"]) {
		s.samples[class] = c
	}
}

func (s *stats) merge(o *stats) {
	s.planned += o.planned
	s.inapplicable += o.inapplicable
	s.identity += o.identity
	s.duplicate += o.duplicate
	s.evaluated += o.evaluated
	s.rejectedErr += o.rejectedErr
	s.rejectedBool += o.rejectedBool
	s.acceptedExempt += o.acceptedExempt
	s.acceptedOther += o.acceptedOther
	s.panics += o.panics
	s.semanticIdentity += o.semanticIdentity
	s.rejectedThoughAuthorised += o.rejectedThoughAuthorised
	for k, v := range o.acceptedBySeverity {
		s.acceptedBySeverity[k] += v
	}
	s.submitChecks += o.submitChecks
	s.submitAdmitted += o.submitAdmitted
	s.forged += o.forged
	s.forgedRejected += o.forgedRejected
	s.forgedAccepted += o.forgedAccepted
	s.forgedAdmitted += o.forgedAdmitted
	for k, v := range o.rejectedBoolBySetup {
		s.rejectedBoolBySetup[k] += v
	}
	for k, v := range o.samples {
		s.sample(k, v)
	}
	for _, r := range o.viol {
		s.addViol(r.order, r.v, r.n)
	}
	for k, v := range o.errKinds {
		s.errKinds[k] += v
	}
	for k, v := range o.byEdit {
		s.byEdit[k] += v
	}
	for k, v := range o.byFamily {
		s.byFamily[k] += v
	}
	for k := range o.fields {
		s.fields[k] = true
	}
	for k, v := range o.exemptAccepted {
		s.exemptAccepted[k] += v
	}
	for k, v := range o.exemptAdmitted {
		s.exemptAdmitted[k] += v
	}
	for k, v := range o.perBase {
		b := s.base(k)
		b.Planned += v.Planned
		b.Judged += v.Judged
		b.Rejected += v.Rejected
		b.Accepted += v.Accepted
	}
}

// errKind strips variable parts of an error text (only used to count kinds).
func errKind(e string) string {
	if i := strings.Index(e, ":"); i > 0 && i < 40 {
		e = e[:i]
	}
	if len(e) > 60 {
		e = e[:60]
	}
	return e
}

func sigEditKey(edit string) string {
	switch {
	case edit == "sig_replay":
		return "c07.foreign_signature_accepted"
	case edit == "sig_swap":
		return "c07.signature_swap_accepted"
	case edit == "sig_remove" || edit == "sig_blank":
		return "c07.signature_removed_accepted"
	case strings.HasPrefix(edit, "resign"):
		return "c07.resigned_with_other_key_accepted." + edit
	case edit == "xs_ecdsa_single" || edit == "xs_v2ecdsa_single" || edit == "xs_schnorr_single":
		return "c07.xupersign_single_signer_credits_all_listed"
	case strings.HasPrefix(edit, "xs_"):
		return "c07.xupersign_mutant_accepted." + edit
	}
	return "c07.signature_mutant_accepted." + edit
}

type worker struct {
	rep *core.Report
	fx  map[string]*fixture
	st  *stats
	sp  *spendStats
	tr  *trStats
}

func (w *worker) fixture(setup string) *fixture {
	if f, ok := w.fx[setup]; ok {
		return f
	}
	r, err := getRecipe(setup)
	if err != nil {
		harnessError("C07 setup %s: %v", setup, err)
	}
	f, err := r.instantiate()
	if err != nil {
		harnessError("C07 setup %s: %v", setup, err)
	}
	w.fx[setup] = f
	return f
}

func fresh(setup string) *fixture {
	r, err := getRecipe(setup)
	if err != nil {
		harnessError("C07 setup %s: %v", setup, err)
	}
	f, err := r.instantiate()
	if err != nil {
		harnessError("C07 setup %s: %v", setup, err)
	}
	return f
}

func (w *worker) mkCase(oracle string, b *baseTx, label, variant string, wire []byte) caseT {
	r, _ := getRecipe(b.Setup)
	bw, _ := proto.Marshal(b.Tx)
	return caseT{Oracle: oracle, Setup: r, Base: b.Name, BaseTxid: hex.EncodeToString(b.Tx.Txid), Mutation: label, Variant: variant,
		Tx: hex.EncodeToString(wire), BaseTx: hex.EncodeToString(bw)}
}

// submitClause: tx was refused by VerifyTx with (false, nil); does the SubmitTx
// sequence admit it on a fresh world?
func (w *worker) submitClause(b *baseTx, label, variant string, wire []byte) {
	w.st.submitChecks++
	g := fresh(b.Setup)
	defer g.drop()
	tx := unwire(wire)
	adm, _ := submitTx(g, tx)
	if !adm {
		return
	}
	w.st.submitAdmitted++
	reason := "other"
	for _, in := range tx.TxInputs {
		if ref, err := g.w.Ledger.QueryTransaction(in.RefTxid); err == nil && ref.GetModifyBlock().GetMarked() {
			reason = "input_of_marked_tx"
		}
	}
	w.violate(orderOf(b, label, variant), core.Violation{
		Key:      "c07.submit_admits_tx_refused_by_verifytx." + reason,
		Summary:  fmt.Sprintf("%s %s (%s): VerifyTx returned (false, nil) and the SubmitTx sequence (which looks at the error only) admitted the transaction to the pool", b.Name, label, variant),
		Case:     w.mkCase("submit", b, label, variant, wire),
		Expected: "a transaction VerifyTx refuses is not admitted by SubmitTx",
		Observed: "VerifyTx=(false,nil); DoTx succeeded",
	})
}

// prepare applies one mutation in one txid variant and returns the mutant's
// wire form, or nil when there is nothing to judge (inapplicable, identical to
// the base, or identical to an earlier mutant of the same base). It runs in the
// single producer goroutine so that the attribution of duplicates is fixed.
func prepare(st *stats, seen map[[32]byte]bool, b *baseTx, m *mutation, variant string, baseWire []byte) []byte {
	bs := st.base(b.Name)
	st.planned++
	bs.Planned++
	t := world.CloneTx(b.Tx)
	applied := true
	func() {
		defer func() {
			if r := recover(); r != nil {
				applied = false
			}
		}()
		if m.Family == "schema" {
			applied = applySchema(t, *m)
		} else {
			m.apply(t)
		}
	}()
	if !applied {
		st.inapplicable++
		return nil
	}
	if variant == "txid_recomputed" {
		id, err := txhash.MakeTransactionID(t)
		if err != nil {
			st.inapplicable++
			return nil
		}
		t.Txid = id
	}
	wire, err := proto.Marshal(t)
	if err != nil || unwire(wire) == nil {
		st.inapplicable++
		return nil
	}
	if bytes.Equal(wire, baseWire) {
		st.identity++
		return nil
	}
	h := sha256.Sum256(append([]byte(b.Name+"\x00"), wire...))
	if seen[h] {
		st.duplicate++
		return nil
	}
	seen[h] = true
	return wire
}

func (w *worker) doMutation(b *baseTx, m *mutation, variant string, wire []byte) {
	st := w.st
	bs := st.base(b.Name)
	{
		tx := unwire(wire)
		f := w.fixture(b.Setup)
		ok, errS, pan := verifyTx(f, tx)
		st.evaluated++
		bs.Judged++
		st.byEdit[m.Edit]++
		st.byFamily[m.Family]++
		st.fields[m.Path.Schema()] = true
		label := m.Label()
		if pan {
			st.panics++
			w.violate(orderOf(b, label, variant), core.Violation{Key: "c07.verifytx_panic." + m.Path.Schema(), Summary: fmt.Sprintf("%s %s (%s): VerifyTx panicked: %s", b.Name, label, variant, errS),
				Case: w.mkCase("verify", b, label, variant, wire), Expected: "rejection", Observed: errS})
			return
		}
		accepted := ok && errS == ""
		if !accepted {
			bs.Rejected++
			if exemptFor(b, *m) == nil && reference(f, tx).Authorised {
				st.rejectedThoughAuthorised++
			}
			if errS != "" {
				st.rejectedErr++
				st.errKinds[errKind(errS)]++
			} else {
				st.rejectedBool++
				st.rejectedBoolBySetup[b.Setup]++
				w.submitClause(b, label, variant, wire)
			}
			class := "rejected_with_error." + variant + "." + m.Family
			if errS == "" {
				class = "rejected_bool_only." + m.Family
			}
			st.sample(class, map[string]interface{}{"outcome": class, "base": b.Name, "mutation": label, "txid": variant, "verifytx_ok": ok, "verifytx_err": errS})
			return
		}
		bs.Accepted++
		if e := exemptFor(b, *m); e != nil {
			st.acceptedExempt++
			st.exemptAccepted[e.Name+": "+m.Path.Schema()]++
			st.sample("accepted_exempt_field", map[string]interface{}{"outcome": "accepted_exempt_field", "base": b.Name, "mutation": label, "txid": variant, "exemption": e.Name})
			// what happens to it at the SubmitTx seam (observation)
			g := fresh(b.Setup)
			if adm, _ := submitTx(g, unwire(wire)); adm {
				st.exemptAdmitted[e.Name+": "+m.Path.Schema()]++
			}
			g.drop()
			return
		}
		// covered field / signature: judged against the reference predicate
		severity, ref, sameDigest := classify(f, b.Tx, tx)
		key := ""
		switch severity {
		case "":
			st.semanticIdentity++
			bs.Accepted--
			return
		case "unauthorised":
			if m.Family == "schema" {
				key = "c07.mutant_accepted." + m.SchemaEdit()
			} else {
				key = sigEditKey(m.Edit)
			}
		case "content_changed":
			// the signatures still verify although covered content changed: the
			// digest does not cover the field
			key = "c07.mutant_accepted." + m.SchemaEdit()
		case "malleability":
			switch {
			case ref.NonCanonical:
				key = "c07.malleability.signature_trailing_bytes"
			case ref.SlotMismatch:
				key = "c07.malleability.unverified_signature_entry"
			default:
				key = "c07.malleability.valid_signatures_reordered_or_duplicated"
			}
		}
		st.acceptedOther++
		st.acceptedBySeverity[severity]++
		c := w.mkCase("verify", b, label, variant, wire)
		c.Class = severity
		c.Note = fmt.Sprintf("class=%s; reference predicate: authorised=%v %s; covered content unchanged=%v", severity, ref.Authorised, ref.Why, sameDigest)
		w.violate(orderOf(b, label, variant), core.Violation{
			Key:      key,
			Summary:  fmt.Sprintf("%s: mutant %s (%s) accepted by VerifyTx [%s]", b.Name, label, variant, c.Note),
			Case:     c,
			Expected: "VerifyTx rejects (ok=false or err!=nil): the mutated field / signature is covered by the statement",
			Observed: "VerifyTx = (true, nil)",
		})
	}
}

// classify judges a mutant of a covered field that VerifyTx accepted.
// "" means: the same message as the base (nothing to judge).
func classify(f *fixture, base, tx *pb.Transaction) (class string, ref refVerdict, sameDigest bool) {
	ref = reference(f, tx)
	// covered content compared by the harness's own encoding, not by the digest
	// under test
	sameDigest = canon(tx) == canon(base)
	switch {
	case !ref.Authorised:
		return "unauthorised", ref, sameDigest
	case !sameDigest:
		return "content_changed", ref, sameDigest
	case sameSignatures(tx, base) && bytes.Equal(tx.Txid, base.Txid):
		// same covered content, same signatures, same id: the same message but
		// for an empty-vs-absent sub-message
		return "", ref, sameDigest
	}
	// every required signer's valid signature over the unchanged digest is still
	// there: nothing unsigned is spent, but "changing any signature yields
	// rejection" does not hold (a third party can re-issue the transaction under
	// another id)
	return "malleability", ref, sameDigest
}

func sameSignatures(a, b *pb.Transaction) bool {
	x := &pb.Transaction{InitiatorSigns: a.InitiatorSigns, AuthRequireSigns: a.AuthRequireSigns, XuperSign: a.XuperSign}
	y := &pb.Transaction{InitiatorSigns: b.InitiatorSigns, AuthRequireSigns: b.AuthRequireSigns, XuperSign: b.XuperSign}
	return proto.Equal(x, y)
}

func forgedKey(form string) string {
	switch form {
	case "xs_ecdsa_by_initiator_only", "xs_v2ecdsa_by_initiator_only", "xs_schnorr_by_initiator_only":
		return "c07.xupersign_single_signer_credits_all_listed"
	case "xs_multisig_rogue_key":
		return "c07.xupersign_multisig_rogue_key"
	case "uri_suffix":
		return "c07.acl_uri_suffix_impersonation"
	}
	return "c07.forged_authorisation." + form
}

func (w *worker) doForged(b *baseTx, fg *forged) {
	st := w.st
	st.forged++
	wire, err := proto.Marshal(fg.Tx)
	if err != nil {
		st.inapplicable++
		return
	}
	label := "forged:" + fg.Form + "(" + fg.Key + ")"
	const variant = "txid_recomputed"
	f := w.fixture(b.Setup)
	ok, errS, pan := verifyTx(f, unwire(wire))
	st.evaluated++
	st.byFamily["forged"]++
	st.byEdit["forged:"+fg.Form]++
	if pan {
		st.panics++
		w.violate(orderOf(b, label, variant), core.Violation{Key: "c07.verifytx_panic.forged." + fg.Form, Summary: fmt.Sprintf("%s %s: VerifyTx panicked: %s", b.Name, label, errS),
			Case: w.mkCase("verify", b, label, "txid_recomputed", wire)})
		return
	}
	if ok && errS == "" {
		st.forgedAccepted++
		g := fresh(b.Setup)
		adm, _ := submitTx(g, unwire(wire))
		g.drop()
		if adm {
			st.forgedAdmitted++
		}
		c := w.mkCase("verify", b, label, "txid_recomputed", wire)
		c.Class = "forged"
		c.Note = fmt.Sprintf("built with %s's private key only; SubmitTx sequence on a fresh world admitted=%v", fg.Key, adm)
		w.violate(orderOf(b, label, variant), core.Violation{
			Key:      forgedKey(fg.Form),
			Summary:  fmt.Sprintf("%s re-authored by %s (%s), who owns none of the spent outputs and holds none of their owners' keys, is accepted by VerifyTx [%s]", b.Name, fg.Key, fg.Form, c.Note),
			Case:     c,
			Expected: "rejection: no owner of the spent outputs signed",
			Observed: "VerifyTx = (true, nil)",
		})
		return
	}
	st.forgedRejected++
	st.sample("forged_rejected", map[string]interface{}{"outcome": "forged_rejected", "base": b.Name, "mutation": label, "txid": "txid_recomputed", "verifytx_ok": ok, "verifytx_err": errS})
	if errS == "" {
		st.rejectedBool++
		st.rejectedBoolBySetup[b.Setup]++
		w.submitClause(b, label, "txid_recomputed", wire)
	} else {
		st.errKinds[errKind(errS)]++
	}
}

// muteStdout silences the repository's debugging prints (the contract sandbox
// prints every contract transfer to stdout) while the check runs.
func muteStdout() func() {
	old := os.Stdout
	dn, err := os.OpenFile(os.DevNull, os.O_WRONLY, 0)
	if err != nil {
		return func() {}
	}
	os.Stdout = dn
	return func() {
		os.Stdout = old
		dn.Close()
	}
}

var unmute = func() {}

func harnessError(format string, a ...interface{}) {
	unmute()
	core.HarnessError(format, a...)
}

func run(tier core.Tier) *core.Report {
	rep := core.NewReport("C07", tier, "exploration")
	world.Init()
	unmute = muteStdout()
	defer func() { unmute() }()
	deep := tier == core.Thorough
	versions := []int32{1, 2, 3}
	variants := []string{"txid_asis", "txid_recomputed"}

	// ---- base set -----------------------------------------------------------
	var bases []*baseTx
	baseRejected := []string{}
	submitOK := 0
	for _, sn := range []string{"plain", "acct", "marked", "owners"} {
		rcp, err := getRecipe(sn)
		if err != nil {
			if sn == "plain" || sn == "owners" {
				harnessError("C07 setup %s: %v", sn, err)
			}
			rep.Assume(fmt.Sprintf("setup %s could not be built offline (%v): its forms are dropped", sn, err))
			continue
		}
		f, err := rcp.instantiate()
		if err != nil {
			harnessError("C07 setup %s: %v", sn, err)
		}
		bs, notes := buildBases(f, versions, deep)
		for _, n := range notes {
			rep.Assume("setup " + sn + ": " + n)
		}
		for _, b := range bs {
			ok, errS, _ := verifyTx(f, world.CloneTx(b.Tx))
			if !ok || errS != "" {
				baseRejected = append(baseRejected, fmt.Sprintf("%s: (%v, %s)", b.Name, ok, errS))
				continue
			}
			if rv := reference(f, b.Tx); !rv.Authorised {
				harnessError("C07: the reference predicate refuses base transaction %s: %s", b.Name, rv.Why)
			}
			g := fresh(sn)
			if adm, why := submitTx(g, world.CloneTx(b.Tx)); adm {
				submitOK++
			} else {
				baseRejected = append(baseRejected, fmt.Sprintf("%s: VerifyTx accepts, SubmitTx sequence refuses: %s", b.Name, why))
				g.drop()
				continue
			}
			g.drop()
			bases = append(bases, b)
		}
		f.drop()
	}
	if len(bases) == 0 {
		harnessError("C07: no base transaction is accepted: %v", baseRejected)
	}
	byVersion := map[int32]int{}
	forms := map[string]bool{}
	var baseNames []string
	for _, b := range bases {
		byVersion[b.Version]++
		forms[b.Setup+"/"+b.Form] = true
		baseNames = append(baseNames, b.Name)
	}
	for _, v := range versions {
		if byVersion[v] == 0 {
			harnessError("C07: no accepted base transaction of version %d: %v", v, baseRejected)
		}
	}

	// ---- jobs ---------------------------------------------------------------
	type plan struct {
		base *baseTx
		muts []mutation
		fgs  []forged
	}
	var plans []plan
	fieldSet := map[string]bool{}
	for _, b := range bases {
		muts := enumSchema(b.Tx, deep)
		for _, f := range schemaFields(muts) {
			fieldSet[f] = true
		}
		muts = append(muts, enumSig(b, bases)...)
		plans = append(plans, plan{base: b, muts: muts, fgs: enumForged(b)})
	}
	nw := runtime.NumCPU()
	if nw > 16 {
		nw = 16
	}
	if nw < 1 {
		nw = 1
	}
	baseWire := map[string][]byte{}
	for _, b := range bases {
		bw, err := proto.Marshal(b.Tx)
		if err != nil {
			harnessError("C07: marshal base: %v", err)
		}
		baseWire[b.Name] = bw
	}
	// ---- spend attempts per owner kind --------------------------------------
	spendKeys := []string{"A", "B", "D"}
	if deep {
		spendKeys = []string{"A", "B", "C", "D"}
	}
	var parts *spendParts
	{
		f := fresh("owners")
		if err := checkOwnersWorld(f); err != nil {
			harnessError("C07 setup owners: %v", err)
		}
		var err error
		if parts, err = buildSpendParts(f); err != nil {
			harnessError("C07 setup owners: %v", err)
		}
		f.drop()
		for _, n := range parts.notes {
			rep.Assume("setup owners: " + n)
		}
	}
	spends := enumSpends(ownersLay.kinds, spendKeys, spendStyles(deep), versions)
	spendTotal := newSpendStats()

	// ---- forged / altered / dropped contract-spend records -------------------
	trTotal := newTrStats()
	var trPlans []*trPlan
	trBaseRejected := []string{}
	{
		trBases := []*baseTx{}
		for _, b := range bases {
			if len(b.Tx.ContractRequests) > 0 {
				trBases = append(trBases, b)
			}
		}
		f := fresh("owners")
		extra, notes := transientBases(f, versions)
		for _, n := range notes {
			rep.Assume("setup " + n)
		}
		for _, b := range extra {
			if ok, errS, _ := verifyTx(f, world.CloneTx(b.Tx)); !ok || errS != "" {
				trBaseRejected = append(trBaseRejected, fmt.Sprintf("%s: (%v, %s)", b.Name, ok, errS))
				continue
			}
			if rv := reference(f, b.Tx); !rv.Authorised {
				harnessError("C07: the reference predicate refuses base transaction %s: %s", b.Name, rv.Why)
			}
			g := fresh("owners")
			adm, why := submitTx(g, world.CloneTx(b.Tx))
			g.drop()
			if !adm {
				trBaseRejected = append(trBaseRejected, fmt.Sprintf("%s: VerifyTx accepts, SubmitTx sequence refuses: %s", b.Name, why))
				continue
			}
			trBases = append(trBases, b)
		}
		f.drop()
		for _, b := range trBases {
			rcp, err := getRecipe(b.Setup)
			if err != nil {
				harnessError("C07 setup %s: %v", b.Setup, err)
			}
			vs := victimsOf(b, rcp, deep)
			trPlans = append(trPlans, &trPlan{base: b, victims: vs, specs: enumTransient(b, vs, deep), hasXfer: len(recordInputs(b.Tx)) > 0})
		}
	}

	ch := make(chan job, 256)
	var wg sync.WaitGroup
	total := newStats()
	var mu sync.Mutex
	reverified := 0
	for i := 0; i < nw; i++ {
		wg.Add(1)
		go func() {
			defer wg.Done()
			w := &worker{rep: rep, fx: map[string]*fixture{}, st: newStats(), sp: newSpendStats(), tr: newTrStats()}
			for j := range ch {
				if rep.Expired() {
					continue
				}
				if j.tr != nil {
					w.doTransient(j.trp, j.tr)
				} else if j.sp != nil {
					w.doSpend(ownersLay, parts, j.sp)
				} else if j.mut != nil {
					w.doMutation(j.base, j.mut, j.variant, j.wire)
				} else {
					w.doForged(j.base, j.fg)
				}
			}
			// the worker's worlds were only read: every base is still accepted
			rv := 0
			for _, b := range bases {
				if f, ok := w.fx[b.Setup]; ok {
					if ok, errS, _ := verifyTx(f, world.CloneTx(b.Tx)); ok && errS == "" {
						rv++
					} else {
						rep.Violation(core.Violation{Key: "c07.harness.base_no_longer_accepted", Summary: b.Name + " is refused after the mutants were verified on the same world: " + errS})
					}
				}
			}
			for _, f := range w.fx {
				f.drop()
			}
			mu.Lock()
			total.merge(w.st)
			spendTotal.merge(w.sp)
			trTotal.merge(w.tr)
			reverified += rv
			mu.Unlock()
		}()
	}
	// the producer: mutants in schema order, both txid variants, de-duplicated
	pst := newStats()
	for _, p := range plans {
		seen := map[[32]byte]bool{}
		for i := range p.muts {
			for _, variant := range variants {
				if rep.Expired() {
					break
				}
				if wire := prepare(pst, seen, p.base, &p.muts[i], variant, baseWire[p.base.Name]); wire != nil {
					ch <- job{base: p.base, mut: &p.muts[i], variant: variant, wire: wire}
				}
			}
		}
		for i := range p.fgs {
			ch <- job{base: p.base, fg: &p.fgs[i]}
		}
	}
	for i := range spends {
		if rep.Expired() {
			break
		}
		ch <- job{sp: &spends[i]}
	}
	for _, p := range trPlans {
		for i := range p.specs {
			if rep.Expired() {
				break
			}
			ch <- job{trp: p, tr: &p.specs[i]}
		}
	}
	close(ch)
	wg.Wait()
	total.merge(pst)

	var vkeys []string
	for k := range total.viol {
		vkeys = append(vkeys, k)
	}
	sort.Strings(vkeys)
	for _, k := range vkeys {
		r := total.viol[k]
		for i := 0; i < r.n; i++ {
			rep.Violation(r.v)
		}
	}

	// ---- digest clause ------------------------------------------------------
	dom := digestDomain{vals: []string{"", "A", "AA"}, extVals: []string{"", "A", "AA"}, maxInExt: 1, maxOutExt: 2}
	if deep {
		dom = digestDomain{vals: []string{"", "A", "AA", "B"}, extVals: []string{"", "A", "AA"}, maxInExt: 2, maxOutExt: 3, twoReqs: true}
	}
	fns := []string{"digest", "txid"}
	dstats := make([]*digestStats, len(versions)*len(fns))
	dcomplete := make([]bool, len(dstats))
	var dwg sync.WaitGroup
	for fi, fn := range fns {
		for i, v := range versions {
			dwg.Add(1)
			go func(slot int, fn string, v int32) {
				defer dwg.Done()
				dstats[slot], dcomplete[slot] = runDigest(fn, v, dom, rep.Expired)
			}(fi*len(versions)+i, fn, v)
		}
	}
	dwg.Wait()
	digestTxs := 0
	digestEvidence := map[string]interface{}{}
	reportedDigestClass := map[string]bool{} // encoding + class, reported for the digest function
	for i, ds := range dstats {
		digestTxs += ds.Txs
		enc := "v3"
		if ds.Version < 3 {
			enc = "json"
		}
		classes := make([]string, 0, len(ds.Best))
		for c := range ds.Best {
			classes = append(classes, c)
		}
		sort.Strings(classes)
		digestEvidence[fmt.Sprintf("%s_version_%d", ds.Func, ds.Version)] = map[string]interface{}{
			"transactions": ds.Txs, "distinct_covered_contents": ds.Distinct, "distinct_hashes": ds.Digests,
			"colliding_transactions": ds.Collisions, "by_slice": ds.BySlice, "collision_classes": ds.ClassCount, "complete": dcomplete[i]}
		for _, c := range classes {
			col := ds.Best[c]
			if strings.HasPrefix(c, "compound:") {
				// a combination of root causes each reported by its own minimal pair
				all := true
				for _, part := range strings.Split(strings.TrimPrefix(c, "compound:"), "+") {
					if _, ok := ds.Best[part]; !ok {
						all = false
					}
				}
				if all {
					continue
				}
			}
			if ds.Func == "digest" {
				reportedDigestClass[enc+"|"+c] = true
			} else if reportedDigestClass[enc+"|"+c] {
				// the id is computed by the same encoder: same root cause, already reported
				continue
			}
			a, b := unwire(col.A), unwire(col.B)
			fname := map[string]string{"digest": "MakeTxDigestHash", "txid": "MakeTransactionID"}[ds.Func]
			rep.Violation(core.Violation{
				Key:      fmt.Sprintf("c07.%s_collision.%s.%s", ds.Func, enc, c),
				Summary:  fmt.Sprintf("version %d: two transactions that differ in covered fields %v share one %s pre-image: %s  vs  %s", ds.Version, col.Fields, fname, compact(a), compact(b)),
				Case:     caseT{Oracle: "digest", Class: ds.Func, Version: ds.Version, TxA: hex.EncodeToString(col.A), TxB: hex.EncodeToString(col.B), Note: compact(a) + " vs " + compact(b)},
				Expected: "different " + fname,
				Observed: "equal " + fname,
			})
		}
	}

	// ---- evidence -----------------------------------------------------------
	var sampleKeys []string
	for k := range total.samples {
		sampleKeys = append(sampleKeys, k)
	}
	sort.Strings(sampleKeys)
	var samples []interface{}
	for _, k := range sampleKeys {
		samples = append(samples, total.samples[k])
	}
	rep.Set("samples", samples)
	var fields []string
	for f := range fieldSet {
		fields = append(fields, f)
	}
	sort.Strings(fields)
	exList := []string{}
	for _, e := range exemptions {
		exList = append(exList, e.Name+" -- "+e.Why)
	}
	exList = append(exList, "Txid -- left inconsistent it must be rejected (checked); recomputed it is the base transaction again",
		"wire-identical mutants (nil vs empty) -- the same protobuf message, counted as identities")
	judged := total.evaluated
	rep.Set("evaluations", judged+spendTotal.attempts+trTotal.Cases+digestTxs)
	rep.Set("distinct_nontrivial", judged+spendTotal.attempts+trTotal.Cases)
	rep.Set("rule", "cases = (accepted base transaction, single-field schema mutation | signature swap/removal/replay/re-sign | forged authorisation, txid left as is | recomputed), enumerated completely in schema order; a case is non-trivial (counted) when the mutant's protobuf wire form differs from the base's and from every earlier mutant of the same base; "+
		"plus spend attempts = (owner kind of an unspent output created by a real transfer in the setup's history, version, initiator = each key of the alphabet | the owner's name itself, every subset of the key alphabet listed in AuthRequire and signing, entry style address | owner/key | owner/member-account/key | owner/never-created-account/key, per-signer | aggregated signature, no contract | carried contract write | the carried contract spends the output on the initiator's behalf), every tuple enumerated in index order, each a distinct correctly signed transaction (counted), accepted only if the reference predicate (harness-evaluated access-control rule; no evaluable rule entitles nobody) authorises it; "+
		"plus contract-spend-record cases = (accepted contract-carrying transaction: the base forms that carry a $vkv request and, on the owner-kind setup, A's 'put k1 x' (the code transfers nothing) and 'xfer B 5' (the code transfers from the initiator), versions 1-3; form = control (foreign unspent output added as input, unclaimed) | claim (the ($transient, ContractUtxo.Inputs) record, created when absent, names the foreign output: appended / prepended / alone / with the outputs record extended too) | alter (entry e of the record: other output with or without the justified TxInput replaced, other owner, amount doubled, amount 1) | drop (inputs record, outputs record, both); foreign output = the first unspent output of every other owner in the setup's funding transactions (thorough: every such output, and claims of two owners' outputs at once)), every tuple enumerated in index order, re-signed by the base's own signers (counted: each a distinct validly signed transaction), accepted only if the reference predicate authorises it, where a record entry justifies an input only if the harness's own execution of the carried requests (Chain.PreExec on a fresh world of the setup) spends from that input's owner; "+
		"the digest domain's transactions are counted in evaluations only")
	{
		var kinds []map[string]interface{}
		var vacuous []string
		for _, k := range ownersLay.kinds {
			how := "plain address / name"
			switch {
			case k.ACL != "":
				how = "account created by $acl NewAccount with rule " + k.ACL
			case k.Raw != "":
				how = "account record stored by a kernel contract: " + k.Raw
			case acctShaped(k.Owner):
				how = "account-shaped name, no record stored"
			}
			kinds = append(kinds, map[string]interface{}{"kind": k.Name, "class": k.Class, "owner": k.Owner, "how": how, "entitled": k.Entitled})
			ks := spendTotal.kind(k.Name)
			if ks.Attempts == 0 || (k.SomeoneEntitled && ks.Accepted-ks.AcceptedNotEntitled == 0) || ks.Rejected == 0 && k.Name != "acct_zero_threshold" {
				vacuous = append(vacuous, k.Name)
			}
		}
		rep.Set("spend_owner_kinds", kinds)
		rep.Set("spend_key_alphabet", spendKeys)
		rep.Set("spend_entry_styles", spendStyles(deep))
		rep.Set("spend_attempts", spendTotal.attempts)
		rep.Set("spend_forms_absent", spendTotal.absent)
		rep.Set("spend_accepted", spendTotal.accepted)
		rep.Set("spend_rejected", spendTotal.rejected)
		rep.Set("spend_reference_entitled", spendTotal.entitled)
		rep.Set("spend_accepted_not_entitled", spendTotal.notEntitledAccepted)
		rep.Set("spend_rejected_though_reference_entitled", spendTotal.rejectedThoughEntitled)
		rep.Set("spend_by_owner_kind", spendTotal.byKind)
		rep.Set("spend_attempts_by_form", spendTotal.byForm)
		rep.Set("spend_accepted_by_form", spendTotal.acceptedByForm)
		rep.Set("spend_vacuous_owner_kinds", vacuous)
		if complete := !rep.HitDeadline(); complete && (spendTotal.accepted-spendTotal.notEntitledAccepted == 0 || spendTotal.rejected == 0) {
			harnessError("C07: the spend-attempt family is vacuous: accepted %d (not entitled %d), rejected %d", spendTotal.accepted, spendTotal.notEntitledAccepted, spendTotal.rejected)
		}
	}
	{
		var tb []map[string]interface{}
		withRec, withoutRec, victimsTotal := 0, 0, 0
		for _, p := range trPlans {
			var vn []string
			for _, v := range p.victims {
				vn = append(vn, v.Name)
			}
			tb = append(tb, map[string]interface{}{"base": p.base.Name, "carries_inputs_record": p.hasXfer, "foreign_outputs": vn, "cases_planned": len(p.specs)})
			victimsTotal += len(p.victims)
			if p.hasXfer {
				withRec++
			} else {
				withoutRec++
			}
		}
		var forms []string
		for _, fm := range trForms {
			forms = append(forms, fm.Form+" ["+fm.Class+"] -- "+fm.What)
		}
		rep.Set("contract_record_bases", tb)
		rep.Set("contract_record_bases_with_record", withRec)
		rep.Set("contract_record_bases_without_record", withoutRec)
		rep.Set("contract_record_bases_dropped", trBaseRejected)
		rep.Set("contract_record_forms", forms)
		rep.Set("contract_record", trTotal)
		if complete := !rep.HitDeadline(); complete {
			switch {
			case withRec == 0 || withoutRec == 0:
				harnessError("C07: the contract-record family is vacuous: bases with a record %d, without %d (dropped: %v)", withRec, withoutRec, trBaseRejected)
			case victimsTotal == 0 || trTotal.ByClass["claim"] == 0 || trTotal.ByClass["alter"] == 0 || trTotal.ByClass["drop"] == 0 || trTotal.ByClass["control"] == 0:
				harnessError("C07: the contract-record family is vacuous: cases by class %v", trTotal.ByClass)
			case trTotal.RejectedByForm["control_unclaimed"] == 0 || trTotal.RefUnauthorised == 0:
				harnessError("C07: the contract-record family is vacuous: no unclaimed foreign input was refused / the reference predicate refuses nothing")
			}
		}
	}
	rep.Set("base_transactions", baseNames)
	rep.Set("base_forms", len(forms))
	rep.Set("base_rejected_dropped", baseRejected)
	rep.Set("base_admitted_by_submit_sequence", submitOK)
	rep.Set("base_reverified_after_run", reverified)
	rep.Set("schema_fields_reached", fields)
	rep.Set("schema_fields_reached_count", len(fields))
	rep.Set("mutations_planned", total.planned)
	rep.Set("mutations_inapplicable", total.inapplicable)
	rep.Set("mutations_identity", total.identity)
	rep.Set("mutations_duplicate_wire", total.duplicate)
	rep.Set("mutants_judged", judged)
	rep.Set("rejected_with_error", total.rejectedErr)
	rep.Set("rejected_bool_only", total.rejectedBool)
	rep.Set("accepted_exempt_field", total.acceptedExempt)
	rep.Set("accepted_covered_field", total.acceptedOther)
	rep.Set("accepted_covered_by_class", total.acceptedBySeverity)
	rep.Set("accepted_semantically_identical", total.semanticIdentity)
	rep.Set("rejected_though_reference_authorised", total.rejectedThoughAuthorised)
	rep.Set("verifytx_panics", total.panics)
	rep.Set("distinct_error_kinds", len(total.errKinds))
	rep.Set("error_kinds", total.errKinds)
	rep.Set("judged_by_edit", total.byEdit)
	rep.Set("judged_by_family", total.byFamily)
	rep.Set("per_base", total.perBase)
	rep.Set("forged_authorisations", total.forged)
	rep.Set("forged_rejected", total.forgedRejected)
	rep.Set("forged_accepted", total.forgedAccepted)
	rep.Set("forged_accepted_and_admitted_by_submit_sequence", total.forgedAdmitted)
	rep.Set("rejected_bool_only_by_setup", total.rejectedBoolBySetup)
	rep.Set("submit_clause_candidates", total.submitChecks)
	rep.Set("submit_clause_admitted", total.submitAdmitted)
	rep.Set("exemptions", exList)
	rep.Set("observations", map[string]interface{}{
		"exempt_mutants_accepted_by_verifytx":        total.exemptAccepted,
		"exempt_mutants_admitted_by_submit_sequence": total.exemptAdmitted,
	})
	rep.Set("digest_clause", digestEvidence)
	rep.Set("digest_domain", fmt.Sprintf("values %q (extension lists: %q plus bucket \"QQ==\"); <=2 inputs, <=2 outputs, <=%d input-ext, <=%d output-ext, scalars, signer lists <=2, HD info, <=%d contract request(s) with args/limits/amount", dom.vals, dom.extVals, dom.maxInExt, dom.maxOutExt, map[bool]int{false: 1, true: 2}[dom.twoReqs]))
	complete := !rep.HitDeadline()
	for _, c := range dcomplete {
		complete = complete && c
	}
	rep.Set("exhaustive", complete)
	rep.Assume("ECDSA / multi-signature primitives of github.com/xuperchain/crypto and SHA-256 are trusted (equal digests are read as equal pre-images)")
	rep.Assume("the fixture world (in-memory kv engine, xkernel contracts only, single-miner genesis) stands for a node; VerifyTx is observed on a world whose pool is empty")
	rep.Assume("block-path acceptance (verifyDAGTxs) is out of scope here (observed by C13)")
	rep.Assume("aggregated-signature base forms are created offline with the crypto client's multi-signature step API (nonces derived from key and message); account forms use an account created by the real $acl NewAccount method and confirmed in block 1; the 'marked' setup marks a confirmed transaction through Ledger.UpdateBlockChainData, which no other xupercore code calls")
	rep.Assume("setup 'owners': accounts are created by the real $acl NewAccount method; the records $acl refuses to store (no permission model, rule NULL / unimplemented / unknown, unparsable) are written into the account bucket by the harness kernel contract $vkv and stand for a record left by other code; every owner kind is paid by a real transfer confirmed in block 1; a zero-threshold rule entitles everybody (the rule's own arithmetic), observed, not judged")
	rep.Assume("contract-justified spends: the carried contract is the harness kernel contract $vkv, whose 'xfer' transfers from the initiator as the bridge Transfer call does; what the carried code spends is taken from the node's own pre-execution (Chain.PreExec) of the carried requests on a fresh world of the same setup")
	rep.Assume("no exemption was needed for $transient TxOutputsExt entries: they are covered by the digest, their mutants are rejected")
	return rep
}

// compact renders the covered content of a small transaction for summaries.
func compact(tx *pb.Transaction) string {
	if tx == nil {
		return "<nil>"
	}
	var p []string
	for _, in := range tx.TxInputs {
		p = append(p, fmt.Sprintf("in{ref:%q off:%d from:%q amt:%q frz:%d}", in.RefTxid, in.RefOffset, in.FromAddr, in.Amount, in.FrozenHeight))
	}
	for _, o := range tx.TxOutputs {
		p = append(p, fmt.Sprintf("out{amt:%q to:%q frz:%d}", o.Amount, o.ToAddr, o.FrozenHeight))
	}
	if len(tx.Desc) > 0 {
		p = append(p, fmt.Sprintf("desc:%q", tx.Desc))
	}
	if tx.Nonce != "" {
		p = append(p, fmt.Sprintf("nonce:%q", tx.Nonce))
	}
	for _, in := range tx.TxInputsExt {
		p = append(p, fmt.Sprintf("inext{bucket:%q key:%q ref:%q off:%d}", in.Bucket, in.Key, in.RefTxid, in.RefOffset))
	}
	for _, o := range tx.TxOutputsExt {
		p = append(p, fmt.Sprintf("outext{bucket:%q key:%q value:%q}", o.Bucket, o.Key, o.Value))
	}
	for _, r := range tx.ContractRequests {
		p = append(p, fmt.Sprintf("req{%s}", proto.CompactTextString(r)))
	}
	if tx.Initiator != "" {
		p = append(p, fmt.Sprintf("initiator:%q", tx.Initiator))
	}
	if len(tx.AuthRequire) > 0 {
		p = append(p, fmt.Sprintf("auth:%q", tx.AuthRequire))
	}
	if tx.HDInfo != nil {
		p = append(p, fmt.Sprintf("hd{%q,%q}", tx.HDInfo.HdPublicKey, tx.HDInfo.OriginalHash))
	}
	return fmt.Sprintf("v%d[%s]", tx.Version, strings.Join(p, " "))
}
