package c07

import (
	"crypto/sha256"
	"encoding/binary"
	"fmt"
	"sort"
	"strings"

	"github.com/golang/protobuf/proto"

	"github.com/xuperchain/xupercore/bcs/ledger/xledger/state/utxo/txhash"
	pb "github.com/xuperchain/xupercore/bcs/ledger/xledger/xldgpb"
	"github.com/xuperchain/xupercore/protos"
)

// ---------------------------------------------------------------------------
// Digest clause: transactions that differ in a covered field never share a
// digest pre-image. The digest is double SHA-256 of the pre-image, so equal
// digests of two enumerated transactions mean equal pre-images (SHA-256
// collision resistance is the only assumption).

// canon is the harness's own injective encoding of the covered content of a
// transaction: every field the statement calls covered, each value length
// prefixed, each list count prefixed, nil and empty identified (they are the
// same protobuf message). Not covered: Txid, Blockid, ReceivedTimestamp,
// ModifyBlock, the signature fields (they are what signs the digest) and, for
// version 1 only, HDInfo (introduced with version 2).
func canon(tx *pb.Transaction) string {
	var b strings.Builder
	var ib [8]byte
	num := func(x int64) {
		binary.BigEndian.PutUint64(ib[:], uint64(x))
		b.Write(ib[:])
	}
	str := func(s string) {
		num(int64(len(s)))
		b.WriteString(s)
	}
	bl := func(x bool) {
		if x {
			num(1)
		} else {
			num(0)
		}
	}
	num(int64(tx.Version))
	num(int64(len(tx.TxInputs)))
	for _, in := range tx.TxInputs {
		str(string(in.RefTxid))
		num(int64(in.RefOffset))
		str(string(in.FromAddr))
		str(string(in.Amount))
		num(in.FrozenHeight)
	}
	num(int64(len(tx.TxOutputs)))
	for _, o := range tx.TxOutputs {
		str(string(o.Amount))
		str(string(o.ToAddr))
		num(o.FrozenHeight)
	}
	str(string(tx.Desc))
	bl(tx.Coinbase)
	str(tx.Nonce)
	num(tx.Timestamp)
	bl(tx.Autogen)
	num(int64(len(tx.TxInputsExt)))
	for _, in := range tx.TxInputsExt {
		str(in.Bucket)
		str(string(in.Key))
		str(string(in.RefTxid))
		num(int64(in.RefOffset))
	}
	num(int64(len(tx.TxOutputsExt)))
	for _, o := range tx.TxOutputsExt {
		str(o.Bucket)
		str(string(o.Key))
		str(string(o.Value))
	}
	num(int64(len(tx.ContractRequests)))
	for _, r := range tx.ContractRequests {
		str(r.ModuleName)
		str(r.ContractName)
		str(r.MethodName)
		keys := make([]string, 0, len(r.Args))
		for k := range r.Args {
			keys = append(keys, k)
		}
		sort.Strings(keys)
		num(int64(len(keys)))
		for _, k := range keys {
			str(k)
			str(string(r.Args[k]))
		}
		num(int64(len(r.ResourceLimits)))
		for _, l := range r.ResourceLimits {
			num(int64(l.Type))
			num(l.Limit)
		}
		str(r.Amount)
	}
	str(tx.Initiator)
	num(int64(len(tx.AuthRequire)))
	for _, a := range tx.AuthRequire {
		str(a)
	}
	if tx.Version >= 2 {
		str(string(tx.GetHDInfo().GetHdPublicKey()))
		str(string(tx.GetHDInfo().GetOriginalHash()))
	}
	return b.String()
}

// sigCanon is the same kind of encoding of the signature fields (the
// transaction id covers them in addition to the digest's content).
func sigCanon(tx *pb.Transaction) string {
	var b strings.Builder
	var ib [8]byte
	num := func(x int64) {
		binary.BigEndian.PutUint64(ib[:], uint64(x))
		b.Write(ib[:])
	}
	str := func(s string) {
		num(int64(len(s)))
		b.WriteString(s)
	}
	for _, l := range [][]*protos.SignatureInfo{tx.InitiatorSigns, tx.AuthRequireSigns} {
		num(int64(len(l)))
		for _, s := range l {
			str(s.PublicKey)
			str(string(s.Sign))
		}
	}
	num(int64(len(tx.GetXuperSign().GetPublicKeys())))
	for _, k := range tx.GetXuperSign().GetPublicKeys() {
		str(string(k))
	}
	str(string(tx.GetXuperSign().GetSignature()))
	return b.String()
}

// diffFields names the covered schema fields in which two transactions differ.
func diffFields(a, b *pb.Transaction) []string {
	set := map[string]bool{}
	mark := func(name string, differs bool) {
		if differs {
			set[name] = true
		}
	}
	mark("Version", a.Version != b.Version)
	if len(a.TxInputs) != len(b.TxInputs) {
		set["len(TxInputs)"] = true
	}
	for i := 0; i < len(a.TxInputs) && i < len(b.TxInputs); i++ {
		x, y := a.TxInputs[i], b.TxInputs[i]
		mark("TxInputs[].RefTxid", string(x.RefTxid) != string(y.RefTxid))
		mark("TxInputs[].RefOffset", x.RefOffset != y.RefOffset)
		mark("TxInputs[].FromAddr", string(x.FromAddr) != string(y.FromAddr))
		mark("TxInputs[].Amount", string(x.Amount) != string(y.Amount))
		mark("TxInputs[].FrozenHeight", x.FrozenHeight != y.FrozenHeight)
	}
	if len(a.TxOutputs) != len(b.TxOutputs) {
		set["len(TxOutputs)"] = true
	}
	for i := 0; i < len(a.TxOutputs) && i < len(b.TxOutputs); i++ {
		x, y := a.TxOutputs[i], b.TxOutputs[i]
		mark("TxOutputs[].Amount", string(x.Amount) != string(y.Amount))
		mark("TxOutputs[].ToAddr", string(x.ToAddr) != string(y.ToAddr))
		mark("TxOutputs[].FrozenHeight", x.FrozenHeight != y.FrozenHeight)
	}
	mark("Desc", string(a.Desc) != string(b.Desc))
	mark("Coinbase", a.Coinbase != b.Coinbase)
	mark("Nonce", a.Nonce != b.Nonce)
	mark("Timestamp", a.Timestamp != b.Timestamp)
	mark("Autogen", a.Autogen != b.Autogen)
	if len(a.TxInputsExt) != len(b.TxInputsExt) {
		set["len(TxInputsExt)"] = true
	}
	for i := 0; i < len(a.TxInputsExt) && i < len(b.TxInputsExt); i++ {
		x, y := a.TxInputsExt[i], b.TxInputsExt[i]
		mark("TxInputsExt[].Bucket", x.Bucket != y.Bucket)
		mark("TxInputsExt[].Key", string(x.Key) != string(y.Key))
		mark("TxInputsExt[].RefTxid", string(x.RefTxid) != string(y.RefTxid))
		mark("TxInputsExt[].RefOffset", x.RefOffset != y.RefOffset)
	}
	if len(a.TxOutputsExt) != len(b.TxOutputsExt) {
		set["len(TxOutputsExt)"] = true
	}
	for i := 0; i < len(a.TxOutputsExt) && i < len(b.TxOutputsExt); i++ {
		x, y := a.TxOutputsExt[i], b.TxOutputsExt[i]
		mark("TxOutputsExt[].Bucket", x.Bucket != y.Bucket)
		mark("TxOutputsExt[].Key", string(x.Key) != string(y.Key))
		mark("TxOutputsExt[].Value", string(x.Value) != string(y.Value))
	}
	ra, rb := &pb.Transaction{Version: 3, ContractRequests: a.ContractRequests}, &pb.Transaction{Version: 3, ContractRequests: b.ContractRequests}
	mark("ContractRequests", canon(ra) != canon(rb))
	mark("Initiator", a.Initiator != b.Initiator)
	mark("AuthRequire", strings.Join(a.AuthRequire, "\x00")+fmt.Sprint(len(a.AuthRequire)) != strings.Join(b.AuthRequire, "\x00")+fmt.Sprint(len(b.AuthRequire)))
	mark("HDInfo", string(a.GetHDInfo().GetHdPublicKey()) != string(b.GetHDInfo().GetHdPublicKey()) ||
		string(a.GetHDInfo().GetOriginalHash()) != string(b.GetHDInfo().GetOriginalHash()))
	mark("signatures", sigCanon(a) != sigCanon(b))
	var out []string
	for k := range set {
		out = append(out, k)
	}
	sort.Strings(out)
	return out
}

// collisionClass maps the differing fields to a root-cause name. A pair that
// combines several known root causes is named "compound:<a>+<b>".
func collisionClass(fields []string) string {
	group := map[string]string{
		"TxInputs[].FromAddr": "in", "TxInputs[].Amount": "in",
		"TxInputsExt[].Key": "inext", "TxInputsExt[].RefTxid": "inext",
		"TxOutputsExt[].Bucket": "outext", "TxOutputsExt[].Key": "outext", "TxOutputsExt[].Value": "outext", "len(TxOutputsExt)": "outext",
	}
	touched := map[string][]string{}
	for _, f := range fields {
		g, ok := group[f]
		if !ok {
			// unforeseen: name the fields
			s := strings.Join(fields, "+")
			return "fields." + strings.NewReplacer("[]", "", "(", "_", ")", "").Replace(s)
		}
		touched[g] = append(touched[g], f)
	}
	var parts []string
	if _, ok := touched["in"]; ok {
		parts = append(parts, "empty_field_shift.TxInput.FromAddr_Amount")
	}
	if _, ok := touched["inext"]; ok {
		parts = append(parts, "empty_field_shift.TxInputExt.Key_RefTxid")
	}
	if fs, ok := touched["outext"]; ok {
		onlyKV := true
		for _, f := range fs {
			if f != "TxOutputsExt[].Key" && f != "TxOutputsExt[].Value" {
				onlyKV = false
			}
		}
		if onlyKV {
			parts = append(parts, "empty_field_shift.TxOutputExt.Key_Value")
		} else {
			parts = append(parts, "unterminated_list.TxOutputsExt")
		}
	}
	if len(parts) == 1 {
		return parts[0]
	}
	return "compound:" + strings.Join(parts, "+")
}

// ---- domain -----------------------------------------------------------------

type digestDomain struct {
	vals      []string // value domain of every string / bytes field
	extVals   []string // value domain inside the extension lists
	maxInExt  int
	maxOutExt int
	twoReqs   bool
}

func lists(n int, k int) [][]int {
	// all index lists over [0,n) of length 0..k in length-then-lexicographic order
	out := [][]int{{}}
	prev := [][]int{{}}
	for l := 1; l <= k; l++ {
		var cur [][]int
		for _, p := range prev {
			for i := 0; i < n; i++ {
				cur = append(cur, append(append([]int{}, p...), i))
			}
		}
		out = append(out, cur...)
		prev = cur
	}
	return out
}

func (d digestDomain) inputs() []*protos.TxInput {
	var out []*protos.TxInput
	for _, r := range d.vals {
		for off := int32(0); off < 2; off++ {
			for _, f := range d.vals {
				for _, a := range d.vals {
					for fr := int64(0); fr < 2; fr++ {
						out = append(out, &protos.TxInput{RefTxid: []byte(r), RefOffset: off, FromAddr: []byte(f), Amount: []byte(a), FrozenHeight: fr})
					}
				}
			}
		}
	}
	return out
}

func (d digestDomain) outputs() []*protos.TxOutput {
	var out []*protos.TxOutput
	for _, a := range d.vals {
		for _, t := range d.vals {
			for fr := int64(0); fr < 2; fr++ {
				out = append(out, &protos.TxOutput{Amount: []byte(a), ToAddr: []byte(t), FrozenHeight: fr})
			}
		}
	}
	return out
}

func (d digestDomain) inExts() []*protos.TxInputExt {
	var out []*protos.TxInputExt
	for _, b := range d.extVals {
		for _, k := range d.extVals {
			for _, r := range d.extVals {
				for off := int32(0); off < 2; off++ {
					out = append(out, &protos.TxInputExt{Bucket: b, Key: []byte(k), RefTxid: []byte(r), RefOffset: off})
				}
			}
		}
	}
	return out
}

func (d digestDomain) outExts() []*protos.TxOutputExt {
	var out []*protos.TxOutputExt
	// "QQ==" is the JSON (base64) rendering of the bytes "A": a bucket name that
	// looks like an encoded key / value
	for _, b := range append(append([]string{}, d.extVals...), "QQ==") {
		for _, k := range d.extVals {
			for _, v := range d.extVals {
				out = append(out, &protos.TxOutputExt{Bucket: b, Key: []byte(k), Value: []byte(v)})
			}
		}
	}
	return out
}

func argSets() []map[string][]byte {
	return []map[string][]byte{nil, {"": []byte("")}, {"A": []byte("")}, {"": []byte("A")}, {"A": []byte("A")},
		{"A": []byte(""), "AA": []byte("")}, {"A": []byte("AA")}, {"AA": []byte("A")}, {"A": []byte("A"), "": []byte("A")}}
}

func limitSets() [][]*protos.ResourceLimit {
	l := func(t int32, n int64) *protos.ResourceLimit {
		return &protos.ResourceLimit{Type: protos.ResourceType(t), Limit: n}
	}
	return [][]*protos.ResourceLimit{nil, {l(0, 0)}, {l(0, 1)}, {l(1, 0)}, {l(1, 1)}, {l(0, 0), l(0, 0)}, {l(0, 1), l(1, 0)}, {l(1, 0), l(0, 1)}}
}

func (d digestDomain) requests(small bool) []*protos.InvokeRequest {
	var out []*protos.InvokeRequest
	names := []string{"", "A"}
	args, lims, amts := argSets(), limitSets(), d.vals
	mods := names
	meths := names
	if small {
		mods, meths = []string{""}, []string{""}
		args = []map[string][]byte{nil, {"A": []byte("A")}, {"A": []byte("")}}
		lims = [][]*protos.ResourceLimit{nil, lims[1], lims[4]}
		amts = []string{"", "A"}
	}
	for _, m := range mods {
		for _, c := range names {
			for _, me := range meths {
				for _, a := range args {
					for _, l := range lims {
						for _, am := range amts {
							out = append(out, &protos.InvokeRequest{ModuleName: m, ContractName: c, MethodName: me, Args: a, ResourceLimits: l, Amount: am})
						}
					}
				}
			}
		}
	}
	return out
}

// generate calls f with every transaction of the domain for one version, in a
// fixed order. The transaction passed is freshly allocated at the top level; its
// elements are shared read-only.
func (d digestDomain) generate(version int32, f func(slice string, tx *pb.Transaction)) {
	ins, outs, ies, oes := d.inputs(), d.outputs(), d.inExts(), d.outExts()
	pickIn := func(ix []int) []*protos.TxInput {
		var l []*protos.TxInput
		for _, i := range ix {
			l = append(l, ins[i])
		}
		return l
	}
	pickOut := func(ix []int) []*protos.TxOutput {
		var l []*protos.TxOutput
		for _, i := range ix {
			l = append(l, outs[i])
		}
		return l
	}
	pickIE := func(ix []int) []*protos.TxInputExt {
		var l []*protos.TxInputExt
		for _, i := range ix {
			l = append(l, ies[i])
		}
		return l
	}
	pickOE := func(ix []int) []*protos.TxOutputExt {
		var l []*protos.TxOutputExt
		for _, i := range ix {
			l = append(l, oes[i])
		}
		return l
	}
	fixedIn := []*protos.TxInput{{RefTxid: []byte("A"), FromAddr: []byte("A"), Amount: []byte("A")}}
	fixedOut := []*protos.TxOutput{{Amount: []byte("A"), ToAddr: []byte("A")}}
	// S1: inputs section
	for _, ix := range lists(len(ins), 2) {
		for _, o := range [][]*protos.TxOutput{nil, fixedOut} {
			f("inputs", &pb.Transaction{Version: version, TxInputs: pickIn(ix), TxOutputs: o})
		}
	}
	// S2: outputs section and the Desc / Nonce boundary
	for _, ox := range lists(len(outs), 2) {
		for _, de := range d.vals {
			for _, no := range d.vals {
				for _, in := range [][]*protos.TxInput{nil, fixedIn} {
					f("outputs", &pb.Transaction{Version: version, TxInputs: in, TxOutputs: pickOut(ox), Desc: []byte(de), Nonce: no})
				}
			}
		}
	}
	// S3: extension sections
	for _, iex := range lists(len(ies), 1) {
		for _, oex := range lists(len(oes), 2) {
			f("ext", &pb.Transaction{Version: version, TxInputsExt: pickIE(iex), TxOutputsExt: pickOE(oex)})
		}
	}
	if d.maxInExt >= 2 {
		for _, iex := range lists(len(ies), 2) {
			if len(iex) < 2 {
				continue
			}
			for _, oex := range lists(len(oes), 1) {
				f("ext", &pb.Transaction{Version: version, TxInputsExt: pickIE(iex), TxOutputsExt: pickOE(oex)})
			}
		}
	}
	if d.maxOutExt >= 3 {
		for _, oex := range lists(len(oes), 3) {
			if len(oex) < 3 {
				continue
			}
			f("ext", &pb.Transaction{Version: version, TxOutputsExt: pickOE(oex)})
		}
	}
	// S4: scalar fields, signers, HD info
	hds := []*pb.HDInfo{nil, {}, {HdPublicKey: []byte("A")}, {OriginalHash: []byte("A")}, {HdPublicKey: []byte("A"), OriginalHash: []byte("A")},
		{HdPublicKey: []byte("AA")}, {OriginalHash: []byte("AA")}}
	var auths [][]string
	for _, ix := range lists(len(d.vals), 2) {
		var l []string
		for _, i := range ix {
			l = append(l, d.vals[i])
		}
		auths = append(auths, l)
	}
	for _, de := range d.vals {
		for _, no := range d.vals {
			for ts := int64(0); ts < 2; ts++ {
				for cb := 0; cb < 2; cb++ {
					for ag := 0; ag < 2; ag++ {
						for _, ini := range d.vals {
							for _, au := range auths {
								for _, hd := range hds {
									f("scalars", &pb.Transaction{Version: version, Desc: []byte(de), Nonce: no, Timestamp: ts, Coinbase: cb == 1, Autogen: ag == 1,
										Initiator: ini, AuthRequire: au, HDInfo: hd})
								}
							}
						}
					}
				}
			}
		}
	}
	// S5: contract requests
	reqs := d.requests(false)
	for _, ini := range []string{"", "A"} {
		for _, oe := range [][]*protos.TxOutputExt{nil, {{Bucket: "A", Key: []byte("A"), Value: []byte("A")}}} {
			f("requests", &pb.Transaction{Version: version, Initiator: ini, TxOutputsExt: oe})
			for _, r := range reqs {
				f("requests", &pb.Transaction{Version: version, Initiator: ini, TxOutputsExt: oe, ContractRequests: []*protos.InvokeRequest{r}})
			}
		}
	}
	// S6: signature fields (only the transaction id covers them)
	var sis []*protos.SignatureInfo
	for _, pk := range []string{"", "A"} {
		for _, sg := range []string{"", "A"} {
			sis = append(sis, &protos.SignatureInfo{PublicKey: pk, Sign: []byte(sg)})
		}
	}
	pickSI := func(ix []int) []*protos.SignatureInfo {
		var l []*protos.SignatureInfo
		for _, i := range ix {
			l = append(l, sis[i])
		}
		return l
	}
	xss := []*pb.XuperSignature{nil, {PublicKeys: [][]byte{[]byte("")}}, {PublicKeys: [][]byte{[]byte("A")}}, {Signature: []byte("A")},
		{PublicKeys: [][]byte{[]byte("A")}, Signature: []byte("A")}, {PublicKeys: [][]byte{[]byte(""), []byte("A")}}, {PublicKeys: [][]byte{[]byte("A"), []byte("")}}}
	for _, ix := range lists(len(sis), 2) {
		for _, ax := range lists(len(sis), 2) {
			for _, xs := range xss {
				f("signatures", &pb.Transaction{Version: version, InitiatorSigns: pickSI(ix), AuthRequireSigns: pickSI(ax), XuperSign: xs})
			}
		}
	}
	if d.twoReqs {
		sm := d.requests(true)
		for _, r1 := range sm {
			for _, r2 := range sm {
				f("requests", &pb.Transaction{Version: version, ContractRequests: []*protos.InvokeRequest{r1, r2}})
			}
		}
	}
}

func without(l []string, x string) []string {
	var out []string
	for _, s := range l {
		if s != x {
			out = append(out, s)
		}
	}
	return out
}

type collision struct {
	Version int32
	Class   string
	Fields  []string
	A, B    []byte // wire forms
}

type digestStats struct {
	Func       string // digest | txid
	Version    int32
	Txs        int
	Distinct   int // distinct covered contents (canon)
	Digests    int // distinct digests
	Collisions int // transactions whose digest equals that of a different covered content
	BySlice    map[string]int
	Best       map[string]*collision // minimal pair per class
	ClassCount map[string]int
}

// runDigest enumerates one version's domain for MakeTxDigestHash (fn "digest")
// or MakeTransactionID (fn "txid": the covered content then includes the
// signature fields).
func runDigest(fn string, version int32, d digestDomain, expired func() bool) (*digestStats, bool) {
	st := &digestStats{Func: fn, Version: version, BySlice: map[string]int{}, Best: map[string]*collision{}, ClassCount: map[string]int{}}
	type ent struct {
		wire  []byte
		canon [32]byte
	}
	seen := map[[32]byte]*ent{}
	canons := map[[32]byte]bool{}
	complete := true
	n := 0
	d.generate(version, func(slice string, tx *pb.Transaction) {
		if !complete {
			return
		}
		n++
		if n%4096 == 0 && expired() {
			complete = false
			return
		}
		st.Txs++
		st.BySlice[slice]++
		var dg []byte
		var err error
		cs := canon(tx)
		if fn == "txid" {
			dg, err = txhash.MakeTransactionID(tx)
			cs += sigCanon(tx)
		} else {
			dg, err = txhash.MakeTxDigestHash(tx)
		}
		if err != nil || len(dg) != 32 {
			return
		}
		var k [32]byte
		copy(k[:], dg)
		c := sha256.Sum256([]byte(cs))
		canons[c] = true
		e, ok := seen[k]
		if !ok {
			w, _ := proto.Marshal(tx)
			seen[k] = &ent{wire: w, canon: c}
			return
		}
		if e.canon == c {
			return
		}
		st.Collisions++
		other := &pb.Transaction{}
		if err := proto.Unmarshal(e.wire, other); err != nil {
			return
		}
		fields := diffFields(other, tx)
		if fn != "txid" {
			fields = without(fields, "signatures")
		}
		class := collisionClass(fields)
		st.ClassCount[class]++
		w, _ := proto.Marshal(tx)
		cand := &collision{Version: version, Class: class, Fields: fields, A: e.wire, B: w}
		if best, ok := st.Best[class]; !ok || len(cand.A)+len(cand.B) < len(best.A)+len(best.B) {
			st.Best[class] = cand
		}
	})
	st.Distinct = len(canons)
	st.Digests = len(seen)
	return st, complete
}
