// Package c07 holds the check for property C07.
package c07
