package c07

import (
	"crypto/ecdsa"
	"crypto/sha256"
	"encoding/json"
	"fmt"
	"math/big"
	"strings"

	"github.com/golang/protobuf/proto"

	pb "github.com/xuperchain/xupercore/bcs/ledger/xledger/xldgpb"
	"github.com/xuperchain/xupercore/protos"

	"verif/world"
)

// ---------------------------------------------------------------------------
// crypto helpers (everything through the repository's crypto client)

// multiSign is the client's MultiSign with nonces derived from key and message
// instead of the system random source (same algebra, step API of the client).
func multiSign(privs []*ecdsa.PrivateKey, msg []byte) ([]byte, error) {
	if len(privs) == 0 {
		return nil, fmt.Errorf("no keys")
	}
	c := world.Crypto
	var ks, ris [][]byte
	var pubs []*ecdsa.PublicKey
	for i, p := range privs {
		h := sha256.Sum256(append(append(p.D.Bytes(), msg...), byte(i)))
		ks = append(ks, h[:])
		ris = append(ris, c.GetRiUsingRandomBytes(&p.PublicKey, h[:]))
		pubs = append(pubs, &p.PublicKey)
	}
	r := c.GetRUsingAllRi(pubs[0], ris)
	cc, err := c.GetSharedPublicKeyForPublicKeys(pubs)
	if err != nil {
		return nil, err
	}
	var sis [][]byte
	for i, p := range privs {
		sis = append(sis, c.GetSiUsingKCRM(p, ks[i], cc, r, msg))
	}
	return c.GenerateMultiSignSignature(c.GetSUsingAllSi(sis), r)
}

// soloMultiSign signs with ONE private key x against the aggregate public key
// of pubs (used with a rogue key: pubs sums to x*G).
func soloMultiSign(x *ecdsa.PrivateKey, pubs []*ecdsa.PublicKey, msg []byte) ([]byte, error) {
	c := world.Crypto
	h := sha256.Sum256(append(append(x.D.Bytes(), msg...), 0x77))
	ri := c.GetRiUsingRandomBytes(&x.PublicKey, h[:])
	r := c.GetRUsingAllRi(&x.PublicKey, [][]byte{ri})
	cc, err := c.GetSharedPublicKeyForPublicKeys(pubs)
	if err != nil {
		return nil, err
	}
	si := c.GetSiUsingKCRM(x, h[:], cc, r, msg)
	return c.GenerateMultiSignSignature(c.GetSUsingAllSi([][]byte{si}), r)
}

type extraSigner interface {
	SignV2ECDSA(k *ecdsa.PrivateKey, msg []byte) ([]byte, error)
	SignSchnorr(k *ecdsa.PrivateKey, msg []byte) ([]byte, error)
}

// pubJSONOf renders an arbitrary public key in the client's JSON key format.
func pubJSONOf(pub *ecdsa.PublicKey) (string, error) {
	var m map[string]interface{}
	if err := json.Unmarshal([]byte(world.Keys["A"].PubJSON), &m); err != nil {
		return "", err
	}
	if _, ok := m["X"]; !ok {
		return "", fmt.Errorf("unexpected public key format")
	}
	// numbers are rendered as JSON numbers (big.Int marshals as a number)
	m["X"] = json.RawMessage(pub.X.String())
	m["Y"] = json.RawMessage(pub.Y.String())
	out, err := json.Marshal(m)
	if err != nil {
		return "", err
	}
	// check the client parses it back to the same point
	back, err := world.Crypto.GetEcdsaPublicKeyFromJsonStr(string(out))
	if err != nil {
		return "", err
	}
	if back.X.Cmp(pub.X) != 0 || back.Y.Cmp(pub.Y) != 0 {
		return "", fmt.Errorf("public key JSON does not round trip")
	}
	return string(out), nil
}

// rogueKey returns K' = x*G - sum(victims): with public keys {K', victims...}
// the aggregate key is x*G, whose private key x the attacker holds.
func rogueKey(x *ecdsa.PrivateKey, victims []*ecdsa.PublicKey) *ecdsa.PublicKey {
	curve := x.Curve
	rx, ry := new(big.Int).Set(x.PublicKey.X), new(big.Int).Set(x.PublicKey.Y)
	for _, v := range victims {
		ny := new(big.Int).Sub(curve.Params().P, v.Y)
		ny.Mod(ny, curve.Params().P)
		rx, ry = curve.Add(rx, ry, v.X, ny)
	}
	return &ecdsa.PublicKey{Curve: curve, X: rx, Y: ry}
}

// ---------------------------------------------------------------------------
// signature family: swap / removal / replay / re-sign

type sigSlot struct {
	Path fpath
}

func sigSlots(tx *pb.Transaction) []sigSlot {
	var out []sigSlot
	for i := range tx.InitiatorSigns {
		out = append(out, sigSlot{fpath{{"InitiatorSigns", i}}})
	}
	for i := range tx.AuthRequireSigns {
		out = append(out, sigSlot{fpath{{"AuthRequireSigns", i}}})
	}
	return out
}

func slotGet(tx *pb.Transaction, s sigSlot) *protos.SignatureInfo {
	if s.Path[0].Field == "InitiatorSigns" {
		return tx.InitiatorSigns[s.Path[0].Idx]
	}
	return tx.AuthRequireSigns[s.Path[0].Idx]
}

func slotSet(tx *pb.Transaction, s sigSlot, v *protos.SignatureInfo) {
	if s.Path[0].Field == "InitiatorSigns" {
		tx.InitiatorSigns[s.Path[0].Idx] = v
	} else {
		tx.AuthRequireSigns[s.Path[0].Idx] = v
	}
}

var resignKeys = []string{"A", "B", "C", "D", "X"}

// enumSig lists the signature-level mutations of base b given all bases.
func enumSig(b *baseTx, all []*baseTx) []mutation {
	var out []mutation
	tx := b.Tx
	slots := sigSlots(tx)
	add := func(p fpath, edit, arg string, f func(tx *pb.Transaction)) {
		out = append(out, mutation{Path: p, Edit: edit, Arg: arg, Family: "sig", apply: f})
	}
	// swaps between any two slots
	for i := 0; i < len(slots); i++ {
		for j := i + 1; j < len(slots); j++ {
			si, sj := slots[i], slots[j]
			add(si.Path, "sig_swap", sj.Path.String(), func(t *pb.Transaction) {
				a, c := slotGet(t, si), slotGet(t, sj)
				slotSet(t, si, c)
				slotSet(t, sj, a)
			})
		}
	}
	// removal of each signature (also reached by the schema walk as list drop)
	for _, s := range slots {
		s := s
		add(s.Path, "sig_remove", "", func(t *pb.Transaction) {
			if s.Path[0].Field == "InitiatorSigns" {
				t.InitiatorSigns = append(append([]*protos.SignatureInfo{}, t.InitiatorSigns[:s.Path[0].Idx]...), t.InitiatorSigns[s.Path[0].Idx+1:]...)
			} else {
				t.AuthRequireSigns = append(append([]*protos.SignatureInfo{}, t.AuthRequireSigns[:s.Path[0].Idx]...), t.AuthRequireSigns[s.Path[0].Idx+1:]...)
			}
		})
		// blank the signature but keep the slot (count stays consistent)
		add(s.Path, "sig_blank", "", func(t *pb.Transaction) { slotSet(t, s, &protos.SignatureInfo{}) })
	}
	// replay of each distinct signature of each other base
	for _, o := range all {
		if o == b {
			continue
		}
		seen := map[string]bool{}
		for _, os := range sigSlots(o.Tx) {
			src := slotGet(o.Tx, os)
			k := src.PublicKey + string(src.Sign)
			if seen[k] {
				continue
			}
			seen[k] = true
			for _, s := range slots {
				s := s
				add(s.Path, "sig_replay", o.Name+":"+os.Path.String(), func(t *pb.Transaction) {
					slotSet(t, s, proto.Clone(src).(*protos.SignatureInfo))
				})
			}
		}
		if o.Tx.XuperSign != nil && tx.XuperSign != nil {
			src := o.Tx.XuperSign
			add(fpath{{"XuperSign", -1}}, "sig_replay", o.Name, func(t *pb.Transaction) {
				t.XuperSign = proto.Clone(src).(*pb.XuperSignature)
			})
			add(fpath{{"XuperSign", -1}, {"Signature", -1}}, "sig_replay", o.Name, func(t *pb.Transaction) {
				t.XuperSign.Signature = append([]byte{}, src.Signature...)
			})
		}
	}
	// re-signing each slot with each other key over the correct digest
	for _, s := range slots {
		s := s
		orig := slotGet(tx, s).PublicKey
		for _, kn := range resignKeys {
			kn := kn
			if world.Keys[kn].PubJSON == orig {
				continue // the rightful signer signing again is not a mutation
			}
			if s.Path[0].Field == "InitiatorSigns" && isAccountName(tx.Initiator) && contains(b.Members, kn) {
				continue // another member of the initiator account holds authority of its own
			}
			add(s.Path, "resign_full", kn, func(t *pb.Transaction) { slotSet(t, s, signInfo(kn, mustDigest(t))) })
			add(s.Path, "resign_keep_pubkey", kn, func(t *pb.Transaction) {
				si := signInfo(kn, mustDigest(t))
				si.PublicKey = orig
				slotSet(t, s, si)
			})
		}
	}
	// every slot re-signed by one other key at once
	if len(slots) > 0 {
		for _, kn := range resignKeys {
			kn := kn
			only := true
			for _, s := range slots {
				if slotGet(tx, s).PublicKey != world.Keys[kn].PubJSON {
					only = false
				}
			}
			if only {
				continue // kn is the sole rightful signer
			}
			add(fpath{{"InitiatorSigns", -1}}, "resign_all_slots", kn, func(t *pb.Transaction) {
				si := signInfo(kn, mustDigest(t))
				for _, s := range sigSlots(t) {
					slotSet(t, s, proto.Clone(si).(*protos.SignatureInfo))
				}
			})
		}
	}
	// aggregated form: other signer sets and other signature schemes
	if tx.XuperSign != nil {
		sp := fpath{{"XuperSign", -1}, {"Signature", -1}}
		names := uniqueNames(append(append([]string{}, b.Plan.Initiator...), b.Plan.Auth...))
		es, _ := world.Crypto.(extraSigner)
		for _, kn := range resignKeys {
			kn := kn
			k := world.Keys[kn]
			add(sp, "xs_ecdsa_single", kn, func(t *pb.Transaction) {
				sg, err := world.Crypto.SignECDSA(k.Priv, mustDigest(t))
				if err != nil {
					panic(err)
				}
				t.XuperSign.Signature = sg
			})
			if es != nil {
				add(sp, "xs_v2ecdsa_single", kn, func(t *pb.Transaction) {
					sg, err := es.SignV2ECDSA(k.Priv, mustDigest(t))
					if err != nil {
						panic(err)
					}
					t.XuperSign.Signature = sg
				})
				add(sp, "xs_schnorr_single", kn, func(t *pb.Transaction) {
					sg, err := es.SignSchnorr(k.Priv, mustDigest(t))
					if err != nil {
						panic(err)
					}
					t.XuperSign.Signature = sg
				})
			}
			add(sp, "xs_multisig_twice", kn, func(t *pb.Transaction) {
				sg, err := multiSign([]*ecdsa.PrivateKey{k.Priv, k.Priv}, mustDigest(t))
				if err != nil {
					panic(err)
				}
				t.XuperSign.Signature = sg
			})
		}
		// each proper subset / each set with one member replaced
		for drop := range names {
			drop := drop
			for _, kn := range append([]string{""}, resignKeys...) {
				kn := kn
				if kn != "" && contains(names, kn) {
					continue
				}
				add(sp, "xs_multisig_replace_member", fmt.Sprintf("%s->%s", names[drop], kn), func(t *pb.Transaction) {
					var privs []*ecdsa.PrivateKey
					for i, n := range names {
						if i == drop {
							if kn != "" {
								privs = append(privs, world.Keys[kn].Priv)
							}
							continue
						}
						privs = append(privs, world.Keys[n].Priv)
					}
					sg, err := multiSign(privs, mustDigest(t))
					if err != nil {
						panic(err)
					}
					t.XuperSign.Signature = sg
				})
			}
		}
	}
	return out
}

func contains(l []string, s string) bool {
	for _, x := range l {
		if x == s {
			return true
		}
	}
	return false
}

// ---------------------------------------------------------------------------
// forged authorisations: the whole authorisation part re-authored by a key that
// owns none of the spent outputs, in every signature form the harness can make.

type forged struct {
	Form string // forging recipe
	Key  string // attacker key name
	Tx   *pb.Transaction
}

// ownerPubs returns the public keys (JSON) an attacker needs to name to claim
// the AuthRequire entries: the last URI segment of each entry.
func lastSeg(uri string) string {
	p := strings.Split(uri, "/")
	return p[len(p)-1]
}

func pubOfAddr(addr string) (string, bool) {
	n, ok := world.AddrName[addr]
	if !ok {
		return "", false
	}
	return world.Keys[n].PubJSON, true
}

func enumForged(b *baseTx) []forged {
	var out []forged
	es, _ := world.Crypto.(extraSigner)
	for _, kn := range b.Outsiders {
		k := world.Keys[kn]
		fresh := func() *pb.Transaction {
			t := world.CloneTx(b.Tx)
			t.InitiatorSigns, t.AuthRequireSigns, t.XuperSign = nil, nil, nil
			t.Nonce += "-forged-" + kn
			return t
		}
		emit := func(form string, t *pb.Transaction) {
			setTxid(t)
			out = append(out, forged{Form: form, Key: kn, Tx: t})
		}
		// F1: attacker is initiator and only signer
		{
			t := fresh()
			t.Initiator = k.Address
			t.AuthRequire = []string{k.Address}
			si := signInfo(kn, mustDigest(t))
			t.InitiatorSigns = []*protos.SignatureInfo{si}
			t.AuthRequireSigns = []*protos.SignatureInfo{proto.Clone(si).(*protos.SignatureInfo)}
			emit("reinitiate", t)
		}
		// F2: attacker initiates, keeps the owners listed, fills their slots itself
		for _, keepPub := range []bool{false, true} {
			t := fresh()
			t.Initiator = k.Address
			t.AuthRequire = append([]string{}, b.Tx.AuthRequire...)
			if b.Tx.Initiator != "" && !contains(t.AuthRequire, b.Tx.Initiator) && !strings.Contains(b.Tx.Initiator, "@") {
				t.AuthRequire = append(t.AuthRequire, b.Tx.Initiator)
			}
			si := signInfo(kn, mustDigest(t))
			t.InitiatorSigns = []*protos.SignatureInfo{si}
			for _, ar := range t.AuthRequire {
				s := proto.Clone(si).(*protos.SignatureInfo)
				if keepPub {
					if pj, ok := pubOfAddr(lastSeg(ar)); ok {
						s.PublicKey = pj
					}
				}
				t.AuthRequireSigns = append(t.AuthRequireSigns, s)
			}
			if keepPub {
				emit("fill_owner_slots_owner_pubkey", t)
			} else {
				emit("fill_owner_slots", t)
			}
		}
		// F3: URI suffix: every entry E becomes E/<attacker>, signed by the attacker
		{
			t := fresh()
			t.Initiator = k.Address
			t.AuthRequire = nil
			for _, ar := range b.Tx.AuthRequire {
				t.AuthRequire = append(t.AuthRequire, ar+"/"+k.Address)
			}
			si := signInfo(kn, mustDigest(t))
			t.InitiatorSigns = []*protos.SignatureInfo{si}
			for range t.AuthRequire {
				t.AuthRequireSigns = append(t.AuthRequireSigns, proto.Clone(si).(*protos.SignatureInfo))
			}
			emit("uri_suffix", t)
		}
		// F4: account forms: the attacker names itself a member
		if strings.Contains(strings.Join(b.Tx.AuthRequire, ","), "@") {
			t := fresh()
			t.Initiator = k.Address
			t.AuthRequire = []string{Account + "/" + k.Address}
			si := signInfo(kn, mustDigest(t))
			t.InitiatorSigns = []*protos.SignatureInfo{si}
			t.AuthRequireSigns = []*protos.SignatureInfo{proto.Clone(si).(*protos.SignatureInfo)}
			emit("self_as_member", t)
		}
		// aggregated-signature forgeries: attacker initiates, lists the owners in
		// AuthRequire with their (public) public keys, and signs alone.
		owners := []string{}
		for _, ar := range b.Tx.AuthRequire {
			a := lastSeg(ar)
			if a != k.Address && !contains(owners, a) {
				owners = append(owners, a)
			}
		}
		if b.Tx.Initiator != "" && !strings.Contains(b.Tx.Initiator, "@") && !contains(owners, b.Tx.Initiator) && b.Tx.Initiator != k.Address {
			owners = append(owners, b.Tx.Initiator)
		}
		auth := []string{}
		for _, ar := range b.Tx.AuthRequire {
			auth = append(auth, ar)
		}
		for _, o := range owners {
			found := false
			for _, ar := range auth {
				if lastSeg(ar) == o {
					found = true
				}
			}
			if !found {
				auth = append(auth, o)
			}
		}
		xsBase := func() (*pb.Transaction, bool) {
			t := fresh()
			t.Initiator = k.Address
			t.AuthRequire = auth
			xs := &pb.XuperSignature{PublicKeys: [][]byte{[]byte(k.PubJSON)}}
			seen := map[string]bool{k.Address: true}
			for _, ar := range auth {
				a := lastSeg(ar)
				if seen[a] {
					continue
				}
				seen[a] = true
				pj, ok := pubOfAddr(a)
				if !ok {
					return nil, false
				}
				xs.PublicKeys = append(xs.PublicKeys, []byte(pj))
			}
			t.XuperSign = xs
			return t, true
		}
		if t, ok := xsBase(); ok {
			sg, err := world.Crypto.SignECDSA(k.Priv, mustDigest(t))
			if err == nil {
				t.XuperSign.Signature = sg
				emit("xs_ecdsa_by_initiator_only", t)
			}
		}
		if es != nil {
			if t, ok := xsBase(); ok {
				if sg, err := es.SignV2ECDSA(k.Priv, mustDigest(t)); err == nil {
					t.XuperSign.Signature = sg
					emit("xs_v2ecdsa_by_initiator_only", t)
				}
			}
			if t, ok := xsBase(); ok {
				if sg, err := es.SignSchnorr(k.Priv, mustDigest(t)); err == nil {
					t.XuperSign.Signature = sg
					emit("xs_schnorr_by_initiator_only", t)
				}
			}
		}
		if t, ok := xsBase(); ok {
			var privs []*ecdsa.PrivateKey
			for range t.XuperSign.PublicKeys {
				privs = append(privs, k.Priv)
			}
			if len(privs) < 2 {
				privs = append(privs, k.Priv)
			}
			if sg, err := multiSign(privs, mustDigest(t)); err == nil {
				t.XuperSign.Signature = sg
				emit("xs_multisig_by_initiator_only", t)
			}
		}
		// rogue key: initiator address derived from K' = xG - sum(owner keys)
		{
			var victims []*ecdsa.PublicKey
			okAll := true
			seen := map[string]bool{}
			for _, ar := range auth {
				a := lastSeg(ar)
				if seen[a] {
					continue
				}
				seen[a] = true
				n, ok := world.AddrName[a]
				if !ok {
					okAll = false
					break
				}
				victims = append(victims, &world.Keys[n].Priv.PublicKey)
			}
			if okAll && len(victims) > 0 {
				rk := rogueKey(k.Priv, victims)
				pj, err1 := pubJSONOf(rk)
				raddr, err2 := world.Crypto.GetAddressFromPublicKey(rk)
				if err1 == nil && err2 == nil {
					t := fresh()
					t.Initiator = raddr
					t.AuthRequire = auth
					xs := &pb.XuperSignature{PublicKeys: [][]byte{[]byte(pj)}}
					pubs := []*ecdsa.PublicKey{rk}
					for _, v := range victims {
						vj, _ := pubJSONOf(v)
						xs.PublicKeys = append(xs.PublicKeys, []byte(vj))
						pubs = append(pubs, v)
					}
					t.XuperSign = xs
					if sg, err := soloMultiSign(k.Priv, pubs, mustDigest(t)); err == nil {
						t.XuperSign.Signature = sg
						emit("xs_multisig_rogue_key", t)
					}
				}
			}
		}
	}
	return out
}
