package c07

import (
	"fmt"
	"reflect"
	"sort"
	"strings"

	pb "github.com/xuperchain/xupercore/bcs/ledger/xledger/xldgpb"
)

// ---------------------------------------------------------------------------
// Schema walk: every single-field mutation of a transaction, found by walking
// the Go structs generated from the protobuf schema by reflection (fields whose
// name starts with XXX_ are protobuf bookkeeping and skipped).

type step struct {
	Field string
	Idx   int // -1: none
}

type fpath []step

func (p fpath) String() string {
	var b strings.Builder
	for i, s := range p {
		if i > 0 {
			b.WriteByte('.')
		}
		b.WriteString(s.Field)
		if s.Idx >= 0 {
			fmt.Fprintf(&b, "[%d]", s.Idx)
		}
	}
	return b.String()
}

// Schema is the path without indexes: TxInputs[].RefTxid.
func (p fpath) Schema() string {
	var b strings.Builder
	for i, s := range p {
		if i > 0 {
			b.WriteByte('.')
		}
		b.WriteString(s.Field)
		if s.Idx >= 0 {
			b.WriteString("[]")
		}
	}
	return b.String()
}

func (p fpath) with(field string, idx int) fpath {
	q := make(fpath, len(p)+1)
	copy(q, p)
	q[len(p)] = step{field, idx}
	return q
}

// mutation is one edit at one path. Arg: sibling field name / map key / index.
type mutation struct {
	Path fpath
	Edit string
	Arg  string
	// Family: "schema" (reflection walk) or "sig" (signature swap/replay/re-sign)
	Family string
	// apply, for non-schema families, performs the edit on a clone.
	apply func(tx *pb.Transaction)
}

func (m mutation) Label() string {
	l := m.Path.String() + ":" + m.Edit
	if m.Arg != "" {
		l += "(" + m.Arg + ")"
	}
	return l
}

// SchemaEdit is the classification used in violation keys.
func (m mutation) SchemaEdit() string {
	return m.Path.Schema() + "." + m.Edit
}

func isBytes(t reflect.Type) bool {
	return t.Kind() == reflect.Slice && t.Elem().Kind() == reflect.Uint8
}

func isScalar(t reflect.Type) bool {
	switch t.Kind() {
	case reflect.String, reflect.Bool, reflect.Int32, reflect.Int64, reflect.Uint32, reflect.Uint64, reflect.Int:
		return true
	}
	return isBytes(t)
}

// resolve walks p from the transaction, allocating nil sub-messages on the way.
func resolve(tx *pb.Transaction, p fpath) reflect.Value {
	cur := reflect.ValueOf(tx)
	for _, s := range p {
		if cur.Kind() == reflect.Ptr {
			if cur.IsNil() {
				cur.Set(reflect.New(cur.Type().Elem()))
			}
			cur = cur.Elem()
		}
		cur = cur.FieldByName(s.Field)
		if s.Idx >= 0 {
			cur = cur.Index(s.Idx)
		}
	}
	return cur
}

// peek is resolve without allocation; ok=false if a nil sub-message is on the way.
func peek(tx *pb.Transaction, p fpath) (reflect.Value, bool) {
	cur := reflect.ValueOf(tx)
	for _, s := range p {
		if cur.Kind() == reflect.Ptr {
			if cur.IsNil() {
				return reflect.Value{}, false
			}
			cur = cur.Elem()
		}
		cur = cur.FieldByName(s.Field)
		if s.Idx >= 0 {
			if s.Idx >= cur.Len() {
				return reflect.Value{}, false
			}
			cur = cur.Index(s.Idx)
		}
	}
	return cur, true
}

// enumSchema lists every single-field mutation of tx. withFieldCopies adds the
// copy of every same-typed sibling field (thorough tier).
func enumSchema(tx *pb.Transaction, withFieldCopies bool) []mutation {
	var out []mutation
	emit := func(p fpath, edit, arg string) {
		out = append(out, mutation{Path: p, Edit: edit, Arg: arg, Family: "schema"})
	}
	var walkStruct func(t reflect.Type, v reflect.Value, prefix fpath, sib *sibling)
	scalarEdits := func(t reflect.Type, v reflect.Value, p fpath, st reflect.Type, sib *sibling) {
		// v may be invalid (parent nil): treat as zero value
		switch {
		case isBytes(t) || t.Kind() == reflect.String:
			n := 0
			if v.IsValid() {
				n = v.Len()
			}
			if n > 0 {
				emit(p, "flip_first", "")
				if n > 1 {
					emit(p, "flip_last", "")
				}
				if withFieldCopies {
					// thorough tier: every other bit of the first and the last byte
					// (strings stay ASCII: bit 7 is only flipped in bytes fields)
					top := 7
					if t.Kind() == reflect.String {
						top = 6
					}
					for bit := 1; bit <= top; bit++ {
						emit(p, "flip_first_bit", fmt.Sprint(bit))
						if n > 1 {
							emit(p, "flip_last_bit", fmt.Sprint(bit))
						}
					}
				}
				emit(p, "truncate", "")
				emit(p, "zero", "")
			}
			emit(p, "append", "")
			if isBytes(t) {
				emit(p, "prepend_zero", "")
			}
		case t.Kind() == reflect.Bool:
			emit(p, "flip", "")
		case t.Kind() == reflect.Int32 || t.Kind() == reflect.Int64:
			emit(p, "xor1", "")
			emit(p, "inc", "")
			emit(p, "dec", "")
			emit(p, "xor_high", "")
			if v.IsValid() && v.Int() != 0 {
				emit(p, "zero", "")
			}
		}
		if sib != nil && sib.n > 1 {
			emit(p, "copy_elem", "")
		}
		if withFieldCopies && st != nil {
			for i := 0; i < st.NumField(); i++ {
				f := st.Field(i)
				if strings.HasPrefix(f.Name, "XXX_") || f.Name == p[len(p)-1].Field || f.Type != t {
					continue
				}
				emit(p, "copy_field", f.Name)
			}
		}
	}
	walkStruct = func(t reflect.Type, v reflect.Value, prefix fpath, sib *sibling) {
		for i := 0; i < t.NumField(); i++ {
			f := t.Field(i)
			if strings.HasPrefix(f.Name, "XXX_") {
				continue
			}
			var fv reflect.Value
			if v.IsValid() {
				fv = v.Field(i)
			}
			p := prefix.with(f.Name, -1)
			ft := f.Type
			switch {
			case isScalar(ft):
				scalarEdits(ft, fv, p, t, sib)
			case ft.Kind() == reflect.Slice:
				n := 0
				if fv.IsValid() {
					n = fv.Len()
				}
				for k := 0; k < n; k++ {
					emit(p, "drop", fmt.Sprint(k))
					emit(p, "dup", fmt.Sprint(k))
					if k+1 < n {
						emit(p, "swap", fmt.Sprint(k))
					}
				}
				if n > 1 {
					emit(p, "clear", "")
				}
				emit(p, "append_zero", "")
				et := ft.Elem()
				for k := 0; k < n; k++ {
					ep := prefix.with(f.Name, k)
					es := &sibling{n: n}
					if et.Kind() == reflect.Ptr {
						ev := fv.Index(k)
						if ev.IsNil() {
							continue
						}
						walkStruct(et.Elem(), ev.Elem(), ep, es)
					} else {
						scalarEdits(et, fv.Index(k), ep, nil, es)
					}
				}
			case ft.Kind() == reflect.Map:
				var keys []string
				if fv.IsValid() {
					for _, k := range fv.MapKeys() {
						keys = append(keys, k.String())
					}
				}
				sort.Strings(keys)
				for _, k := range keys {
					emit(p, "map_flip_value", k)
					emit(p, "map_append_value", k)
					emit(p, "map_zero_value", k)
					emit(p, "map_drop_key", k)
					emit(p, "map_rename_key", k)
				}
				emit(p, "map_add_key", "zz")
			case ft.Kind() == reflect.Ptr && ft.Elem().Kind() == reflect.Struct:
				if fv.IsValid() && !fv.IsNil() {
					emit(p, "set_nil", "")
					walkStruct(ft.Elem(), fv.Elem(), p, nil)
				} else {
					emit(p, "set_empty", "")
					walkStruct(ft.Elem(), reflect.Value{}, p, nil)
				}
			}
		}
	}
	walkStruct(reflect.TypeOf(pb.Transaction{}), reflect.ValueOf(tx).Elem(), nil, nil)
	return out
}

type sibling struct{ n int }

// schemaFields lists the schema paths the walk can reach (for evidence).
func schemaFields(muts []mutation) []string {
	seen := map[string]bool{}
	for _, m := range muts {
		seen[m.Path.Schema()] = true
	}
	var out []string
	for k := range seen {
		out = append(out, k)
	}
	sort.Strings(out)
	return out
}

// siblingPath returns the same path inside the next element of the innermost
// repeated ancestor.
func siblingPath(tx *pb.Transaction, p fpath) (fpath, bool) {
	for i := len(p) - 1; i >= 0; i-- {
		if p[i].Idx < 0 {
			continue
		}
		list, ok := peek(tx, append(append(fpath{}, p[:i]...), step{p[i].Field, -1}))
		if !ok || list.Len() < 2 {
			return nil, false
		}
		q := append(fpath{}, p...)
		q[i].Idx = (p[i].Idx + 1) % list.Len()
		return q, true
	}
	return nil, false
}

func flipBit0(b []byte, last bool) []byte { return flipBit(b, last, 0) }

func flipBit(b []byte, last bool, bit int) []byte {
	c := append([]byte{}, b...)
	if len(c) == 0 {
		return c
	}
	i := 0
	if last {
		i = len(c) - 1
	}
	c[i] ^= 1 << uint(bit)
	return c
}

// applySchema performs m on tx (a private clone). It returns false when the
// edit does not apply (value missing).
func applySchema(tx *pb.Transaction, m mutation) bool {
	switch {
	case strings.HasPrefix(m.Edit, "map_"):
		fv := resolve(tx, m.Path)
		if fv.IsNil() {
			fv.Set(reflect.MakeMap(fv.Type()))
		}
		k := reflect.ValueOf(m.Arg)
		cur := fv.MapIndex(k)
		var val []byte
		if cur.IsValid() {
			val = cur.Bytes()
		}
		switch m.Edit {
		case "map_flip_value":
			if len(val) == 0 {
				val = []byte("x")
			} else {
				val = flipBit0(val, false)
			}
			fv.SetMapIndex(k, reflect.ValueOf(val))
		case "map_append_value":
			fv.SetMapIndex(k, reflect.ValueOf(append(append([]byte{}, val...), 'A')))
		case "map_zero_value":
			fv.SetMapIndex(k, reflect.ValueOf([]byte{}))
		case "map_drop_key":
			fv.SetMapIndex(k, reflect.Value{})
		case "map_rename_key":
			fv.SetMapIndex(k, reflect.Value{})
			fv.SetMapIndex(reflect.ValueOf(m.Arg+"A"), reflect.ValueOf(val))
		case "map_add_key":
			fv.SetMapIndex(k, reflect.ValueOf([]byte("A")))
		}
		return true
	case m.Edit == "set_nil":
		fv := resolve(tx, m.Path)
		fv.Set(reflect.Zero(fv.Type()))
		return true
	case m.Edit == "set_empty":
		fv := resolve(tx, m.Path)
		fv.Set(reflect.New(fv.Type().Elem()))
		return true
	case m.Edit == "drop" || m.Edit == "dup" || m.Edit == "swap" || m.Edit == "clear" || m.Edit == "append_zero":
		fv := resolve(tx, m.Path)
		n := fv.Len()
		var k int
		fmt.Sscan(m.Arg, &k)
		nl := reflect.MakeSlice(fv.Type(), 0, n+1)
		switch m.Edit {
		case "drop":
			for i := 0; i < n; i++ {
				if i != k {
					nl = reflect.Append(nl, fv.Index(i))
				}
			}
		case "dup":
			for i := 0; i < n; i++ {
				nl = reflect.Append(nl, fv.Index(i))
				if i == k {
					nl = reflect.Append(nl, deepCopy(fv.Index(i)))
				}
			}
		case "swap":
			for i := 0; i < n; i++ {
				nl = reflect.Append(nl, fv.Index(i))
			}
			a, b := nl.Index(k).Interface(), nl.Index(k+1).Interface()
			nl.Index(k).Set(reflect.ValueOf(b))
			nl.Index(k + 1).Set(reflect.ValueOf(a))
		case "clear":
		case "append_zero":
			for i := 0; i < n; i++ {
				nl = reflect.Append(nl, fv.Index(i))
			}
			et := fv.Type().Elem()
			if et.Kind() == reflect.Ptr {
				nl = reflect.Append(nl, reflect.New(et.Elem()))
			} else if isBytes(et) {
				nl = reflect.Append(nl, reflect.ValueOf([]byte{}))
			} else {
				nl = reflect.Append(nl, reflect.Zero(et))
			}
		}
		fv.Set(nl)
		return true
	}
	// scalar edits
	fv := resolve(tx, m.Path)
	t := fv.Type()
	switch m.Edit {
	case "copy_elem":
		sp, ok := siblingPath(tx, m.Path)
		if !ok {
			return false
		}
		sv, ok := peek(tx, sp)
		if !ok {
			return false
		}
		fv.Set(deepCopy(sv))
		return true
	case "copy_field":
		pp := append(fpath{}, m.Path[:len(m.Path)-1]...)
		sv, ok := peek(tx, pp.with(m.Arg, -1))
		if !ok {
			return false
		}
		fv.Set(deepCopy(sv))
		return true
	}
	switch {
	case isBytes(t):
		b := fv.Bytes()
		switch m.Edit {
		case "flip_first":
			fv.SetBytes(flipBit0(b, false))
		case "flip_last":
			fv.SetBytes(flipBit0(b, true))
		case "flip_first_bit", "flip_last_bit":
			var bit int
			fmt.Sscan(m.Arg, &bit)
			fv.SetBytes(flipBit(b, m.Edit == "flip_last_bit", bit))
		case "truncate":
			if len(b) == 0 {
				return false
			}
			fv.SetBytes(append([]byte{}, b[:len(b)-1]...))
		case "zero":
			fv.SetBytes(nil)
		case "append":
			fv.SetBytes(append(append([]byte{}, b...), 0))
		case "prepend_zero":
			fv.SetBytes(append([]byte{0}, b...))
		default:
			return false
		}
	case t.Kind() == reflect.String:
		s := fv.String()
		switch m.Edit {
		case "flip_first":
			fv.SetString(string(flipBit0([]byte(s), false)))
		case "flip_last":
			fv.SetString(string(flipBit0([]byte(s), true)))
		case "flip_first_bit", "flip_last_bit":
			var bit int
			fmt.Sscan(m.Arg, &bit)
			fv.SetString(string(flipBit([]byte(s), m.Edit == "flip_last_bit", bit)))
		case "truncate":
			if len(s) == 0 {
				return false
			}
			fv.SetString(s[:len(s)-1])
		case "zero":
			fv.SetString("")
		case "append":
			fv.SetString(s + "A")
		default:
			return false
		}
	case t.Kind() == reflect.Bool:
		fv.SetBool(!fv.Bool())
	case t.Kind() == reflect.Int32 || t.Kind() == reflect.Int64:
		x := fv.Int()
		switch m.Edit {
		case "xor1":
			x ^= 1
		case "inc":
			x++
		case "dec":
			x--
		case "xor_high":
			if t.Kind() == reflect.Int32 {
				x ^= 1 << 30
			} else {
				x ^= 1 << 62
			}
		case "zero":
			x = 0
		default:
			return false
		}
		fv.SetInt(x)
	default:
		return false
	}
	return true
}

func deepCopy(v reflect.Value) reflect.Value {
	switch {
	case v.Kind() == reflect.Ptr:
		if v.IsNil() {
			return v
		}
		n := reflect.New(v.Type().Elem())
		e := v.Elem()
		for i := 0; i < e.NumField(); i++ {
			if strings.HasPrefix(e.Type().Field(i).Name, "XXX_") {
				continue
			}
			n.Elem().Field(i).Set(deepCopy(e.Field(i)))
		}
		return n
	case isBytes(v.Type()):
		if v.IsNil() {
			return v
		}
		return reflect.ValueOf(append([]byte{}, v.Bytes()...))
	case v.Kind() == reflect.Slice:
		n := reflect.MakeSlice(v.Type(), 0, v.Len())
		for i := 0; i < v.Len(); i++ {
			n = reflect.Append(n, deepCopy(v.Index(i)))
		}
		return n
	case v.Kind() == reflect.Map:
		if v.IsNil() {
			return v
		}
		n := reflect.MakeMap(v.Type())
		for _, k := range v.MapKeys() {
			n.SetMapIndex(k, deepCopy(v.MapIndex(k)))
		}
		return n
	}
	return v
}
