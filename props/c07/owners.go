package c07

import (
	"fmt"
	"math/big"
	"sort"
	"strings"

	"github.com/golang/protobuf/proto"

	pb "github.com/xuperchain/xupercore/bcs/ledger/xledger/xldgpb"
	"github.com/xuperchain/xupercore/protos"

	"verif/core"
	"verif/world"
)

// ---------------------------------------------------------------------------
// Owner kinds of the spent output. The mutation families start from ACCEPTED
// transactions, so they never reach an output nobody is entitled to spend. This
// family enumerates spend ATTEMPTS instead: for every kind of owner an unspent
// output can have, every way the harness knows of naming and signing
// authorisers, judged by the reference predicate ("accepted only if the owner is
// among the verified signers directly or through its account's access-control
// rule"; an owner without an evaluable rule entitles nobody).

type ownerKind struct {
	Name  string // id in labels and evidence
	Class string // classification in violation keys
	Owner string // to_addr of the output
	// ACL: created by the real $acl NewAccount method with this rule.
	ACL string
	// Raw: the value a kernel contract stored under the account's key ($acl itself
	// refuses these rules; they stand for a record written by other code).
	Raw      string
	Entitled string // who the rule entitles (documentation, printed in the evidence)
	// SomeoneEntitled: some signer set of the alphabet satisfies the rule (vacuity
	// guard: such a kind must show accepted spends, the others must show none).
	SomeoneEntitled bool
}

func acctNo(n int) string { return fmt.Sprintf("XC11111111111111%02d@%s", n, world.BCName) }

const noACLAccount = "XC2222222222222222@" + world.BCName

const (
	ownerAmount = 20
	purseAmount = 30
)

func ownerKinds() []ownerKind {
	a, b, c := world.Addr("A"), world.Addr("B"), world.Addr("C")
	t2 := acctNo(11) // == Account
	return []ownerKind{
		{Name: "key", Class: "key_address", Owner: b, Entitled: "the key B itself", SomeoneEntitled: true},
		{Name: "unheld_name", Class: "name_without_key", Owner: "vkvowner", Entitled: "nobody (not an account name, no key hashes to it)"},
		{Name: "acct_threshold", Class: "account_threshold", Owner: t2, SomeoneEntitled: true,
			ACL:      fmt.Sprintf(`{"pm":{"rule":1,"acceptValue":2},"aksWeight":{"%s":1,"%s":1,"%s":1}}`, a, b, c),
			Entitled: "any two of A, B, C"},
		{Name: "acct_weighted", Class: "account_threshold", Owner: acctNo(12), SomeoneEntitled: true,
			ACL:      fmt.Sprintf(`{"pm":{"rule":1,"acceptValue":1},"aksWeight":{"%s":1,"%s":0.5,"%s":0.5}}`, a, b, c),
			Entitled: "A alone, or B and C together"},
		{Name: "acct_akset", Class: "account_akset", Owner: acctNo(13), SomeoneEntitled: true,
			ACL:      fmt.Sprintf(`{"pm":{"rule":2},"akSets":{"sets":{"s1":{"aks":["%s","%s"]},"s2":{"aks":["%s"]}}}}`, a, b, c),
			Entitled: "A and B together, or C alone"},
		{Name: "acct_zero_threshold", Class: "account_zero_threshold", Owner: acctNo(14), SomeoneEntitled: true,
			ACL:      fmt.Sprintf(`{"pm":{"rule":1,"acceptValue":0},"aksWeight":{"%s":1}}`, a),
			Entitled: "everybody (the rule asks for weight 0)"},
		{Name: "acct_no_member", Class: "account_rule_without_members", Owner: acctNo(15),
			ACL:      `{"pm":{"rule":1,"acceptValue":1},"aksWeight":{}}`,
			Entitled: "nobody (threshold 1, no member)"},
		{Name: "acct_akset_empty", Class: "account_rule_without_members", Owner: acctNo(16),
			ACL:      `{"pm":{"rule":2},"akSets":{"sets":{}}}`,
			Entitled: "nobody (no key set)"},
		{Name: "acct_nested", Class: "account_nested", Owner: acctNo(17), SomeoneEntitled: true,
			ACL:      fmt.Sprintf(`{"pm":{"rule":1,"acceptValue":1},"aksWeight":{"%s":1}}`, t2),
			Entitled: "whoever meets the rule of the member account acct_threshold, listed as owner/member/key"},
		{Name: "acct_nested_member_without_acl", Class: "account_nested_member_without_acl", Owner: acctNo(18),
			ACL:      fmt.Sprintf(`{"pm":{"rule":1,"acceptValue":1},"aksWeight":{"%s":1}}`, noACLAccount),
			Entitled: "nobody (its only member is an account that was never created)"},
		{Name: "never_created", Class: "account_without_acl", Owner: noACLAccount, Entitled: "nobody (no access-control rule stored)"},
		{Name: "other_chain_name", Class: "account_without_acl", Owner: "XC1111111111111111@other", Entitled: "nobody (the number exists on this chain, the name with another chain suffix has no rule)"},
		{Name: "bare_number", Class: "account_without_acl", Owner: "XC1111111111111111", Entitled: "nobody (account number without chain suffix: no rule)"},
		{Name: "acl_without_model", Class: "account_unevaluable_acl", Owner: acctNo(19), Raw: `{}`, Entitled: "nobody (record without permission model)"},
		{Name: "acl_rule_null", Class: "account_unevaluable_acl", Owner: acctNo(20),
			Raw: fmt.Sprintf(`{"pm":{"rule":0,"acceptValue":1},"aksWeight":{"%s":1}}`, a), Entitled: "nobody (rule NULL)"},
		{Name: "acl_rule_unimplemented", Class: "account_unevaluable_acl", Owner: acctNo(21),
			Raw: fmt.Sprintf(`{"pm":{"rule":3,"acceptValue":1},"aksWeight":{"%s":1}}`, a), Entitled: "nobody (rule SIGN_RATE is not implemented)"},
		{Name: "acl_rule_unknown", Class: "account_unevaluable_acl", Owner: acctNo(22),
			Raw: fmt.Sprintf(`{"pm":{"rule":99,"acceptValue":1},"aksWeight":{"%s":1}}`, a), Entitled: "nobody (unknown rule number)"},
		{Name: "acl_unparsable", Class: "account_unevaluable_acl", Owner: acctNo(23), Raw: `not-json`, Entitled: "nobody (record does not parse)"},
	}
}

// ownersLayout: where the setup's funding transaction pays what.
type ownersLayout struct {
	kinds []ownerKind
	tfund *pb.Transaction
	off   map[string]int // kind name -> output offset in tfund
	purse map[string]int // key name -> output offset of its fee purse
}

var ownersLay *ownersLayout

var purseKeys = []string{"A", "B", "C", "D"}

// buildOwners: block 1 = { tnew: every account kind with an ACL created by the
// real $acl NewAccount ; traw: the records $acl refuses, stored by the harness
// kernel contract in the account bucket ; tfund: one output of 20 to every owner
// kind and a purse of 30 to each of A, B, C, D }.
func buildOwners() (*recipe, error) {
	w, err := world.New(world.DefaultConfig(), world.RegisterVKV)
	if err != nil {
		return nil, err
	}
	defer w.Drop()
	kinds := ownerKinds()
	root := w.Genesis.Transactions[0]
	a := world.Addr("A")
	var reqs []*protos.InvokeRequest
	for _, k := range kinds {
		if k.ACL == "" {
			continue
		}
		no := strings.TrimSuffix(strings.TrimPrefix(k.Owner, "XC"), "@"+world.BCName)
		reqs = append(reqs, &protos.InvokeRequest{ModuleName: "xkernel", ContractName: "$acl", MethodName: "NewAccount",
			Args: map[string][]byte{"account_name": []byte(no), "acl": []byte(k.ACL)}})
	}
	pre, err := w.PreExec(reqs, a, []string{a})
	if err != nil {
		return nil, fmt.Errorf("preexec NewAccount: %v", err)
	}
	have := int64(1000)
	tnew := world.BuildTx(world.TxSpec{Initiator: "A", Ins: []world.In{{Tx: root, Offset: 0}},
		Outs:  []world.Out{{To: "$", Amount: fmt.Sprint(pre.GasUsed)}, {To: "A", Amount: fmt.Sprint(have - pre.GasUsed)}},
		Nonce: "c07-owners-new", Requests: pre.Requests, InputsExt: pre.Inputs, OutputsExt: pre.Outputs})
	have -= pre.GasUsed
	reqs = nil
	for _, k := range kinds {
		if k.Raw == "" {
			continue
		}
		reqs = append(reqs, &protos.InvokeRequest{ModuleName: "xkernel", ContractName: world.VKVContract, MethodName: "run",
			Args: map[string][]byte{"prog": []byte("put " + k.Owner + " " + k.Raw), "bucket": []byte("XCAccount")}})
	}
	pre, err = w.PreExec(reqs, a, []string{a})
	if err != nil {
		return nil, fmt.Errorf("preexec raw records: %v", err)
	}
	traw := world.BuildTx(world.TxSpec{Initiator: "A", Ins: []world.In{{Tx: tnew, Offset: 1}},
		Outs:  []world.Out{{To: "$", Amount: fmt.Sprint(pre.GasUsed)}, {To: "A", Amount: fmt.Sprint(have - pre.GasUsed)}},
		Nonce: "c07-owners-raw", Requests: pre.Requests, InputsExt: pre.Inputs, OutputsExt: pre.Outputs})
	have -= pre.GasUsed
	lay := &ownersLayout{kinds: kinds, off: map[string]int{}, purse: map[string]int{}}
	var outs []world.Out
	for _, k := range kinds {
		lay.off[k.Name] = len(outs)
		outs = append(outs, world.Out{To: k.Owner, Amount: fmt.Sprint(ownerAmount)})
		have -= ownerAmount
	}
	for _, n := range purseKeys {
		lay.purse[n] = len(outs)
		outs = append(outs, world.Out{To: n, Amount: fmt.Sprint(purseAmount)})
		have -= purseAmount
	}
	if have <= 0 {
		return nil, fmt.Errorf("genesis funds do not cover the owner kinds")
	}
	outs = append(outs, world.Out{To: "A", Amount: fmt.Sprint(have)})
	tfund := world.BuildTx(world.TxSpec{Initiator: "A", Ins: []world.In{{Tx: traw, Offset: 1}}, Outs: outs, Nonce: "c07-owners-fund"})
	lay.tfund = tfund
	blk, err := closeBlock(w, []*pb.Transaction{tnew, traw, tfund}, "c07-owners")
	if err != nil {
		return nil, err
	}
	ownersLay = lay
	return &recipe{Name: "owners", Blocks: []string{blockHex(blk)},
		refs: map[string]*pb.Transaction{"root": world.CloneTx(root), "tfund": tfund}}, nil
}

// checkOwnersWorld: the setup is what the kinds say (guards against a vacuous
// universe): every owner holds its output, rules are stored / absent as described.
func checkOwnersWorld(f *fixture) error {
	for _, k := range ownersLay.kinds {
		bal, err := f.w.State.GetBalance(k.Owner)
		want := int64(ownerAmount)
		if k.Name == "key" {
			want += purseAmount + 500 // B's purse and genesis quota
		}
		if err != nil || bal.Cmp(big.NewInt(want)) != 0 {
			return fmt.Errorf("owner kind %s: balance %v (want %d) err %v", k.Name, bal, want, err)
		}
		if !acctShaped(k.Owner) {
			continue
		}
		acl, err := f.w.Acl().GetAccountACL(k.Owner)
		switch {
		case k.ACL != "" && (err != nil || acl == nil || acl.Pm == nil):
			return fmt.Errorf("owner kind %s: rule not stored: %v", k.Name, err)
		case k.ACL == "" && k.Raw == "" && (err != nil || acl != nil):
			return fmt.Errorf("owner kind %s: expected no rule, got %v %v", k.Name, acl, err)
		case k.Raw == "not-json" && err == nil:
			return fmt.Errorf("owner kind %s: the stored record parses", k.Name)
		case k.Raw != "" && k.Raw != "not-json" && (err != nil || acl == nil):
			return fmt.Errorf("owner kind %s: record not stored: %v", k.Name, err)
		}
	}
	return nil
}

// ---------------------------------------------------------------------------
// the spend-attempt space

type spendSpec struct {
	Kind int // index into the owner kinds
	// Init: a key name (address initiator), or "owner": the owner's name itself is
	// the initiator and the signers sign as initiator (account-initiator form).
	Init string
	// Signers: keys listed in AuthRequire, written in Style, each signing its slot.
	Signers []string
	// Style of the AuthRequire entries: plain (address) | member (owner/key) |
	// via_acct (owner/<acct_threshold>/key) | via_noacl (owner/<never created>/key) |
	// via_weighted (owner/<acct_weighted>/key) | via_key (owner/<address of C>/key).
	Style string
	// Sig: slots (per-signer signatures) | xsign (aggregated signature).
	Sig string
	// Contract: none | put (the transaction also carries a $vkv write) | xfer (the
	// owner's output is spent by the carried contract, on the initiator's behalf).
	Contract string
	Version  int32
}

func (s spendSpec) label(k ownerKind) string {
	return fmt.Sprintf("spend:%s:init=%s:auth=%s[%s]:%s:%s:v%d", k.Name, s.Init, s.Style, strings.Join(s.Signers, ""), s.Sig, s.Contract, s.Version)
}

// spendStyles: how a signer is written in AuthRequire. The thorough tier adds a
// path through the weighted account and a path with a KEY in the middle (which
// signs nothing there).
func spendStyles(deep bool) []string {
	if deep {
		return []string{"plain", "member", "via_acct", "via_noacl", "via_weighted", "via_key"}
	}
	return []string{"plain", "member", "via_acct", "via_noacl"}
}

func styleURI(owner, style, addr string) string {
	switch style {
	case "member":
		return owner + "/" + addr
	case "via_acct":
		return owner + "/" + Account + "/" + addr
	case "via_noacl":
		return owner + "/" + noACLAccount + "/" + addr
	case "via_weighted":
		return owner + "/" + acctNo(12) + "/" + addr
	case "via_key":
		return owner + "/" + world.Addr("C") + "/" + addr
	}
	return addr
}

func subsets(keys []string) [][]string {
	var out [][]string
	for m := 0; m < 1<<uint(len(keys)); m++ {
		var s []string
		for i, k := range keys {
			if m&(1<<uint(i)) != 0 {
				s = append(s, k)
			}
		}
		out = append(out, s)
	}
	return out
}

// enumSpends lists the whole space for the given key alphabet, in index order.
func enumSpends(kinds []ownerKind, keys []string, allStyles []string, versions []int32) []spendSpec {
	var out []spendSpec
	subs := subsets(keys)
	for ki := range kinds {
		for _, v := range versions {
			for _, ini := range append(append([]string{}, keys...), "owner") {
				for _, sg := range subs {
					styles := allStyles
					if len(sg) == 0 {
						if ini == "owner" {
							continue // nobody signs at all
						}
						styles = []string{"plain"} // nothing to write in a style
					}
					for _, st := range styles {
						for _, sig := range []string{"slots", "xsign"} {
							if sig == "xsign" && ini == "owner" {
								continue // the aggregated form names one key per address
							}
							for _, c := range []string{"none", "put", "xfer"} {
								if c == "xfer" && ini != "owner" {
									continue // the contract spends from the initiator: the owner initiates
								}
								out = append(out, spendSpec{Kind: ki, Init: ini, Signers: sg, Style: st, Sig: sig, Contract: c, Version: v})
							}
						}
					}
				}
			}
		}
	}
	return out
}

// spendParts: contract parts pre-executed once on a world of the setup.
type spendParts struct {
	put   *world.PreExecResult
	xfer  map[string]*world.PreExecResult // by owner kind
	notes []string
}

func buildSpendParts(f *fixture) (*spendParts, error) {
	a := world.Addr("A")
	put, err := kvParts(f, a, []string{a}, "put k1 x")
	if err != nil {
		return nil, fmt.Errorf("preexec put: %v", err)
	}
	sp := &spendParts{put: put, xfer: map[string]*world.PreExecResult{}}
	for _, k := range ownersLay.kinds {
		pre, err := f.w.PreExec([]*protos.InvokeRequest{world.VKVRequest("xfer D 5")}, k.Owner, nil)
		if err != nil || len(pre.UtxoInputs) == 0 {
			sp.notes = append(sp.notes, fmt.Sprintf("owner kind %s: contract transfer form dropped: %v", k.Name, err))
			continue
		}
		sp.xfer[k.Name] = pre
	}
	return sp, nil
}

// buildSpend assembles and signs one attempt. ok=false: the form does not exist
// for this kind (no pre-executed contract part).
func buildSpend(lay *ownersLayout, parts *spendParts, s spendSpec) (*pb.Transaction, bool) {
	k := lay.kinds[s.Kind]
	tx := &pb.Transaction{Version: s.Version, Nonce: "c07-" + s.label(k), Timestamp: 1600000100 + int64(s.Version)}
	plan := signPlan{Auth: s.Signers, Xuper: s.Sig == "xsign"}
	payer := s.Init
	if s.Init == "owner" {
		tx.Initiator = k.Owner
		plan.Initiator = s.Signers
		payer = s.Signers[0]
	} else {
		tx.Initiator = world.Addr(s.Init)
		plan.Initiator = []string{s.Init}
	}
	for _, n := range s.Signers {
		tx.AuthRequire = append(tx.AuthRequire, styleURI(k.Owner, s.Style, world.Addr(n)))
	}
	fee := func(gas int64) {
		tx.TxInputs = append(tx.TxInputs, input(lay.tfund, lay.purse[payer]))
		tx.TxOutputs = append(tx.TxOutputs, output("$", gas), output(payer, purseAmount-gas))
	}
	switch s.Contract {
	case "none":
		tx.TxInputs = []*protos.TxInput{input(lay.tfund, lay.off[k.Name])}
		tx.TxOutputs = []*protos.TxOutput{output("D", ownerAmount)}
	case "put":
		tx.TxInputs = []*protos.TxInput{input(lay.tfund, lay.off[k.Name])}
		tx.TxOutputs = []*protos.TxOutput{output("D", ownerAmount)}
		tx.ContractRequests, tx.TxInputsExt, tx.TxOutputsExt = cloneParts(parts.put)
		fee(parts.put.GasUsed)
	case "xfer":
		pre := parts.xfer[k.Name]
		if pre == nil {
			return nil, false
		}
		for _, in := range pre.UtxoInputs {
			tx.TxInputs = append(tx.TxInputs, proto.Clone(in).(*protos.TxInput))
		}
		for _, o := range pre.UtxoOutputs {
			tx.TxOutputs = append(tx.TxOutputs, proto.Clone(o).(*protos.TxOutput))
		}
		tx.ContractRequests, tx.TxInputsExt, tx.TxOutputsExt = cloneParts(pre)
		fee(pre.GasUsed)
	}
	sign(tx, plan)
	return tx, true
}

func cloneParts(p *world.PreExecResult) (reqs []*protos.InvokeRequest, ins []*protos.TxInputExt, outs []*protos.TxOutputExt) {
	for _, r := range p.Requests {
		reqs = append(reqs, proto.Clone(r).(*protos.InvokeRequest))
	}
	for _, i := range p.Inputs {
		ins = append(ins, proto.Clone(i).(*protos.TxInputExt))
	}
	for _, o := range p.Outputs {
		outs = append(outs, proto.Clone(o).(*protos.TxOutputExt))
	}
	return
}

// spendKey names the defect class: which clause of the statement the accepted
// attempt fails, for which kind of owner, by which route.
func spendKey(k ownerKind, s spendSpec, ref refVerdict) string {
	switch ref.Stage {
	case "owner":
		return "c07.spend_accepted_without_owner_authority." + k.Class
	case "initiator":
		route := "spend"
		if s.Contract == "xfer" {
			route = "contract_transfer"
		}
		if s.Init == "owner" {
			return "c07.initiator_without_authority_accepted." + k.Class + "." + route
		}
		return "c07.initiator_without_authority_accepted.key." + route
	}
	st := ref.Stage
	if st == "" {
		st = "other"
	}
	return "c07.spend_attempt_accepted." + st + "." + k.Class
}

type kindStat struct {
	Attempts                 int `json:"attempts"`
	Accepted                 int `json:"accepted"`
	AcceptedNotEntitled      int `json:"accepted_not_entitled"`
	Rejected                 int `json:"rejected"`
	RejectedThoughEntitled   int `json:"rejected_though_reference_entitled"`
	ReferenceEntitled        int `json:"reference_entitled"`
	AdmittedBySubmitSequence int `json:"accepted_not_entitled_and_admitted_by_submit_sequence"`
}

type spendStats struct {
	attempts, absent, accepted, rejected, notEntitledAccepted, entitled, rejectedThoughEntitled int
	byKind                                                                                      map[string]*kindStat
	byForm                                                                                      map[string]int
	acceptedByForm                                                                              map[string]int
}

func newSpendStats() *spendStats {
	return &spendStats{byKind: map[string]*kindStat{}, byForm: map[string]int{}, acceptedByForm: map[string]int{}}
}

func (s *spendStats) kind(n string) *kindStat {
	k := s.byKind[n]
	if k == nil {
		k = &kindStat{}
		s.byKind[n] = k
	}
	return k
}

func (s *spendStats) merge(o *spendStats) {
	s.attempts += o.attempts
	s.absent += o.absent
	s.accepted += o.accepted
	s.rejected += o.rejected
	s.notEntitledAccepted += o.notEntitledAccepted
	s.entitled += o.entitled
	s.rejectedThoughEntitled += o.rejectedThoughEntitled
	for n, k := range o.byKind {
		d := s.kind(n)
		d.Attempts += k.Attempts
		d.Accepted += k.Accepted
		d.AcceptedNotEntitled += k.AcceptedNotEntitled
		d.Rejected += k.Rejected
		d.RejectedThoughEntitled += k.RejectedThoughEntitled
		d.ReferenceEntitled += k.ReferenceEntitled
		d.AdmittedBySubmitSequence += k.AdmittedBySubmitSequence
	}
	for n, v := range o.byForm {
		s.byForm[n] += v
	}
	for n, v := range o.acceptedByForm {
		s.acceptedByForm[n] += v
	}
}

func (w *worker) doSpend(lay *ownersLayout, parts *spendParts, s *spendSpec) {
	ss := w.sp
	k := lay.kinds[s.Kind]
	tx, ok := buildSpend(lay, parts, *s)
	if !ok {
		ss.absent++
		return
	}
	wire, err := proto.Marshal(tx)
	if err != nil {
		ss.absent++
		return
	}
	label := s.label(k)
	const variant = "txid_recomputed"
	// (the kind's index ranks counterexamples: the table lists the plainest kind of a class first)
	b := &baseTx{Name: fmt.Sprintf("owners/%02d/%s", s.Kind, label), Setup: "owners", Form: "spend", Version: s.Version, Tx: tx}
	f := w.fixture("owners")
	okv, errS, pan := verifyTx(f, unwire(wire))
	form := fmt.Sprintf("init=%s/%s/%s/%s", map[bool]string{true: "owner", false: "key"}[s.Init == "owner"], s.Style, s.Sig, s.Contract)
	ss.attempts++
	ks := ss.kind(k.Name)
	ks.Attempts++
	ss.byForm[form]++
	w.st.byFamily["spend"]++
	if pan {
		w.st.panics++
		w.violate(orderOf(b, label, variant), core.Violation{Key: "c07.verifytx_panic.spend." + k.Class, Summary: fmt.Sprintf("%s: VerifyTx panicked: %s", label, errS),
			Case: w.mkCase("verify", b, label, variant, wire), Expected: "rejection", Observed: errS})
		return
	}
	ref := reference(f, tx)
	if ref.Authorised {
		ss.entitled++
		ks.ReferenceEntitled++
	}
	if !(okv && errS == "") {
		ss.rejected++
		ks.Rejected++
		if ref.Authorised {
			ss.rejectedThoughEntitled++
			ks.RejectedThoughEntitled++
		}
		if errS == "" {
			w.st.rejectedBool++
			w.st.rejectedBoolBySetup[b.Setup]++
			w.submitClause(b, label, variant, wire)
		} else {
			w.st.errKinds[errKind(errS)]++
		}
		w.st.sample("spend_rejected", map[string]interface{}{"outcome": "spend_rejected", "base": "owners", "mutation": label, "txid": variant, "owner": k.Owner, "entitled": k.Entitled, "verifytx_ok": okv, "verifytx_err": errS})
		return
	}
	ss.accepted++
	ks.Accepted++
	ss.acceptedByForm[form]++
	if ref.Authorised {
		w.st.sample("spend_accepted_entitled", map[string]interface{}{"outcome": "spend_accepted_entitled", "base": "owners", "mutation": label, "txid": variant, "owner": k.Owner, "entitled": k.Entitled})
		return
	}
	ss.notEntitledAccepted++
	ks.AcceptedNotEntitled++
	g := fresh("owners")
	adm, _ := submitTx(g, unwire(wire))
	moved := ""
	if adm {
		ks.AdmittedBySubmitSequence++
		if bal, err := g.w.State.GetBalance(world.Addr("D")); err == nil {
			moved = fmt.Sprintf("; afterwards D holds %s (before: %d)", bal, purseAmount)
		}
	}
	g.drop()
	c := w.mkCase("verify", b, label, variant, wire)
	c.Class = "spend"
	route := map[string]string{"none": "as a plain input", "put": "as a plain input of a transaction that also carries a $vkv write",
		"xfer": "by the carried contract $vkv \"xfer D 5\", which transfers from the initiator as the bridge Transfer call does"}[s.Contract]
	plan := signPlan{Initiator: []string{s.Init}}
	if s.Init == "owner" {
		plan.Initiator = s.Signers
	}
	c.Note = fmt.Sprintf("owner kind %s (%s): entitled: %s; reference predicate: %s; SubmitTx sequence on a fresh world admitted=%v%s", k.Name, k.Owner, k.Entitled, ref.Why, adm, moved)
	w.violate(orderOf(b, label, variant), core.Violation{
		Key:      spendKey(k, *s, ref),
		Summary:  fmt.Sprintf("an unspent output of %d owned by %q is spent (%s) by a version-%d transaction of initiator %q (initiator signatures by %v), AuthRequire %q signed by %v (%s), and VerifyTx accepts [%s]", ownerAmount, k.Owner, route, s.Version, tx.Initiator, plan.Initiator, tx.AuthRequire, s.Signers, map[string]string{"slots": "per-signer signatures", "xsign": "aggregated signature"}[s.Sig], c.Note),
		Case:     c,
		Expected: "rejection: neither the owner nor anybody its access-control rule entitles is among the verified signers",
		Observed: "VerifyTx = (true, nil)",
	})
}

// ownerBases: accepted spends of the richer owner kinds, as base transactions of
// the mutation families (thorough tier).
func ownerBases(f *fixture, versions []int32) []*baseTx {
	var out []*baseTx
	lay := ownersLay
	byName := map[string]ownerKind{}
	for _, k := range lay.kinds {
		byName[k.Name] = k
	}
	add := func(form string, v int32, kind string, auth []string, plan signPlan, outsiders []string) {
		k := byName[kind]
		tx := &pb.Transaction{Initiator: world.Addr(plan.Initiator[0]), AuthRequire: auth,
			TxInputs:  []*protos.TxInput{input(lay.tfund, lay.off[kind])},
			TxOutputs: []*protos.TxOutput{output("D", ownerAmount-5), output(k.Owner, 5)}}
		tx.Version = v
		tx.Nonce = fmt.Sprintf("c07-owners-%s-v%d", form, v)
		tx.Timestamp = 1600000000 + int64(v)
		sign(tx, plan)
		out = append(out, &baseTx{Name: fmt.Sprintf("owners/%s/v%d", form, v), Setup: "owners", Form: form, Version: v, Tx: tx, Plan: plan,
			Outsiders: outsiders, Members: []string{"A", "B", "C"}})
	}
	a, b, c := world.Addr("A"), world.Addr("B"), world.Addr("C")
	for _, v := range versions {
		ak := byName["acct_akset"].Owner
		add("akset_auth", v, "acct_akset", []string{ak + "/" + a, ak + "/" + b}, signPlan{Initiator: []string{"C"}, Auth: []string{"A", "B"}}, []string{"D", "X"})
		wt := byName["acct_weighted"].Owner
		add("weighted_auth", v, "acct_weighted", []string{wt + "/" + b, wt + "/" + c}, signPlan{Initiator: []string{"B"}, Auth: []string{"B", "C"}}, []string{"D", "X"})
		ne := byName["acct_nested"].Owner
		add("nested_auth", v, "acct_nested", []string{ne + "/" + Account + "/" + a, ne + "/" + Account + "/" + b}, signPlan{Initiator: []string{"A"}, Auth: []string{"A", "B"}}, []string{"D", "X"})
	}
	return out
}

func sortedKindNames(m map[string]*kindStat) []string {
	var out []string
	for k := range m {
		out = append(out, k)
	}
	sort.Strings(out)
	return out
}
