package c07

import (
	"bytes"
	"crypto/ecdsa"
	"encoding/asn1"
	"encoding/json"
	"fmt"
	"math/big"
	"strings"

	"github.com/xuperchain/xupercore/bcs/ledger/xledger/state/utxo/txhash"
	"github.com/xuperchain/xupercore/bcs/ledger/xledger/state/xmodel"
	pb "github.com/xuperchain/xupercore/bcs/ledger/xledger/xldgpb"
	"github.com/xuperchain/xupercore/protos"

	"verif/world"
)

// ---------------------------------------------------------------------------
// Reference predicate: the property statement's acceptance condition, written
// directly from the statement and evaluated by the harness itself (strict DER
// parsing, its own ACL arithmetic). VerifyTx accepting a transaction for which
// this predicate is false is a violation of "accepted only if ...".

type refVerdict struct {
	Authorised bool
	Why        string
	// Signers: addresses with a strictly valid signature over the digest.
	Signers map[string]bool
	// AllEntriesValid: every per-signer signature entry the transaction carries is
	// a valid signature (no junk entry).
	AllEntriesValid bool
	// SlotMismatch: some per-signer entry is not a valid signature of the address
	// its slot stands for (junk, or somebody else's signature).
	SlotMismatch bool
	// NonCanonical: some entry verifies only when bytes after the DER signature
	// are ignored (as the crypto library does).
	NonCanonical bool
}

func isAccountName(s string) bool {
	if !strings.HasPrefix(s, "XC") {
		return false
	}
	at := strings.Index(s, "@")
	if at != 18 {
		return false
	}
	for _, c := range s[2:18] {
		if c < '0' || c > '9' {
			return false
		}
	}
	return true
}

// verifyDER verifies a DER (r, s) signature with crypto/ecdsa. valid: the
// leading DER value is a valid signature (what the signer produced); canonical:
// and nothing follows it.
func verifyDER(pub *ecdsa.PublicKey, sig, digest []byte) (valid, canonical bool) {
	var rs struct{ R, S *big.Int }
	rest, err := asn1.Unmarshal(sig, &rs)
	if err != nil || rs.R == nil || rs.S == nil || rs.R.Sign() != 1 || rs.S.Sign() != 1 {
		return false, false
	}
	if !ecdsa.Verify(pub, digest, rs.R, rs.S) {
		return false, false
	}
	return true, len(rest) == 0
}

func (v *refVerdict) entry(si *protos.SignatureInfo, digest []byte) (string, bool) {
	a, ok, canonical := entryAddr(si, digest)
	if ok && !canonical {
		v.NonCanonical = true
	}
	return a, ok
}

func entryAddr(si *protos.SignatureInfo, digest []byte) (addr string, valid bool, canonical bool) {
	if si == nil {
		return "", false, false
	}
	pub, err := world.Crypto.GetEcdsaPublicKeyFromJsonStr(si.PublicKey)
	if err != nil || pub == nil || pub.X == nil {
		return "", false, false
	}
	addr, err = world.Crypto.GetAddressFromPublicKey(pub)
	if err != nil {
		return "", false, false
	}
	valid, canonical = verifyDER(pub, si.Sign, digest)
	if !valid {
		return "", false, false
	}
	return addr, true, canonical
}

// quorum evaluates the account's threshold rule over a set of member addresses.
func quorum(f *fixture, account string, members map[string]bool) bool {
	acl, err := f.w.Acl().GetAccountACL(account)
	if err != nil || acl == nil || acl.Pm == nil {
		return false
	}
	if acl.Pm.Rule != protos.PermissionRule_SIGN_THRESHOLD {
		return false // the fixture only creates threshold accounts
	}
	sum := 0.0
	for ak, w := range acl.AksWeight {
		if members[ak] {
			sum += w
		}
	}
	return sum >= acl.Pm.AcceptValue
}

func reference(f *fixture, tx *pb.Transaction) (v refVerdict) {
	defer func() {
		if r := recover(); r != nil {
			v = refVerdict{Why: "malformed"}
		}
	}()
	v.Signers = map[string]bool{}
	if tx.Version < 1 || tx.Version > 3 {
		v.Why = "version"
		return
	}
	id, err := txhash.MakeTransactionID(tx)
	if err != nil || !bytes.Equal(id, tx.Txid) {
		v.Why = "txid is not the hash of the content"
		return
	}
	digest, err := txhash.MakeTxDigestHash(tx)
	if err != nil {
		v.Why = "digest"
		return
	}
	// listed signers: the AK (last segment) of each AuthRequire entry
	var listed []string
	for _, ar := range tx.AuthRequire {
		listed = append(listed, lastSeg(ar))
	}
	initiatorIsAccount := isAccountName(tx.Initiator)
	if tx.XuperSign != nil {
		// aggregated form: one multi-signature by exactly the initiator and the
		// listed signers, each named with the public key of its address
		if initiatorIsAccount {
			v.Why = "aggregated form with account initiator"
			return
		}
		need := uniqueNames(append([]string{tx.Initiator}, listed...))
		if len(need) != len(tx.XuperSign.PublicKeys) {
			v.Why = "public key count"
			return
		}
		var keys []*ecdsa.PublicKey
		for i, pj := range tx.XuperSign.PublicKeys {
			pub, err := world.Crypto.GetEcdsaPublicKeyFromJsonStr(string(pj))
			if err != nil || pub == nil || pub.X == nil {
				v.Why = "public key"
				return
			}
			addr, err := world.Crypto.GetAddressFromPublicKey(pub)
			if err != nil || addr != need[i] {
				v.Why = "public key does not belong to the listed address"
				return
			}
			keys = append(keys, pub)
		}
		var xs struct {
			SigType    string
			SigContent []byte
		}
		if len(keys) == 1 {
			if ok, _ := verifyDER(keys[0], tx.XuperSign.Signature, digest); ok {
				v.Signers[need[0]] = true
			} else if ok, err := world.Crypto.VerifyXuperSignature(keys, tx.XuperSign.Signature, digest); err == nil && ok {
				v.Signers[need[0]] = true
			}
		} else if err := json.Unmarshal(tx.XuperSign.Signature, &xs); err == nil && xs.SigType == "MultiSig" {
			if ok, err := world.Crypto.VerifyMultiSig(keys, xs.SigContent, digest); err == nil && ok {
				for _, a := range need {
					v.Signers[a] = true
				}
			}
		}
		if len(v.Signers) != len(need) {
			v.Why = "aggregated signature is not a valid multi-signature of the initiator and every listed signer"
			return
		}
		v.AllEntriesValid = true
		for _, si := range append(append([]*protos.SignatureInfo{}, tx.InitiatorSigns...), tx.AuthRequireSigns...) {
			if _, ok := v.entry(si, digest); !ok {
				v.AllEntriesValid = false
			}
			v.SlotMismatch = true // the aggregated form has no per-signer slots
		}
	} else {
		v.AllEntriesValid = true
		iniSigners := map[string]bool{}
		for _, si := range tx.InitiatorSigns {
			if a, ok := v.entry(si, digest); ok {
				v.Signers[a] = true
				iniSigners[a] = true
				if !initiatorIsAccount && a != tx.Initiator {
					v.SlotMismatch = true
				}
			} else {
				v.AllEntriesValid = false
				v.SlotMismatch = true
			}
		}
		for i, si := range tx.AuthRequireSigns {
			if a, ok := v.entry(si, digest); ok {
				v.Signers[a] = true
				if i >= len(listed) || listed[i] != a {
					v.SlotMismatch = true
				}
			} else {
				v.AllEntriesValid = false
				v.SlotMismatch = true
			}
		}
		if initiatorIsAccount {
			if !quorum(f, tx.Initiator, iniSigners) {
				v.Why = "initiator account's rule not met by the initiator signatures"
				return
			}
		} else if !v.Signers[tx.Initiator] {
			v.Why = "no valid signature of the initiator"
			return
		}
		for _, a := range listed {
			if !v.Signers[a] {
				v.Why = "listed signer " + a + " has no valid signature"
				return
			}
		}
	}
	// owners of the spent outputs
	justified := map[string]bool{}
	if len(tx.ContractRequests) > 0 {
		if cin, err := xmodel.ParseContractUtxoInputs(tx); err == nil {
			for _, in := range cin {
				justified[fmt.Sprintf("%s\x00%x\x00%d", in.FromAddr, in.RefTxid, in.RefOffset)] = true
			}
		}
	}
	for _, in := range tx.TxInputs {
		if justified[fmt.Sprintf("%s\x00%x\x00%d", in.FromAddr, in.RefTxid, in.RefOffset)] {
			continue // spent by the carried contract code; reproduced by re-execution
		}
		owner := string(in.FromAddr)
		if isAccountName(owner) {
			members := map[string]bool{}
			for _, ar := range tx.AuthRequire {
				p := strings.Split(ar, "/")
				if len(p) == 2 && p[0] == owner && v.Signers[p[1]] {
					members[p[1]] = true
				}
			}
			if owner == tx.Initiator {
				// the initiator account already proved its rule with its own signatures
				continue
			}
			if !quorum(f, owner, members) {
				v.Why = "owner account " + owner + ": rule not met by the listed signers"
				return
			}
			continue
		}
		named := owner == tx.Initiator
		for _, a := range listed {
			if a == owner {
				named = true
			}
		}
		if !named || !v.Signers[owner] {
			v.Why = "owner " + owner + " of a spent output is not among the signers"
			return
		}
	}
	v.Authorised = true
	return
}
