package c07

import (
	"bytes"
	"crypto/ecdsa"
	"crypto/sha256"
	"encoding/asn1"
	"encoding/json"
	"fmt"
	"math/big"
	"sort"
	"strings"
	"sync"

	"github.com/golang/protobuf/proto"

	"github.com/xuperchain/xupercore/bcs/ledger/xledger/state/utxo/txhash"
	"github.com/xuperchain/xupercore/bcs/ledger/xledger/state/xmodel"
	pb "github.com/xuperchain/xupercore/bcs/ledger/xledger/xldgpb"
	"github.com/xuperchain/xupercore/protos"

	"verif/world"
)

// ---------------------------------------------------------------------------
// contractPayers: whose outputs does the contract code a transaction carries
// spend? The harness executes the carried requests itself, through the node's
// real pre-execution (Chain.PreExec: real sandbox, outputs selected from the
// real state) on a FRESH world of the same setup, for the transaction's
// initiator and signer list, and collects the owners of the outputs the code
// selected. Requests that do not execute spend from nobody. Cached per (setup,
// initiator, signer list, requests): pre-execution locks what it selects.

var payerCache sync.Map // string -> map[string]bool

func contractPayers(f *fixture, tx *pb.Transaction) map[string]bool {
	h := sha256.New()
	fmt.Fprintf(h, "%s\x00%q\x00%q\x00", f.rcp.Name, tx.Initiator, tx.AuthRequire)
	for _, r := range tx.ContractRequests {
		var ks []string
		for k := range r.GetArgs() {
			ks = append(ks, k)
		}
		sort.Strings(ks)
		fmt.Fprintf(h, "%q %q %q %q|", r.GetModuleName(), r.GetContractName(), r.GetMethodName(), r.GetAmount())
		for _, k := range ks {
			fmt.Fprintf(h, "%q=%q,", k, r.Args[k])
		}
		fmt.Fprintf(h, "\x00")
	}
	key := string(h.Sum(nil))
	if v, ok := payerCache.Load(key); ok {
		return v.(map[string]bool)
	}
	payers := map[string]bool{}
	func() {
		defer func() { _ = recover() }()
		g, err := f.rcp.instantiate()
		if err != nil {
			return
		}
		defer g.drop()
		var reqs []*protos.InvokeRequest
		for _, r := range tx.ContractRequests {
			if r == nil {
				return
			}
			reqs = append(reqs, proto.Clone(r).(*protos.InvokeRequest))
		}
		pre, err := g.w.PreExec(reqs, tx.Initiator, tx.AuthRequire)
		if err != nil || pre == nil {
			return
		}
		for _, in := range pre.UtxoInputs {
			payers[string(in.FromAddr)] = true
		}
	}()
	payerCache.Store(key, payers)
	return payers
}

// ---------------------------------------------------------------------------
// Reference predicate: the property statement's acceptance condition, written
// directly from the statement and evaluated by the harness itself (strict DER
// parsing, its own ACL arithmetic). VerifyTx accepting a transaction for which
// this predicate is false is a violation of "accepted only if ...".

type refVerdict struct {
	Authorised bool
	Why        string
	// Stage names the clause that fails: txid | initiator | listed_signer | owner.
	Stage string
	// Signers: addresses with a strictly valid signature over the digest.
	Signers map[string]bool
	// AllEntriesValid: every per-signer signature entry the transaction carries is
	// a valid signature (no junk entry).
	AllEntriesValid bool
	// SlotMismatch: some per-signer entry is not a valid signature of the address
	// its slot stands for (junk, or somebody else's signature).
	SlotMismatch bool
	// NonCanonical: some entry verifies only when bytes after the DER signature
	// are ignored (as the crypto library does).
	NonCanonical bool
}

func isAccountName(s string) bool {
	if !strings.HasPrefix(s, "XC") {
		return false
	}
	at := strings.Index(s, "@")
	if at != 18 {
		return false
	}
	for _, c := range s[2:18] {
		if c < '0' || c > '9' {
			return false
		}
	}
	return true
}

// verifyDER verifies a DER (r, s) signature with crypto/ecdsa. valid: the
// leading DER value is a valid signature (what the signer produced); canonical:
// and nothing follows it.
func verifyDER(pub *ecdsa.PublicKey, sig, digest []byte) (valid, canonical bool) {
	var rs struct{ R, S *big.Int }
	rest, err := asn1.Unmarshal(sig, &rs)
	if err != nil || rs.R == nil || rs.S == nil || rs.R.Sign() != 1 || rs.S.Sign() != 1 {
		return false, false
	}
	if !ecdsa.Verify(pub, digest, rs.R, rs.S) {
		return false, false
	}
	return true, len(rest) == 0
}

func (v *refVerdict) entry(si *protos.SignatureInfo, digest []byte) (string, bool) {
	a, ok, canonical := entryAddr(si, digest)
	if ok && !canonical {
		v.NonCanonical = true
	}
	return a, ok
}

func entryAddr(si *protos.SignatureInfo, digest []byte) (addr string, valid bool, canonical bool) {
	if si == nil {
		return "", false, false
	}
	pub, err := world.Crypto.GetEcdsaPublicKeyFromJsonStr(si.PublicKey)
	if err != nil || pub == nil || pub.X == nil {
		return "", false, false
	}
	addr, err = world.Crypto.GetAddressFromPublicKey(pub)
	if err != nil {
		return "", false, false
	}
	valid, canonical = verifyDER(pub, si.Sign, digest)
	if !valid {
		return "", false, false
	}
	return addr, true, canonical
}

// acctShaped: the name has the shape of an account ("XC" + 16 digits, then
// nothing or "@chain"): such an owner has no key of its own, only its
// access-control rule can entitle somebody to act for it.
func acctShaped(s string) bool {
	if len(s) < 18 || !strings.HasPrefix(s, "XC") {
		return false
	}
	for _, c := range s[2:18] {
		if c < '0' || c > '9' {
			return false
		}
	}
	return len(s) == 18 || s[18] == '@'
}

// ruleMet evaluates the stored access-control rule of account over the set of
// its members that acted (keys that signed, member accounts whose own rule is
// met). The rule is read from the ledger through the ACL manager and evaluated
// here. An account that has no rule, or a rule that cannot be evaluated, entitles
// nobody.
func ruleMet(f *fixture, account string, acted map[string]bool) bool {
	acl, err := f.w.Acl().GetAccountACL(account)
	if err != nil || acl == nil || acl.Pm == nil {
		return false
	}
	switch acl.Pm.Rule {
	case protos.PermissionRule_SIGN_THRESHOLD:
		sum := 0.0
		for ak, w := range acl.AksWeight {
			if acted[ak] {
				sum += w
			}
		}
		return sum >= acl.Pm.AcceptValue
	case protos.PermissionRule_SIGN_AKSET:
		for _, set := range acl.GetAkSets().GetSets() {
			if set == nil || len(set.Aks) == 0 {
				continue
			}
			all := true
			for _, ak := range set.Aks {
				if !acted[ak] {
					all = false
				}
			}
			if all {
				return true
			}
		}
	}
	return false
}

// quorum: the rule of account over directly acting member keys.
func quorum(f *fixture, account string, members map[string]bool) bool {
	return ruleMet(f, account, members)
}

// authNode is one name on the authorisation paths "account/.../key" a
// transaction lists.
type authNode struct {
	signed   bool // the name ends a path and has a valid signature
	children map[string]*authNode
}

// ownerRuleMet: is the rule of the owner account met by the listed paths that
// start at it? A key acts when it ends a path and signed; an account in the
// middle of a path acts when its own rule is met by what is listed beneath it.
func ownerRuleMet(f *fixture, owner string, authRequire []string, signers map[string]bool) bool {
	root := &authNode{children: map[string]*authNode{}}
	for _, ar := range authRequire {
		p := strings.Split(ar, "/")
		if len(p) < 2 || p[0] != owner || len(p) > 8 {
			continue
		}
		cur := root
		for i := 1; i < len(p); i++ {
			n := cur.children[p[i]]
			if n == nil {
				n = &authNode{children: map[string]*authNode{}}
				cur.children[p[i]] = n
			}
			if i == len(p)-1 && signers[p[i]] {
				n.signed = true
			}
			cur = n
		}
	}
	var met func(name string, n *authNode, depth int) bool
	met = func(name string, n *authNode, depth int) bool {
		acted := map[string]bool{}
		for cn, c := range n.children {
			if c.signed && !acctShaped(cn) {
				acted[cn] = true
			} else if acctShaped(cn) && len(c.children) > 0 && depth < 8 && met(cn, c, depth+1) {
				acted[cn] = true
			}
		}
		return ruleMet(f, name, acted)
	}
	return met(owner, root, 0)
}

func reference(f *fixture, tx *pb.Transaction) (v refVerdict) {
	defer func() {
		if r := recover(); r != nil {
			v = refVerdict{Why: "malformed"}
		}
	}()
	v.Signers = map[string]bool{}
	if tx.Version < 1 || tx.Version > 3 {
		v.Why = "version"
		return
	}
	id, err := txhash.MakeTransactionID(tx)
	if err != nil || !bytes.Equal(id, tx.Txid) {
		v.Why, v.Stage = "txid is not the hash of the content", "txid"
		return
	}
	digest, err := txhash.MakeTxDigestHash(tx)
	if err != nil {
		v.Why = "digest"
		return
	}
	// listed signers: the AK (last segment) of each AuthRequire entry
	var listed []string
	for _, ar := range tx.AuthRequire {
		listed = append(listed, lastSeg(ar))
	}
	initiatorIsAccount := acctShaped(tx.Initiator)
	if tx.XuperSign != nil {
		// aggregated form: one multi-signature by exactly the initiator and the
		// listed signers, each named with the public key of its address
		if initiatorIsAccount {
			v.Why = "aggregated form with account initiator"
			return
		}
		need := uniqueNames(append([]string{tx.Initiator}, listed...))
		if len(need) != len(tx.XuperSign.PublicKeys) {
			v.Why = "public key count"
			return
		}
		var keys []*ecdsa.PublicKey
		for i, pj := range tx.XuperSign.PublicKeys {
			pub, err := world.Crypto.GetEcdsaPublicKeyFromJsonStr(string(pj))
			if err != nil || pub == nil || pub.X == nil {
				v.Why = "public key"
				return
			}
			addr, err := world.Crypto.GetAddressFromPublicKey(pub)
			if err != nil || addr != need[i] {
				v.Why = "public key does not belong to the listed address"
				return
			}
			keys = append(keys, pub)
		}
		var xs struct {
			SigType    string
			SigContent []byte
		}
		if len(keys) == 1 {
			if ok, _ := verifyDER(keys[0], tx.XuperSign.Signature, digest); ok {
				v.Signers[need[0]] = true
			} else if ok, err := world.Crypto.VerifyXuperSignature(keys, tx.XuperSign.Signature, digest); err == nil && ok {
				v.Signers[need[0]] = true
			}
		} else if err := json.Unmarshal(tx.XuperSign.Signature, &xs); err == nil && xs.SigType == "MultiSig" {
			if ok, err := world.Crypto.VerifyMultiSig(keys, xs.SigContent, digest); err == nil && ok {
				for _, a := range need {
					v.Signers[a] = true
				}
			}
		}
		if len(v.Signers) != len(need) {
			v.Why, v.Stage = "aggregated signature is not a valid multi-signature of the initiator and every listed signer", "listed_signer"
			return
		}
		v.AllEntriesValid = true
		for _, si := range append(append([]*protos.SignatureInfo{}, tx.InitiatorSigns...), tx.AuthRequireSigns...) {
			if _, ok := v.entry(si, digest); !ok {
				v.AllEntriesValid = false
			}
			v.SlotMismatch = true // the aggregated form has no per-signer slots
		}
	} else {
		v.AllEntriesValid = true
		iniSigners := map[string]bool{}
		for _, si := range tx.InitiatorSigns {
			if a, ok := v.entry(si, digest); ok {
				v.Signers[a] = true
				iniSigners[a] = true
				if !initiatorIsAccount && a != tx.Initiator {
					v.SlotMismatch = true
				}
			} else {
				v.AllEntriesValid = false
				v.SlotMismatch = true
			}
		}
		for i, si := range tx.AuthRequireSigns {
			if a, ok := v.entry(si, digest); ok {
				v.Signers[a] = true
				if i >= len(listed) || listed[i] != a {
					v.SlotMismatch = true
				}
			} else {
				v.AllEntriesValid = false
				v.SlotMismatch = true
			}
		}
		if initiatorIsAccount {
			if !quorum(f, tx.Initiator, iniSigners) {
				v.Why, v.Stage = "initiator account's access-control rule is not met by the initiator signatures (or it has none)", "initiator"
				return
			}
		} else if !v.Signers[tx.Initiator] {
			v.Why, v.Stage = "no valid signature of the initiator", "initiator"
			return
		}
		for _, a := range listed {
			if !v.Signers[a] {
				v.Why, v.Stage = "listed signer "+a+" has no valid signature", "listed_signer"
				return
			}
		}
	}
	// owners of the spent outputs
	// contract-justified inputs: listed in the record the transaction carries AND
	// owned by somebody the carried code really spends from when the harness
	// executes it itself ("performed by the contract code the transaction carries
	// and reproduced when that code is re-executed"): a record entry the code's
	// execution does not account for justifies nothing.
	justified := map[string]bool{}
	if len(tx.ContractRequests) > 0 {
		if cin, err := xmodel.ParseContractUtxoInputs(tx); err == nil && len(cin) > 0 {
			payers := contractPayers(f, tx)
			for _, in := range cin {
				if payers[string(in.FromAddr)] {
					justified[fmt.Sprintf("%s\x00%x\x00%d", in.FromAddr, in.RefTxid, in.RefOffset)] = true
				}
			}
		}
	}
	for _, in := range tx.TxInputs {
		if justified[fmt.Sprintf("%s\x00%x\x00%d", in.FromAddr, in.RefTxid, in.RefOffset)] {
			continue // spent by the carried contract code; reproduced by re-execution
		}
		owner := string(in.FromAddr)
		if acctShaped(owner) {
			if owner == tx.Initiator {
				// the initiator account already proved its rule with its own signatures
				continue
			}
			if !ownerRuleMet(f, owner, tx.AuthRequire, v.Signers) {
				v.Why, v.Stage = "owner account "+owner+": its access-control rule is not met by the listed signers (or it has none)", "owner"
				return
			}
			continue
		}
		named := owner == tx.Initiator
		for _, a := range listed {
			if a == owner {
				named = true
			}
		}
		if !named || !v.Signers[owner] {
			v.Why, v.Stage = "owner "+owner+" of a spent output is not among the signers", "owner"
			return
		}
	}
	v.Authorised = true
	return
}
