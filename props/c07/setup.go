package c07

import (
	"crypto/ecdsa"
	"encoding/hex"
	"fmt"
	"math/big"
	"sync"

	"github.com/golang/protobuf/proto"

	"github.com/xuperchain/xupercore/bcs/ledger/xledger/state/utxo/txhash"
	pb "github.com/xuperchain/xupercore/bcs/ledger/xledger/xldgpb"
	"github.com/xuperchain/xupercore/protos"

	"verif/world"
)

// ---------------------------------------------------------------------------
// Setups: a setup is a recipe (serialized blocks + ledger marks) that any
// worker -- and the replay command -- turns into an identical world. ECDSA
// signing is randomised, so the recipe is built once and then only replayed.

// AccountNo is the raw number of the fixture account; Account its full name.
const (
	AccountNo = "1111111111111111"
	Account   = "XC" + AccountNo + "@" + world.BCName
)

type markSpec struct {
	Txid   string `json:"txid"` // hex
	Ptxid  string `json:"ptxid"`
	Height int64  `json:"height"`
}

type recipe struct {
	Name   string     `json:"name"`
	Blocks []string   `json:"blocks"` // hex(proto.Marshal(block)), parents first
	Marks  []markSpec `json:"marks"`
	// refs are named confirmed transactions base builders cite (not serialized:
	// replay does not rebuild base transactions).
	refs map[string]*pb.Transaction
}

type fixture struct {
	w   *world.World
	rcp *recipe
}

func (f *fixture) drop() {
	if f != nil && f.w != nil {
		f.w.Drop()
	}
}

// instantiate builds a world from a recipe: genesis, then every block received
// and walked exactly as a syncing node does, then the ledger marks.
func (r *recipe) instantiate() (*fixture, error) {
	w, err := world.New(world.DefaultConfig(), world.RegisterVKV)
	if err != nil {
		return nil, err
	}
	for i, hx := range r.Blocks {
		buf, err := hex.DecodeString(hx)
		if err != nil {
			return nil, err
		}
		blk := &pb.InternalBlock{}
		if err := proto.Unmarshal(buf, blk); err != nil {
			return nil, err
		}
		if ok, st := w.Recv(blk); !ok {
			return nil, fmt.Errorf("setup %s: block %d refused: %s", r.Name, i, st)
		}
		if err := w.Sync(); err != nil {
			return nil, fmt.Errorf("setup %s: walk to block %d: %v", r.Name, i, err)
		}
	}
	for _, m := range r.Marks {
		if err := w.Ledger.UpdateBlockChainData(m.Txid, m.Ptxid, "", "", m.Height); err != nil {
			return nil, fmt.Errorf("setup %s: mark: %v", r.Name, err)
		}
	}
	return &fixture{w: w, rcp: r}, nil
}

var (
	recipeMu sync.Mutex
	recipes  = map[string]*recipe{}
)

// getRecipe builds (once per process) the named setup.
func getRecipe(name string) (*recipe, error) {
	recipeMu.Lock()
	defer recipeMu.Unlock()
	if r, ok := recipes[name]; ok {
		return r, nil
	}
	var r *recipe
	var err error
	switch name {
	case "plain":
		r, err = buildPlain()
	case "acct":
		r, err = buildAcct()
	case "marked":
		r, err = buildMarked()
	case "owners":
		r, err = buildOwners()
	default:
		err = fmt.Errorf("unknown setup %q", name)
	}
	if err != nil {
		return nil, err
	}
	recipes[name] = r
	return r, nil
}

func buildPlain() (*recipe, error) {
	w, err := world.New(world.DefaultConfig(), world.RegisterVKV)
	if err != nil {
		return nil, err
	}
	defer w.Drop()
	return &recipe{Name: "plain", refs: map[string]*pb.Transaction{"root": world.CloneTx(w.Genesis.Transactions[0])}}, nil
}

// closeBlock submits txs to the builder's pool, forms block 1 on genesis by the
// configured miner, confirms and plays it (the honest producer path).
func closeBlock(w *world.World, txs []*pb.Transaction, tag string) (*pb.InternalBlock, error) {
	for i, t := range txs {
		if err := w.SubmitStrict(world.CloneTx(t)); err != nil {
			return nil, fmt.Errorf("setup tx %d refused: %v", i, err)
		}
	}
	blk, err := w.FormatBlock("M", w.Genesis, txs, 101, tag)
	if err != nil {
		return nil, err
	}
	stored := world.CloneBlock(blk)
	if ok, st := w.Recv(blk); !ok {
		return nil, fmt.Errorf("builder refused block: %s", st)
	}
	if err := w.State.PlayForMiner(blk.Blockid); err != nil {
		return nil, fmt.Errorf("builder play: %v", err)
	}
	return stored, nil
}

func blockHex(b *pb.InternalBlock) string {
	buf, err := proto.Marshal(b)
	if err != nil {
		panic(err)
	}
	return hex.EncodeToString(buf)
}

// buildAcct: block 1 = { NewAccount(Account, threshold 2 of {A,B,C}) by A ; a
// funding transfer A -> Account 300, Account 200, C 100, A 200, A 180 }.
func buildAcct() (*recipe, error) {
	w, err := world.New(world.DefaultConfig(), world.RegisterVKV)
	if err != nil {
		return nil, err
	}
	defer w.Drop()
	root := w.Genesis.Transactions[0]
	acl := fmt.Sprintf(`{"pm":{"rule":1,"acceptValue":2},"aksWeight":{"%s":1,"%s":1,"%s":1}}`, world.Addr("A"), world.Addr("B"), world.Addr("C"))
	req := &protos.InvokeRequest{ModuleName: "xkernel", ContractName: "$acl", MethodName: "NewAccount",
		Args: map[string][]byte{"account_name": []byte(AccountNo), "acl": []byte(acl)}}
	a := world.Addr("A")
	pre, err := w.PreExec([]*protos.InvokeRequest{req}, a, []string{a})
	if err != nil {
		return nil, fmt.Errorf("preexec NewAccount: %v", err)
	}
	fee := pre.GasUsed
	tnew := world.BuildTx(world.TxSpec{Initiator: "A", Ins: []world.In{{Tx: root, Offset: 0}},
		Outs:  []world.Out{{To: "$", Amount: fmt.Sprint(fee)}, {To: "A", Amount: fmt.Sprint(1000 - fee)}},
		Nonce: "c07-newaccount", Requests: pre.Requests, InputsExt: pre.Inputs, OutputsExt: pre.Outputs})
	rest := 1000 - fee - 300 - 200 - 100 - 200
	tfund := world.BuildTx(world.TxSpec{Initiator: "A", Ins: []world.In{{Tx: tnew, Offset: 1}},
		Outs: []world.Out{{To: Account, Amount: "300"}, {To: Account, Amount: "200"}, {To: "C", Amount: "100"},
			{To: "A", Amount: "200"}, {To: "A", Amount: fmt.Sprint(rest)}},
		Nonce: "c07-fund"})
	blk, err := closeBlock(w, []*pb.Transaction{tnew, tfund}, "c07-acct")
	if err != nil {
		return nil, err
	}
	if got, err := w.Acl().GetAccountACL(Account); err != nil || got == nil {
		return nil, fmt.Errorf("account not visible after confirmation: %v", err)
	}
	return &recipe{Name: "acct", Blocks: []string{blockHex(blk)},
		refs: map[string]*pb.Transaction{"root": world.CloneTx(root), "tnew": tnew, "tfund": tfund}}, nil
}

// buildMarked: block 1 = { t1: A -> C 300, A 700 }, then the ledger's
// UpdateBlockChainData marks t1 (the regulator's "modified block data" record).
func buildMarked() (*recipe, error) {
	w, err := world.New(world.DefaultConfig(), world.RegisterVKV)
	if err != nil {
		return nil, err
	}
	defer w.Drop()
	root := w.Genesis.Transactions[0]
	t1 := world.BuildTx(world.TxSpec{Initiator: "A", Ins: []world.In{{Tx: root, Offset: 0}},
		Outs: []world.Out{{To: "C", Amount: "300"}, {To: "A", Amount: "700"}}, Nonce: "c07-t1", Desc: "to be marked"})
	blk, err := closeBlock(w, []*pb.Transaction{t1}, "c07-marked")
	if err != nil {
		return nil, err
	}
	return &recipe{Name: "marked", Blocks: []string{blockHex(blk)},
		Marks: []markSpec{{Txid: hex.EncodeToString(t1.Txid), Ptxid: "00", Height: 1}},
		refs:  map[string]*pb.Transaction{"root": world.CloneTx(root), "t1": t1}}, nil
}

// ---------------------------------------------------------------------------
// signing

// signPlan says who signs a transaction and in which form.
type signPlan struct {
	// Initiator key names: one for an address initiator, several for an account.
	Initiator []string
	// Auth key names, one per AuthRequire entry (old form) or the distinct
	// co-signers (aggregated form).
	Auth []string
	// Xuper: aggregated signature (XuperSign) instead of per-signer signatures.
	Xuper bool
}

func signInfo(key string, digest []byte) *protos.SignatureInfo {
	k := world.Keys[key]
	sg, err := world.Crypto.SignECDSA(k.Priv, digest)
	if err != nil {
		panic(err)
	}
	return &protos.SignatureInfo{PublicKey: k.PubJSON, Sign: sg}
}

func mustDigest(tx *pb.Transaction) []byte {
	d, err := txhash.MakeTxDigestHash(tx)
	if err != nil {
		panic(err)
	}
	return d
}

func setTxid(tx *pb.Transaction) {
	id, err := txhash.MakeTransactionID(tx)
	if err != nil {
		panic(err)
	}
	tx.Txid = id
}

// sign fills the signature fields according to plan and recomputes the txid.
func sign(tx *pb.Transaction, p signPlan) {
	tx.InitiatorSigns, tx.AuthRequireSigns, tx.XuperSign = nil, nil, nil
	d := mustDigest(tx)
	if p.Xuper {
		names := uniqueNames(append(append([]string{}, p.Initiator...), p.Auth...))
		var privs []*ecdsa.PrivateKey
		xs := &pb.XuperSignature{}
		for _, n := range names {
			privs = append(privs, world.Keys[n].Priv)
			xs.PublicKeys = append(xs.PublicKeys, []byte(world.Keys[n].PubJSON))
		}
		sg, err := multiSign(privs, d)
		if err != nil {
			panic(err)
		}
		xs.Signature = sg
		tx.XuperSign = xs
		setTxid(tx)
		return
	}
	memo := map[string]*protos.SignatureInfo{}
	get := func(n string) *protos.SignatureInfo {
		if s, ok := memo[n]; ok {
			return proto.Clone(s).(*protos.SignatureInfo)
		}
		memo[n] = signInfo(n, d)
		return proto.Clone(memo[n]).(*protos.SignatureInfo)
	}
	for _, n := range p.Initiator {
		tx.InitiatorSigns = append(tx.InitiatorSigns, get(n))
	}
	for _, n := range p.Auth {
		tx.AuthRequireSigns = append(tx.AuthRequireSigns, get(n))
	}
	setTxid(tx)
}

func uniqueNames(in []string) []string {
	seen := map[string]bool{}
	var out []string
	for _, n := range in {
		if !seen[n] {
			seen[n] = true
			out = append(out, n)
		}
	}
	return out
}

// ---------------------------------------------------------------------------
// base transactions

type baseTx struct {
	Name    string // setup/form/vN
	Setup   string
	Form    string
	Version int32
	Tx      *pb.Transaction
	Plan    signPlan
	// Owners are the key names whose signature the spent outputs need (for an
	// account-owned output: its ACL members); Outsiders never may authorise it.
	Outsiders []string
	// Members: keys holding weight in the ACL of the account the form uses.
	Members []string
}

func input(ref *pb.Transaction, off int) *protos.TxInput {
	o := ref.TxOutputs[off]
	return &protos.TxInput{RefTxid: ref.Txid, RefOffset: int32(off), FromAddr: o.ToAddr,
		Amount: new(big.Int).SetBytes(o.Amount).Bytes(), FrozenHeight: o.FrozenHeight}
}

func output(to string, amount int64) *protos.TxOutput {
	return &protos.TxOutput{ToAddr: []byte(world.ResolveAddr(to)), Amount: big.NewInt(amount).Bytes()}
}

func addrs(names ...string) []string {
	var out []string
	for _, n := range names {
		out = append(out, world.Addr(n))
	}
	return out
}

// kvParts pre-executes a $vkv program for initiator on f and returns the
// request/ext parts and the fee.
func kvParts(f *fixture, initiator string, auth []string, prog string) (*world.PreExecResult, error) {
	return f.w.PreExec([]*protos.InvokeRequest{world.VKVRequest(prog)}, initiator, auth)
}

// buildBases builds every base transaction of a setup for the given versions.
// deep adds the larger forms of the thorough tier.
func buildBases(f *fixture, versions []int32, deep bool) ([]*baseTx, []string) {
	var out []*baseTx
	var notes []string
	if f.rcp.Name == "owners" {
		// the owner-kind setup feeds the spend-attempt family; the thorough tier
		// also mutates accepted spends of its richer account kinds
		if deep {
			return ownerBases(f, versions), nil
		}
		return nil, nil
	}
	refs := f.rcp.refs
	add := func(form string, v int32, tx *pb.Transaction, plan signPlan, outsiders []string) {
		tx.Version = v
		tx.Nonce = fmt.Sprintf("c07-%s-%s-v%d", f.rcp.Name, form, v)
		tx.Timestamp = 1600000000 + int64(v)
		sign(tx, plan)
		bt := &baseTx{Name: fmt.Sprintf("%s/%s/v%d", f.rcp.Name, form, v), Setup: f.rcp.Name, Form: form, Version: v,
			Tx: tx, Plan: plan, Outsiders: outsiders}
		if f.rcp.Name == "acct" {
			bt.Members = []string{"A", "B", "C"}
		}
		out = append(out, bt)
	}
	// pre-execution selects (and briefly locks) outputs: once per fixture
	var xferTx *pb.Transaction
	var xferErr error
	if f.rcp.Name == "acct" {
		xferTx, xferErr = kvXfer(f, refs["tfund"])
		if xferErr != nil {
			notes = append(notes, fmt.Sprintf("form kvxfer dropped: %v", xferErr))
		}
	}
	for _, v := range versions {
		switch f.rcp.Name {
		case "plain":
			root := refs["root"]
			a, b, c := world.Addr("A"), world.Addr("B"), world.Addr("C")
			// address initiator spending its own output
			add("addr", v, &pb.Transaction{Initiator: a, AuthRequire: []string{a}, Desc: []byte("pay"),
				TxInputs:  []*protos.TxInput{input(root, 0)},
				TxOutputs: []*protos.TxOutput{output("B", 300), output("A", 700)}},
				signPlan{Initiator: []string{"A"}, Auth: []string{"A"}}, []string{"B", "C", "D", "X"})
			// initiator + 2 further AuthRequire signers, two owners
			add("multi", v, &pb.Transaction{Initiator: a, AuthRequire: []string{a, b, c}, Desc: []byte("joint"),
				TxInputs:  []*protos.TxInput{input(root, 0), input(root, 1)},
				TxOutputs: []*protos.TxOutput{output("D", 1200), output("A", 300)}},
				signPlan{Initiator: []string{"A"}, Auth: []string{"A", "B", "C"}}, []string{"C", "D", "X"})
			// aggregated (XuperSign) multi-signature of A and B
			add("xsign", v, &pb.Transaction{Initiator: a, AuthRequire: []string{b},
				TxInputs:  []*protos.TxInput{input(root, 0), input(root, 1)},
				TxOutputs: []*protos.TxOutput{output("D", 1100), output("B", 400)}},
				signPlan{Initiator: []string{"A"}, Auth: []string{"B"}, Xuper: true}, []string{"C", "D", "X"})
			// contract invocation carrying a $vkv request
			if pre, err := kvParts(f, a, []string{a}, "put k1 x"); err != nil {
				notes = append(notes, fmt.Sprintf("form kv dropped: preexec: %v", err))
			} else {
				add("kv", v, &pb.Transaction{Initiator: a, AuthRequire: []string{a},
					TxInputs:         []*protos.TxInput{input(root, 0)},
					TxOutputs:        []*protos.TxOutput{output("$", pre.GasUsed), output("A", 1000-pre.GasUsed)},
					ContractRequests: pre.Requests, TxInputsExt: pre.Inputs, TxOutputsExt: pre.Outputs},
					signPlan{Initiator: []string{"A"}, Auth: []string{"A"}}, []string{"B", "C", "D", "X"})
			}
			if deep {
				// three signers, richer contract program (two writes, a read, two args)
				if pre, err := kvParts(f, b, []string{b, a}, "put k1 x;put k2 y;get k1"); err != nil {
					notes = append(notes, fmt.Sprintf("form kv2 dropped: preexec: %v", err))
				} else {
					reqs := pre.Requests
					add("kv2", v, &pb.Transaction{Initiator: b, AuthRequire: []string{b, a},
						TxInputs:         []*protos.TxInput{input(root, 1), input(root, 0)},
						TxOutputs:        []*protos.TxOutput{output("$", pre.GasUsed), output("B", 1400-pre.GasUsed), output("C", 100)},
						ContractRequests: reqs, TxInputsExt: pre.Inputs, TxOutputsExt: pre.Outputs,
						HDInfo: &pb.HDInfo{HdPublicKey: []byte("hdpub"), OriginalHash: []byte("orig")}},
						signPlan{Initiator: []string{"B"}, Auth: []string{"B", "A"}}, []string{"C", "D", "X"})
				}
				add("xsign3", v, &pb.Transaction{Initiator: b, AuthRequire: []string{a, c},
					TxInputs:  []*protos.TxInput{input(root, 1), input(root, 0)},
					TxOutputs: []*protos.TxOutput{output("D", 1500)}},
					signPlan{Initiator: []string{"B"}, Auth: []string{"A", "C"}, Xuper: true}, []string{"D", "X"})
			}
		case "acct":
			tfund := refs["tfund"]
			ua, ub, uc := Account+"/"+world.Addr("A"), Account+"/"+world.Addr("B"), Account+"/"+world.Addr("C")
			// account initiator, threshold ACL satisfied by A and B
			add("acct_init", v, &pb.Transaction{Initiator: Account, AuthRequire: []string{ua, ub},
				TxInputs:  []*protos.TxInput{input(tfund, 0)},
				TxOutputs: []*protos.TxOutput{output("D", 100), output(Account, 200)}},
				signPlan{Initiator: []string{"A", "B"}, Auth: []string{"A", "B"}}, []string{"D", "X"})
			// address initiator spending from the account through AuthRequire URIs
			add("acct_auth", v, &pb.Transaction{Initiator: world.Addr("C"), AuthRequire: []string{ua, ub},
				TxInputs:  []*protos.TxInput{input(tfund, 1), input(tfund, 2)},
				TxOutputs: []*protos.TxOutput{output("D", 250), output("C", 50)}},
				signPlan{Initiator: []string{"C"}, Auth: []string{"A", "B"}}, []string{"D", "X"})
			// contract-justified input: the contract transfers on the initiator's behalf
			if xferErr == nil {
				add("kvxfer", v, world.CloneTx(xferTx), signPlan{Initiator: []string{"A"}, Auth: []string{"A"}}, []string{"B", "C", "D", "X"})
			}
			if deep {
				add("acct_auth3", v, &pb.Transaction{Initiator: world.Addr("C"), AuthRequire: []string{world.Addr("C"), ub, uc, ua},
					TxInputs:  []*protos.TxInput{input(tfund, 1), input(tfund, 2), input(tfund, 0)},
					TxOutputs: []*protos.TxOutput{output("D", 550), output("C", 50)}},
					signPlan{Initiator: []string{"C"}, Auth: []string{"C", "B", "C", "A"}}, []string{"D", "X"})
			}
		case "marked":
			t1 := refs["t1"]
			c := world.Addr("C")
			add("relies_on_marked", v, &pb.Transaction{Initiator: c, AuthRequire: []string{c},
				TxInputs:  []*protos.TxInput{input(t1, 0)},
				TxOutputs: []*protos.TxOutput{output("D", 100), output("C", 200)}},
				signPlan{Initiator: []string{"C"}, Auth: []string{"C"}}, []string{"A", "B", "D", "X"})
		}
	}
	return out, notes
}

// kvXfer builds the parts of a transaction whose contract moves 5 from the
// initiator A to B: the contract-selected inputs/outputs come first, the fee is
// paid from A's other outputs.
func kvXfer(f *fixture, tfund *pb.Transaction) (*pb.Transaction, error) {
	a := world.Addr("A")
	pre, err := kvParts(f, a, []string{a}, "xfer B 5")
	if err != nil {
		return nil, err
	}
	if len(pre.UtxoInputs) == 0 {
		return nil, fmt.Errorf("contract selected no input")
	}
	tx := &pb.Transaction{Initiator: a, AuthRequire: []string{a},
		ContractRequests: pre.Requests, TxInputsExt: pre.Inputs, TxOutputsExt: pre.Outputs}
	used := map[string]bool{}
	for _, in := range pre.UtxoInputs {
		tx.TxInputs = append(tx.TxInputs, proto.Clone(in).(*protos.TxInput))
		used[fmt.Sprintf("%x/%d", in.RefTxid, in.RefOffset)] = true
	}
	for _, o := range pre.UtxoOutputs {
		tx.TxOutputs = append(tx.TxOutputs, proto.Clone(o).(*protos.TxOutput))
	}
	// fee from A's other confirmed outputs
	feeIn := int64(0)
	for off, o := range tfund.TxOutputs {
		if string(o.ToAddr) != a || used[fmt.Sprintf("%x/%d", tfund.Txid, off)] {
			continue
		}
		tx.TxInputs = append(tx.TxInputs, input(tfund, off))
		feeIn += new(big.Int).SetBytes(o.Amount).Int64()
		break
	}
	if feeIn < pre.GasUsed {
		return nil, fmt.Errorf("no spare output for the fee")
	}
	tx.TxOutputs = append(tx.TxOutputs, output("$", pre.GasUsed))
	if feeIn > pre.GasUsed {
		tx.TxOutputs = append(tx.TxOutputs, output("A", feeIn-pre.GasUsed))
	}
	return tx, nil
}
