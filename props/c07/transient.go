package c07

import (
	"bytes"
	"fmt"
	"math/big"
	"sort"
	"strings"

	"github.com/golang/protobuf/proto"

	"github.com/xuperchain/xupercore/bcs/ledger/xledger/state/xmodel"
	pb "github.com/xuperchain/xupercore/bcs/ledger/xledger/xldgpb"
	"github.com/xuperchain/xupercore/protos"

	"verif/core"
	"verif/world"
)

// ---------------------------------------------------------------------------
// Contract-justified spends. A transaction says which of its inputs are "spent
// by the contract code it carries" in a record it carries itself: the write-set
// entry ($transient, "ContractUtxo.Inputs") (and "ContractUtxo.Outputs" for what
// the code pays). The statement lets such an input go without its owner's
// signature only if "the spend is performed, on the signing initiator's behalf,
// by the contract code the transaction carries and is reproduced when that code
// is re-executed". The single-field families only flip bytes of an honest record
// and never re-sign; the spend-attempt family only carries honest records. This
// family RE-AUTHORS every accepted contract-carrying base transaction (signed
// again by the base's own signers, so every signature is valid) with a record
// the carried code does not produce:
//
//	claim   the record (created when the base has none) additionally names an
//	        unspent output of somebody else, a matching TxInput is added and its
//	        amount paid to the initiator
//	alter   an entry of the existing record names another output / another
//	        amount / another owner
//	drop    the record(s) are removed while the inputs stay
//
// Oracle: accepted by VerifyTx although the reference predicate (reference.go:
// an input is contract-justified only if the record lists it AND the harness's
// own execution of the carried requests spends from its owner) does not
// authorise the transaction.

const (
	trInputsKey  = "ContractUtxo.Inputs"
	trOutputsKey = "ContractUtxo.Outputs"
)

// victim: an unspent output of the setup's history that does not belong to the
// base transaction's initiator and that the base does not spend.
type victim struct {
	Name  string // <ref>/<offset>:<owner>
	Owner string
	In    *protos.TxInput
}

type trSpec struct {
	Form    string
	Class   string // claim | alter | drop | control
	Victims []int  // indices into the base's victim list
	Entry   int    // record entry the alter forms touch (-1: none)
}

func (s trSpec) label(vs []victim) string {
	var n []string
	for _, i := range s.Victims {
		n = append(n, vs[i].Name)
	}
	l := "transient:" + s.Form
	if s.Entry >= 0 {
		l += fmt.Sprintf("[%d]", s.Entry)
	}
	if len(n) > 0 {
		l += "(" + strings.Join(n, ",") + ")"
	}
	return l
}

type trPlan struct {
	base    *baseTx
	victims []victim
	specs   []trSpec
	hasXfer bool // the base carries a record (its code transfers)
}

// victimsOf lists the candidate outputs for a base: the outputs of the setup's
// funding transaction(s) (all unspent by construction: nothing in the setup
// spends them; the genesis output 0 is spent by the first setup transaction of
// every setup but "plain"). all=false keeps the first output of every owner.
func victimsOf(b *baseTx, rcp *recipe, all bool) []victim {
	var out []victim
	spentByBase := map[string]bool{}
	for _, in := range b.Tx.TxInputs {
		spentByBase[fmt.Sprintf("%x/%d", in.RefTxid, in.RefOffset)] = true
	}
	seenOwner := map[string]bool{}
	for _, rn := range []string{"tfund", "root"} {
		ref := rcp.refs[rn]
		if ref == nil {
			continue
		}
		for off, o := range ref.TxOutputs {
			owner := string(o.ToAddr)
			switch {
			case rn == "root" && off == 0 && rcp.Name != "plain":
				continue
			case owner == b.Tx.Initiator || owner == "$" || spentByBase[fmt.Sprintf("%x/%d", ref.Txid, off)]:
				continue
			case !all && seenOwner[owner]:
				continue
			}
			seenOwner[owner] = true
			out = append(out, victim{Name: fmt.Sprintf("%s/%d:%s", rn, off, owner), Owner: owner, In: input(ref, off)})
		}
	}
	return out
}

func recordIndex(t *pb.Transaction, key string) int {
	for i, o := range t.TxOutputsExt {
		if o.GetBucket() == xmodel.TransientBucket && string(o.GetKey()) == key {
			return i
		}
	}
	return -1
}

// recordSet replaces / removes (val == nil) / inserts the transient entry; a new
// entry goes where the sandbox's sorted write set would have it.
func recordSet(t *pb.Transaction, key string, val []byte) {
	i := recordIndex(t, key)
	switch {
	case i >= 0 && val == nil:
		t.TxOutputsExt = append(t.TxOutputsExt[:i:i], t.TxOutputsExt[i+1:]...)
	case i >= 0:
		t.TxOutputsExt[i].Value = val
	case val != nil:
		e := &protos.TxOutputExt{Bucket: xmodel.TransientBucket, Key: []byte(key), Value: val}
		raw := xmodel.MakeRawKey(e.Bucket, e.Key)
		at := len(t.TxOutputsExt)
		for j, o := range t.TxOutputsExt {
			if bytes.Compare(xmodel.MakeRawKey(o.GetBucket(), o.GetKey()), raw) > 0 {
				at = j
				break
			}
		}
		ext := append([]*protos.TxOutputExt{}, t.TxOutputsExt[:at]...)
		ext = append(ext, e)
		t.TxOutputsExt = append(ext, t.TxOutputsExt[at:]...)
	}
}

func recordInputs(t *pb.Transaction) []*protos.TxInput {
	ins, err := xmodel.ParseContractUtxoInputs(t)
	if err != nil {
		return nil
	}
	return ins
}

func recordOutputs(t *pb.Transaction) []*protos.TxOutput {
	i := recordIndex(t, trOutputsKey)
	if i < 0 {
		return nil
	}
	var outs []*protos.TxOutput
	if err := xmodel.UnmsarshalMessages(t.TxOutputsExt[i].Value, &outs); err != nil {
		return nil
	}
	return outs
}

func mustRecord(msgs interface{}) []byte {
	buf, err := xmodel.MarshalMessages(msgs)
	if err != nil {
		panic(err)
	}
	return buf
}

func cloneIn(in *protos.TxInput) *protos.TxInput { return proto.Clone(in).(*protos.TxInput) }

// trForms: the forms of the family, in enumeration order.
var trForms = []struct{ Form, Class, What string }{
	{"control_unclaimed", "control", "somebody else's output added as an input (amount paid to the initiator), no record names it"},
	{"claim_append", "claim", "as control, and the inputs record (created if the base has none) lists the output after the base's entries"},
	{"claim_prepend", "claim", "as control, and the inputs record lists the output before the base's entries"},
	{"claim_both_records", "claim", "as claim_append, and the outputs record also lists the payment to the initiator"},
	{"claim_alone", "claim", "as control, and the inputs record lists ONLY that output (bases with a record)"},
	{"replace_entry_and_input", "alter", "entry e of the inputs record and the TxInput it justifies both name somebody else's output instead"},
	{"replace_entry_only", "alter", "entry e of the inputs record names somebody else's output, which is also added as an input"},
	{"entry_owner", "alter", "entry e of the inputs record names another owner for the same output"},
	{"entry_amount_doubled", "alter", "entry e of the inputs record states twice the amount"},
	{"entry_amount_one", "alter", "entry e of the inputs record states the amount 1"},
	{"drop_inputs_record", "drop", "the inputs record is removed, the contract-justified inputs stay"},
	{"drop_outputs_record", "drop", "the outputs record is removed"},
	{"drop_both_records", "drop", "both records are removed, the contract-justified inputs stay"},
}

// enumTransient lists the whole space of one base in index order. deep adds the
// claims of TWO outputs of different owners at once.
func enumTransient(b *baseTx, vs []victim, deep bool) []trSpec {
	var out []trSpec
	n := len(recordInputs(b.Tx))
	for _, f := range trForms {
		switch {
		case f.Class == "control" || f.Class == "claim":
			if f.Form == "claim_alone" && n == 0 {
				continue // the same transaction as claim_append
			}
			for vi := range vs {
				out = append(out, trSpec{Form: f.Form, Class: f.Class, Victims: []int{vi}, Entry: -1})
			}
			if deep && (f.Form == "claim_append" || f.Form == "control_unclaimed") {
				for i := range vs {
					for j := i + 1; j < len(vs); j++ {
						if vs[i].Owner != vs[j].Owner {
							out = append(out, trSpec{Form: f.Form, Class: f.Class, Victims: []int{i, j}, Entry: -1})
						}
					}
				}
			}
		case f.Class == "alter":
			for e := 0; e < n; e++ {
				if strings.HasPrefix(f.Form, "entry_amount") {
					out = append(out, trSpec{Form: f.Form, Class: f.Class, Entry: e})
					continue
				}
				for vi := range vs {
					out = append(out, trSpec{Form: f.Form, Class: f.Class, Victims: []int{vi}, Entry: e})
				}
			}
		case f.Class == "drop":
			if n == 0 {
				continue
			}
			out = append(out, trSpec{Form: f.Form, Class: f.Class, Entry: -1})
		}
	}
	return out
}

// buildTransient re-authors the base: same initiator, signer list, contract
// requests and read/write sets, the record / inputs changed as the form says,
// signed again by the base's own signers (every signature is valid).
func buildTransient(b *baseTx, vs []victim, s trSpec) (tx *pb.Transaction, ok bool) {
	defer func() {
		if r := recover(); r != nil {
			tx, ok = nil, false
		}
	}()
	t := world.CloneTx(b.Tx)
	t.InitiatorSigns, t.AuthRequireSigns, t.XuperSign = nil, nil, nil
	t.Nonce += "-" + s.label(vs)
	rin := recordInputs(t)
	rout := recordOutputs(t)
	pay := func(amount []byte) {
		if len(amount) > 0 {
			t.TxOutputs = append(t.TxOutputs, &protos.TxOutput{ToAddr: []byte(t.Initiator), Amount: amount})
		}
	}
	var taken []*protos.TxInput
	take := func() {
		for _, vi := range s.Victims {
			t.TxInputs = append(t.TxInputs, cloneIn(vs[vi].In))
			pay(vs[vi].In.Amount)
			taken = append(taken, cloneIn(vs[vi].In))
		}
	}
	switch s.Form {
	case "control_unclaimed":
		take()
	case "claim_append":
		take()
		recordSet(t, trInputsKey, mustRecord(append(rin, taken...)))
	case "claim_prepend":
		take()
		recordSet(t, trInputsKey, mustRecord(append(taken, rin...)))
	case "claim_both_records":
		take()
		recordSet(t, trInputsKey, mustRecord(append(rin, taken...)))
		for _, in := range taken {
			rout = append(rout, &protos.TxOutput{ToAddr: []byte(t.Initiator), Amount: in.Amount})
		}
		recordSet(t, trOutputsKey, mustRecord(rout))
	case "claim_alone":
		take()
		recordSet(t, trInputsKey, mustRecord(taken))
	case "replace_entry_and_input":
		v := vs[s.Victims[0]]
		old := rin[s.Entry]
		at := -1
		for i, in := range t.TxInputs {
			if bytes.Equal(in.FromAddr, old.FromAddr) && bytes.Equal(in.RefTxid, old.RefTxid) && in.RefOffset == old.RefOffset {
				at = i
			}
		}
		if at < 0 {
			return nil, false
		}
		t.TxInputs[at] = cloneIn(v.In)
		rin[s.Entry] = cloneIn(v.In)
		recordSet(t, trInputsKey, mustRecord(rin))
		if d := new(big.Int).Sub(new(big.Int).SetBytes(v.In.Amount), new(big.Int).SetBytes(old.Amount)); d.Sign() > 0 {
			pay(d.Bytes())
		}
	case "replace_entry_only":
		take()
		rin[s.Entry] = cloneIn(vs[s.Victims[0]].In)
		recordSet(t, trInputsKey, mustRecord(rin))
	case "entry_owner":
		rin[s.Entry].FromAddr = []byte(vs[s.Victims[0]].Owner)
		recordSet(t, trInputsKey, mustRecord(rin))
	case "entry_amount_doubled":
		a := new(big.Int).SetBytes(rin[s.Entry].Amount)
		rin[s.Entry].Amount = a.Add(a, a).Bytes()
		recordSet(t, trInputsKey, mustRecord(rin))
	case "entry_amount_one":
		rin[s.Entry].Amount = big.NewInt(1).Bytes()
		recordSet(t, trInputsKey, mustRecord(rin))
	case "drop_inputs_record":
		recordSet(t, trInputsKey, nil)
	case "drop_outputs_record":
		if recordIndex(t, trOutputsKey) < 0 {
			return nil, false
		}
		recordSet(t, trOutputsKey, nil)
	case "drop_both_records":
		recordSet(t, trInputsKey, nil)
		recordSet(t, trOutputsKey, nil)
	default:
		return nil, false
	}
	sign(t, b.Plan)
	return t, true
}

// transientBases: contract-carrying transactions of the owner-kind setup (every
// owner kind holds an unspent output there), built for this family only: A
// writes a key ("put k1 x", no transfer) / A's code transfers 5 to B ("xfer B 5").
func transientBases(f *fixture, versions []int32) ([]*baseTx, []string) {
	var out []*baseTx
	var notes []string
	lay := ownersLay
	a := world.Addr("A")
	plan := signPlan{Initiator: []string{"A"}, Auth: []string{"A"}}
	put, err := kvParts(f, a, []string{a}, "put k1 x")
	if err != nil {
		notes = append(notes, fmt.Sprintf("owners: contract base tr_kv dropped: %v", err))
	}
	xfer, xerr := kvXfer(f, lay.tfund)
	if xerr != nil {
		notes = append(notes, fmt.Sprintf("owners: contract base tr_kvxfer dropped: %v", xerr))
	}
	for _, v := range versions {
		add := func(form string, tx *pb.Transaction) {
			tx.Version = v
			tx.Nonce = fmt.Sprintf("c07-owners-%s-v%d", form, v)
			tx.Timestamp = 1600000000 + int64(v)
			sign(tx, plan)
			out = append(out, &baseTx{Name: fmt.Sprintf("owners/%s/v%d", form, v), Setup: "owners", Form: form, Version: v, Tx: tx, Plan: plan})
		}
		if err == nil {
			reqs, ins, outs := cloneParts(put)
			add("tr_kv", &pb.Transaction{Initiator: a, AuthRequire: []string{a},
				TxInputs:         []*protos.TxInput{input(lay.tfund, lay.purse["A"])},
				TxOutputs:        []*protos.TxOutput{output("$", put.GasUsed), output("A", purseAmount-put.GasUsed)},
				ContractRequests: reqs, TxInputsExt: ins, TxOutputsExt: outs})
		}
		if xerr == nil {
			add("tr_kvxfer", world.CloneTx(xfer))
		}
	}
	return out, notes
}

// ---------------------------------------------------------------------------
// judging

type trStats struct {
	Cases              int            `json:"cases"`
	Absent             int            `json:"forms_absent"`
	Rejected           int            `json:"rejected"`
	Accepted           int            `json:"accepted"`
	AcceptedAuthorised int            `json:"accepted_reference_authorised"`
	AcceptedViolations int            `json:"accepted_not_authorised"`
	RefUnauthorised    int            `json:"reference_not_authorised"`
	RejectedAuthorised int            `json:"rejected_though_reference_authorised"`
	ByForm             map[string]int `json:"cases_by_form"`
	RejectedByForm     map[string]int `json:"rejected_by_form"`
	AcceptedByForm     map[string]int `json:"accepted_by_form"`
	ByBase             map[string]int `json:"cases_by_base"`
	ByClass            map[string]int `json:"cases_by_class"`
}

func newTrStats() *trStats {
	return &trStats{ByForm: map[string]int{}, RejectedByForm: map[string]int{}, AcceptedByForm: map[string]int{}, ByBase: map[string]int{}, ByClass: map[string]int{}}
}

func (s *trStats) merge(o *trStats) {
	s.Cases += o.Cases
	s.Absent += o.Absent
	s.Rejected += o.Rejected
	s.Accepted += o.Accepted
	s.AcceptedAuthorised += o.AcceptedAuthorised
	s.AcceptedViolations += o.AcceptedViolations
	s.RefUnauthorised += o.RefUnauthorised
	s.RejectedAuthorised += o.RejectedAuthorised
	for _, p := range []struct{ d, s map[string]int }{{s.ByForm, o.ByForm}, {s.RejectedByForm, o.RejectedByForm}, {s.AcceptedByForm, o.AcceptedByForm}, {s.ByBase, o.ByBase}, {s.ByClass, o.ByClass}} {
		for k, v := range p.s {
			p.d[k] += v
		}
	}
}

func trKey(s trSpec) string {
	switch s.Class {
	case "control":
		return "c07.spend_accepted_without_owner_authority.contract_carrying_transaction"
	case "claim":
		return "c07.contract_spend_record_not_reproduced.claimed_foreign_output_accepted"
	case "alter":
		return "c07.contract_spend_record_not_reproduced.altered_entry_accepted." + s.Form
	}
	return "c07.contract_spend_record_not_reproduced.dropped_record_accepted"
}

func (w *worker) doTransient(p *trPlan, s *trSpec) {
	ts := w.tr
	b := p.base
	tx, ok := buildTransient(b, p.victims, *s)
	if !ok {
		ts.Absent++
		return
	}
	wire, err := proto.Marshal(tx)
	if err != nil {
		ts.Absent++
		return
	}
	label := s.label(p.victims)
	const variant = "txid_recomputed"
	f := w.fixture(b.Setup)
	okv, errS, pan := verifyTx(f, unwire(wire))
	ts.Cases++
	ts.ByForm[s.Form]++
	ts.ByBase[b.Name]++
	ts.ByClass[s.Class]++
	w.st.byFamily["contract_record"]++
	if pan {
		w.st.panics++
		w.violate(orderOf(b, label, variant), core.Violation{Key: "c07.verifytx_panic.contract_record." + s.Form, Summary: fmt.Sprintf("%s %s: VerifyTx panicked: %s", b.Name, label, errS),
			Case: w.mkCase("verify", b, label, variant, wire), Expected: "rejection", Observed: errS})
		return
	}
	ref := reference(f, tx)
	if !ref.Authorised {
		ts.RefUnauthorised++
	}
	if !(okv && errS == "") {
		ts.Rejected++
		ts.RejectedByForm[s.Form]++
		if ref.Authorised {
			ts.RejectedAuthorised++
		}
		if errS == "" {
			w.st.rejectedBool++
			w.st.rejectedBoolBySetup[b.Setup]++
			w.submitClause(b, label, variant, wire)
		} else {
			w.st.errKinds[errKind(errS)]++
		}
		w.st.sample("contract_record_"+s.Class+"_rejected", map[string]interface{}{"outcome": "contract_record_" + s.Class + "_rejected", "base": b.Name, "mutation": label, "txid": variant, "verifytx_ok": okv, "verifytx_err": errS, "reference_authorised": ref.Authorised})
		return
	}
	ts.Accepted++
	ts.AcceptedByForm[s.Form]++
	if ref.Authorised {
		// every spent output's owner signed: nothing unsigned is spent
		ts.AcceptedAuthorised++
		w.st.sample("contract_record_accepted_owner_signed", map[string]interface{}{"outcome": "contract_record_accepted_owner_signed", "base": b.Name, "mutation": label, "txid": variant})
		return
	}
	ts.AcceptedViolations++
	g := fresh(b.Setup)
	before, _ := g.w.State.GetBalance(tx.Initiator)
	adm, _ := submitTx(g, unwire(wire))
	moved := ""
	if adm {
		if after, err := g.w.State.GetBalance(tx.Initiator); err == nil && before != nil {
			moved = fmt.Sprintf("; the initiator's balance goes %s -> %s", before, after)
		}
	}
	g.drop()
	c := w.mkCase("verify", b, label, variant, wire)
	c.Class = "contract_justification"
	var owners []string
	for _, vi := range s.Victims {
		owners = append(owners, p.victims[vi].Owner)
	}
	var progs []string
	for _, r := range tx.ContractRequests {
		progs = append(progs, fmt.Sprintf("%s.%s(%q)", r.ContractName, r.MethodName, r.Args["prog"]))
	}
	c.Note = fmt.Sprintf("reference predicate: %s; carried code %v, whose execution spends from %v only; SubmitTx sequence on a fresh world admitted=%v%s", ref.Why, progs, payerList(contractPayers(f, tx)), adm, moved)
	what := ""
	for _, fm := range trForms {
		if fm.Form == s.Form {
			what = fm.What
		}
	}
	w.violate(orderOf(b, label, variant), core.Violation{
		Key:      trKey(*s),
		Summary:  fmt.Sprintf("%s re-authored and signed by its own signers %v only (%s: %s; other owners involved %q) is accepted by VerifyTx although the ($transient, ContractUtxo.*) record it carries is not what re-executing the carried contract code produces [%s]", b.Name, b.Plan.Initiator, s.Form, what, owners, c.Note),
		Case:     c,
		Expected: "rejection: the owner of a spent output has not signed and the carried contract code does not perform that spend when re-executed",
		Observed: "VerifyTx = (true, nil)",
	})
}

func payerList(m map[string]bool) []string {
	out := []string{}
	for k := range m {
		out = append(out, k)
	}
	sort.Strings(out)
	return out
}
