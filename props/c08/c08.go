// Package c08: block integrity. The id, the merkle root and the proposer's
// signature bind header and body: exhaustive bounded enumeration of base blocks
// formatted by the real Ledger and of every single mutation of header, body and
// signature, judged at Ledger.VerifyBlock (and single's CheckMinerMatch).
//
// Two further dimensions: (1) coordinated mutations of the body and of the
// unhashed helper field MerkleTree that travels with the block (every body
// mutation x every treatment of the shipped tree, see walker.trees): a verifier
// may not trust the shipped tree in place of the hashed MerkleRoot; (2) the PoW
// consensus seam (pow.go): base blocks really mined by the PoW plugin over the
// real ledger, the same mutants judged at the PoW CheckMinerMatch, with the
// nonce searched again where the edit would otherwise break the proof of work.
package c08

import (
	"bytes"
	"crypto/sha256"
	"encoding/json"
	"fmt"
	"io"
	"log"
	"reflect"
	"runtime"
	"sort"
	"strconv"
	"strings"
	"sync"

	"github.com/golang/protobuf/proto"

	_ "github.com/xuperchain/xupercore/bcs/consensus/single"
	"github.com/xuperchain/xupercore/bcs/ledger/xledger/ledger"
	"github.com/xuperchain/xupercore/bcs/ledger/xledger/state"
	pb "github.com/xuperchain/xupercore/bcs/ledger/xledger/xldgpb"
	"github.com/xuperchain/xupercore/kernel/common/xcontext"
	"github.com/xuperchain/xupercore/kernel/consensus"
	"github.com/xuperchain/xupercore/kernel/consensus/base"
	cctx "github.com/xuperchain/xupercore/kernel/consensus/context"
	"github.com/xuperchain/xupercore/kernel/consensus/def"
	"github.com/xuperchain/xupercore/kernel/engines/xuperos/agent"
	"github.com/xuperchain/xupercore/lib/timer"

	"verif/core"
	"verif/world"
)

// BaseSpec names one base block.
type BaseSpec struct {
	N          int    `json:"n"`           // transactions in the block (award first); 0 = empty list
	Justify    int    `json:"justify"`     // -1: no quorum certificate, else its number of signatures
	Failed     int    `json:"failed_txs"`  // entries of the failed-tx map
	TargetBits int32  `json:"target_bits"` // PoW bits
	Format     string `json:"format,omitempty"`
	Seam       string `json:"seam,omitempty"` // "": judged at Ledger.VerifyBlock + single; "pow": mined by the PoW plugin, judged at its CheckMinerMatch
}

func (s BaseSpec) String() string {
	if s.Seam != "" {
		return fmt.Sprintf("n=%d justify=%d failed=%d bits=%#x seam=%s", s.N, s.Justify, s.Failed, uint32(s.TargetBits), s.Seam)
	}
	return fmt.Sprintf("n=%d justify=%d failed=%d bits=%d", s.N, s.Justify, s.Failed, s.TargetBits)
}

// Case is the replayable description of one evaluation.
type Case struct {
	Base   BaseSpec `json:"base"`
	Mutant string   `json:"mutant"` // symbolic id, see mutants.go; "" = the base block itself
}

const (
	miner = "M"
	other = "P"
	baseT = int64(1700000000000000000)
)

type fixture struct {
	w       *world.World
	txs     []*pb.Transaction // transfers (need not be valid against state: VerifyBlock does not execute)
	foreign *pb.Transaction
	signs   []*pb.SignInfo // real validator signatures over the genesis id
	single  base.ConsensusImplInterface
}

func newFixture(maxN int) (*fixture, error) {
	w, err := world.New(world.DefaultConfig(), world.RegisterVKV)
	if err != nil {
		return nil, err
	}
	f := &fixture{w: w}
	root := w.Genesis.Transactions[0]
	off := -1
	for i, o := range root.TxOutputs {
		if string(o.ToAddr) == world.Addr("A") {
			off = i
		}
	}
	if off < 0 {
		return nil, fmt.Errorf("no genesis output of A")
	}
	mk := func(i int) *pb.Transaction {
		return world.BuildTx(world.TxSpec{Initiator: "A", Ins: []world.In{{Tx: root, Offset: off}},
			Outs:  []world.Out{{To: "B", Amount: strconv.Itoa(i + 1)}, {To: "A", Amount: strconv.Itoa(999 - i)}},
			Nonce: fmt.Sprintf("c08-%d", i), Timestamp: 1000 + int64(i)})
	}
	for i := 0; i < maxN; i++ {
		f.txs = append(f.txs, mk(i))
	}
	f.foreign = mk(900)
	for _, v := range []string{"V1", "V2", "V3", "V4", "V5"} {
		k := world.Keys[v]
		sg, err := signLen(func() ([]byte, error) { return world.Crypto.SignECDSA(k.Priv, w.Genesis.Blockid) })
		if err != nil {
			return nil, err
		}
		f.signs = append(f.signs, &pb.SignInfo{Address: k.Address, PublicKey: k.PubJSON, Sign: sg})
	}
	// single consensus as the node wires it (miner M of the fixture genesis)
	mk2 := world.Keys[miner]
	cc := cctx.ConsensusCtx{BcName: world.BCName, Crypto: world.Crypto, Ledger: agent.NewLedgerAgent(w.Chain),
		Address: &cctx.Address{Address: mk2.Address, PrivateKeyStr: mk2.PriJSON, PublicKeyStr: mk2.PubJSON, PrivateKey: mk2.Priv, PublicKey: &mk2.Priv.PublicKey}}
	cc.XLog = world.NopLogger{}
	cc.Timer = timer.NewXTimer()
	cfg, _ := json.Marshal(map[string]string{"version": "0", "miner": mk2.Address, "period": "3000"})
	f.single, err = consensus.NewPluginConsensus(cc, def.ConsensusConfig{ConsensusName: "single", Config: string(cfg), StartHeight: 1, Index: 0})
	if err != nil || f.single == nil {
		return nil, fmt.Errorf("single consensus: %v", err)
	}
	return f, nil
}

// sigLen is the DER length every signature that is enumerated bit by bit is
// drawn to (ECDSA signing is randomised and the encoding is 70..72 bytes long):
// keeps the number of mutants the same in every run.
const sigLen = 71

func signLen(sign func() ([]byte, error)) ([]byte, error) {
	var s []byte
	var err error
	for try := 0; try < 200; try++ {
		if s, err = sign(); err != nil || len(s) == sigLen {
			break
		}
	}
	return s, err
}

// build formats the base block of a spec with the real ledger (again until the
// block signature has the common length, see sigLen).
func (f *fixture) build(s BaseSpec) (*pb.InternalBlock, error) {
	var b *pb.InternalBlock
	var err error
	for try := 0; try < 200; try++ {
		if b, err = f.build1(s); err != nil || len(b.Sign) == sigLen {
			break
		}
	}
	return b, err
}

func (f *fixture) build1(s BaseSpec) (*pb.InternalBlock, error) {
	var list []*pb.Transaction
	if s.N > 0 {
		list = append(list, f.w.AwardTx(miner, 1, "c08"))
		for i := 0; i < s.N-1; i++ {
			list = append(list, world.CloneTx(f.txs[i]))
		}
	}
	var qc *pb.QuorumCert
	if s.Justify >= 0 {
		parent, _ := proto.Marshal(&pb.QuorumCert{ProposalId: []byte("c08-parent-of-genesis"), ViewNumber: 0})
		qc = &pb.QuorumCert{ProposalId: append([]byte{}, f.w.Genesis.Blockid...), ProposalMsg: parent, Type: pb.QCState_PREPARE, ViewNumber: 7}
		if s.Justify > 0 {
			qc.SignInfos = &pb.QCSignInfos{}
			for i := 0; i < s.Justify; i++ {
				qc.SignInfos.QCSignInfos = append(qc.SignInfos.QCSignInfos, proto.Clone(f.signs[i]).(*pb.SignInfo))
			}
		}
	}
	var failed map[string]string
	if s.Failed > 0 {
		failed = map[string]string{}
		msgs := []string{"contract exec failed: out of gas", "status 500: vkv fail", "transfer amount mismatch", "timeout"}
		for i := 0; i < s.Failed; i++ {
			failed[fmt.Sprintf("%02x%062x", 0xa0+i, i+1)] = msgs[i%len(msgs)]
		}
	}
	k := world.Keys[miner]
	if s.Format == "FormatBlock" {
		return f.w.Ledger.FormatBlock(list, []byte(k.Address), k.Priv, baseT, 3, 2, f.w.Genesis.Blockid, f.w.State.GetTotal())
	}
	return f.w.Ledger.FormatMinerBlock(list, []byte(k.Address), k.Priv, baseT, 3, 2, f.w.Genesis.Blockid, s.TargetBits, f.w.State.GetTotal(), qc, failed, 1)
}

// panicked is set (to the panic text) when the last call on this goroutine's
// behalf panicked inside xupercore: counted as a refusal and reported apart.
type outcome struct {
	ok    bool
	panic string
}

func (f *fixture) verify(b *pb.InternalBlock) bool { return f.verifyP(b).ok }

func (f *fixture) verifyP(b *pb.InternalBlock) (o outcome) { return verifyOn(f.w, b) }

func verifyOn(w *world.World, b *pb.InternalBlock) (o outcome) {
	defer func() {
		if r := recover(); r != nil {
			o = outcome{false, fmt.Sprint(r)}
		}
	}()
	ok, _ := w.Ledger.VerifyBlock(b, "c08")
	return outcome{ok: ok}
}

// confirmedTwin is a second node of the same genesis whose ledger has confirmed
// (a copy of) the base block; nil when the ledger does not take the block.
func (f *fixture) confirmedTwin(blk *pb.InternalBlock) *world.World {
	w2, err := world.New(world.DefaultConfig(), world.RegisterVKV)
	if err != nil {
		core.HarnessError("C08 second world: %v", err)
	}
	if !bytes.Equal(w2.Genesis.Blockid, f.w.Genesis.Blockid) {
		core.HarnessError("C08: genesis of a second world differs")
	}
	if st := w2.Ledger.ConfirmBlock(world.CloneBlock(blk), false); !st.Succ {
		w2.Drop()
		return nil
	}
	return w2
}

// checkSingle asks single's CheckMinerMatch (on a copy: it rewrites Blockid).
func (f *fixture) checkSingle(b *pb.InternalBlock) bool { return f.checkSingleP(b).ok }

func (f *fixture) checkSingleP(b *pb.InternalBlock) (o outcome) {
	defer func() {
		if r := recover(); r != nil {
			o = outcome{false, fmt.Sprint(r)}
		}
	}()
	ctx := &xcontext.BaseCtx{XLog: world.NopLogger{}, Timer: timer.NewXTimer()}
	ok, _ := f.single.CheckMinerMatch(ctx, state.NewBlockAgent(world.CloneBlock(b)))
	return outcome{ok: ok}
}

// sigStillValid is the statement's condition on the signature, recomputed
// outside the ledger: the signature verifies over the block id under the
// stated key and that key hashes to the stated proposer.
func sigStillValid(b *pb.InternalBlock) bool {
	k, err := world.Crypto.GetEcdsaPublicKeyFromJsonStr(string(b.Pubkey))
	if err != nil {
		return false
	}
	if ok, _ := world.Crypto.VerifyAddressUsingPublicKey(string(b.Proposer), k); !ok {
		return false
	}
	ok, err := world.Crypto.VerifyECDSA(k, b.Sign, b.Blockid)
	return err == nil && ok
}

// normalise removes representation differences that carry no content.
func normalise(b *pb.InternalBlock) *pb.InternalBlock {
	if len(b.FailedTxs) == 0 {
		b.FailedTxs = nil
	}
	if b.Justify != nil && b.Justify.SignInfos != nil && len(b.Justify.SignInfos.QCSignInfos) == 0 {
		b.Justify.SignInfos = nil
	}
	return b
}

// digest identifies the content of a (normalised) block: every field by
// reflection, a transaction by its Txid (no mutant edits anything else of one).
func digest(b *pb.InternalBlock, expect int) [32]byte {
	h := sha256.New()
	fmt.Fprintf(h, "%d|", expect)
	var walk func(v reflect.Value)
	walk = func(v reflect.Value) {
		switch v.Kind() {
		case reflect.Ptr:
			if v.IsNil() {
				h.Write([]byte{0})
				return
			}
			h.Write([]byte{1})
			if tx, ok := v.Interface().(*pb.Transaction); ok {
				fmt.Fprintf(h, "%d:", len(tx.Txid))
				h.Write(tx.Txid)
				return
			}
			walk(v.Elem())
		case reflect.Struct:
			t := v.Type()
			for i := 0; i < t.NumField(); i++ {
				if strings.HasPrefix(t.Field(i).Name, "XXX_") {
					continue
				}
				h.Write([]byte(t.Field(i).Name))
				walk(v.Field(i))
			}
		case reflect.Slice:
			fmt.Fprintf(h, "%d:", v.Len())
			if v.Type().Elem().Kind() == reflect.Uint8 {
				h.Write(v.Bytes())
				return
			}
			for i := 0; i < v.Len(); i++ {
				walk(v.Index(i))
			}
		case reflect.Map:
			ks := v.MapKeys()
			sort.Slice(ks, func(i, j int) bool { return ks[i].String() < ks[j].String() })
			fmt.Fprintf(h, "%d:", len(ks))
			for _, k := range ks {
				walk(k)
				walk(v.MapIndex(k))
			}
		case reflect.String:
			fmt.Fprintf(h, "%d:%s", v.Len(), v.String())
		case reflect.Bool:
			fmt.Fprintf(h, "%v;", v.Bool())
		case reflect.Int32, reflect.Int64, reflect.Int:
			fmt.Fprintf(h, "%d;", v.Int())
		default:
			panic("c08 digest: unhandled kind " + v.Kind().String())
		}
	}
	walk(reflect.ValueOf(b))
	var out [32]byte
	copy(out[:], h.Sum(nil))
	return out
}

func recomputeMerkle(b *pb.InternalBlock) {
	b.TxCount = int32(len(b.Transactions))
	b.MerkleTree = ledger.MakeMerkleTree(b.Transactions)
	b.MerkleRoot = nil
	if len(b.MerkleTree) > 0 {
		b.MerkleRoot = b.MerkleTree[len(b.MerkleTree)-1]
	}
}

func recomputeID(b *pb.InternalBlock) {
	id, err := ledger.MakeBlockID(b)
	if err == nil {
		b.Blockid = id
	}
}

type verdict struct {
	noop         bool
	dup          bool
	verifyOK     bool
	singleOK     bool
	key          string // violation key ("" = none)
	sigValid     bool
	verifyPanic  string // VerifyBlock panicked (counted as refused)
	singlePanic  string // single.CheckMinerMatch panicked (counted as refused)
	confirmedOK  bool   // VerifyBlock on the ledger that already confirmed the base block
	confirmedKey string
}

// judge applies one mutant to a copy of base and evaluates the oracle.
func (f *fixture) judge(baseBlk, baseNorm *pb.InternalBlock, m *mutant, seen map[[32]byte]bool, confirmed *world.World) verdict {
	b := materialise(baseBlk, m, nil)
	norm := normalise(world.CloneBlock(b))
	if proto.Equal(norm, baseNorm) {
		return verdict{noop: true}
	}
	if seen != nil { // two edits that produce the same block (0-1 and neg(0), ...) are one case
		h := digest(norm, m.expect)
		if seen[h] {
			return verdict{dup: true}
		}
		seen[h] = true
	}
	vo, so := f.verifyP(b), outcome{}
	if !m.ledgerOnly {
		so = f.checkSingleP(b)
	}
	v := verdict{verifyOK: vo.ok, singleOK: so.ok, verifyPanic: vo.panic, singlePanic: so.panic}
	vBad, sBad := false, false
	switch m.expect {
	case mustRefuse:
		vBad, sBad = v.verifyOK, v.singleOK
	case mustRefuseVerifyOnly: // body-only change: single leaves the body to VerifyMerkle; wrong Blockid: single rewrites it
		vBad = v.verifyOK
	case mustRefuseUnlessSigValid:
		v.sigValid = sigStillValid(b)
		vBad, sBad = v.verifyOK && !v.sigValid, v.singleOK && !v.sigValid
	case mustRefuseCombined: // a well-formed block of another proposer: the consensus has to refuse it
		vBad = v.verifyOK && v.singleOK
	case free:
	}
	switch {
	case vBad:
		v.key = "c08." + m.key
	case sBad:
		v.key = "c08.single." + m.key
	}
	// second stage, differential: the same candidate offered to a ledger that
	// has already confirmed the base block (its id, header and transactions are
	// in the block cache and in the tables). Holding the honest twin is no
	// reason to accept a tampered one: the verdict may not turn to "accepted".
	if confirmed != nil && m.expect != free {
		co := verifyOn(confirmed, b)
		v.confirmedOK = co.ok
		if co.ok && !vo.ok {
			v.confirmedKey = "c08.accepted_only_after_base_confirmed:" + m.class
		}
	}
	return v
}

type stats struct {
	evals, mutants, noops, dups, verifyAcc, verifyRef, singleAcc, singleRef int
	twins, twinEvals, twinAcc                                               int
	perClass                                                                map[string][2]int // class -> [accepted, refused] at VerifyBlock
	freeAccepted                                                            map[string]int    // unhashed paths accepted (outside the statement)
	viol                                                                    map[string]int
	panics                                                                  map[string]int  // seam and panic text -> count
	panicEx                                                                 map[string]Case // smallest example
}

func newStats() *stats {
	return &stats{perClass: map[string][2]int{}, freeAccepted: map[string]int{}, viol: map[string]int{}, panics: map[string]int{}, panicEx: map[string]Case{}}
}

func (s *stats) merge(o *stats) {
	s.evals += o.evals
	s.mutants += o.mutants
	s.noops += o.noops
	s.dups += o.dups
	s.verifyAcc += o.verifyAcc
	s.verifyRef += o.verifyRef
	s.singleAcc += o.singleAcc
	s.singleRef += o.singleRef
	s.twins += o.twins
	s.twinEvals += o.twinEvals
	s.twinAcc += o.twinAcc
	for k, v := range o.perClass {
		c := s.perClass[k]
		c[0] += v[0]
		c[1] += v[1]
		s.perClass[k] = c
	}
	for k, v := range o.freeAccepted {
		s.freeAccepted[k] += v
	}
	for k, v := range o.viol {
		s.viol[k] += v
	}
	for k, v := range o.panics {
		s.panics[k] += v
	}
	for k, c := range o.panicEx {
		s.notePanic(k, c, 0)
	}
}

func (s *stats) notePanic(seam string, c Case, n int) {
	s.panics[seam] += n
	if o, ok := s.panicEx[seam]; !ok || caseLess(c, o) {
		s.panicEx[seam] = c
	}
}

type found struct {
	c Case
	v core.Violation
}

func caseLess(a, b Case) bool {
	if a.Base.N != b.Base.N {
		return a.Base.N < b.Base.N
	}
	if a.Base.Justify != b.Base.Justify {
		return a.Base.Justify < b.Base.Justify
	}
	if a.Base.Failed != b.Base.Failed {
		return a.Base.Failed < b.Base.Failed
	}
	if a.Base.TargetBits != b.Base.TargetBits {
		return a.Base.TargetBits < b.Base.TargetBits
	}
	if ra, rb := strings.HasSuffix(a.Mutant, "|raw"), strings.HasSuffix(b.Mutant, "|raw"); ra != rb {
		return ra
	}
	if len(a.Mutant) != len(b.Mutant) {
		return len(a.Mutant) < len(b.Mutant)
	}
	return a.Mutant < b.Mutant
}

func specs(tier core.Tier) []BaseSpec {
	ns := []int{0, 1, 2, 3, 4, 5, 6, 7, 8, 9}
	justs := []int{-1, 0, 1, 3}
	fails := []int{0, 1, 2}
	bits := []int32{0, 0x1d00ffff}
	if tier == core.Thorough {
		ns = append(ns, 10, 11, 12, 13, 15, 16, 17)
		justs = append(justs, 4)
		fails = append(fails, 3)
		bits = append(bits, 5)
	}
	var out []BaseSpec
	for _, n := range ns {
		for _, j := range justs {
			for _, fl := range fails {
				for _, tb := range bits {
					out = append(out, BaseSpec{N: n, Justify: j, Failed: fl, TargetBits: tb})
				}
			}
		}
		out = append(out, BaseSpec{N: n, Justify: -1, Format: "FormatBlock"})
	}
	return out
}

func run(tier core.Tier) *core.Report {
	rep := core.NewReport("C08", tier, "exploration")
	world.Init()
	log.SetOutput(io.Discard) // the crypto library reports unsupported curve names on the standard logger
	maxN := 20
	f, err := newFixture(maxN)
	if err != nil {
		core.HarnessError("C08 fixture: %v", err)
	}
	all := specs(tier)
	powAll := powSpecs(tier)
	total := newStats()
	ptotal := newPowStats()
	best := map[string]found{}
	var mu sync.Mutex
	offer := func(c Case, v core.Violation) {
		mu.Lock()
		defer mu.Unlock()
		if o, ok := best[v.Key]; ok && !caseLess(c, o.c) {
			return
		}
		v.Case = c
		best[v.Key] = found{c, v}
	}
	baseOK, baseEmptyRefused, baseWireOK := 0, 0, 0
	samples := map[string]interface{}{}
	wantSample := map[string]bool{}
	for _, c := range []Case{
		{Base: BaseSpec{N: 3, Justify: -1}, Mutant: "tx|dup|2@3|raw"},
		{Base: BaseSpec{N: 5, Justify: 1, Failed: 1}, Mutant: "hdr|Justify.SignInfos.QCSignInfos[0].Sign|flip:0|id"},
		{Base: BaseSpec{N: 2, Justify: -1, TargetBits: 0x1d00ffff}, Mutant: "signer|sign+pubkey+proposer|id"},
		{Base: BaseSpec{N: 9, Justify: 3, Failed: 2}, Mutant: "tx|swap|1,8|merkle+id"},
		{Base: BaseSpec{N: 4, Justify: 0, Failed: 2}, Mutant: "hdr|Timestamp|+1|raw"},
	} {
		wantSample[c.Base.String()+"|"+c.Mutant] = true
	}
	complete := true
	jobs := make(chan BaseSpec)
	var wg sync.WaitGroup
	workers := runtime.NumCPU()
	if workers > 32 {
		workers = 32
	}
	for i := 0; i < workers; i++ {
		wg.Add(1)
		go func() {
			defer wg.Done()
			loc := newStats()
			ploc := newPowStats()
			seams := map[int32]*powSeam{}
			lOK, lEmpty, lWire := 0, 0, 0
			for s := range jobs {
				if s.Seam == seamPow {
					p := seams[s.TargetBits]
					if p == nil {
						var err error
						if p, err = f.newPowSeam(s.TargetBits); err != nil {
							core.HarnessError("C08: %v", err)
						}
						seams[s.TargetBits] = p
					}
					f.powJob(p, s, tier, loc, ploc, offer)
					continue
				}
				blk, err := f.build(s)
				if err != nil {
					core.HarnessError("C08 format %v: %v", s, err)
				}
				loc.evals++
				ok := f.verify(blk)
				okWire := f.verify(world.WireBlock(blk))
				okSingle := f.checkSingle(blk)
				if s.N == 0 {
					// recorded, not alarmed: VerifyMerkle refuses an empty tree; a produced block always carries the award
					if !ok {
						lEmpty++
					}
					continue
				}
				if ok {
					lOK++
				}
				if okWire {
					lWire++
				}
				if !ok || !okWire || !okSingle {
					offer(Case{Base: s}, core.Violation{Key: "c08.formatted_block_refused", Summary: fmt.Sprintf("block formatted by the node (%v) is refused: VerifyBlock=%v after wire round trip=%v single.CheckMinerMatch=%v", s, ok, okWire, okSingle),
						Expected: "a block formatted by the node itself verifies", Observed: "refused"})
					loc.viol["c08.formatted_block_refused"]++
					continue
				}
				baseNorm := normalise(world.CloneBlock(blk))
				seen := map[[32]byte]bool{}
				twin := f.confirmedTwin(blk)
				if twin != nil {
					loc.twins++
					if !verifyOn(twin, blk).ok {
						offer(Case{Base: s}, core.Violation{Key: "c08.confirmed_block_refused", Summary: fmt.Sprintf("block (%v) is refused by VerifyBlock of the ledger that confirmed it", s),
							Expected: "a confirmed block still verifies", Observed: "refused"})
						loc.viol["c08.confirmed_block_refused"]++
					}
				}
				for _, m := range f.mutants(blk, s, tier, "") {
					v := f.judge(blk, baseNorm, m, seen, twin)
					if v.noop {
						loc.noops++
						continue
					}
					if v.dup {
						loc.dups++
						continue
					}
					if wantSample[s.String()+"|"+m.id] {
						mu.Lock()
						samples[s.String()+"|"+m.id] = map[string]interface{}{"base": s, "mutant": m.id, "what": m.what, "verify_block_accepted": v.verifyOK, "single_check_miner_match_accepted": v.singleOK}
						mu.Unlock()
					}
					loc.mutants++
					loc.evals += 2
					if m.ledgerOnly {
						loc.evals--
					}
					c := loc.perClass[m.class]
					if v.verifyOK {
						loc.verifyAcc++
						c[0]++
						if m.expect == free {
							loc.freeAccepted[m.key]++
						}
					} else {
						loc.verifyRef++
						c[1]++
					}
					loc.perClass[m.class] = c
					switch {
					case m.ledgerOnly:
					case v.singleOK:
						loc.singleAcc++
					default:
						loc.singleRef++
					}
					if v.verifyPanic != "" {
						loc.notePanic("Ledger.VerifyBlock: "+v.verifyPanic, Case{Base: s, Mutant: m.id}, 1)
					}
					if v.singlePanic != "" {
						loc.notePanic("single.CheckMinerMatch: "+v.singlePanic, Case{Base: s, Mutant: m.id}, 1)
					}
					if twin != nil && m.expect != free {
						loc.evals++
						loc.twinEvals++
						if v.confirmedOK {
							loc.twinAcc++
						}
					}
					if v.confirmedKey != "" {
						loc.viol[v.confirmedKey]++
						offer(Case{Base: s, Mutant: m.id}, core.Violation{Key: v.confirmedKey,
							Summary:  fmt.Sprintf("base block (%v), mutant %q [%s]: VerifyBlock refuses it on a ledger that has not seen the base block and accepts it on a ledger that confirmed the base block", s, m.id, m.what),
							Expected: "refused: " + m.why + " (having confirmed the honest block changes nothing)", Observed: "accepted once the base block is confirmed"})
					}
					if v.key != "" {
						loc.viol[v.key]++
						offer(Case{Base: s, Mutant: m.id}, core.Violation{Key: v.key,
							Summary:  fmt.Sprintf("base block (%v), mutant %q [%s]: VerifyBlock accepted=%v, single.CheckMinerMatch accepted=%v", s, m.id, m.what, v.verifyOK, v.singleOK),
							Expected: "refused: " + m.why, Observed: "accepted"})
					}
				}
				if twin != nil {
					twin.State.Close()
					twin.Ledger.Close()
					twin.Drop()
				}
			}
			for _, p := range seams {
				p.stop()
			}
			mu.Lock()
			total.merge(loc)
			ptotal.merge(ploc)
			baseOK += lOK
			baseEmptyRefused += lEmpty
			baseWireOK += lWire
			mu.Unlock()
		}()
	}
	order := append(append([]BaseSpec{}, all...), powAll...)
	sort.SliceStable(order, func(i, j int) bool { return order[i].N+4*order[i].Justify > order[j].N+4*order[j].Justify }) // costly bases first
	for _, s := range order {
		if rep.Expired() {
			complete = false
			break
		}
		jobs <- s
	}
	close(jobs)
	wg.Wait()

	keys := make([]string, 0, len(best))
	for k := range best {
		keys = append(keys, k)
	}
	sort.Strings(keys)
	for _, k := range keys {
		for i := 0; i < total.viol[k] || i == 0; i++ {
			rep.Violation(best[k].v)
		}
	}
	nonEmpty := 0
	for _, s := range all {
		if s.N > 0 {
			nonEmpty++
		}
	}
	rep.Set("base_blocks", len(all))
	rep.Set("base_blocks_nonempty_verified", fmt.Sprintf("%d of %d (after wire round trip: %d)", baseOK, nonEmpty, baseWireOK))
	rep.Set("base_blocks_empty", fmt.Sprintf("%d formatted with 0 transactions, %d refused by VerifyBlock (VerifyMerkle cannot make a tree of nothing; a produced block always carries the award: recorded, not alarmed)", len(all)-nonEmpty, baseEmptyRefused))
	rep.Set("evaluations", total.evals+ptotal.evals)
	rep.Set("distinct_nontrivial", total.mutants+ptotal.mutants)
	rep.Set("rule", "cases = base blocks {n transactions} x {justify none/0/1/3 sigs} x {failed-tx entries} x {target bits} formatted by Ledger.FormatMinerBlock (+ FormatBlock), times every single mutation: reflection walk over every InternalBlock / QuorumCert / SignInfo field (ints +1 -1 =0 neg bit20; bytes and strings bit flips, append, drop first/last, empty; structure drop/dup/swap), failed-tx map edits, field-boundary shifts between adjacent variable-length hashed fields, every tx dropped / swapped with every other / duplicated at every position / replaced / foreign tx at every position / txid altered / tail duplicated, merkle tree edits, every signature bit flipped, the proposer's own signature over other content (parent id, id with a bit flipped, another message), re-signing by another key; body mutants raw, with merkle+count recomputed, and with the id recomputed too; header mutants raw and with the id recomputed; "+
		"COORDINATED body + MerkleTree mutants: every body mutation (header untouched) x every treatment of the unhashed MerkleTree field shipped with the block {untouched (= raw), dropped, rebuilt for the new body, the k lowest levels patched to the new body with the honest inner nodes and root kept for k = 1 (leaf slots only) .. depth, right size filled with the header root}, all to be refused by VerifyBlock; "+
		"PoW seam: the same base shapes with easy PoW target bits, formatted by the ledger and really mined by the PoW plugin's CalculateBlock over the real ledger, every header / body / signature / signer mutant (raw, and MINED again = nonce searched until the recomputed id meets the target, so that only the signature is left to tell; this replaces id-recomputed-nonce-kept, whose proof holds or not by chance) judged at the PoW CheckMinerMatch; a mutant is non-trivial when it differs from its base in content (no-op edits are skipped and counted apart) and distinct when no other edit of the same base produced the same block (duplicates skipped and counted apart)")
	rep.Set("after_base_confirmed", fmt.Sprintf("%d base blocks confirmed on a second ledger of the same genesis; %d mutants offered to it as well (%d accepted there); oracle: none accepted there that the fresh ledger refuses", total.twins, total.twinEvals, total.twinAcc))
	rep.Set("noop_mutants_skipped", total.noops+ptotal.noops)
	rep.Set("duplicate_mutants_skipped", total.dups+ptotal.dups)
	tc := [2]int{}
	tcls := map[string]string{}
	for k, v := range total.perClass {
		if strings.HasPrefix(k, "body_tree:") {
			tc[0] += v[0]
			tc[1] += v[1]
			tcls[strings.TrimPrefix(k, "body_tree:")] = fmt.Sprintf("accepted=%d refused=%d", v[0], v[1])
		}
	}
	rep.Set("body_with_doctored_merkle_tree", map[string]interface{}{
		"oracle":        "VerifyBlock refuses every body mutation whatever the MerkleTree field says (the field is not covered by the id; only the hashed MerkleRoot binds the body)",
		"mutants":       tc[0] + tc[1],
		"accepted":      tc[0],
		"refused":       tc[1],
		"per_treatment": tcls,
	})
	ppc := map[string]string{}
	for k, v := range ptotal.perClass {
		ppc[k] = fmt.Sprintf("accepted=%d refused=%d", v[0], v[1])
	}
	rep.Set("pow_seam", map[string]interface{}{
		"base_blocks":                        fmt.Sprintf("%d specs, %d formatted by the ledger + mined by pow.CalculateBlock, %d of them accepted by VerifyBlock (also after wire round trip) and by pow.CheckMinerMatch with the id meeting the reference target", len(powAll), ptotal.bases, ptotal.basesOK),
		"mutants":                            ptotal.mutants,
		"noop_mutants_skipped":               ptotal.noops,
		"duplicate_mutants_skipped":          ptotal.dups,
		"check_miner_match_accepted":         ptotal.acc,
		"check_miner_match_refused":          ptotal.ref,
		"judged_must_refuse":                 fmt.Sprintf("%d mutants the PoW seam owes a refusal (hashed header field / merkle root+count / id / signature / signer), %d refused", ptotal.judged, ptotal.judgedRef),
		"mined_again_variants":               fmt.Sprintf("%d offered, %d of them with an id that is the header hash and meets the target (reference): the proof of work is no reason to refuse those", ptotal.minedVariants, ptotal.proofedOffered),
		"id_kept_wellformed_wrong_signature": fmt.Sprintf("%d signer / other-content mutants whose signature parses but is not one of the id under the stated key (bit flips not counted: random)", ptotal.sigWellFormedWrong),
		"per_class":                          ppc,
		"outside_statement_accepted":         ptotal.freeAccepted,
	})
	rep.Set("verify_block_accepted", total.verifyAcc)
	rep.Set("verify_block_refused", total.verifyRef)
	rep.Set("single_check_miner_match_accepted", total.singleAcc)
	rep.Set("single_check_miner_match_refused", total.singleRef)
	pc := map[string]string{}
	for k, v := range total.perClass {
		pc[k] = fmt.Sprintf("accepted=%d refused=%d", v[0], v[1])
	}
	rep.Set("verify_block_per_class", pc)
	rep.Set("outside_statement_accepted", total.freeAccepted)
	rep.Set("violating_mutants_per_key", total.viol)
	pn := map[string]string{}
	for k, n := range total.panics {
		c := total.panicEx[k]
		pn[k] = fmt.Sprintf("%d mutants (counted as refused, outside the statement); smallest: base (%v) mutant %q", n, c.Base, c.Mutant)
	}
	rep.Set("panics_inside_xupercore", pn)
	rep.Set("exhaustive", complete)
	sk := make([]string, 0, len(samples))
	for k := range samples {
		sk = append(sk, k)
	}
	sort.Strings(sk)
	for _, k := range sk {
		rep.Sample(samples[k])
	}
	rep.Assume("a transaction is identified by its Txid here; the binding of a transaction's content to its Txid is C07")
	rep.Assume("fields outside the statement (not hashed, not body): Height, InTrunk, NextHash, MerkleTree, keys of FailedTxs (and entries with an empty message); their mutants ALONE are evaluated and counted (outside_statement_accepted), never alarmed. MerkleTree edited TOGETHER with the body is inside the statement: the body must be under the hashed MerkleRoot whatever the shipped tree says")
	rep.Assume("PoW seam: the plugin is built by consensus.NewPluginConsensus over the real ledger (tip = genesis, adjust gap 2, so the default target is prescribed for height 1); PoW CheckMinerMatch is not responsible for the body (its comment delegates to VerifyMerkle) nor, the id pre-image being unchanged, for field-boundary shifts; a well-formed block of another proposer (re-signed, Pubkey+Proposer replaced, mined again) is a valid PoW block: recorded, not alarmed. Whether the target bits are the prescribed ones is C16")
	rep.Assume("single.CheckMinerMatch is not responsible for the body (its comment delegates to VerifyMerkle) and rewrites Blockid with the recomputed id before comparing: body-only and Blockid-only mutants are judged at VerifyBlock only")
	rep.Assume("a block re-signed by another key with Pubkey and Proposer replaced and the id recomputed is a well-formed block of that other proposer: VerifyBlock may accept it, the consensus (single) must refuse it")
	npanic := 0
	for _, n := range total.panics {
		npanic += n
	}
	fmt.Printf("C08 %s: base blocks=%d (non-empty verified %d/%d, empty refused %d); mutants=%d (no-ops skipped %d); VerifyBlock accepted=%d refused=%d; single accepted=%d refused=%d; panics inside xupercore (counted as refusals)=%d\n",
		tier, len(all), baseOK, nonEmpty, baseEmptyRefused, total.mutants, total.noops, total.verifyAcc, total.verifyRef, total.singleAcc, total.singleRef, npanic)
	fmt.Printf("C08 %s: body x MerkleTree treatments=%d (accepted %d); PoW seam: mined base blocks=%d/%d, mutants=%d, CheckMinerMatch accepted=%d refused=%d (owed a refusal %d, refused %d)\n",
		tier, tc[0]+tc[1], tc[0], ptotal.basesOK, len(powAll), ptotal.mutants, ptotal.acc, ptotal.ref, ptotal.judged, ptotal.judgedRef)
	return rep
}

func replay(raw json.RawMessage) (bool, string, error) {
	var c Case
	if err := json.Unmarshal(raw, &c); err != nil {
		return false, "", err
	}
	world.Init()
	log.SetOutput(io.Discard)
	f, err := newFixture(20)
	if err != nil {
		return false, "", err
	}
	if c.Base.N < 0 || c.Base.N > 20 || c.Base.Justify > 5 || c.Base.Failed > 4 {
		return false, "", fmt.Errorf("base out of range")
	}
	if c.Base.Seam == seamPow {
		return f.replayPow(c)
	}
	if c.Base.Seam != "" {
		return false, "", fmt.Errorf("unknown seam %q", c.Base.Seam)
	}
	blk, err := f.build(c.Base)
	if err != nil {
		return false, "", err
	}
	if c.Mutant == "" {
		ok, okW, okS := f.verify(blk), f.verify(world.WireBlock(blk)), f.checkSingle(blk)
		return c.Base.N > 0 && !(ok && okW && okS), fmt.Sprintf("base %v: VerifyBlock=%v wire=%v single=%v", c.Base, ok, okW, okS), nil
	}
	baseNorm := normalise(world.CloneBlock(blk))
	want := c.Mutant
	// ECDSA signatures are randomised and their DER length varies: fold a recorded bit index into range
	if strings.HasPrefix(want, "sig|flip:") {
		if k, err := strconv.Atoi(want[len("sig|flip:"):]); err == nil && len(blk.Sign) > 0 {
			want = fmt.Sprintf("sig|flip:%d", k%(8*len(blk.Sign)))
		}
	}
	for _, m := range f.mutants(blk, c.Base, core.Thorough, "") {
		if m.id != want {
			continue
		}
		twin := f.confirmedTwin(blk)
		v := f.judge(blk, baseNorm, m, nil, twin)
		if v.noop {
			return false, "mutant is a no-op on this base", nil
		}
		msg := fmt.Sprintf("base %v mutant %q [%s]: VerifyBlock accepted=%v single accepted=%v key=%s; on a ledger that confirmed the base block: accepted=%v key=%s", c.Base, m.id, m.what, v.verifyOK, v.singleOK, v.key, v.confirmedOK, v.confirmedKey)
		if v.verifyPanic != "" {
			msg += " VerifyBlock panicked: " + v.verifyPanic
		}
		if v.singlePanic != "" {
			msg += " single.CheckMinerMatch panicked: " + v.singlePanic
		}
		return v.key != "" || v.confirmedKey != "", msg, nil
	}
	return false, "", fmt.Errorf("mutant %q does not exist for base %v", c.Mutant, c.Base)
}

func init() {
	core.Register(&core.Check{ID: "C08", Run: run, Replay: replay})
}
