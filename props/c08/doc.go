// Package c08 holds the check for property C08.
package c08
