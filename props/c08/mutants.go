package c08

import (
	"crypto/sha256"
	"encoding/binary"
	"fmt"
	"math"
	"reflect"
	"sort"
	"strings"

	"github.com/golang/protobuf/proto"

	"github.com/xuperchain/xupercore/bcs/ledger/xledger/ledger"
	pb "github.com/xuperchain/xupercore/bcs/ledger/xledger/xldgpb"

	"verif/core"
	"verif/world"
)

// what the oracle asks of a mutant
const (
	mustRefuse               = iota // VerifyBlock and single.CheckMinerMatch must refuse
	mustRefuseVerifyOnly            // VerifyBlock must refuse (single is not responsible)
	mustRefuseUnlessSigValid        // refuse unless the edited signature still verifies under the stated key
	mustRefuseCombined              // VerifyBlock && CheckMinerMatch must not both accept
	free                            // outside the statement: recorded only
)

// consistent recomputation applied after the edit
const (
	fixNone     = iota
	fixID       // Blockid recomputed over the edited header
	fixMerkle   // TxCount, MerkleTree, MerkleRoot recomputed over the edited body
	fixMerkleID // both
	// PoW seam only: the nonce searched again until the recomputed id meets the
	// target of the base block (what a miner does), so that the proof of work
	// is no reason to refuse the mutant
	fixMine       // nonce searched, Blockid recomputed
	fixMerkleMine // TxCount, MerkleTree, MerkleRoot recomputed, then mined
)

var fixName = map[int]string{fixNone: "raw", fixID: "id", fixMerkle: "merkle", fixMerkleID: "merkle+id", fixMine: "mined", fixMerkleMine: "merkle+mined"}

type mutant struct {
	id     string // symbolic, stable: replay looks it up
	class  string // reporting bucket
	key    string // violation key suffix when wrongly accepted
	what   string
	why    string
	expect int
	fix    int
	apply  func(b *pb.InternalBlock)
	post   func(b *pb.InternalBlock) // after the recomputation (re-signing)
	// ledgerOnly: not put to single's CheckMinerMatch (body + MerkleTree treatments: the header is untouched and
	// single does not look at the body, which the raw body mutants already show)
	ledgerOnly bool
}

// field classification of InternalBlock (top-level names)
var hashedTop = map[string]bool{"Version": true, "Nonce": true, "TxCount": true, "Proposer": true, "Timestamp": true, "Pubkey": true,
	"PreHash": true, "MerkleRoot": true, "CurTerm": true, "CurBlockNum": true, "TargetBits": true, "Justify": true, "FailedTxs": true}
var unhashedTop = map[string]bool{"Height": true, "InTrunk": true, "NextHash": true, "MerkleTree": true}

// handled apart from the schema walk
var specialTop = map[string]bool{"Transactions": true, "Sign": true, "FailedTxs": true}

type getter func(b *pb.InternalBlock) reflect.Value

// bitPositions: every bit when dense, else first, middle and last bit.
func bitPositions(nbytes int, dense bool) []int {
	n := nbytes * 8
	if n == 0 {
		return nil
	}
	if dense {
		out := make([]int, n)
		for i := range out {
			out[i] = i
		}
		return out
	}
	set := map[int]bool{0: true, n / 2: true, n - 1: true}
	out := []int{}
	for p := range set {
		out = append(out, p)
	}
	sort.Ints(out)
	return out
}

// byteOps lists the edits of one byte string.
func byteOps(cur []byte, dense bool) (names []string, fns []func([]byte) []byte) {
	for _, p := range bitPositions(len(cur), dense) {
		p := p
		names = append(names, fmt.Sprintf("flip:%d", p))
		fns = append(fns, func(x []byte) []byte {
			y := append([]byte{}, x...)
			if p/8 < len(y) {
				y[p/8] ^= 1 << uint(p%8)
			}
			return y
		})
	}
	names = append(names, "append00", "append31")
	fns = append(fns, func(x []byte) []byte { return append(append([]byte{}, x...), 0) }, func(x []byte) []byte { return append(append([]byte{}, x...), '1') })
	if len(cur) > 0 {
		names = append(names, "droplast", "dropfirst", "empty")
		fns = append(fns, func(x []byte) []byte { return append([]byte{}, x[:len(x)-1]...) }, func(x []byte) []byte { return append([]byte{}, x[1:]...) }, func(x []byte) []byte { return nil })
	}
	return
}

func intOps() (names []string, fns []func(int64) int64) {
	names = []string{"+1", "-1", "=0", "neg", "bit20"}
	fns = []func(int64) int64{
		func(x int64) int64 { return x + 1 },
		func(x int64) int64 { return x - 1 },
		func(x int64) int64 { return 0 },
		func(x int64) int64 {
			switch x {
			case 0:
				return -1
			case math.MinInt32, math.MinInt64: // has no negation (a nonce found by the PoW miner's first guess): not left to wrap onto itself
				return 1
			}
			return -x
		},
		func(x int64) int64 { return x ^ (1 << 20) },
	}
	return
}

func stripIdx(path string) string {
	var sb strings.Builder
	skip := false
	for _, r := range path {
		switch {
		case r == '[' || r == '{':
			skip = true
		case r == ']' || r == '}':
			skip = false
		case !skip:
			sb.WriteRune(r)
		}
	}
	return sb.String()
}

type walker struct {
	dense        bool // every bit of every header byte string
	denseSig     bool // every bit of the block signature
	pow          bool // mutants for the PoW seam: also the re-mined variants, no MerkleTree treatments
	out          []*mutant
	bodyMuts     []bodyMut // every body mutation, for the MerkleTree treatments
	unclassified map[string]bool
}

// bodyMut is one edit of the ordered transaction list (delta = change of the
// number of transactions).
type bodyMut struct {
	id, what string
	delta    int
	apply    func(b *pb.InternalBlock)
}

// headerFixes: the consistent recomputations a header / signer mutant is offered
// with. At the PoW seam "id recomputed, nonce kept" is replaced by "mined again":
// with the old nonce the new id meets the target or not by chance (about one in
// two for the easy target), which decides nothing about the signature and would
// make the verdict depend on the random parts of the base block.
func (w *walker) headerFixes() []int {
	if w.pow {
		return []int{fixNone, fixMine}
	}
	return []int{fixNone, fixID}
}

func (w *walker) emitHeader(path, op string, apply func(b *pb.InternalBlock)) {
	top := path
	if i := strings.IndexAny(path, ".[{"); i >= 0 {
		top = path[:i]
	}
	kp := stripIdx(path)
	switch {
	case top == "Blockid":
		w.out = append(w.out, &mutant{id: "hdr|" + path + "|" + op + "|raw", class: "blockid", key: "wrong_blockid_accepted", what: "Blockid edited",
			why: "the id is not the hash of the header", expect: mustRefuseVerifyOnly, fix: fixNone, apply: apply})
	case hashedTop[top]:
		for _, fx := range w.headerFixes() {
			why := "a hashed header field was altered, the id no longer matches"
			switch fx {
			case fixID:
				why = "a hashed header field was altered and the id recomputed: the proposer's signature no longer matches"
			case fixMine:
				why = "a hashed header field was altered and the block mined again: the proposer's signature no longer matches"
			}
			w.out = append(w.out, &mutant{id: "hdr|" + path + "|" + op + "|" + fixName[fx], class: "header_hashed", key: "altered_header_field_accepted:" + kp,
				what: "hashed header field " + path + " edited (" + op + ")", why: why, expect: mustRefuse, fix: fx, apply: apply})
		}
	default:
		if !unhashedTop[top] {
			w.unclassified[top] = true
		}
		w.out = append(w.out, &mutant{id: "hdr|" + path + "|" + op + "|raw", class: "header_unhashed", key: "unhashed:" + kp, what: "unhashed field " + path + " edited",
			expect: free, fix: fixNone, apply: apply})
	}
}

// walkStruct enumerates the edits of every field of the struct sample (read
// from the base block); get re-locates the same struct inside a copy.
func (w *walker) walkStruct(sample reflect.Value, get getter, path string) {
	t := sample.Type()
	for i := 0; i < t.NumField(); i++ {
		i := i
		name := t.Field(i).Name
		if strings.HasPrefix(name, "XXX_") {
			continue
		}
		p := name
		if path != "" {
			p = path + "." + name
		}
		if path == "" && specialTop[name] {
			continue
		}
		fv := sample.Field(i)
		gf := func(b *pb.InternalBlock) reflect.Value { return get(b).Field(i) }
		switch fv.Kind() {
		case reflect.Int32, reflect.Int64:
			names, fns := intOps()
			for k := range names {
				fn := fns[k]
				w.emitHeader(p, names[k], func(b *pb.InternalBlock) { v := gf(b); v.SetInt(fn(v.Int())) })
			}
		case reflect.Bool:
			w.emitHeader(p, "not", func(b *pb.InternalBlock) { v := gf(b); v.SetBool(!v.Bool()) })
		case reflect.String:
			names, fns := byteOps([]byte(fv.String()), w.dense)
			for k := range names {
				fn := fns[k]
				w.emitHeader(p, names[k], func(b *pb.InternalBlock) { v := gf(b); v.SetString(string(fn([]byte(v.String())))) })
			}
		case reflect.Slice:
			et := fv.Type().Elem()
			switch {
			case et.Kind() == reflect.Uint8:
				names, fns := byteOps(fv.Bytes(), w.dense)
				for k := range names {
					fn := fns[k]
					w.emitHeader(p, names[k], func(b *pb.InternalBlock) { v := gf(b); v.SetBytes(fn(v.Bytes())) })
				}
			case et.Kind() == reflect.Slice && et.Elem().Kind() == reflect.Uint8: // [][]byte
				for e := 0; e < fv.Len(); e++ {
					e := e
					w.emitHeader(fmt.Sprintf("%s[%d]", p, e), "flip:0", func(b *pb.InternalBlock) {
						v := gf(b).Index(e)
						y := append([]byte{}, v.Bytes()...)
						if len(y) == 0 {
							y = []byte{1}
						} else {
							y[0] ^= 1
						}
						v.SetBytes(y)
					})
				}
				if fv.Len() > 0 {
					w.emitHeader(p, "droplast", func(b *pb.InternalBlock) { v := gf(b); v.Set(v.Slice(0, v.Len()-1)) })
					w.emitHeader(p, "empty", func(b *pb.InternalBlock) { v := gf(b); v.Set(reflect.Zero(v.Type())) })
				}
				w.emitHeader(p, "append", func(b *pb.InternalBlock) {
					v := gf(b)
					v.Set(reflect.Append(v, reflect.ValueOf([]byte("c08-extra-node"))))
				})
			case et.Kind() == reflect.Ptr && et.Elem().Kind() == reflect.Struct:
				n := fv.Len()
				for e := 0; e < n; e++ {
					e := e
					w.walkStruct(fv.Index(e).Elem(), func(b *pb.InternalBlock) reflect.Value { return gf(b).Index(e).Elem() }, fmt.Sprintf("%s[%d]", p, e))
					w.emitHeader(fmt.Sprintf("%s[%d]", p, e), "drop", func(b *pb.InternalBlock) {
						v := gf(b)
						nv := reflect.MakeSlice(v.Type(), 0, v.Len())
						for x := 0; x < v.Len(); x++ {
							if x != e {
								nv = reflect.Append(nv, v.Index(x))
							}
						}
						v.Set(nv)
					})
					w.emitHeader(fmt.Sprintf("%s[%d]", p, e), "dup", func(b *pb.InternalBlock) {
						v := gf(b)
						c := proto.Clone(v.Index(e).Interface().(proto.Message))
						v.Set(reflect.Append(v, reflect.ValueOf(c)))
					})
					for e2 := e + 1; e2 < n; e2++ {
						e2 := e2
						w.emitHeader(fmt.Sprintf("%s[%d]", p, e), fmt.Sprintf("swap:%d", e2), func(b *pb.InternalBlock) {
							v := gf(b)
							x, y := v.Index(e).Interface(), v.Index(e2).Interface()
							v.Index(e).Set(reflect.ValueOf(y))
							v.Index(e2).Set(reflect.ValueOf(x))
						})
					}
				}
			default:
				w.unclassified[p+" (slice kind)"] = true
			}
		case reflect.Ptr:
			if fv.IsNil() {
				if path == "" { // top-level optional message: absent -> present but empty
					w.emitHeader(p, "setempty", func(b *pb.InternalBlock) { v := gf(b); v.Set(reflect.New(v.Type().Elem())) })
				}
				continue
			}
			w.emitHeader(p, "setnil", func(b *pb.InternalBlock) { v := gf(b); v.Set(reflect.Zero(v.Type())) })
			w.walkStruct(fv.Elem(), func(b *pb.InternalBlock) reflect.Value { return gf(b).Elem() }, p)
		case reflect.Map:
			w.unclassified[p+" (map)"] = true
		default:
			w.unclassified[p+" (kind "+fv.Kind().String()+")"] = true
		}
	}
}

// pubkeyJSON: edits of the proposer key that keep it well-formed JSON (a
// coordinate renamed away, another curve name).
func (w *walker) pubkeyJSON() {
	for _, r := range [][2]string{{`"X":`, `"Z":`}, {`"Y":`, `"Z":`}, {`"Curvname":"P-256"`, `"Curvname":"P-384"`}, {`"Curvname":`, `"Curvnam":`}} {
		r := r
		w.emitHeader("Pubkey", "json:"+strings.Trim(r[0], `":`)+"->"+strings.Trim(r[1], `":`), func(b *pb.InternalBlock) {
			b.Pubkey = []byte(strings.Replace(string(b.Pubkey), r[0], r[1], 1))
		})
	}
}

func sortedKeys(m map[string]string) []string {
	ks := make([]string, 0, len(m))
	for k := range m {
		ks = append(ks, k)
	}
	sort.Strings(ks)
	return ks
}

// failedTxs: values are hashed in key order, keys are not hashed.
func (w *walker) failedTxs(base *pb.InternalBlock) {
	ks := sortedKeys(base.FailedTxs)
	for _, k := range ks {
		k := k
		names, fns := byteOps([]byte(base.FailedTxs[k]), w.dense)
		for i := range names {
			fn := fns[i]
			op := names[i]
			w.emitHeader("FailedTxs{"+k[:4]+"}", op, func(b *pb.InternalBlock) { b.FailedTxs[k] = string(fn([]byte(b.FailedTxs[k]))) })
		}
		w.emitHeader("FailedTxs{"+k[:4]+"}", "delete", func(b *pb.InternalBlock) { delete(b.FailedTxs, k) })
		// key edits: outside the statement
		w.out = append(w.out, &mutant{id: "hdr|FailedTxs{" + k[:4] + "}|renamekey|raw", class: "header_unhashed", key: "unhashed:FailedTxs.key", what: "failed-tx key renamed (order kept)",
			expect: free, fix: fixNone, apply: func(b *pb.InternalBlock) {
				v := b.FailedTxs[k]
				delete(b.FailedTxs, k)
				b.FailedTxs[k[:len(k)-1]+"f"] = v
			}})
	}
	add := func(b *pb.InternalBlock, k, v string) {
		if b.FailedTxs == nil {
			b.FailedTxs = map[string]string{}
		}
		b.FailedTxs[k] = v
	}
	w.emitHeader("FailedTxs{new-last}", "add", func(b *pb.InternalBlock) { add(b, "ff"+strings.Repeat("0", 62), "injected failure") })
	w.emitHeader("FailedTxs{new-first}", "add", func(b *pb.InternalBlock) { add(b, "00"+strings.Repeat("0", 62), "injected failure") })
	w.out = append(w.out, &mutant{id: "hdr|FailedTxs{new}|addemptymessage|raw", class: "header_unhashed", key: "unhashed:FailedTxs.key_with_empty_message", what: "failed-tx key with empty message added",
		expect: free, fix: fixNone, apply: func(b *pb.InternalBlock) { add(b, "ff"+strings.Repeat("0", 62), "") }})
	for i := 0; i+1 < len(ks); i++ {
		a, c := ks[i], ks[i+1]
		w.emitHeader("FailedTxs{"+a[:4]+"}", "swapvalue:"+c[:4], func(b *pb.InternalBlock) { b.FailedTxs[a], b.FailedTxs[c] = b.FailedTxs[c], b.FailedTxs[a] })
	}
}

// shifts: one byte moved across the boundary of two adjacent variable-length
// fields of the id pre-image (both directions). Both fields are hashed header
// fields and both change.
type bytesRef struct {
	name string
	get  func(b *pb.InternalBlock) []byte
	set  func(b *pb.InternalBlock, v []byte)
}

func (w *walker) shifts(base *pb.InternalBlock) {
	emit := func(group string, l, r bytesRef) {
		if len(l.get(base)) > 0 {
			w.shift(group, l.name+">"+r.name, func(b *pb.InternalBlock) {
				x, y := l.get(b), r.get(b)
				l.set(b, append([]byte{}, x[:len(x)-1]...))
				r.set(b, append([]byte{x[len(x)-1]}, y...))
			})
		}
		if len(r.get(base)) > 0 {
			w.shift(group, l.name+"<"+r.name, func(b *pb.InternalBlock) {
				x, y := l.get(b), r.get(b)
				l.set(b, append(append([]byte{}, x...), y[0]))
				r.set(b, append([]byte{}, y[1:]...))
			})
		}
	}
	chain := []bytesRef{
		{"Pubkey", func(b *pb.InternalBlock) []byte { return b.Pubkey }, func(b *pb.InternalBlock, v []byte) { b.Pubkey = v }},
		{"PreHash", func(b *pb.InternalBlock) []byte { return b.PreHash }, func(b *pb.InternalBlock, v []byte) { b.PreHash = v }},
		{"MerkleRoot", func(b *pb.InternalBlock) []byte { return b.MerkleRoot }, func(b *pb.InternalBlock, v []byte) { b.MerkleRoot = v }},
	}
	for _, k := range sortedKeys(base.FailedTxs) {
		k := k
		chain = append(chain, bytesRef{"FailedTxs{" + k[:4] + "}", func(b *pb.InternalBlock) []byte { return []byte(b.FailedTxs[k]) }, func(b *pb.InternalBlock, v []byte) { b.FailedTxs[k] = string(v) }})
	}
	for i := 0; i+1 < len(chain); i++ {
		g := "header"
		if strings.HasPrefix(chain[i].name, "FailedTxs") {
			g = "FailedTxs"
		}
		emit(g, chain[i], chain[i+1])
	}
	if base.Justify == nil {
		return
	}
	emit("Justify", bytesRef{"Justify.ProposalId", func(b *pb.InternalBlock) []byte { return b.Justify.ProposalId }, func(b *pb.InternalBlock, v []byte) { b.Justify.ProposalId = v }},
		bytesRef{"Justify.ProposalMsg", func(b *pb.InternalBlock) []byte { return b.Justify.ProposalMsg }, func(b *pb.InternalBlock, v []byte) { b.Justify.ProposalMsg = v }})
	if base.Justify.SignInfos != nil {
		var sc []bytesRef
		for i := range base.Justify.SignInfos.QCSignInfos {
			i := i
			si := func(b *pb.InternalBlock) *pb.SignInfo { return b.Justify.SignInfos.QCSignInfos[i] }
			sc = append(sc,
				bytesRef{fmt.Sprintf("Sig[%d].Address", i), func(b *pb.InternalBlock) []byte { return []byte(si(b).Address) }, func(b *pb.InternalBlock, v []byte) { si(b).Address = string(v) }},
				bytesRef{fmt.Sprintf("Sig[%d].PublicKey", i), func(b *pb.InternalBlock) []byte { return []byte(si(b).PublicKey) }, func(b *pb.InternalBlock, v []byte) { si(b).PublicKey = string(v) }},
				bytesRef{fmt.Sprintf("Sig[%d].Sign", i), func(b *pb.InternalBlock) []byte { return si(b).Sign }, func(b *pb.InternalBlock, v []byte) { si(b).Sign = v }})
		}
		for i := 0; i+1 < len(sc); i++ {
			emit("Justify.SignInfos", sc[i], sc[i+1])
		}
	}
	// the optional 4 bytes of TargetBits sit directly before Justify.ProposalId
	if base.TargetBits > 0 {
		w.shift("TargetBits", "TargetBits>Justify.ProposalId", func(b *pb.InternalBlock) {
			var le [4]byte
			binary.LittleEndian.PutUint32(le[:], uint32(b.TargetBits))
			b.Justify.ProposalId = append(le[:], b.Justify.ProposalId...)
			b.TargetBits = 0
		})
	} else if base.TargetBits == 0 && len(base.Justify.ProposalId) >= 4 && int32(binary.LittleEndian.Uint32(base.Justify.ProposalId[:4])) > 0 {
		w.shift("TargetBits", "TargetBits<Justify.ProposalId", func(b *pb.InternalBlock) {
			b.TargetBits = int32(binary.LittleEndian.Uint32(b.Justify.ProposalId[:4]))
			b.Justify.ProposalId = append([]byte{}, b.Justify.ProposalId[4:]...)
		})
	}
}

func (w *walker) shift(group, name string, apply func(b *pb.InternalBlock)) {
	// judged at VerifyBlock only: the id pre-image is unchanged, so any check that only recomputes the id
	// (single.CheckMinerMatch) cannot tell, and MerkleRoot is bound to the body by VerifyMerkle alone
	w.out = append(w.out, &mutant{id: "shift|" + name + "|raw", class: "boundary_shift:" + group, key: "field_boundary_shift_accepted",
		what: "bytes moved across the boundary " + name + " of two adjacent hashed fields", why: "two hashed header fields were altered",
		expect: mustRefuseVerifyOnly, fix: fixNone, apply: apply})
}

// body: the ordered transaction list.
func (w *walker) body(base *pb.InternalBlock, foreign *pb.Transaction) {
	n := len(base.Transactions)
	fixes := []int{fixNone, fixMerkle, fixMerkleID}
	if w.pow { // see headerFixes
		fixes = []int{fixNone, fixMerkle, fixMerkleMine}
	}
	addD := func(id, key, what string, delta int, apply func(b *pb.InternalBlock)) {
		w.bodyMuts = append(w.bodyMuts, bodyMut{id: id, what: what, delta: delta, apply: apply})
		for _, fx := range fixes {
			exp := mustRefuseVerifyOnly
			why := "the merkle root is not the root of this transaction list"
			switch fx {
			case fixMerkle:
				exp = mustRefuse
				why = "the merkle root was recomputed for the edited list: the id no longer matches"
			case fixMerkleID:
				exp = mustRefuse
				why = "merkle root and id were recomputed for the edited list: the proposer's signature no longer matches"
			case fixMerkleMine:
				exp = mustRefuse
				why = "merkle root recomputed for the edited list and the block mined again: the proposer's signature no longer matches"
			}
			w.out = append(w.out, &mutant{id: "tx|" + id + "|" + fixName[fx], class: "body", key: key, what: what, why: why, expect: exp, fix: fx, apply: apply})
		}
	}
	for i := 0; i < n; i++ {
		i := i
		addD(fmt.Sprintf("drop|%d", i), "tx_dropped_accepted", fmt.Sprintf("transaction %d dropped", i), -1, func(b *pb.InternalBlock) {
			b.Transactions = append(append([]*pb.Transaction{}, b.Transactions[:i]...), b.Transactions[i+1:]...)
		})
		for j := i + 1; j < n; j++ {
			j := j
			addD(fmt.Sprintf("swap|%d,%d", i, j), "tx_reordered_accepted", fmt.Sprintf("transactions %d and %d swapped", i, j), 0, func(b *pb.InternalBlock) {
				b.Transactions[i], b.Transactions[j] = b.Transactions[j], b.Transactions[i]
			})
		}
		for j := 0; j <= n; j++ {
			j := j
			if j == i { // inserting a copy directly before or directly after itself gives the same list
				continue
			}
			key := "tx_duplicated_accepted"
			if i == n-1 && j == n {
				key = "duplicated_last_tx_accepted"
			}
			addD(fmt.Sprintf("dup|%d@%d", i, j), key, fmt.Sprintf("copy of transaction %d inserted at position %d", i, j), 1, func(b *pb.InternalBlock) {
				c := world.CloneTx(b.Transactions[i])
				l := append([]*pb.Transaction{}, b.Transactions[:j]...)
				l = append(l, c)
				b.Transactions = append(l, b.Transactions[j:]...)
			})
		}
		addD(fmt.Sprintf("replace|%d", i), "tx_replaced_accepted", fmt.Sprintf("transaction %d replaced by a foreign one", i), 0, func(b *pb.InternalBlock) {
			b.Transactions[i] = world.CloneTx(foreign)
		})
		addD(fmt.Sprintf("txid.flip|%d", i), "tx_id_altered_accepted", fmt.Sprintf("txid of transaction %d: one bit flipped", i), 0, func(b *pb.InternalBlock) {
			b.Transactions[i].Txid[len(b.Transactions[i].Txid)-1] ^= 1
		})
		addD(fmt.Sprintf("txid.append|%d", i), "tx_id_altered_accepted", fmt.Sprintf("txid of transaction %d: byte appended", i), 0, func(b *pb.InternalBlock) {
			b.Transactions[i].Txid = append(b.Transactions[i].Txid, 0)
		})
		addD(fmt.Sprintf("txid.droplast|%d", i), "tx_id_altered_accepted", fmt.Sprintf("txid of transaction %d: last byte dropped", i), 0, func(b *pb.InternalBlock) {
			b.Transactions[i].Txid = b.Transactions[i].Txid[:len(b.Transactions[i].Txid)-1]
		})
	}
	for j := 0; j <= n; j++ {
		j := j
		addD(fmt.Sprintf("foreign@%d", j), "tx_added_accepted", fmt.Sprintf("foreign transaction inserted at position %d", j), 1, func(b *pb.InternalBlock) {
			l := append([]*pb.Transaction{}, b.Transactions[:j]...)
			l = append(l, world.CloneTx(foreign))
			b.Transactions = append(l, b.Transactions[j:]...)
		})
	}
	for k := 2; k <= n; k++ {
		k := k
		addD(fmt.Sprintf("tail|%d", k), "duplicated_tail_txs_accepted", fmt.Sprintf("copies of the last %d transactions appended", k), k, func(b *pb.InternalBlock) {
			for _, t := range b.Transactions[len(b.Transactions)-k:] {
				b.Transactions = append(b.Transactions, world.CloneTx(t))
			}
		})
	}
	for k := 2; k <= 8 && n > 0; k++ {
		k := k
		addD(fmt.Sprintf("repeatlast|%d", k), "duplicated_tail_txs_accepted", fmt.Sprintf("%d copies of the last transaction appended", k), k, func(b *pb.InternalBlock) {
			last := b.Transactions[len(b.Transactions)-1]
			for x := 0; x < k; x++ {
				b.Transactions = append(b.Transactions, world.CloneTx(last))
			}
		})
	}
	if n > 0 {
		addD("clear", "tx_dropped_accepted", "all transactions dropped", -n, func(b *pb.InternalBlock) { b.Transactions = nil })
	}
}

// signature and signer
func (w *walker) signer(base *pb.InternalBlock) {
	names, fns := byteOps(base.Sign, w.denseSig)
	for i := range names {
		fn := fns[i]
		w.out = append(w.out, &mutant{id: "sig|" + names[i], class: "signature_bits", key: "corrupted_signature_accepted", what: "block signature edited (" + names[i] + ")",
			why: "the signature does not verify over the id under the stated key", expect: mustRefuseUnlessSigValid, fix: fixNone,
			apply: func(b *pb.InternalBlock) { b.Sign = fn(b.Sign) }})
	}
	ok := world.Keys[other]
	resign := func(b *pb.InternalBlock) {
		s, err := world.Crypto.SignECDSA(ok.Priv, b.Blockid)
		if err != nil {
			panic(err)
		}
		b.Sign = s
	}
	type variant struct {
		name             string
		pubkey, proposer bool
	}
	for _, v := range []variant{{"sign", false, false}, {"sign+pubkey", true, false}, {"sign+proposer", false, true}, {"sign+pubkey+proposer", true, true}} {
		v := v
		for _, fx := range w.headerFixes() {
			exp := mustRefuse
			why := "the block is signed by a key that is not the stated proposer's"
			if v.pubkey && v.proposer && fx != fixNone {
				exp = mustRefuseCombined
				why = "the block is a well-formed block of another proposer: the consensus must refuse it"
			}
			w.out = append(w.out, &mutant{id: "signer|" + v.name + "|" + fixName[fx], class: "signer", key: "resigned_by_other_key_accepted:" + v.name + "." + fixName[fx],
				what: "re-signed with another key, replacing " + v.name, why: why, expect: exp, fix: fx,
				apply: func(b *pb.InternalBlock) {
					if v.pubkey {
						b.Pubkey = []byte(ok.PubJSON)
					}
					if v.proposer {
						b.Proposer = []byte(ok.Address)
					}
				}, post: resign})
		}
	}
	// the stated proposer's own, well-formed signature -- of something else
	mk := world.Keys[miner]
	for _, o := range []struct {
		name, what string
		msg        func(b *pb.InternalBlock) []byte
	}{
		{"parent_id", "the id of the parent block", func(b *pb.InternalBlock) []byte { return b.PreHash }},
		{"flipped_id", "the block id with one bit flipped", func(b *pb.InternalBlock) []byte {
			x := append([]byte{}, b.Blockid...)
			x[0] ^= 1
			return x
		}},
		{"other_message", "another 32-byte message", func(b *pb.InternalBlock) []byte {
			h := sha256.Sum256([]byte("c08: not a block id"))
			return h[:]
		}},
	} {
		o := o
		w.out = append(w.out, &mutant{id: "sig|own_key_over|" + o.name, class: "signature_other_content", key: "signature_over_other_content_accepted",
			what: "block signature replaced by the proposer's signature over " + o.what, why: "the signature does not verify over the id",
			expect: mustRefuse, fix: fixNone, apply: func(b *pb.InternalBlock) {
				s, err := world.Crypto.SignECDSA(mk.Priv, o.msg(b))
				if err != nil {
					panic(err)
				}
				b.Sign = s
			}})
	}
}

func nextPow2(n int) int {
	p := 1
	for p < n {
		p *= 2
	}
	return p
}

func log2(p int) int {
	d := 0
	for ; p > 1; p /= 2 {
		d++
	}
	return d
}

// trees: COORDINATED edits of the body and of the MerkleTree field. The tree
// travels with the block, is not covered by the id and is not what binds the
// body (the hashed MerkleRoot is): whatever a relayer puts into it, a body that
// is not under the header root has to be refused. Every body mutation (header
// untouched) is offered with each treatment of the shipped tree:
//
//	dropped     MerkleTree = nil
//	rebuilt     the honest tree of the NEW body (its last node is not the header root)
//	patched:k   the k lowest levels (k=1: the leaf slots only) are those of the new
//	            body, the levels above are the honest inner nodes of the base block
//	            (when the shape is unchanged; else those of the new body) and the
//	            last node is the header root; k = 1 .. depth of the tree
//	filled      a tree of the right size with the header root in every slot
//
// ("untouched" is the raw body mutant of body()).
func (w *walker) trees(base *pb.InternalBlock) {
	n := len(base.Transactions)
	for _, bm := range w.bodyMuts {
		bm := bm
		n2 := n + bm.delta
		emit := func(name, cls string, op func(honest, fresh [][]byte, root []byte) [][]byte) {
			w.out = append(w.out, &mutant{id: "tx|" + bm.id + "|tree=" + name, class: "body_tree:" + cls, key: "body_change_accepted_with_doctored_merkle_tree:" + cls,
				what: bm.what + "; MerkleTree field " + name, why: "the merkle root of the header is not the root of this transaction list, whatever the (unhashed) MerkleTree field shipped with the block says",
				expect: mustRefuseVerifyOnly, fix: fixNone, ledgerOnly: true, apply: func(b *pb.InternalBlock) {
					honest := b.MerkleTree
					bm.apply(b)
					fresh := ledger.MakeMerkleTree(b.Transactions)
					for i := range fresh { // no aliasing of the txids
						fresh[i] = append([]byte(nil), fresh[i]...)
					}
					b.MerkleTree = op(honest, fresh, append([]byte{}, b.MerkleRoot...))
				}})
		}
		emit("dropped", "dropped", func(honest, fresh [][]byte, root []byte) [][]byte { return nil })
		if n2 <= 0 {
			continue
		}
		emit("rebuilt", "rebuilt_for_new_body", func(honest, fresh [][]byte, root []byte) [][]byte { return fresh })
		depth := log2(nextPow2(n2))
		sameShape := nextPow2(n2) == nextPow2(n)
		for k := 1; k <= depth; k++ {
			k := k
			if !sameShape && k < depth { // no honest inner nodes of this shape: every k gives the same tree
				continue
			}
			cls := "lower_levels_patched"
			switch {
			case k == 1:
				cls = "leaves_patched"
			case k == depth:
				cls = "all_but_root_patched"
			}
			emit(fmt.Sprintf("patched:%d", k), cls, func(honest, fresh [][]byte, root []byte) [][]byte {
				if len(fresh) == 0 {
					return nil
				}
				lo, width := 0, (len(fresh)+1)/2
				for lvl := 0; width >= 1; lvl++ {
					if lvl >= k && len(honest) == len(fresh) {
						for i := lo; i < lo+width; i++ {
							fresh[i] = append([]byte(nil), honest[i]...)
						}
					}
					lo += width
					width /= 2
				}
				fresh[len(fresh)-1] = root
				return fresh
			})
		}
		emit("filled", "filled_with_root", func(honest, fresh [][]byte, root []byte) [][]byte {
			for i := range fresh {
				fresh[i] = append([]byte{}, root...)
			}
			return fresh
		})
	}
}

// mutants lists every single mutation of one base block.
// Bit flips are dense (every bit) for header fields in the thorough tier on the
// one-transaction bases (header edits do not depend on the body), and for the
// block signature on every base in the thorough tier / on the bases without
// justify and failed-tx map in the quick tier; first, middle and last bit elsewhere.
//
// seam "" lists the mutants judged at Ledger.VerifyBlock and single's
// CheckMinerMatch; seam "pow" those judged at the PoW CheckMinerMatch (base
// blocks really mined): the same edits plus their re-mined variants, without the
// MerkleTree treatments (the consensus seam does not look at the body).
func (f *fixture) mutants(base *pb.InternalBlock, s BaseSpec, tier core.Tier, seam string) []*mutant {
	w := &walker{unclassified: map[string]bool{}, pow: seam == seamPow}
	w.dense = tier == core.Thorough && s.N == 1
	w.denseSig = tier == core.Thorough || (s.Justify < 0 && s.Failed == 0)
	w.walkStruct(reflect.ValueOf(base).Elem(), func(b *pb.InternalBlock) reflect.Value { return reflect.ValueOf(b).Elem() }, "")
	w.pubkeyJSON()
	w.failedTxs(base)
	w.shifts(base)
	w.body(base, f.foreign)
	w.signer(base)
	if !w.pow {
		w.trees(base) // after everything else: the older mutants keep their place in the order (duplicates are told in order)
	}
	if len(w.unclassified) > 0 {
		ks := []string{}
		for k := range w.unclassified {
			ks = append(ks, k)
		}
		sort.Strings(ks)
		core.HarnessError("C08: InternalBlock fields the schema walk cannot classify: %v", ks)
	}
	return w.out
}
