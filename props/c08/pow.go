package c08

// The PoW consensus seam. The proposer's signature over the id is judged a second
// time by every consensus' CheckMinerMatch; single's is asked next to
// Ledger.VerifyBlock in the main pass, here the same mutants are put to the PoW
// plugin (bcs/consensus/pow) as the node wires it over the real ledger.
//
// The base blocks of this pass are formatted by the real ledger with the target
// bits the PoW instance itself prescribes (ProcessBeforeMiner) and are REALLY
// mined by the instance's own CalculateBlock (nonce, id, proposer signature), with
// an easy target so that mining takes a few hashes. A mutant that changes hashed
// header content and keeps the nonce may also break the proof of work, which is a
// legitimate reason to refuse it; so every such mutant is offered a third time
// with the nonce searched again (fix "mined", instead of "id recomputed, nonce
// kept"), where only the signature is left to tell. The mutants that keep the id (signature bits, the proposer's signature
// over other content, re-signing by another key) need no mining at all.

import (
	"encoding/json"
	"fmt"
	"math/big"
	"strconv"
	"strings"

	_ "github.com/xuperchain/xupercore/bcs/consensus/pow"
	"github.com/xuperchain/xupercore/bcs/ledger/xledger/ledger"
	"github.com/xuperchain/xupercore/bcs/ledger/xledger/state"
	pb "github.com/xuperchain/xupercore/bcs/ledger/xledger/xldgpb"
	"github.com/xuperchain/xupercore/kernel/common/xcontext"
	"github.com/xuperchain/xupercore/kernel/consensus"
	"github.com/xuperchain/xupercore/kernel/consensus/base"
	cctx "github.com/xuperchain/xupercore/kernel/consensus/context"
	"github.com/xuperchain/xupercore/kernel/consensus/def"
	"github.com/xuperchain/xupercore/kernel/engines/xuperos/agent"
	"github.com/xuperchain/xupercore/lib/timer"

	"github.com/golang/protobuf/proto"

	"verif/core"
	"verif/world"
)

const seamPow = "pow"

// easy Bitcoin-style compact targets (mantissa * 256^(exponent-3)): about one id
// in two / one id in thirty-two meets them.
const (
	powBitsEasy   = int32(0x207fffff)
	powBitsHarder = int32(0x2007ffff)
	powFloor      = uint32(0x1d00ffff) // "maxTarget" of the configuration: the hardest target the chain may ever ask
)

// compactTarget decodes a positive compact target (exponent > 3, sign bit clear).
func compactTarget(bits int32) *big.Int {
	exp := uint(uint32(bits) >> 24)
	mant := int64(uint32(bits) & 0x007fffff)
	if exp <= 3 || uint32(bits)&0x00800000 != 0 {
		return big.NewInt(-1)
	}
	return new(big.Int).Lsh(big.NewInt(mant), 8*(exp-3))
}

// powSeam is one PoW plugin instance (one per worker and target: the instance
// owns a mining goroutine that serves one task at a time).
type powSeam struct {
	bits   int32
	target *big.Int
	inst   base.ConsensusImplInterface
}

func (f *fixture) newPowSeam(bits int32) (*powSeam, error) {
	k := world.Keys[miner]
	cc := cctx.ConsensusCtx{BcName: world.BCName, Crypto: world.Crypto, Ledger: agent.NewLedgerAgent(f.w.Chain),
		Address: &cctx.Address{Address: k.Address, PrivateKeyStr: k.PriJSON, PublicKeyStr: k.PubJSON, PrivateKey: k.Priv, PublicKey: &k.Priv.PublicKey}}
	cc.XLog = world.NopLogger{}
	cc.Timer = timer.NewXTimer()
	cfg := fmt.Sprintf(`{"defaultTarget":"%d","adjustHeightGap":"2","expectedPeriod":"16","maxTarget":"%d"}`, uint32(bits), powFloor)
	inst, err := consensus.NewPluginConsensus(cc, def.ConsensusConfig{ConsensusName: "pow", Config: cfg, StartHeight: 1, Index: 0})
	if err != nil || inst == nil {
		return nil, fmt.Errorf("pow consensus (bits %#x): %v", uint32(bits), err)
	}
	if err := inst.Start(); err != nil { // the mining loop; it also drains the "new height" notices of CheckMinerMatch
		return nil, err
	}
	return &powSeam{bits: bits, target: compactTarget(bits), inst: inst}, nil
}

func (p *powSeam) stop() { _ = p.inst.Stop() }

// check asks the PoW CheckMinerMatch (on a copy: BlockAgent.MakeBlockId rewrites Blockid).
func (p *powSeam) check(b *pb.InternalBlock) (o outcome) {
	defer func() {
		if r := recover(); r != nil {
			o = outcome{false, fmt.Sprint(r)}
		}
	}()
	ctx := &xcontext.BaseCtx{XLog: world.NopLogger{}, Timer: timer.NewXTimer()}
	ok, _ := p.inst.CheckMinerMatch(ctx, state.NewBlockAgent(world.CloneBlock(b)))
	return outcome{ok: ok}
}

// proofed is the reference proof-of-work condition: the id, read as a number,
// does not exceed the target.
func (p *powSeam) proofed(id []byte) bool {
	return p.target.Sign() > 0 && new(big.Int).SetBytes(id).Cmp(p.target) <= 0
}

// mine searches the nonce from 0 upward until the recomputed id meets the target.
func (p *powSeam) mine(b *pb.InternalBlock) {
	for n := int32(0); n < 1<<16; n++ {
		b.Nonce = n
		id, err := ledger.MakeBlockID(b)
		if err != nil {
			return
		}
		if p.proofed(id) {
			b.Blockid = id
			return
		}
	}
	core.HarnessError("C08 pow: no nonce below 2^16 meets target bits %#x", uint32(p.bits))
}

// buildPow makes the base block of a spec the way a PoW miner does: target bits
// from the instance's ProcessBeforeMiner, block formatted by the ledger, then
// mined by the instance's CalculateBlock (again until the signature has the
// common length, see sigLen: the nonce search is deterministic, the signature is not).
func (f *fixture) buildPow(p *powSeam, s BaseSpec) (*pb.InternalBlock, error) {
	_, st, err := p.inst.ProcessBeforeMiner(baseT)
	if err != nil {
		return nil, fmt.Errorf("ProcessBeforeMiner: %v", err)
	}
	var own struct {
		TargetBits uint32 `json:"targetBits"`
	}
	if err := json.Unmarshal(st, &own); err != nil {
		return nil, err
	}
	if int32(own.TargetBits) != s.TargetBits {
		return nil, fmt.Errorf("the PoW instance prescribes bits %#x, the base asks %#x", own.TargetBits, uint32(s.TargetBits))
	}
	blk, err := f.build1(s)
	if err != nil {
		return nil, err
	}
	for try := 0; try < 200; try++ {
		if err := p.inst.CalculateBlock(state.NewBlockAgent(blk)); err != nil {
			return nil, fmt.Errorf("CalculateBlock: %v", err)
		}
		if len(blk.Sign) == sigLen {
			break
		}
	}
	return blk, nil
}

// powExpect: what the PoW seam owes to a mutant, derived from what
// VerifyBlock / single owe.
func powExpect(m *mutant) int {
	switch m.expect {
	case mustRefuse, mustRefuseUnlessSigValid:
		return m.expect
	case mustRefuseVerifyOnly:
		if m.class == "blockid" { // PoW compares the claimed id with the recomputed one (single overwrites it)
			return mustRefuse
		}
		return free // body-only change (left to VerifyMerkle), boundary shift (the id pre-image is unchanged)
	case mustRefuseCombined:
		return free // whoever holds a key may mine: a well-formed, proofed block of another proposer is a valid PoW block
	}
	return free
}

// materialise applies a mutant and its consistent recomputation to a copy of base.
func materialise(baseBlk *pb.InternalBlock, m *mutant, p *powSeam) *pb.InternalBlock {
	b := world.CloneBlock(baseBlk)
	m.apply(b)
	switch m.fix {
	case fixMerkle:
		recomputeMerkle(b)
	case fixMerkleID:
		recomputeMerkle(b)
		recomputeID(b)
	case fixID:
		recomputeID(b)
	case fixMine:
		p.mine(b)
	case fixMerkleMine:
		recomputeMerkle(b)
		p.mine(b)
	}
	if m.post != nil {
		m.post(b)
	}
	return b
}

type powVerdict struct {
	noop, dup bool
	ok        bool
	panic     string
	expect    int
	sigValid  bool
	proofed   bool // the candidate's id is the hash of its header and meets the target (reference)
	key       string
	// signature classes other than the bit flips: the signature parses but is not one of the id under the stated key
	wellFormedWrong bool
}

func (f *fixture) judgePow(p *powSeam, baseBlk, baseNorm *pb.InternalBlock, m *mutant, seen map[[32]byte]bool) powVerdict {
	b := materialise(baseBlk, m, p)
	norm := normalise(world.CloneBlock(b))
	if proto.Equal(norm, baseNorm) {
		return powVerdict{noop: true}
	}
	v := powVerdict{expect: powExpect(m)}
	if seen != nil {
		h := digest(norm, v.expect)
		if seen[h] {
			return powVerdict{dup: true}
		}
		seen[h] = true
	}
	if id, err := ledger.MakeBlockID(b); err == nil {
		v.proofed = string(id) == string(b.Blockid) && p.proofed(id)
	}
	if m.class == "signer" || m.class == "signature_other_content" {
		v.wellFormedWrong = sigWellFormedButWrong(b)
	}
	o := p.check(b)
	v.ok, v.panic = o.ok, o.panic
	switch v.expect {
	case mustRefuse:
		if v.ok {
			v.key = "c08.pow." + m.key
		}
	case mustRefuseUnlessSigValid:
		v.sigValid = sigStillValid(b)
		if v.ok && !v.sigValid {
			v.key = "c08.pow." + m.key
		}
	}
	return v
}

// powSpecs: the base blocks of the PoW pass (every shape of the main grid that
// carries a transaction, with the target bits of a PoW instance).
func powSpecs(tier core.Tier) []BaseSpec {
	bits := []int32{powBitsEasy}
	if tier == core.Thorough {
		bits = append(bits, powBitsHarder)
	}
	seen := map[BaseSpec]bool{}
	var out []BaseSpec
	for _, s := range specs(tier) {
		if s.N == 0 || s.Format != "" {
			continue
		}
		for _, tb := range bits {
			s.TargetBits = tb
			s.Seam = seamPow
			if !seen[s] {
				seen[s] = true
				out = append(out, s)
			}
		}
	}
	return out
}

type powStats struct {
	bases, basesOK, mutants, noops, dups, evals int
	acc, ref, judged, judgedRef                 int
	minedVariants, proofedOffered               int
	sigWellFormedWrong                          int
	perClass                                    map[string][2]int
	freeAccepted                                map[string]int
}

func newPowStats() *powStats {
	return &powStats{perClass: map[string][2]int{}, freeAccepted: map[string]int{}}
}

func (s *powStats) merge(o *powStats) {
	s.bases += o.bases
	s.basesOK += o.basesOK
	s.mutants += o.mutants
	s.noops += o.noops
	s.dups += o.dups
	s.evals += o.evals
	s.acc += o.acc
	s.ref += o.ref
	s.judged += o.judged
	s.judgedRef += o.judgedRef
	s.minedVariants += o.minedVariants
	s.proofedOffered += o.proofedOffered
	s.sigWellFormedWrong += o.sigWellFormedWrong
	for k, v := range o.perClass {
		c := s.perClass[k]
		c[0] += v[0]
		c[1] += v[1]
		s.perClass[k] = c
	}
	for k, v := range o.freeAccepted {
		s.freeAccepted[k] += v
	}
}

// sigWellFormedButWrong: the stated key is usable and the signature parses, but
// it is not a signature of the id under that key (VerifyECDSA: false, no error).
func sigWellFormedButWrong(b *pb.InternalBlock) bool {
	k, err := world.Crypto.GetEcdsaPublicKeyFromJsonStr(string(b.Pubkey))
	if err != nil {
		return false
	}
	ok, err := world.Crypto.VerifyECDSA(k, b.Sign, b.Blockid)
	return err == nil && !ok
}

// powJob: one mined base block and all its mutants at the PoW seam.
func (f *fixture) powJob(p *powSeam, s BaseSpec, tier core.Tier, loc *stats, pl *powStats, offer func(Case, core.Violation)) {
	blk, err := f.buildPow(p, s)
	if err != nil {
		core.HarnessError("C08 pow base %v: %v", s, err)
	}
	pl.bases++
	pl.evals += 3
	vo, wo, po := f.verifyP(blk), f.verifyP(world.WireBlock(blk)), p.check(blk)
	idOK := false
	if id, err := ledger.MakeBlockID(blk); err == nil {
		idOK = string(id) == string(blk.Blockid) && p.proofed(id)
	}
	if !vo.ok || !wo.ok || !po.ok || !idOK {
		offer(Case{Base: s}, core.Violation{Key: "c08.pow.mined_block_refused", Summary: fmt.Sprintf("block formatted by the ledger and mined by the PoW plugin's CalculateBlock (%v) is refused: VerifyBlock=%v after wire round trip=%v pow.CheckMinerMatch=%v id is the header hash and meets the target (reference)=%v", s, vo.ok, wo.ok, po.ok, idOK),
			Expected: "a block formatted and mined by the node itself verifies", Observed: "refused"})
		loc.viol["c08.pow.mined_block_refused"]++
		return
	}
	pl.basesOK++
	baseNorm := normalise(world.CloneBlock(blk))
	seen := map[[32]byte]bool{}
	for _, m := range f.mutants(blk, s, tier, seamPow) {
		v := f.judgePow(p, blk, baseNorm, m, seen)
		if v.noop {
			pl.noops++
			continue
		}
		if v.dup {
			pl.dups++
			continue
		}
		pl.mutants++
		pl.evals++
		if v.panic != "" {
			loc.notePanic("pow.CheckMinerMatch: "+v.panic, Case{Base: s, Mutant: m.id}, 1)
		}
		if m.fix == fixMine || m.fix == fixMerkleMine {
			pl.minedVariants++
			if v.proofed {
				pl.proofedOffered++
			}
		}
		if v.wellFormedWrong {
			pl.sigWellFormedWrong++
		}
		c := pl.perClass[m.class]
		if v.ok {
			pl.acc++
			c[0]++
			if v.expect == free {
				pl.freeAccepted[m.class+"|"+fixName[m.fix]]++
			}
		} else {
			pl.ref++
			c[1]++
		}
		pl.perClass[m.class] = c
		if v.expect != free {
			pl.judged++
			if !v.ok {
				pl.judgedRef++
			}
		}
		if v.key != "" {
			loc.viol[v.key]++
			offer(Case{Base: s, Mutant: m.id}, core.Violation{Key: v.key,
				Summary:  fmt.Sprintf("base block mined by the PoW plugin (%v), mutant %q [%s]: pow.CheckMinerMatch accepted it (id is the header hash and meets the target: %v)", s, m.id, m.what, v.proofed),
				Expected: "refused: " + m.why, Observed: "accepted"})
		}
	}
}

func (f *fixture) replayPow(c Case) (bool, string, error) {
	if c.Base.N < 1 || compactTarget(c.Base.TargetBits).BitLen() < 256-8 {
		return false, "", fmt.Errorf("pow base out of range")
	}
	p, err := f.newPowSeam(c.Base.TargetBits)
	if err != nil {
		return false, "", err
	}
	defer p.stop()
	blk, err := f.buildPow(p, c.Base)
	if err != nil {
		return false, "", err
	}
	if c.Mutant == "" {
		vo, wo, po := f.verifyP(blk), f.verifyP(world.WireBlock(blk)), p.check(blk)
		return !(vo.ok && wo.ok && po.ok), fmt.Sprintf("mined base %v: VerifyBlock=%v wire=%v pow.CheckMinerMatch=%v", c.Base, vo.ok, wo.ok, po.ok), nil
	}
	baseNorm := normalise(world.CloneBlock(blk))
	want := c.Mutant
	if strings.HasPrefix(want, "sig|flip:") { // see replay: fold a recorded bit index into range
		if k, err := strconv.Atoi(want[len("sig|flip:"):]); err == nil && len(blk.Sign) > 0 {
			want = fmt.Sprintf("sig|flip:%d", k%(8*len(blk.Sign)))
		}
	}
	for _, m := range f.mutants(blk, c.Base, core.Thorough, seamPow) {
		if m.id != want {
			continue
		}
		v := f.judgePow(p, blk, baseNorm, m, nil)
		if v.noop {
			return false, "mutant is a no-op on this base", nil
		}
		msg := fmt.Sprintf("mined base %v mutant %q [%s]: pow.CheckMinerMatch accepted=%v (id is the header hash and meets the target: %v) key=%s", c.Base, m.id, m.what, v.ok, v.proofed, v.key)
		if v.panic != "" {
			msg += " pow.CheckMinerMatch panicked: " + v.panic
		}
		return v.key != "", msg, nil
	}
	return false, "", fmt.Errorf("mutant %q does not exist for base %v", c.Mutant, c.Base)
}
