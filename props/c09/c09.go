// Package c09: contract effects - what was pre-executed is what is verified and
// committed. Every short program of the harness kernel contract is run through
// the real Chain.PreExec on every prior state, assembled and signed, verified
// (State.VerifyTx), submitted (Chain.SubmitTx) and read back; every single
// mutation of the resulting read set, write set, requests, fee and transfer
// outputs must be refused.
package c09

import (
	"bytes"
	"encoding/json"
	"fmt"
	"math/big"
	"sort"
	"strings"
	"sync"

	"github.com/golang/protobuf/proto"

	pb "github.com/xuperchain/xupercore/bcs/ledger/xledger/xldgpb"
	"github.com/xuperchain/xupercore/protos"
	"github.com/xuperchain/xupercore/verifshim/vhook"

	"verif/core"
	"verif/engine/vkv"
	"verif/props/chain"
	"verif/world"
)

// prior states: block name to be at, and pool transactions to submit first.
var priors = []struct {
	Name  string
	At    string
	Pool  []string
	Recvd []string
}{
	{"k1_absent", "s1", nil, []string{"s1"}},
	{"k1_live", "s2", nil, []string{"s1", "s2"}},
	{"k1_deleted", "s3", nil, []string{"s1", "s2", "s3"}},
	{"k1_live_pending_writer", "s2", []string{"pW"}, []string{"s1", "s2"}},
}

// statement alphabet of the harness contract.
var alphabet = []string{
	"get k1", "get k2", "put k1 x", "put k1 y", "put k2 x", "del k1", "del k2",
	"sel a z", "sel - ''", "cp k1 k2", "cnt k2 - -", "cnt k2 - ''", "cnt k2 '' z", "xfer C 5", "call put k2 y", "call get k1,fail", "fail",
}

var (
	once  sync.Once
	uni   *world.Universe
	bases = map[string]*vkv.Space{}
)

func setup() {
	once.Do(func() {
		world.Init()
		vhook.Capture()
		cfg := world.DefaultConfig()
		cfg.Quotas = map[string]string{"A": "1000", "B": "1000", "C": "1000", "D": "1000"}
		b := world.NewUniverse("U-c09", cfg, world.RegisterVKV)
		root := b.Root()
		b.At("g")
		b.Transfer("tSplit", "B", []world.In{{Tx: root, Offset: 1}}, []world.Out{{To: "B", Amount: "500"}, {To: "B", Amount: "100"}, {To: "B", Amount: "100"}, {To: "B", Amount: "100"}, {To: "B", Amount: "100"}, {To: "B", Amount: "100"}})
		b.Block("s1", "M")
		kvA := b.KV("kvA", "A", "put k1 x", []world.In{{Tx: root, Offset: 0}})
		b.Block("s2", "M")
		b.KV("kvDel", "A", "del k1", []world.In{{Tx: kvA, Offset: len(kvA.TxOutputs) - 1}})
		b.Block("s3", "M")
		b.At("s2")
		pW, _, err := b.W.BuildKVTx("A", "put k1 w", []world.In{{Tx: kvA, Offset: len(kvA.TxOutputs) - 1}}, "pW")
		if err != nil {
			panic(err)
		}
		b.Raw("pW", pW, false)
		uni = b.Done()
		for _, p := range priors {
			in := chain.New(uni, chain.Menu{})
			for _, bn := range p.Recvd {
				if o := in.Apply("recv:" + bn); !strings.HasPrefix(o, "succ=true") {
					panic("c09 fixture: recv " + bn + ": " + o)
				}
			}
			if o := in.Apply("sync"); o != "ok" {
				panic("c09 fixture: sync: " + o)
			}
			for _, t := range p.Pool {
				if o := in.Apply("submit:" + t); o != "ok" {
					panic("c09 fixture: submit " + t + ": " + o)
				}
			}
			in.W.State.Close()
			in.W.Ledger.Close()
			bases[p.Name] = in.W.Space
		}
	})
}

func node(prior string) *chain.Inst {
	var recvd []string
	for _, p := range priors {
		if p.Name == prior {
			recvd = p.Recvd
		}
	}
	w, err := world.Open(uni.Cfg, bases[prior].Clone(), uni.Hook)
	if err != nil {
		panic(err)
	}
	return chain.NewOn(uni, w, recvd, chain.Menu{})
}

// Case is one base case or mutant.
type Case struct {
	Prior   string `json:"prior"`
	Program string `json:"program"`
	Mutant  string `json:"mutant,omitempty"`
}

// assemble builds the signed transaction from a pre-execution result: contract
// utxo inputs / outputs as returned, the fee from B's other output.
func assemble(in *chain.Inst, prog string, pre *world.PreExecResult) (*pb.Transaction, error) {
	split := uni.Tx("tSplit")
	spec := world.TxSpec{Initiator: "B", Nonce: "c09", Requests: pre.Requests, InputsExt: pre.Inputs, OutputsExt: pre.Outputs}
	tx := world.BuildTx(spec)
	used := map[string]bool{}
	tx.TxInputs = nil
	for _, ui := range pre.UtxoInputs {
		tx.TxInputs = append(tx.TxInputs, proto.Clone(ui).(*protos.TxInput))
		used[fmt.Sprintf("%x_%d", ui.RefTxid, ui.RefOffset)] = true
	}
	for _, uo := range pre.UtxoOutputs {
		tx.TxOutputs = append(tx.TxOutputs, proto.Clone(uo).(*protos.TxOutput))
	}
	fee := big.NewInt(pre.GasUsed)
	if fee.Sign() > 0 {
		// pay from the output of tSplit the contract did not select
		off := -1
		for k := range split.TxOutputs {
			if !used[fmt.Sprintf("%x_%d", split.Txid, k)] {
				off = k
				break
			}
		}
		if off < 0 {
			return nil, fmt.Errorf("no free output for the fee")
		}
		o := split.TxOutputs[off]
		tx.TxInputs = append(tx.TxInputs, &protos.TxInput{RefTxid: split.Txid, RefOffset: int32(off), FromAddr: o.ToAddr, Amount: o.Amount})
		tx.TxOutputs = append(tx.TxOutputs, &protos.TxOutput{ToAddr: []byte("$"), Amount: fee.Bytes()})
		change := new(big.Int).Sub(new(big.Int).SetBytes(o.Amount), fee)
		if change.Sign() < 0 {
			return nil, fmt.Errorf("fee %s above the fee output", fee)
		}
		if change.Sign() > 0 {
			tx.TxOutputs = append(tx.TxOutputs, &protos.TxOutput{ToAddr: o.ToAddr, Amount: change.Bytes()})
		}
	}
	world.SignTx(tx, "B", nil)
	return tx, nil
}

type mutant struct {
	name string
	tx   *pb.Transaction
	// free: the statement does not demand a refusal (a read that is no longer
	// declared: the declared writes may still be what re-executing over the
	// remaining declared reads produces); verdicts are counted, never alarmed
	free bool
}

// mutants returns the single mutations whose rejection the statement demands.
func mutants(in *chain.Inst, base *pb.Transaction, pre *world.PreExecResult) []mutant {
	var out []mutant
	add := func(name string, f func(t *pb.Transaction) bool) {
		t := world.CloneTx(base)
		if !f(t) {
			return
		}
		world.SignTx(t, "B", nil)
		free := strings.HasSuffix(name, ".dropped") && strings.HasPrefix(name, "rset[") || strings.HasPrefix(name, "rset[") && strings.Contains(name, ".replaced_by_copy_of[")
		// a request without effects (it only reads or burns resources) may be dropped or listed
		// again: what is left still declares exactly what its own re-execution produces
		if strings.HasPrefix(name, "request[") && (strings.HasSuffix(name, ".dropped") || strings.HasSuffix(name, ".listed_twice")) {
			var k int
			fmt.Sscanf(name, "request[%d]", &k)
			if k < len(base.ContractRequests) && effectFree(string(base.ContractRequests[k].Args["prog"])) {
				free = true
			}
		}
		out = append(out, mutant{name: name, tx: t, free: free})
	}
	kvA := uni.Tx("kvA")
	other := uni.Tx("tSplit")
	for i := range base.TxInputsExt {
		i := i
		// a declared read at a version that is not current
		add(fmt.Sprintf("rset[%d].version_other_tx", i), func(t *pb.Transaction) bool {
			e := t.TxInputsExt[i]
			if bytes.Equal(e.RefTxid, other.Txid) {
				return false
			}
			e.RefTxid, e.RefOffset = other.Txid, 0
			return true
		})
		add(fmt.Sprintf("rset[%d].version_offset+1", i), func(t *pb.Transaction) bool {
			if len(t.TxInputsExt[i].RefTxid) == 0 {
				return false
			}
			t.TxInputsExt[i].RefOffset++
			return true
		})
		add(fmt.Sprintf("rset[%d].version_dropped_to_never_written", i), func(t *pb.Transaction) bool {
			if len(t.TxInputsExt[i].RefTxid) == 0 {
				return false
			}
			t.TxInputsExt[i].RefTxid, t.TxInputsExt[i].RefOffset = nil, 0
			return true
		})
		add(fmt.Sprintf("rset[%d].version_of_never_written_set", i), func(t *pb.Transaction) bool {
			if len(t.TxInputsExt[i].RefTxid) != 0 {
				return false
			}
			t.TxInputsExt[i].RefTxid, t.TxInputsExt[i].RefOffset = kvA.Txid, 0
			return true
		})
	}
	nonTransient := func(t *pb.Transaction) []int {
		var idx []int
		for k, o := range t.TxOutputsExt {
			if o.Bucket != "$transient" {
				idx = append(idx, k)
			}
		}
		return idx
	}
	for _, i := range nonTransient(base) {
		i := i
		add(fmt.Sprintf("wset[%d].value_changed", i), func(t *pb.Transaction) bool {
			t.TxOutputsExt[i].Value = append(append([]byte{}, t.TxOutputsExt[i].Value...), 'Z')
			return true
		})
		add(fmt.Sprintf("wset[%d].dropped", i), func(t *pb.Transaction) bool {
			t.TxOutputsExt = append(t.TxOutputsExt[:i:i], t.TxOutputsExt[i+1:]...)
			return true
		})
		add(fmt.Sprintf("wset[%d].delete_marker_swapped", i), func(t *pb.Transaction) bool {
			if bytes.Equal(t.TxOutputsExt[i].Value, []byte{0}) {
				t.TxOutputsExt[i].Value = []byte("v")
			} else {
				t.TxOutputsExt[i].Value = []byte{0}
			}
			return true
		})
	}
	// structural edits of the declared write set made only of genuine entries: an
	// entry replaced by a second copy of another one (same length, every entry
	// occurs in the re-executed set), an entry listed twice
	for i := range base.TxOutputsExt {
		i := i
		for j := range base.TxOutputsExt {
			j := j
			if i == j {
				continue
			}
			add(fmt.Sprintf("wset[%d].replaced_by_copy_of[%d]", i, j), func(t *pb.Transaction) bool {
				a, b := t.TxOutputsExt[i], t.TxOutputsExt[j]
				if a.Bucket == b.Bucket && bytes.Equal(a.Key, b.Key) && bytes.Equal(a.Value, b.Value) {
					return false
				}
				t.TxOutputsExt[i] = proto.Clone(b).(*protos.TxOutputExt)
				return true
			})
		}
		add(fmt.Sprintf("wset[%d].listed_twice", i), func(t *pb.Transaction) bool {
			t.TxOutputsExt = append(t.TxOutputsExt, proto.Clone(t.TxOutputsExt[i]).(*protos.TxOutputExt))
			return true
		})
	}
	// the same for the declared reads: a read the execution made is no longer
	// declared (dropped, or overwritten by a copy of another declared read)
	for i := range base.TxInputsExt {
		i := i
		add(fmt.Sprintf("rset[%d].dropped", i), func(t *pb.Transaction) bool {
			t.TxInputsExt = append(t.TxInputsExt[:i:i], t.TxInputsExt[i+1:]...)
			return true
		})
		for j := range base.TxInputsExt {
			j := j
			if i == j {
				continue
			}
			add(fmt.Sprintf("rset[%d].replaced_by_copy_of[%d]", i, j), func(t *pb.Transaction) bool {
				a, b := t.TxInputsExt[i], t.TxInputsExt[j]
				if a.Bucket == b.Bucket && bytes.Equal(a.Key, b.Key) {
					return false
				}
				t.TxInputsExt[i] = proto.Clone(b).(*protos.TxInputExt)
				return true
			})
		}
	}
	// requests listed twice / dropped: the re-execution then has other effects
	for i := range base.ContractRequests {
		i := i
		add(fmt.Sprintf("request[%d].listed_twice", i), func(t *pb.Transaction) bool {
			t.ContractRequests = append(t.ContractRequests, proto.Clone(t.ContractRequests[i]).(*protos.InvokeRequest))
			return true
		})
		add(fmt.Sprintf("request[%d].dropped", i), func(t *pb.Transaction) bool {
			if len(t.TxOutputsExt) == 0 {
				return false // nothing declared that the missing request would have to produce
			}
			t.ContractRequests = append(t.ContractRequests[:i:i], t.ContractRequests[i+1:]...)
			return true
		})
	}
	// an extra write of a key the program read (so the "only keys also read" rule does not catch it first)
	for i, e := range base.TxInputsExt {
		i, e := i, e
		written := false
		for _, o := range base.TxOutputsExt {
			if o.Bucket == e.Bucket && bytes.Equal(o.Key, e.Key) {
				written = true
			}
		}
		if written {
			continue
		}
		add(fmt.Sprintf("wset.extra_write_of_read_key[%d]", i), func(t *pb.Transaction) bool {
			t.TxOutputsExt = append(t.TxOutputsExt, &protos.TxOutputExt{Bucket: e.Bucket, Key: e.Key, Value: []byte("extra")})
			return true
		})
	}
	// transient (contract utxo) entries
	for k, o := range base.TxOutputsExt {
		k := k
		if o.Bucket != "$transient" {
			continue
		}
		add(fmt.Sprintf("transient[%d].value_changed", k), func(t *pb.Transaction) bool {
			v := append([]byte{}, t.TxOutputsExt[k].Value...)
			if len(v) == 0 {
				return false
			}
			v[len(v)-1] ^= 1
			t.TxOutputsExt[k].Value = v
			return true
		})
		add(fmt.Sprintf("transient[%d].dropped", k), func(t *pb.Transaction) bool {
			t.TxOutputsExt = append(t.TxOutputsExt[:k:k], t.TxOutputsExt[k+1:]...)
			return true
		})
	}
	// requests
	for i := range base.ContractRequests {
		i := i
		add(fmt.Sprintf("request[%d].args_more_effects", i), func(t *pb.Transaction) bool {
			r := t.ContractRequests[i]
			r.Args = map[string][]byte{"prog": append(append([]byte{}, r.Args["prog"]...), []byte(";put k1 mut")...)}
			return true
		})
		add(fmt.Sprintf("request[%d].limit_below_use", i), func(t *pb.Transaction) bool {
			changed := false
			for _, l := range t.ContractRequests[i].ResourceLimits {
				if l.Limit > 0 {
					l.Limit--
					changed = true
				}
			}
			return changed
		})
	}
	// the fee output below what the execution uses
	for k, o := range base.TxOutputs {
		k := k
		if string(o.ToAddr) != "$" {
			continue
		}
		add("fee_below_gas_used", func(t *pb.Transaction) bool {
			f := new(big.Int).SetBytes(t.TxOutputs[k].Amount)
			f.Sub(f, big.NewInt(1))
			t.TxOutputs[k].Amount = f.Bytes()
			// keep inputs = outputs: give the unit to the change output (or a new one)
			t.TxOutputs = append(t.TxOutputs, &protos.TxOutput{ToAddr: []byte(world.Addr("B")), Amount: big.NewInt(1).Bytes()})
			return true
		})
	}
	// the outputs that realise a contract-originated transfer
	for k, uo := range pre.UtxoOutputs {
		k, uo := k, uo
		if string(uo.ToAddr) == world.Addr("B") {
			continue // change back to the sender
		}
		add(fmt.Sprintf("transfer_output[%d].redirected", k), func(t *pb.Transaction) bool {
			for _, o := range t.TxOutputs {
				if bytes.Equal(o.ToAddr, uo.ToAddr) && bytes.Equal(o.Amount, uo.Amount) {
					o.ToAddr = []byte(world.Addr("D"))
					return true
				}
			}
			return false
		})
		for _, fh := range []int64{-1, 1 << 40} {
			fh := fh
			add(fmt.Sprintf("transfer_output[%d].frozen(%d)", k, fh), func(t *pb.Transaction) bool {
				for _, o := range t.TxOutputs {
					if bytes.Equal(o.ToAddr, uo.ToAddr) && bytes.Equal(o.Amount, uo.Amount) {
						o.FrozenHeight = fh // the payee is "paid" with an output it can never (or not yet) spend
						return true
					}
				}
				return false
			})
		}
		add(fmt.Sprintf("transfer_output[%d].kept_by_sender", k), func(t *pb.Transaction) bool {
			for _, o := range t.TxOutputs {
				if bytes.Equal(o.ToAddr, uo.ToAddr) && bytes.Equal(o.Amount, uo.Amount) {
					o.ToAddr = []byte(world.Addr("B"))
					return true
				}
			}
			return false
		})
	}
	return out
}

// sameEffects: two pre-executions declare the same reads, writes and contract-originated transfers.
func sameEffects(a, b *world.PreExecResult) bool {
	if len(a.Inputs) != len(b.Inputs) || len(a.Outputs) != len(b.Outputs) || len(a.UtxoOutputs) != len(b.UtxoOutputs) || len(a.UtxoInputs) != len(b.UtxoInputs) {
		return false
	}
	for k := range a.Inputs {
		if !proto.Equal(a.Inputs[k], b.Inputs[k]) {
			return false
		}
	}
	for k := range a.Outputs {
		if !proto.Equal(a.Outputs[k], b.Outputs[k]) {
			return false
		}
	}
	for k := range a.UtxoOutputs {
		if !proto.Equal(a.UtxoOutputs[k], b.UtxoOutputs[k]) {
			return false
		}
	}
	for k := range a.UtxoInputs {
		if !proto.Equal(a.UtxoInputs[k], b.UtxoInputs[k]) {
			return false
		}
	}
	return true
}

// effectFree reports that a harness program writes nothing and transfers nothing.
func effectFree(prog string) bool {
	for _, st := range strings.Split(prog, ";") {
		f := strings.Fields(st)
		if len(f) == 0 {
			continue
		}
		switch f[0] {
		case "get", "sel", "cpu", "mem", "disk", "gas":
		default:
			return false
		}
	}
	return true
}

type stats struct {
	programs, preexecFailed, accepted, mutants, committed int
	freeAccepted, freeRefused                             int
}

// runBase runs one base case with all its mutants.
func runBase(c Case, only string) (viol []core.Violation, st stats) {
	defer func() {
		if r := recover(); r != nil {
			viol = append(viol, core.Violation{Key: "c09.panic", Summary: fmt.Sprintf("prior %s program %q: panic: %v", c.Prior, c.Program, r), Case: c})
		}
	}()
	vhook.Capture()
	in := node(c.Prior)
	defer in.Close()
	w := in.W
	bad := func(key, mut, f string, a ...interface{}) {
		cc := c
		cc.Mutant = mut
		viol = append(viol, core.Violation{Key: key, Summary: fmt.Sprintf("prior %s, program %q%s: ", c.Prior, c.Program, mutSuffix(mut)) + fmt.Sprintf(f, a...), Case: cc})
	}
	st.programs = 1
	before := chain.Observe(in, w)
	addrB := world.Addr("B")
	// "a||b": one transaction with several requests
	var reqs []*protos.InvokeRequest
	for _, p := range strings.Split(c.Program, "||") {
		reqs = append(reqs, world.VKVRequest(p))
	}
	pre, err := w.PreExec(reqs, addrB, []string{addrB})
	if err != nil {
		st.preexecFailed = 1
		// a failed call changes nothing
		if d := chain.Diff(before, chain.Observe(in, w)); len(d) > 0 {
			bad("c09.failed_preexec_changed_state", "", "pre-execution failed (%v) but observations changed: %s", err, strings.Join(d, " | "))
		}
		return
	}
	tx, err := assemble(in, c.Program, pre)
	if err != nil {
		bad("c09.fixture", "", "cannot assemble: %v", err)
		return
	}
	if ok, err := w.State.VerifyTx(world.CloneTx(tx)); !ok || err != nil {
		bad("c09.preexecuted_tx_refused", "", "the transaction assembled from PreExec's own result is refused by VerifyTx: ok=%v err=%v", ok, err)
		return
	}
	st.accepted = 1
	// mutants first (on the same state), each must be refused and change nothing
	for _, m := range mutants(in, tx, pre) {
		if only != "" && m.name != only {
			continue
		}
		st.mutants++
		ok, verr := w.State.VerifyTx(world.CloneTx(m.tx))
		if strings.HasPrefix(m.name, "request[") && !m.free && !strings.HasSuffix(m.name, ".limit_below_use") {
			// a changed request list is a different transaction: it has to be refused exactly when
			// what it declares is no longer what executing ITS requests produces (or costs more
			// than it pays); decided by pre-executing the changed list on the same state
			if pre2, err2 := w.PreExec(m.tx.ContractRequests, addrB, []string{addrB}); err2 == nil && sameEffects(pre, pre2) && pre2.GasUsed <= pre.GasUsed {
				m.free = true
			}
		}
		if m.free {
			if ok && verr == nil {
				st.freeAccepted++
			} else {
				st.freeRefused++
			}
			continue
		}
		if ok && verr == nil {
			kind := m.name
			for j := strings.IndexByte(kind, '['); j >= 0; j = strings.IndexByte(kind, '[') {
				kind = kind[:j] + kind[j+strings.IndexByte(kind[j:], ']')+1:]
			}
			bad("c09.mutant_accepted."+kind, m.name, "VerifyTx accepts the transaction after the mutation")
			continue
		}
		if serr := w.Submit(world.CloneTx(m.tx)); serr == nil {
			bad("c09.refused_mutant_admitted", m.name, "VerifyTx refuses the mutant but SubmitTx admitted it")
			return
		}
		if d := chain.Diff(before, chain.Observe(in, w)); len(d) > 0 {
			bad("c09.rejected_tx_changed_state", m.name, "the refused mutant changed observations: %s", strings.Join(d[:minInt(len(d), 3)], " | "))
			return
		}
	}
	if only != "" {
		return
	}
	// commit and read back
	if err := w.Submit(world.CloneTx(tx)); err != nil {
		bad("c09.verified_tx_not_admitted", "", "VerifyTx accepted but SubmitTx refused: %v", err)
		return
	}
	st.committed = 1
	after := chain.Observe(in, w)
	// keys: the write-set value if written, else the previous value
	written := map[string]string{}
	for off, o := range tx.TxOutputsExt {
		if o.Bucket == world.VKVBucket {
			written[string(o.Key)] = fmt.Sprintf("%q@%s_%d", o.Value, in.Names.Of(tx.Txid), off)
		}
	}
	for _, k := range chain.KVKeys {
		want := before["kv:"+k]
		if v, ok := written[k]; ok {
			want = v
		}
		got := after["kv:"+k]
		got = strings.Replace(got, "?"+fmt.Sprintf("%x", tx.Txid[:4]), in.Names.Of(tx.Txid), 1)
		if got != want {
			bad("c09.committed_value_differs", "", "after commit key %s reads %s, expected %s (write set %v)", k, got, want, written)
		}
	}
	// unspent outputs: exactly the declared inputs gone, the declared outputs (non-fee, non-zero) added
	wantGone := map[string]bool{}
	for _, i := range tx.TxInputs {
		wantGone[fmt.Sprintf("raw:U%s_%x_%d", in.Names.Replace(string(i.FromAddr)), i.RefTxid, i.RefOffset)] = true
	}
	bk := rawU(before, in)
	ak := rawU(after, in)
	for k := range bk {
		if _, still := ak[k]; !still && !goneMatch(k, tx, in) {
			bad("c09.unexpected_output_spent", "", "output %s disappeared but is not an input of the transaction", k)
		}
	}
	nOut := 0
	for off, o := range tx.TxOutputs {
		if string(o.ToAddr) == "$" || new(big.Int).SetBytes(o.Amount).Sign() == 0 {
			continue
		}
		nOut++
		key := fmt.Sprintf("raw:U%s_%s_%d", in.Names.Replace(string(o.ToAddr)), fmt.Sprintf("%x", tx.Txid), off)
		found := false
		for k := range ak {
			if strings.HasSuffix(k, fmt.Sprintf("_%d", off)) && strings.Contains(k, in.Names.Replace(string(o.ToAddr))) {
				if _, old := bk[k]; !old {
					found = true
				}
			}
		}
		if !found {
			bad("c09.declared_output_missing", "", "declared output %d (%s) is not among the new unspent outputs (%s)", off, in.Names.Replace(string(o.ToAddr)), key)
		}
	}
	added := 0
	for k := range ak {
		if _, old := bk[k]; !old {
			added++
		}
	}
	if added != nOut {
		bad("c09.undeclared_output_created", "", "%d new unspent outputs, the transaction declares %d", added, nOut)
	}
	_ = wantGone
	return
}

func goneMatch(k string, tx *pb.Transaction, in *chain.Inst) bool {
	for _, i := range tx.TxInputs {
		if strings.HasSuffix(k, fmt.Sprintf("_%d", i.RefOffset)) && (strings.Contains(k, fmt.Sprintf("%x", i.RefTxid)) || strings.Contains(k, "<"+in.Names.Of(i.RefTxid)+">")) {
			return true
		}
	}
	return false
}

func rawU(o map[string]string, in *chain.Inst) map[string]string {
	out := map[string]string{}
	for k, v := range o {
		if strings.HasPrefix(k, "raw:U") {
			out[k] = v
		}
	}
	return out
}

func mutSuffix(m string) string {
	if m == "" {
		return ""
	}
	return ", mutant " + m
}

func minInt(a, b int) int {
	if a < b {
		return a
	}
	return b
}

func programs(maxLen int) []string {
	var out []string
	var rec func(prefix []string, n int)
	rec = func(prefix []string, n int) {
		if len(prefix) > 0 {
			out = append(out, strings.Join(prefix, ";"))
		}
		if n == 0 {
			return
		}
		for _, s := range alphabet {
			rec(append(append([]string{}, prefix...), s), n-1)
		}
	}
	rec(nil, maxLen)
	sort.SliceStable(out, func(a, b int) bool { return strings.Count(out[a], ";") < strings.Count(out[b], ";") })
	return out
}

func run(tier core.Tier) *core.Report {
	rep := core.NewReport("C09", tier, "model_checking")
	setup()
	n := 3
	if tier == core.Thorough {
		n = 4
	}
	progs := programs(n)
	var cases []Case
	for _, p := range priors {
		for _, pr := range progs {
			cases = append(cases, Case{Prior: p.Name, Program: pr})
		}
	}
	// several requests in one transaction: resource use that is converted to gas by
	// rounding (cpu_rate 1000, mem_rate 1000000), flat fees, effects
	reqAlphabet := []string{"cpu 1", "cpu 1500", "cpu 700", "cpu 1000", "mem 1", "mem 1500000", "disk 3", "gas 2", "put k1 x", "get k1;put k2 y", "xfer C 5"}
	maxReq := 2
	if tier == core.Thorough {
		maxReq = 3
	}
	var multi []string
	var recq func(prefix []string)
	recq = func(prefix []string) {
		if len(prefix) >= 2 {
			multi = append(multi, strings.Join(prefix, "||"))
		}
		if len(prefix) == maxReq {
			return
		}
		for _, r := range reqAlphabet {
			recq(append(append([]string{}, prefix...), r))
		}
	}
	recq(nil)
	for _, r := range reqAlphabet { // single requests of the new statements as well
		multi = append(multi, r)
	}
	for _, p := range priors[:1] {
		for _, pr := range multi {
			cases = append(cases, Case{Prior: p.Name, Program: pr})
		}
	}
	var mu sync.Mutex
	var tot stats
	kinds := map[string]bool{}
	jobs := make(chan Case, 256)
	var wg sync.WaitGroup
	stopped := false
	for wk := 0; wk < 16; wk++ {
		wg.Add(1)
		go func() {
			defer wg.Done()
			for c := range jobs {
				if rep.Expired() {
					mu.Lock()
					stopped = true
					mu.Unlock()
					continue
				}
				v, st := runBase(c, "")
				mu.Lock()
				tot.programs += st.programs
				tot.preexecFailed += st.preexecFailed
				tot.accepted += st.accepted
				tot.mutants += st.mutants
				tot.freeAccepted += st.freeAccepted
				tot.freeRefused += st.freeRefused
				tot.committed += st.committed
				if tot.programs%997 == 1 {
					rep.Sample(map[string]interface{}{"case": c, "mutants": st.mutants, "accepted": st.accepted == 1})
				}
				mu.Unlock()
				for _, x := range v {
					rep.Violation(x)
					kinds[x.Key] = true
				}
			}
		}()
	}
	for _, c := range cases {
		jobs <- c
	}
	close(jobs)
	wg.Wait()
	rep.Set("states", tot.programs)
	rep.Set("transitions", tot.programs+tot.mutants)
	rep.Set("traces_validated_against_impl", tot.programs+tot.mutants)
	rep.Set("programs", tot.programs)
	rep.Set("programs_failing_at_preexec", tot.preexecFailed)
	rep.Set("base_transactions_accepted", tot.accepted)
	rep.Set("base_transactions_committed", tot.committed)
	reservedFamily(rep, tier)
	rep.Set("mutants_judged", tot.mutants-tot.freeAccepted-tot.freeRefused)
	rep.Set("outside_statement_mutants", fmt.Sprintf("declared read dropped / overwritten by a copy of another declared read, request without effects dropped / listed again, changed request list that pre-executes to the same effects at no higher cost: %d accepted, %d refused (recorded, not judged: what is left still declares what its own re-execution produces)", tot.freeAccepted, tot.freeRefused))
	rep.Set("bound", fmt.Sprintf("programs of length <= %d over %d statements (get/put/del/select/transfer/nested call/fail) x %d prior states; every single mutation of read set versions, write set, transient entries, request args and limits, fee, transfer outputs", n, len(alphabet), len(priors)))
	rep.Set("exhaustive", !stopped)
	rep.Assume("the harness contract's transfer spends from the initiator, as the bridge syscall does; mutants are re-signed by the initiator (the question is whether the chain binds declared effects, not whether signatures bind content: C07)")
	rep.Assume("only mutations whose rejection the statement demands are judged: a declared read that is not current, declared writes / transient entries / transfer outputs that differ from re-execution, requests with other effects, limits or fee below use")
	return rep
}

func replay(c json.RawMessage) (bool, string, error) {
	var rc reservedCase
	if json.Unmarshal(c, &rc) == nil && rc.Reserved.Program != "" {
		setup()
		v, _ := runReserved(rc)
		if len(v) > 0 {
			return true, v[0].Key + ": " + v[0].Summary, nil
		}
		return false, "reserved-request case replayed without violation", nil
	}
	var cs Case
	if err := json.Unmarshal(c, &cs); err != nil {
		return false, "", err
	}
	setup()
	v, _ := runBase(Case{Prior: cs.Prior, Program: cs.Program}, cs.Mutant)
	if len(v) > 0 {
		return true, v[0].Key + ": " + v[0].Summary, nil
	}
	return false, "case replayed without violation", nil
}

func init() {
	core.Register(&core.Check{ID: "C09", Run: run, Replay: replay})
}
