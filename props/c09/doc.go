// Package c09 holds the check for property C09.
package c09
