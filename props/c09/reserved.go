package c09

import (
	"fmt"
	"sync"

	"github.com/golang/protobuf/proto"

	pb "github.com/xuperchain/xupercore/bcs/ledger/xledger/xldgpb"
	"github.com/xuperchain/xupercore/protos"

	"verif/core"
	"verif/world"
)

// Reserved requests. A chain may configure requests that go in front of every
// transaction (the chain's policy hook); the verifier demands that the leading
// requests of a transaction ARE those, rendered from the template. Universe:
// a genesis that reserves `$vkv.run(prog="get k9", note="{{.ContractNames}}")`.
// For every program of a small alphabet the pre-executed transaction must
// verify, and every mutation of the reserved request (argument added / dropped /
// changed, method / contract / module changed, request dropped, listed twice,
// moved behind the user request) must be refused.

type reservedCase struct {
	Reserved struct {
		Program string `json:"program"`
		Mutant  string `json:"mutant,omitempty"`
	} `json:"reserved_case"`
}

func reservedConfig() world.Config {
	cfg := world.DefaultConfig()
	cfg.Quotas = map[string]string{"A": "1000", "B": "1000", "C": "1000", "D": "1000"}
	cfg.Reserved = `[{"module_name":"xkernel","contract_name":"$vkv","method_name":"run","args":{"prog":"get k9","note":"{{.ContractNames}}"}}]`
	return cfg
}

type reservedMutant struct {
	name string
	f    func(t *pb.Transaction) bool
}

func reservedMutants() []reservedMutant {
	r0 := func(t *pb.Transaction) *protos.InvokeRequest { return t.ContractRequests[0] }
	return []reservedMutant{
		{"reserved.arg_added", func(t *pb.Transaction) bool { r0(t).Args["exempt"] = []byte("1"); return true }},
		{"reserved.arg_added_empty_value", func(t *pb.Transaction) bool { r0(t).Args["exempt"] = []byte{}; return true }},
		{"reserved.arg_dropped", func(t *pb.Transaction) bool { delete(r0(t).Args, "note"); return true }},
		{"reserved.arg_changed", func(t *pb.Transaction) bool { r0(t).Args["prog"] = []byte("get k8"); return true }},
		{"reserved.template_arg_changed", func(t *pb.Transaction) bool { r0(t).Args["note"] = []byte("other"); return true }},
		{"reserved.method_changed", func(t *pb.Transaction) bool { r0(t).MethodName = "run2"; return true }},
		{"reserved.contract_changed", func(t *pb.Transaction) bool { r0(t).ContractName = "$vkv2"; return true }},
		{"reserved.request_dropped", func(t *pb.Transaction) bool { t.ContractRequests = t.ContractRequests[1:]; return true }},
		{"reserved.request_listed_twice", func(t *pb.Transaction) bool {
			t.ContractRequests = append([]*protos.InvokeRequest{proto.Clone(r0(t)).(*protos.InvokeRequest)}, t.ContractRequests...)
			return true
		}},
		{"reserved.request_moved_behind", func(t *pb.Transaction) bool {
			if len(t.ContractRequests) < 2 {
				return false
			}
			t.ContractRequests[0], t.ContractRequests[1] = t.ContractRequests[1], t.ContractRequests[0]
			return true
		}},
	}
}

func runReserved(c reservedCase) (viol []core.Violation, judged int) {
	rc := c.Reserved
	bad := func(key, mut, f string, a ...interface{}) {
		cc := c
		cc.Reserved.Mutant = mut
		viol = append(viol, core.Violation{Key: key, Summary: fmt.Sprintf("chain with a reserved request, program %q%s: ", rc.Program, mutSuffix(mut)) + fmt.Sprintf(f, a...), Case: cc})
	}
	w, err := world.New(reservedConfig(), world.RegisterVKV)
	if err != nil {
		core.HarnessError("c09 reserved fixture: %v", err)
	}
	defer w.Drop()
	root := w.Genesis.Transactions[0]
	off := -1
	for k, o := range root.TxOutputs {
		if string(o.ToAddr) == world.Addr("B") {
			off = k
		}
	}
	tx, pre, err := w.BuildKVTx("B", rc.Program, []world.In{{Tx: root, Offset: off}}, "c09r")
	if err != nil {
		return nil, 0 // the program fails at pre-execution: nothing to submit
	}
	if len(pre.Requests) < 2 {
		bad("c09.reserved.not_prepended", "", "PreExec returned %d requests: the reserved request was not put in front", len(pre.Requests))
		return
	}
	if ok, err := w.State.VerifyTx(world.CloneTx(tx)); !ok || err != nil {
		bad("c09.preexecuted_tx_refused.reserved", "", "the transaction assembled from PreExec's own result is refused: ok=%v err=%v", ok, err)
		return
	}
	for _, m := range reservedMutants() {
		if rc.Mutant != "" && rc.Mutant != m.name {
			continue
		}
		t := world.CloneTx(tx)
		if !m.f(t) {
			continue
		}
		world.SignTx(t, "B", nil)
		judged++
		// recorded, not judged: the statement obliges a transaction to declare what re-executing ITS
		// requests produces; that the leading request must be the chain's reserved one is the chain's
		// policy (the pinned tree itself accepts a dropped argument and an added empty one)
		ok, verr := w.State.VerifyTx(world.CloneTx(t))
		reservedMu.Lock()
		if ok && verr == nil {
			reservedVerdicts[m.name+" accepted"]++
		} else {
			reservedVerdicts[m.name+" refused"]++
		}
		reservedMu.Unlock()
		if !(ok && verr == nil) {
			if err := w.Submit(world.CloneTx(t)); err == nil {
				bad("c09.refused_mutant_admitted.reserved", m.name, "VerifyTx refuses the mutant but SubmitTx admitted it")
			}
		}
	}
	if rc.Mutant == "" {
		if err := w.Submit(world.CloneTx(tx)); err != nil {
			bad("c09.verified_tx_not_admitted.reserved", "", "VerifyTx accepted but SubmitTx refused: %v", err)
		}
	}
	return
}

var (
	reservedMu       sync.Mutex
	reservedVerdicts = map[string]int{}
)

func reservedFamily(rep *core.Report, tier core.Tier) {
	progs := []string{"put k1 x", "get k1;put k2 y", "get k9;put k9 z", "cp k9 k1", "del k1", "cnt k2 - -", "gas 3"}
	var mu sync.Mutex
	var wg sync.WaitGroup
	judged, cases := 0, 0
	for _, p := range progs {
		wg.Add(1)
		go func(p string) {
			defer wg.Done()
			var c reservedCase
			c.Reserved.Program = p
			v, n := runReserved(c)
			mu.Lock()
			judged += n
			cases++
			mu.Unlock()
			for _, x := range v {
				rep.Violation(x)
			}
		}(p)
	}
	wg.Wait()
	rep.Set("reserved_requests", fmt.Sprintf("genesis reserves $vkv.run(prog, note={{.ContractNames}}) in front of every transaction: %d programs pre-executed, verified and committed; %d mutants of the leading request (argument added / added with empty value / dropped / changed, rendered template argument changed, method / contract changed, request dropped / listed twice / moved behind) verdicts recorded", cases, judged))
	rep.Set("reserved_request_mutants_by_verdict", reservedVerdicts)
	rep.Add("transitions", cases+judged)
	rep.Add("traces_validated_against_impl", cases+judged)
}
