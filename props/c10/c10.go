// Package c10: sandbox semantics (read-your-writes, exact range scans, sound
// replayable read / write set).
//
// Exhaustive bounded enumeration of programs: every sequence of sandbox calls up
// to a length over a small alphabet is executed on the REAL sandbox
// (contract.StateSandbox from manager.NewStateSandbox = sandbox.NewXModelCache)
// over the REAL XModel of a node whose committed state realises one of the 27
// assignments {never written, live, deleted}^3 to the keys (a,b,c), judged call
// by call against a plain map layered over the backing map, then executed a
// second time on a fresh sandbox over sandbox.XMReaderFromRWSet(read set) /
// sandbox.NewUTXOReaderFromInput(token inputs) and compared.
//
// Transfer is part of the alphabet with its outcomes: three payers (A rich, C
// with 2 outputs of 2, D with nothing) x amounts around an output and around
// the balance, so programs hold transfers that the node's real UTXO reader
// refuses (no funds, not enough, used up by earlier transfers of the program)
// before, between and after accepted ones. The reference tracks the outputs
// each payer has left; the replay must refuse and accept the same transfers
// and reproduce token inputs, token outputs and write set.
//
// The key alphabet is a dimension of its own (`universe`, worlds.go): besides
// the plain keys (a,b,c) the same enumeration runs over universes of boundary
// keys - the empty key, a chain of strict prefixes through the byte 0x00, the
// byte 0xff, the bucket/key separator "/" - each with all 3^n backing states
// (rows of the committed state), with the keys read before a scan (rows of
// the read cache) and written before it (rows of this execution), and with
// scans whose bounds are nil, "", every key and a bound beyond the last key,
// consumed fully, stopped after one row, closed at once.
//
// The backing state may also MOVE during an execution (moving.go): between two
// calls of a program the node confirms one more block that writes one key; the
// read set must keep the version each key had when the execution first read it
// and the replay over it must reproduce what the execution returned.
package c10

import (
	"encoding/json"
	"fmt"
	"os"
	"runtime"
	"sort"
	"strings"
	"sync"

	"verif/core"
	"verif/world"

	"github.com/xuperchain/xupercore/verifshim/vhook"
)

// ---------------------------------------------------------------------------
// alphabets

func point(bkt uint8, kind opKind, keys ...uint8) []op {
	var out []op
	for _, k := range keys {
		out = append(out, op{kind: kind, bkt: bkt, key: k})
	}
	return out
}

func sel(bkt, s, e, c uint8) op { return op{kind: opSel, bkt: bkt, s: s, e: e, consume: c} }

// bound indexes
const (
	bNil, bEmp, bA, bB, bC, bD = 0, 1, 2, 3, 4, 5
)

// alphabetXfer: every Transfer of the model: the payers A (10 outputs of 100),
// C (2 outputs of 2), D (nothing) x the amounts {0, within one output, exactly
// one output, one more than an output, exactly the balance, one over, far
// over}; 7 + 7 + 3 = 17 calls. Which of them the utxo reader refuses depends on
// what the transfers before it in the program selected.
func alphabetXfer() []op {
	var out []op
	for i, p := range payers {
		for _, a := range xferAmounts(p) {
			out = append(out, xfer(uint8(i), a))
		}
	}
	return out
}

// xferFew: the transfers of the sub-alphabets of the longer programs: 1 and 0
// from A (accepted / refused before the reader is asked: the two calls these
// alphabets always had), 3 from C (accepted once, with both its outputs), 5
// from C (refused: one over its balance).
func xferFew() []op {
	return []op{xfer(0, 1), xfer(0, 0), xfer(1, 3), xfer(1, 5)}
}

// alphabetXferCore: 8 transfers for the longest transfer-only programs: A
// within one output / two outputs / over its balance, C within one output /
// both outputs with change / exactly its balance / one over, D.
func alphabetXferCore() []op {
	return []op{xfer(0, 1), xfer(0, 101), xfer(0, 1001), xfer(1, 1), xfer(1, 3), xfer(1, 4), xfer(1, 5), xfer(2, 1)}
}

// alphabetMix: the 8 transfers of alphabetXferCore interleaved with 8
// key-value calls (reads, writes, deletes and scans on the three buckets):
// what a contract does between a refused transfer and the next one.
func alphabetMix() []op {
	out := alphabetXferCore()
	out = append(out, point(0, opGet, 0)...)
	out = append(out, point(0, opPut, 0, 1)...)
	out = append(out, point(0, opDel, 0)...)
	out = append(out, point(1, opGet, 0)...)
	out = append(out, point(2, opPut, 0)...)
	out = append(out, sel(0, bA, bD, consAll), sel(0, bNil, bNil, consAll))
	return out
}

// alphabetFull: every call of the quantifier: Get / Put / Del on {a,b,c} in the
// three buckets, Select with all 36 bound pairs x 3 consumptions in the three
// buckets, all 17 transfers.  27 + 324 + 17 = 368 calls.
func alphabetFull() []op {
	var out []op
	for b := uint8(0); b < 3; b++ {
		for _, kind := range []opKind{opGet, opPut, opDel} {
			out = append(out, point(b, kind, 0, 1, 2)...)
		}
	}
	for b := uint8(0); b < 3; b++ {
		for s := uint8(0); s < 6; s++ {
			for e := uint8(0); e < 6; e++ {
				for c := uint8(0); c < 3; c++ {
					out = append(out, sel(b, s, e, c))
				}
			}
		}
	}
	out = append(out, alphabetXfer()...)
	return out
}

// alphabetMid: all point calls on vb, four on each other bucket; on vb all 16
// letter pairs x {one, all}, three early closes, all 20 pairs with a nil /
// empty bound consumed fully and three of them with early stop; four scans on
// each other bucket; the four transfers of xferFew and 1 from D (refused:
// holds nothing).
func alphabetMid() []op {
	var out []op
	for _, kind := range []opKind{opGet, opPut, opDel} {
		out = append(out, point(0, kind, 0, 1, 2)...)
	}
	for _, b := range []uint8{1, 2} {
		out = append(out, point(b, opGet, 0)...)
		out = append(out, point(b, opPut, 0, 1)...)
		out = append(out, point(b, opDel, 0)...)
	}
	for s := uint8(bA); s <= bD; s++ {
		for e := uint8(bA); e <= bD; e++ {
			out = append(out, sel(0, s, e, consOne), sel(0, s, e, consAll))
		}
	}
	out = append(out, sel(0, bA, bD, consNone), sel(0, bB, bD, consNone), sel(0, bA, bC, consNone))
	for s := uint8(0); s < 6; s++ {
		for e := uint8(0); e < 6; e++ {
			if s < 2 || e < 2 {
				out = append(out, sel(0, s, e, consAll))
			}
		}
	}
	out = append(out, sel(0, bNil, bNil, consOne), sel(0, bNil, bD, consOne), sel(0, bA, bNil, consOne))
	for _, b := range []uint8{1, 2} {
		out = append(out, sel(b, bA, bD, consAll), sel(b, bA, bD, consOne), sel(b, bNil, bNil, consAll), sel(b, bB, bA, consAll))
	}
	out = append(out, xferFew()...)
	out = append(out, xfer(2, 1))
	return out
}

// alphabetSmall: all point calls on vb, Put/Get on vb2, Put/Get/Del on the
// transient bucket (key a), 17 scans on vb (every proper pair fully, the full
// range also closed at once and after one key, one inverted and one empty
// range, six nil / empty bound pairs), one scan on vb2, two on the transient
// bucket, the four transfers of xferFew.
func alphabetSmall() []op {
	var out []op
	for _, kind := range []opKind{opGet, opPut, opDel} {
		out = append(out, point(0, kind, 0, 1, 2)...)
	}
	out = append(out, point(1, opPut, 0)...)
	out = append(out, point(1, opGet, 0)...)
	out = append(out, point(2, opPut, 0)...)
	out = append(out, point(2, opGet, 0)...)
	out = append(out, point(2, opDel, 0)...)
	out = append(out,
		sel(0, bA, bD, consNone), sel(0, bA, bD, consOne), sel(0, bA, bD, consAll),
		sel(0, bA, bB, consAll), sel(0, bA, bC, consAll), sel(0, bB, bC, consAll), sel(0, bB, bD, consAll), sel(0, bC, bD, consAll),
		sel(0, bB, bD, consOne),
		sel(0, bC, bA, consAll), sel(0, bB, bB, consAll),
		sel(0, bNil, bNil, consAll), sel(0, bNil, bD, consAll), sel(0, bA, bNil, consAll),
		sel(0, bEmp, bEmp, consAll), sel(0, bEmp, bD, consAll), sel(0, bA, bEmp, consAll),
		sel(1, bA, bD, consAll),
		sel(2, bA, bD, consAll), sel(2, bNil, bNil, consAll),
	)
	out = append(out, xferFew()...)
	return out
}

// alphabetTiny: 14 calls for the longest programs (long programs with
// refused transfers: families xfer, xfercore and mix).
func alphabetTiny() []op {
	var out []op
	out = append(out, point(0, opGet, 0, 1, 2)...)
	out = append(out, point(0, opPut, 0, 1)...)
	out = append(out, point(0, opDel, 0, 1)...)
	out = append(out, point(2, opPut, 0)...)
	out = append(out,
		sel(0, bA, bD, consAll), sel(0, bA, bD, consOne), sel(0, bB, bD, consAll), sel(0, bA, bC, consAll), sel(0, bNil, bNil, consAll),
	)
	out = append(out, xfer(0, 1))
	return out
}

// ---------------------------------------------------------------------------
// alphabets of the boundary universes (the same shapes as above, generated
// from the keys and bounds of the universe)

func upoint(u *universe, bkt uint8, kind opKind, keys ...int) []op {
	var out []op
	for _, k := range keys {
		out = append(out, op{kind: kind, u: u.idx, bkt: bkt, key: uint8(k)})
	}
	return out
}

func usel(u *universe, bkt uint8, s, e int, c uint8) op {
	return op{kind: opSel, u: u.idx, bkt: bkt, s: uint8(s), e: uint8(e), consume: c}
}

func (u *universe) allKeys() []int {
	out := make([]int, len(u.keys))
	for i := range out {
		out[i] = i
	}
	return out
}

// lo is the lowest start bound that is judged exactly ("" where it is a key,
// else the first key), hi the bound beyond the last key.
func (u *universe) lo() int {
	if u.emptyIsKey {
		return 1
	}
	return 2
}

func (u *universe) hi() int { return len(u.bounds) - 1 }

// boundaryFull: every key-value call of the quantifier over the universe:
// Get / Put / Del of every key in the three buckets, Select with every pair of
// bounds (nil, "", every key, beyond) x 3 consumptions in the three buckets.
func boundaryFull(u *universe) []op {
	var out []op
	for b := uint8(0); b < 3; b++ {
		for _, kind := range []opKind{opGet, opPut, opDel} {
			out = append(out, upoint(u, b, kind, u.allKeys()...)...)
		}
	}
	nb := len(u.bounds)
	for b := uint8(0); b < 3; b++ {
		for s := 0; s < nb; s++ {
			for e := 0; e < nb; e++ {
				for c := uint8(0); c < 3; c++ {
					out = append(out, usel(u, b, s, e, c))
				}
			}
		}
	}
	return out
}

// boundaryMid (programs of 2 calls; 3 in the thorough tier): all point calls
// on vb, Get / Put / Del of the first two keys on vb2 and of the first key on
// the transient bucket; on vb every pair of bounds consumed fully, every pair
// with start before end or a nil end stopped after one row, two scans closed
// at once; three scans on vb2, two on the transient bucket.
func boundaryMid(u *universe) []op {
	var out []op
	for _, kind := range []opKind{opGet, opPut, opDel} {
		out = append(out, upoint(u, 0, kind, u.allKeys()...)...)
	}
	for _, kind := range []opKind{opGet, opPut, opDel} {
		out = append(out, upoint(u, 1, kind, 0, 1)...)
	}
	for _, kind := range []opKind{opGet, opPut, opDel} {
		out = append(out, upoint(u, 2, kind, 0)...)
	}
	nb, lo, hi := len(u.bounds), u.lo(), u.hi()
	for s := 0; s < nb; s++ {
		for e := 0; e < nb; e++ {
			out = append(out, usel(u, 0, s, e, consAll))
		}
	}
	for s := 0; s < nb; s++ {
		for e := 0; e < nb; e++ {
			if s < e || e == 0 {
				out = append(out, usel(u, 0, s, e, consOne))
			}
		}
	}
	out = append(out, usel(u, 0, 0, 0, consNone), usel(u, 0, lo, hi, consNone))
	out = append(out, usel(u, 1, 0, 0, consAll), usel(u, 1, lo, hi, consAll), usel(u, 1, lo, hi, consOne))
	out = append(out, usel(u, 2, 0, 0, consAll), usel(u, 2, lo, hi, consAll))
	return out
}

// boundarySmall (programs of 3 calls; 4 in the thorough tier): all point calls
// on vb, Put of the first key on vb2; on vb the whole bucket by nil bounds and
// by (lowest bound, beyond), each consumed fully and stopped after one row,
// the range without its first key and the range without its last key; the
// whole of vb2.
func boundarySmall(u *universe) []op {
	var out []op
	for _, kind := range []opKind{opGet, opPut, opDel} {
		out = append(out, upoint(u, 0, kind, u.allKeys()...)...)
	}
	out = append(out, upoint(u, 1, opPut, 0)...)
	lo, hi := u.lo(), u.hi()
	out = append(out,
		usel(u, 0, 0, 0, consAll), usel(u, 0, 0, 0, consOne),
		usel(u, 0, lo, hi, consAll), usel(u, 0, lo, hi, consOne),
		usel(u, 0, lo+1, hi, consAll), usel(u, 0, lo, hi-1, consAll),
		usel(u, 1, 0, 0, consAll),
	)
	return out
}

// family: all programs of exactly `length` calls over `alpha`, each run on
// the backing states `backs` (indexes, see backingOf) of universe u.
type family struct {
	name   string
	alpha  []op
	length int
	backs  []int
	u      *universe
}

func allBackings() []int { return backingsOf(uABC) }

func backingsOf(u *universe) []int {
	out := make([]int, u.nBackings())
	for i := range out {
		out[i] = i
	}
	return out
}

// xferBackings: transfer-only programs of length >= 4 name no key; they run
// on the backing -LD only (every pair of the 17 transfers runs on all 27
// backings in full^2, every triple of the 8 core transfers in mix^3).
func xferBackings() []int {
	return []int{backing{u: uABC, st: [maxKeys]uint8{stAbsent, stLive, stDeleted}}.index()}
}

func (f family) size() int {
	n := 1
	for i := 0; i < f.length; i++ {
		n *= len(f.alpha)
	}
	return n
}

// program decodes index idx (base len(alpha), most significant call first).
// The value of a Put is fixed by its position (p, q, r, s, t): the sandbox never
// inspects a value except for equality with the delete marker, and distinct
// values per position make "latest write" observable.
func (f family) program(idx int, buf []op) []op {
	buf = buf[:f.length]
	n := len(f.alpha)
	for i := f.length - 1; i >= 0; i-- {
		buf[i] = f.alpha[idx%n]
		idx /= n
		if buf[i].kind == opPut {
			buf[i].val = string(rune('p' + i))
		}
	}
	return buf
}

func families(tier core.Tier) []family {
	full, mid, small, tiny := alphabetFull(), alphabetMid(), alphabetSmall(), alphabetTiny()
	xf, xcore, mix := alphabetXfer(), alphabetXferCore(), alphabetMix()
	all, xb := allBackings(), xferBackings()
	u0 := uABC
	var fams []family
	if tier == core.Thorough {
		fams = []family{{"full", full, 1, all, u0}, {"full", full, 2, all, u0}, {"mid", mid, 3, all, u0}, {"small", small, 4, all, u0}, {"tiny", tiny, 5, all, u0},
			{"xfer", xf, 4, xb, u0}, {"xfer", xf, 5, xb, u0}, {"xfercore", xcore, 6, xb, u0}, {"xfercore", xcore, 7, xb, u0}, {"mix", mix, 3, all, u0}, {"mix", mix, 4, all, u0}, {"mix", mix, 5, xb, u0}}
	} else {
		fams = []family{{"full", full, 1, all, u0}, {"full", full, 2, all, u0}, {"small", small, 3, all, u0}, {"xfer", xf, 4, xb, u0}, {"mix", mix, 3, all, u0}}
	}
	// the boundary universes: all their backing states (3^keys) at every length
	for _, u := range []*universe{uEmptyPrefix, uSepHigh, uNilKey} {
		bs := backingsOf(u)
		fams = append(fams, family{u.name + ".full", boundaryFull(u), 1, bs, u}, family{u.name + ".mid", boundaryMid(u), 2, bs, u}, family{u.name + ".small", boundarySmall(u), 3, bs, u})
		if tier == core.Thorough && u.emptyIsKey {
			// where the empty key is a key: one call deeper, and every pair of
			// calls of the quantifier (the separator / 0xff keys go deeper
			// together with the others in boundary6 below)
			fams = append(fams, family{u.name + ".small", boundarySmall(u), 4, bs, u}, family{u.name + ".full", boundaryFull(u), 2, bs, u})
		}
	}
	if tier == core.Thorough {
		// all six boundary keys in one bucket: 729 backing states
		u := uBoundary6
		bs := backingsOf(u)
		fams = append(fams, family{u.name + ".full", boundaryFull(u), 1, bs, u}, family{u.name + ".mid", boundaryMid(u), 2, bs, u})
	}
	return fams
}

// ---------------------------------------------------------------------------
// enumeration

// rank orders counterexamples: shortest program first, then the one with the
// fewest nil / empty scan bounds, then enumeration order.
type rank struct{ length, odd, fam, idx, backing int }

func oddBounds(prog []op) int {
	n := 0
	for _, o := range prog {
		if o.kind == opSel {
			if o.s < 2 {
				n++
			}
			if o.e < 2 {
				n++
			}
		}
	}
	return n
}

func (a rank) less(b rank) bool {
	if a.length != b.length {
		return a.length < b.length
	}
	if a.odd != b.odd {
		return a.odd < b.odd
	}
	if a.fam != b.fam {
		return a.fam < b.fam
	}
	if a.idx != b.idx {
		return a.idx < b.idx
	}
	return a.backing < b.backing
}

type hit struct {
	f     finding
	r     rank
	b     backing
	prog  []string
	count int
}

// job: the programs [from, to) of a family on the backings backs.
type job struct {
	fam, from, to int
	backs         []int
}

func caseOf(b backing, prog []string) map[string]interface{} {
	if !b.u.quoted {
		return map[string]interface{}{"backing": b.String(), "backing_legend": "status of vb/a, vb/b, vb/c in the committed state: - never written, L live, D deleted (put in one block, deleted in the next)", "program": prog}
	}
	return map[string]interface{}{"universe": b.u.name, "keys": b.u.ktok, "backing": b.String(),
		"backing_legend": "status of the keys of the universe (in the order of `keys`, written as Go string literals) in bucket vb of the committed state: - never written, L live, D deleted (put in one block, deleted in the next)",
		"program":        prog}
}

// silence sends the standard output to /dev/null while the sandbox runs:
// XMCache.flushUTXORWSet prints every token output with fmt.Printf.
func silence() func() {
	old := os.Stdout
	null, err := os.OpenFile(os.DevNull, os.O_WRONLY, 0)
	if err != nil {
		return func() {}
	}
	os.Stdout = null
	return func() {
		os.Stdout = old
		null.Close()
	}
}

func run(tier core.Tier) *core.Report {
	rep := core.NewReport("C10", tier, "model_checking")
	world.Init()
	restore := silence()
	defer restore()

	fams := families(tier)
	workers := runtime.NumCPU()
	if workers > 16 {
		workers = 16
	}
	if workers < 1 {
		workers = 1
	}
	// the plain universe: a job is 512 programs on all backings of the family;
	// the boundary universes (up to 729 backings): a job is up to 2048 programs
	// on one backing, so that a worker needs few worlds at a time
	const chunk, chunkB = 512, 2048
	jobs := make(chan job, 64)
	go func() {
		for fi, f := range fams {
			n := f.size()
			if !f.u.quoted {
				for from := 0; from < n; from += chunk {
					to := from + chunk
					if to > n {
						to = n
					}
					jobs <- job{fi, from, to, f.backs}
				}
				continue
			}
			for i := range f.backs {
				for from := 0; from < n; from += chunkB {
					to := from + chunkB
					if to > n {
						to = n
					}
					jobs <- job{fi, from, to, f.backs[i : i+1]}
				}
			}
		}
		close(jobs)
	}()

	type result struct {
		st   *stats
		hits map[string]*hit
		done []int // (backing, program) pairs completed per family
		err  error
	}
	results := make([]result, workers)
	var wg sync.WaitGroup
	for wi := 0; wi < workers; wi++ {
		wg.Add(1)
		go func(wi int) {
			defer wg.Done()
			vhook.Capture()
			defer vhook.Release()
			res := result{st: newStats(), hits: map[string]*hit{}, done: make([]int, len(fams))}
			defer func() { results[wi] = res }()
			wc := newWorldCache()
			defer wc.drop()
			buf := make([]op, 8)
			var skipUntil []int
			for j := range jobs {
				if rep.Expired() || res.err != nil {
					continue
				}
				f := fams[j.fam]
				// prefix pruning: execution stops at a call that panics, so all
				// programs sharing the calls up to it are one trace (per backing);
				// in index order they are the rest of a contiguous block
				skipUntil = append(skipUntil[:0], make([]int, len(j.backs))...)
				for idx := j.from; idx < j.to && res.err == nil; idx++ {
					prog := f.program(idx, buf)
					for bp, bi := range j.backs {
						if idx < skipUntil[bp] {
							res.st.pruned++
							res.done[j.fam]++
							continue
						}
						bw, err := wc.get(f.u, bi)
						if err != nil {
							res.err = err
							break
						}
						fds, panicAt := checkProgram(bw, prog, res.st)
						if panicAt >= 0 {
							block := 1
							for k := panicAt + 1; k < f.length; k++ {
								block *= len(f.alpha)
							}
							skipUntil[bp] = (idx/block + 1) * block
						}
						for _, fd := range fds {
							r := rank{f.length, oddBounds(prog), j.fam, idx, bi}
							h := res.hits[fd.key]
							if h == nil {
								h = &hit{r: rank{length: 1 << 30}}
								res.hits[fd.key] = h
							}
							h.count++
							if r.less(h.r) {
								h.f, h.r, h.b, h.prog = fd, r, bw.b, progStrings(prog)
							}
						}
						res.done[j.fam]++
					}
				}
			}
		}(wi)
	}
	wg.Wait()

	total := newStats()
	hits := map[string]*hit{}
	done := make([]int, len(fams))
	for _, r := range results {
		if r.err != nil {
			restore()
			core.HarnessError("C10 fixture: %v", r.err)
		}
		total.merge(r.st)
		for i, n := range r.done {
			done[i] += n
		}
		for k, h := range r.hits {
			cur := hits[k]
			if cur == nil {
				hits[k] = h
				continue
			}
			n := cur.count + h.count
			if h.r.less(cur.r) {
				hits[k] = h
			}
			hits[k].count = n
		}
	}
	keys := make([]string, 0, len(hits))
	for k := range hits {
		keys = append(keys, k)
	}
	sort.Strings(keys)
	occ := map[string]int{}
	for _, k := range keys {
		h := hits[k]
		occ[k] = h.count
		rep.Violation(core.Violation{Key: k, Summary: fmt.Sprintf("%s [%d (backing, program) pairs of this run show it]", h.f.summary, h.count),
			Case: caseOf(h.b, h.prog), Expected: h.f.expected, Observed: h.f.observed})
	}

	// the moving-state dimension (moving.go)
	mtotal, mhits, mfams, mdone, merr := runMoving(rep, tier)
	if merr != nil {
		restore()
		core.HarnessError("C10 fixture (moving state): %v", merr)
	}
	mkeys := make([]string, 0, len(mhits))
	for k := range mhits {
		mkeys = append(mkeys, k)
	}
	sort.Strings(mkeys)
	for _, k := range mkeys {
		h := mhits[k]
		occ[k] = h.count
		rep.Violation(core.Violation{Key: k, Summary: fmt.Sprintf("%s [%d (backing, commit, position, program) cases of this run show it]", h.f.summary, h.count),
			Case: h.cs, Expected: h.f.expected, Observed: h.f.observed})
	}

	complete := true
	var famCov []map[string]interface{}
	programs := 0
	for i, f := range fams {
		// done counts (backing, program) pairs; a program is done when it ran on every backing
		if done[i] != f.size()*len(f.backs) {
			complete = false
		}
		programs += done[i] / len(f.backs)
		famCov = append(famCov, map[string]interface{}{"universe": f.u.name, "alphabet": f.name, "alphabet_size": len(f.alpha), "length": f.length, "programs": f.size(), "programs_done": done[i] / len(f.backs), "backing_states": len(f.backs)})
	}
	nCommits := len(allCommits(uABC))
	movingCases := 0
	var mfamCov []map[string]interface{}
	for i, f := range mfams {
		// mdone counts (backing, commit, program) triples, each run with every position of the commit
		if mdone[i] != f.size()*len(f.backs)*nCommits {
			complete = false
		}
		movingCases += mdone[i] * (f.length - 1)
		mfamCov = append(mfamCov, map[string]interface{}{"universe": f.u.name, "alphabet": f.name, "alphabet_size": len(f.alpha), "length": f.length, "programs": f.size(),
			"programs_done": mdone[i] / (len(f.backs) * nCommits), "backing_states": len(f.backs), "commits": nCommits, "positions_of_the_commit": f.length - 1})
	}
	rep.Set("families", famCov)
	rep.Set("programs", programs)
	rep.Set("moving_state_dimension", map[string]interface{}{
		"what":     "between two calls of a program the node confirms one more block that writes one key of bucket vb (a new version): the backing state CHANGES during the execution, as it does for a pre-execution on a live node",
		"commits":  "put (fresh value A / B / C) and delete of each of the keys a, b, c: 6, each on all 27 backings (so the commit creates, overwrites, deletes, re-creates and deletes-again a row)",
		"families": mfamCov,
		"cases_(backing,commit,position,program)": movingCases,
		"cases_executed": mtotal.traces,
		"calls_executed": mtotal.ops,
		"abstract_states_(backing,commit,reference_state,first_read,position)": len(mtotal.states),
		"replays_over_read_set":                      mtotal.replays,
		"replay_calls":                               mtotal.replayOps,
		"commit_blocks_refused_by_the_node":          mtotal.commitsRefused,
		"replays_not_compared_phantom_of_the_commit": mtotal.phantomSkipped,
		"vacuity": map[string]interface{}{
			"cases_with_put_commit": mtotal.byCommit[0], "cases_with_delete_commit": mtotal.byCommit[1],
			"key_of_commit_recorded_with_version_before_commit": mtotal.recordedOld, "key_of_commit_recorded_with_version_of_commit": mtotal.recordedNew, "key_of_commit_not_in_read_set": mtotal.notRecorded,
			"key_of_commit_first_read_before_commit_and_read_again_after_by_get":  mtotal.rereadByGet,
			"key_of_commit_first_read_before_commit_and_scanned_again_after":      mtotal.rereadByScan,
			"key_of_commit_first_read_after_commit":                               mtotal.firstReadAfter,
			"rows_yielded_after_commit_with_the_value_of_the_commit":              mtotal.rowsOfCommitYielded,
			"rows_of_key_of_commit_yielded_after_commit_with_the_earlier_version": mtotal.rowsOfOldYieldedAfter,
			"cases_with_a_finding": mtotal.violating, "cases_clean": mtotal.traces - mtotal.violating,
		},
	})
	nBack, seenU := 0, map[uint8]bool{}
	for _, f := range fams {
		if !seenU[f.u.idx] {
			seenU[f.u.idx] = true
			nBack += f.u.nBackings()
		}
	}
	rep.Set("backing_states", nBack) // 27 of the plain universe + 3^keys per boundary universe
	rep.Set("key_dimension", keyDimension(fams, total))
	rep.Set("states", len(total.states))
	rep.Set("transitions", total.ops)
	rep.Set("traces_validated_against_impl", total.traces)
	rep.Set("replays_over_read_set", total.replays)
	rep.Set("replay_operations", total.replayOps)
	nOut := 0
	for _, b := range total.outcomes {
		if b {
			nOut++
		}
	}
	rep.Set("distinct_outcome_classes", nOut)
	rep.Set("vacuity", map[string]interface{}{
		"get_found": total.getFound, "get_not_found": total.getNotFound,
		"scans": total.scans, "scans_judged_exactly": total.scansStrict, "scans_yielding_keys": total.scansYield, "keys_yielded": total.scanItems, "scans_rejected": total.scanRejected,
		"transfers_ok": total.xferOK, "transfers_refused": total.xferRefused,
		"panics": total.panics, "traces_pruned_same_calls_up_to_a_panic": total.pruned, "read_set_entries": total.rsetEntries, "write_set_entries": total.wsetEntries,
		"traces_with_a_finding": total.violating, "traces_clean": total.traces - total.violating,
	})
	byPayer := map[string]interface{}{}
	for i, p := range payers {
		byPayer[p.name] = map[string]int{"accepted": total.xferBy[i][0], "refused": total.xferBy[i][1]}
	}
	rep.Set("transfer_dimension", map[string]interface{}{
		"payers":                          "A: 10 outputs of 100, C: 2 outputs of 2, D: none; receiver B",
		"transfer_calls_in_full_alphabet": len(alphabetXfer()),
		"by_payer":                        byPayer,
		"refused_by_the_utxo_reader_positive_amount":          total.xferByReader,
		"accepted_with_several_inputs":                        total.xferMultiInput,
		"accepted_without_change":                             total.xferExact,
		"accepted_after_a_refused_transfer":                   total.xferAfterRefuse,
		"traces_with_a_transfer_accepted_after_a_refused_one": total.progsRefuseThenOK,
		"distinct_accept_refuse_patterns_by_payer":            len(total.xferSeqs),
		"token_inputs_recorded":                               total.utxoInputs,
		"transfers_re_run_over_the_recorded_inputs":           total.replayXfers,
		"of_which_refused_again":                              total.replayXferRefused,
		"of_which_accepted_again_after_a_refused_one":         total.replayXferAfterRefuse,
	})
	rep.Set("violation_occurrences", occ)
	rep.Set("rule", "every program (sequence of calls) of each family in `families` is enumerated in index order and run on the real sandbox over the real XModel and the real UTXO reader of a node for each of its backing states, "+
		"then run again on a fresh sandbox over XMReaderFromRWSet(RWSet) and NewUTXOReaderFromInput(UTXORWSet.Rset) as verifyTxRWSets does. Calls: Get / Put / Del / Select and Transfer(payer, B, amount) with payer in {A, C, D} and amount in "+
		"{0, within one output, one output, one more, the balance, one over, far over}; a transfer is accepted iff amount > 0 and the payer still has enough outputs not selected by an earlier transfer of the program, so programs hold refused transfers "+
		"(no funds, not enough funds, funds used up, zero) before, between and after accepted ones of the same and of other payers. Judged per call: read-your-writes, exact scans, accept / refuse of every transfer; per trace: read set, write set, "+
		"token inputs / outputs = accepted transfers in order with change; replay: same result of every call (incl. which transfers are refused), same write set, same token inputs and outputs. "+
		"A trace is non-trivial when it reaches a new reference state (`states`). "+
		"KEY DIMENSION: the enumeration is repeated per key universe (`key_dimension`): the plain keys (a,b,c) and universes of boundary keys - the empty key \"\" (an empty non-nil slice; raw key `vb/`; in universe nil_key the point calls pass it as a nil slice, which is how it arrives through the contract bridge), the strict-prefix chain a < a\\x00 < ab, the bytes 0x00 and 0xff, the bucket/key separator `/` alone and inside a key next to its first component (a, a/b). "+
		"In each universe every key is a row of the committed state in every status (all 3^n backings: never written / live / deleted), a row of the read cache (Get / scan before the scan under test) and a row written or deleted in this execution, in bucket vb, in vb2 (whose name extends vb) and in the transient bucket; "+
		"scan bounds range over nil, \"\", every key and a bound beyond the last key, with full consumption, stop after one row and close at once. Oracle: the same reference (exactly the live keys of [start,end) in byte order, each once, with the latest value; start \"\" is exact where \"\" is a key) and replay equality; violation keys of these universes end in the kind of key concerned (.empty_key, .empty_key_passed_as_nil, .key_with_0x00, .key_with_0xff, .key_with_separator, .plain_key). "+
		"MOVING-STATE DIMENSION (`moving_state_dimension`): every program of the families `moving` (14 calls on vb: Get / Put / Del of a, b, c; 6 scans) x every position between two calls x every commit (put with a fresh value / delete of a, b or c: one more block confirmed by the node, a new version of the key) x all 27 backings: "+
		"the sandbox reads the real XModel of the node before the commit up to that position and the real XModel of a node on a copy of the stores that has confirmed the commit block from there on (at most one commit per execution). "+
		"Oracle: (1) first read wins - every read-set entry carries the version that the first read of the key in this execution saw (Get / Put / Del of it, the scan that yielded it; a scan that may have fetched the row earlier without yielding it makes both versions acceptable), later reads of the same key must not change the record; every key read is recorded; "+
		"(2) re-running the calls over the read set alone returns the results the execution returned and the same write set (not compared when a scan before the commit could only have seen the key of the commit absent, which leaves no record, and the commit makes it live). "+
		"A case is non-trivial when it reaches a new (backing, commit, reference state, first read of the key of the commit, position) combination.")
	rep.Set("state_definition", "reference state = universe x backing (3^keys) x per bucket/key {untouched, put, deleted} x {must be in the read set} x outputs of A (0..10) and of C (0..2) not yet selected x {a transfer was refused by the utxo reader}")
	rep.Set("bound", describeBound(fams)+"; moving state: "+describeMovingBound(mfams, nCommits))
	rep.Set("reduction", "values: the value of a Put is fixed by its position in the program (p,q,r,s,t), never the delete marker; the sandbox compares values only with the delete marker and Del(k) = Put(k, marker) is enumerated as Del. "+
		"Alphabets: lengths 1-2 use the complete alphabet of the quantifier (368 calls); longer programs use the sub-alphabets listed in `families` (fewer bound pairs / consumptions, fewer keys in the empty and the transient bucket, 4-5 of the 17 transfers; families xfer / xfercore / mix carry the long programs around refused transfers). "+
		"Transfers: outputs of one payer have equal size, so the ledger's choice among them (map order of its cache) changes neither the number selected nor the change; inputs are compared by owner and amount with the model and exactly (reference included) between run and replay. "+
		"Every program runs on all 27 backing states, except the families listed with 1 backing state (transfer-only programs of length >= 4, which name no key, and mix^5 in the thorough tier): backing -LD; no sampling. "+
		"Boundary-key universes: one representative per kind of boundary (one empty key, one 0x00 chain, one 0xff key, the separator alone and once inside a key); a program names keys of one universe only (4 keys per universe in the quick tier, all 6 boundary keys together in the thorough tier); "+
		"their programs of length 1 use every call of the quantifier over the universe, longer ones the sub-alphabets `.mid` / `.small` (all point calls on vb; fewer scans, fewer calls on vb2 and the transient bucket); transfers are not part of these alphabets (they name no key; covered over the plain universe). Every program of a boundary family runs on all 3^keys backings.")
	rep.Set("exhaustive", complete)
	for _, s := range samples() {
		rep.Sample(s)
	}
	rep.Assume("the in-memory kv engine behaves as goleveldb for Get / range iteration (conformance checked in setup)")
	rep.Assume("the node's UTXO reader is wrapped only to release the per-output locks after each program; it delegates every call (a refused SelectUtxo of the ledger releases what it tried by itself)")
	rep.Assume("first run: a transfer must be accepted iff its amount is positive and covered by the payer's outputs not selected earlier in the same execution (the ledger locks what it selects)")
	rep.Assume("nil / empty bounds: the statement does not fix their absolute meaning, so scans with such a bound are judged only by: yielded keys are live, ascending, carry the visible value; plus the replay clause")
	rep.Assume("moving state: a call of the program is atomic with respect to the commit (the commit lands between two calls, scans are consumed within their call); the two states are two real nodes on the same stores up to the commit block, the reader handed to the sandbox only chooses which of the two real XModel readers answers")
	rep.Assume("phantoms: the read set is not required to cover keys a scan did not yield (absent or deleted in the store)")
	rep.Assume("bucket names hold no separator \"/\" (contract names and kernel buckets never do), so the raw key bucket/key splits at its first \"/\"; keys holding the separator are part of the key dimension, buckets holding it are not")
	rep.Assume("the empty key is a legal key (no layer refuses it: the bridge passes an empty key through, as a nil slice); the empty slice and the nil slice name the same row")
	return rep
}

// keyDimension reports, per key universe of the run, what was enumerated and
// the vacuity guards of the key dimension: how often every key was found by
// Get, yielded by a scan (first / at all), from which layer, recorded in the
// read and write set, yielded again on replay.
func keyDimension(fams []family, total *stats) []map[string]interface{} {
	var out []map[string]interface{}
	seen := map[uint8]bool{}
	for _, f := range fams {
		u := f.u
		if seen[u.idx] {
			continue
		}
		seen[u.idx] = true
		us := total.byU[u.idx]
		perKey := map[string]interface{}{}
		for k, tok := range u.ktok {
			perKey[tok] = map[string]interface{}{
				"class": keyClass(u.keys[k]), "get_found": us.getFound[k], "rows_yielded": us.yielded[k], "yielded_as_first_row": us.yieldedFirst[k],
				"rows_from_this_executions_writes": us.bySource[0][k], "rows_of_keys_read_earlier_in_the_execution": us.bySource[1][k], "rows_only_in_the_committed_state": us.bySource[2][k],
				"read_set_entries": us.rsetEntries[k], "write_set_entries": us.wsetEntries[k], "rows_yielded_on_replay": us.replayedRows[k],
			}
		}
		out = append(out, map[string]interface{}{
			"universe": u.name, "keys": u.ktok, "scan_bounds": u.btok, "backing_states": u.nBackings(), "empty_start_bound_judged_exactly": u.emptyIsKey,
			"traces": us.traces, "scans_judged_exactly": us.scansExact, "scans_merging_rows_of_several_layers": us.mergedScans, "early_stops_with_more_rows_left": us.earlyStops,
			"per_key": perKey,
		})
	}
	return out
}

func describeBound(fams []family) string {
	var parts []string
	for _, f := range fams {
		parts = append(parts, fmt.Sprintf("%s^%d (%d calls, %d programs, %d backings)", f.name, f.length, len(f.alpha), f.size(), len(f.backs)))
	}
	var us []string
	seen := map[string]bool{}
	for _, f := range fams {
		if f.u.quoted && !seen[f.u.name] {
			seen[f.u.name] = true
			us = append(us, fmt.Sprintf("%s: keys (%s), scan bounds (%s), %d backings", f.u.name, strings.Join(f.u.ktok, ", "), strings.Join(f.u.btok, ", "), f.u.nBackings()))
		}
	}
	return "all programs of " + strings.Join(parts, ", ") + "; backing states {never written, live, deleted}^3 of (a,b,c) in bucket vb (27; the families listed with 1 backing: -LD); buckets vb, vb2 (empty), $transient; " +
		"token state: A owns 10 outputs of 100, C 2 outputs of 2, D nothing; every transfer pays B; boundary-key universes (keys and bounds as Go string literals; backings {never written, live, deleted}^keys): " + strings.Join(us, "; ")
}

func describeMovingBound(fams []family, nCommits int) string {
	var parts []string
	for _, f := range fams {
		parts = append(parts, fmt.Sprintf("%s^%d (%d calls, %d programs, %d positions of the commit, %d commits, %d backings)", f.name, f.length, len(f.alpha), f.size(), f.length-1, nCommits, len(f.backs)))
	}
	return "all programs of " + strings.Join(parts, ", ") + "; exactly one commit per case, plain universe (a,b,c), bucket vb"
}

// samples: a few actual traces (fixed programs on fixed backings).
func samples() []interface{} {
	vhook.Capture()
	defer vhook.Release()
	var out []interface{}
	for _, s := range []struct {
		u    *universe
		b    string
		prog []string
	}{
		{uABC, "LDL", []string{"put vb b p", "sel vb a d all", "get vb c"}},
		{uEmptyPrefix, "LLDL", []string{`get vb "ab"`, `put vb "a\x00" q`, `sel vb "" "b" all`, `sel vb nil nil one`}},
		{uSepHigh, "LDLL", []string{`del vb "a"`, `put vb2 "/" q`, `sel vb "/" "\xff\xff" all`}},
		{uNilKey, "-LL", []string{`put vb nil p`, `sel vb nil nil all`, `get vb nil`}},
		{uABC, "-L-", []string{"xfer 5 from C", "xfer 3 from C", "xfer 1 from D", "put vb a p", "xfer 101"}},
	} {
		b, err := parseBacking(s.u, s.b)
		if err != nil {
			continue
		}
		bw, err := buildWorld(b)
		if err != nil {
			continue
		}
		var prog []op
		for _, x := range s.prog {
			o, err := parseOp(s.u, x)
			if err != nil {
				out = append(out, map[string]interface{}{"error": err.Error()})
				continue
			}
			prog = append(prog, o)
		}
		out = append(out, trace(bw, prog))
		bw.w.Drop()
	}
	return out
}

// trace runs one program and renders what was observed.
func trace(bw *bworld, prog []op) map[string]interface{} {
	sb, lr, err := bw.newSandbox()
	if err != nil {
		return map[string]interface{}{"error": err.Error()}
	}
	defer bw.release(lr)
	res := execProgram(sb, prog)
	var obs []string
	for i, r := range res {
		obs = append(obs, prog[i].String()+" -> "+prog[i].observation(r))
	}
	out := map[string]interface{}{"backing": bw.b.String(), "observed": obs}
	if bw.b.u.quoted {
		out["universe"], out["keys"] = bw.b.u.name, bw.b.u.ktok
	}
	if len(res) == len(prog) && !res[len(res)-1].panicked {
		if err := sb.Flush(); err == nil {
			rw := sb.RWSet()
			var rs []string
			for _, vd := range rw.RSet {
				st := "versioned"
				if vd.RefTxid == nil {
					st = "empty-version"
				}
				rs = append(rs, vd.GetPureData().GetBucket()+"/"+bw.b.u.show(string(vd.GetPureData().GetKey()))+"@"+st)
			}
			ws, _ := wsetMap(rw.WSet)
			out["read_set"] = rs
			out["write_set"] = describeWSet(bw.b.u, ws)
			out["token_inputs"] = describeUtxoIns(sb.UTXORWSet().Rset)
			out["token_outputs"] = describeUtxoOuts(sb.UTXORWSet().WSet)
		}
	}
	return out
}

func replay(c json.RawMessage) (bool, string, error) {
	var cs struct {
		Universe string   `json:"universe"` // absent: the plain universe (a,b,c)
		Backing  string   `json:"backing"`
		Program  []string `json:"program"`
		Commit   string   `json:"commit"`             // moving-state cases only
		CommitAt int      `json:"commit_before_call"` // 1-based
	}
	if err := json.Unmarshal(c, &cs); err != nil {
		return false, "", err
	}
	u := universeByName(cs.Universe)
	if u == nil {
		return false, "", fmt.Errorf("unknown universe %q", cs.Universe)
	}
	b, err := parseBacking(u, cs.Backing)
	if err != nil {
		return false, "", err
	}
	var prog []op
	for _, s := range cs.Program {
		o, err := parseOp(u, s)
		if err != nil {
			return false, "", err
		}
		prog = append(prog, o)
	}
	if cs.Commit != "" {
		c, err := parseCommit(u, cs.Commit)
		if err != nil {
			return false, "", err
		}
		return replayMoving(b, prog, c, cs.CommitAt-1)
	}
	world.Init()
	restore := silence()
	vhook.Capture()
	bw, err := buildWorld(b)
	if err != nil {
		restore()
		return false, "", err
	}
	fs, _ := checkProgram(bw, prog, newStats())
	tr := trace(bw, prog)
	bw.w.Drop()
	vhook.Release()
	restore()
	if len(fs) == 0 {
		return false, fmt.Sprintf("program replayed without violation: %v", tr["observed"]), nil
	}
	var lines []string
	for _, f := range fs {
		lines = append(lines, fmt.Sprintf("%s: %s (expected %s, observed %s)", f.key, f.summary, f.expected, f.observed))
	}
	return true, strings.Join(lines, "\n"), nil
}

func init() {
	core.Register(&core.Check{ID: "C10", Run: run, Replay: replay})
}
