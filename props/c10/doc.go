// Package c10 holds the check for property C10.
package c10
