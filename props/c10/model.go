package c10

import (
	"fmt"
	"math/big"
	"strings"

	"github.com/xuperchain/xupercore/kernel/contract"

	"verif/world"
)

// delMarker is how a delete is represented in a write set and in the store
// (kernel/contract/sandbox/utils.go DelFlag): Del(k) is Put(k, "\x00").
const delMarker = "\x00"

type opKind uint8

const (
	opGet opKind = iota
	opPut
	opDel
	opSel
	opXfer
)

// consumption of a scan
const (
	consNone = 0 // create the iterator, close it
	consOne  = 1 // one Next, close (early stop)
	consAll  = 2 // Next until false, close
)

// bounds of a scan: index 0 is a nil slice, 1 an empty non-nil slice, 2.. the
// other bounds of the universe in ascending order (plain universe: the letters a b c d)

var consTok = [3]string{"none", "one", "all"}

// op is one call on the sandbox.
type op struct {
	kind    opKind
	u       uint8 // index into universes (get / put / del / sel)
	bkt     uint8 // index into bucketNames
	key     uint8 // index into the keys of the universe (get / put / del)
	val     string
	s, e    uint8 // bound indexes (sel)
	consume uint8
	from    uint8  // xfer: index into payers
	amt     uint32 // xfer
}

// payer is one account a Transfer can name as the sender. The committed state
// gives it nOut unspent outputs of `size` tokens each (equal sizes: whichever
// outputs the ledger picks, the number picked and the change are determined).
type payer struct {
	name string
	nOut int
	size int
}

// A is rich (10 x 100: every amount of the alphabet but the ones meant to
// exceed its balance is covered), C holds 2 x 2, D holds nothing.
var payers = [3]payer{{"A", 10, 100}, {"C", 2, 2}, {"D", 0, 0}}

func (p payer) balance() int { return p.nOut * p.size }

// xferAmounts: per payer the amounts {0, less than the balance (within one
// output, exactly one output, one more than an output), exactly the balance,
// one over, far over}.
func xferAmounts(p payer) []uint32 {
	if p.nOut == 0 {
		return []uint32{0, 1, 7}
	}
	b := uint32(p.balance())
	return []uint32{0, 1, uint32(p.size), uint32(p.size) + 1, b, b + 1, 10*b + 7}
}

func xfer(from uint8, amt uint32) op { return op{kind: opXfer, from: from, amt: amt} }

// need is the number of outputs of the payer a transfer of amt consumes
// (-1: the payer has no outputs at all).
func (p payer) need(amt uint32) int {
	if p.size == 0 {
		return -1
	}
	return (int(amt) + p.size - 1) / p.size
}

func (o op) String() string {
	u := universes[o.u]
	switch o.kind {
	case opGet:
		return fmt.Sprintf("get %s %s", bucketNames[o.bkt], u.ktok[o.key])
	case opPut:
		return fmt.Sprintf("put %s %s %s", bucketNames[o.bkt], u.ktok[o.key], o.val)
	case opDel:
		return fmt.Sprintf("del %s %s", bucketNames[o.bkt], u.ktok[o.key])
	case opSel:
		return fmt.Sprintf("sel %s %s %s %s", bucketNames[o.bkt], u.btok[o.s], u.btok[o.e], consTok[o.consume])
	case opXfer:
		// the sender A is implied (format of the replay files written before
		// the other payers existed)
		if o.from == 0 {
			return fmt.Sprintf("xfer %d", o.amt)
		}
		return fmt.Sprintf("xfer %d from %s", o.amt, payers[o.from].name)
	}
	return "?"
}

func indexOf(list []string, s string) int {
	for i, x := range list {
		if x == s {
			return i
		}
	}
	return -1
}

func parseOp(u *universe, s string) (op, error) {
	f := strings.Fields(s)
	bad := fmt.Errorf("bad operation %q", s)
	if len(f) < 2 {
		return op{}, bad
	}
	var o op
	if f[0] == "xfer" {
		var n int
		if _, err := fmt.Sscan(f[1], &n); err != nil || n < 0 || n > 1<<30 {
			return o, bad
		}
		from := 0
		if len(f) == 4 && f[2] == "from" {
			from = -1
			for i, p := range payers {
				if p.name == f[3] {
					from = i
				}
			}
		} else if len(f) != 2 {
			return o, bad
		}
		if from < 0 {
			return o, bad
		}
		return xfer(uint8(from), uint32(n)), nil
	}
	b := indexOf(bucketNames[:], f[1])
	if b < 0 {
		return o, bad
	}
	o.bkt, o.u = uint8(b), u.idx
	switch f[0] {
	case "get", "put", "del":
		if len(f) < 3 {
			return o, bad
		}
		k := indexOf(u.ktok, f[2])
		if k < 0 {
			return o, bad
		}
		o.key = uint8(k)
		switch f[0] {
		case "get":
			o.kind = opGet
		case "del":
			o.kind = opDel
		case "put":
			o.kind = opPut
			if len(f) != 4 || f[3] == delMarker {
				return o, bad
			}
			o.val = f[3]
		}
		return o, nil
	case "sel":
		if len(f) != 5 {
			return o, bad
		}
		s, e, c := indexOf(u.btok, f[2]), indexOf(u.btok, f[3]), indexOf(consTok[:], f[4])
		if s < 0 || e < 0 || c < 0 {
			return o, bad
		}
		o.kind, o.s, o.e, o.consume = opSel, uint8(s), uint8(e), uint8(c)
		return o, nil
	}
	return o, bad
}

func progStrings(p []op) []string {
	out := make([]string, len(p))
	for i, o := range p {
		out[i] = o.String()
	}
	return out
}

// boundsClass names the kind of range: it goes into violation keys so that
// defects that depend on the kind of bound get different keys.
func boundsClass(s, e uint8) string {
	switch {
	case e == 0:
		return "nil_end"
	case s >= 2 && e == 1:
		return "inverted_range" // start > ""
	case e == 1:
		return "empty_string_end"
	case s < 2:
		return "open_start"
	case s > e:
		return "inverted_range"
	case s == e:
		return "empty_range"
	}
	return "proper_range"
}

// ---------------------------------------------------------------------------
// execution on a real sandbox

type kv struct{ k, v string }

// opResult is what the caller of one operation can observe.
type opResult struct {
	err      bool   // the call returned an error (Get: not found)
	val      string // Get value
	items    []kv   // scan: what Next/Key/Value yielded
	iterErr  bool   // scan: Error() non-nil after iterating
	runaway  bool   // scan: still yielding after maxYield items
	panicked bool
	panicMsg string
}

const maxYield = 12

// observation renders what the caller saw (also used to compare a run with its replay).
func (o op) observation(r opResult) string {
	u := universes[o.u]
	switch {
	case r.panicked:
		return "panic: " + r.panicMsg
	case o.kind == opGet && r.err:
		return "not found"
	case o.kind == opGet:
		return fmt.Sprintf("%q", r.val)
	case r.err:
		return "error"
	case o.kind == opSel:
		var sb strings.Builder
		sb.WriteString("[")
		for i, it := range r.items {
			if i > 0 {
				sb.WriteString(" ")
			}
			fmt.Fprintf(&sb, "%s=%q", u.show(it.k), it.v)
		}
		sb.WriteString("]")
		if r.iterErr {
			sb.WriteString("+iterator-error")
		}
		if r.runaway {
			sb.WriteString("+more")
		}
		return sb.String()
	}
	return "ok"
}

func execOp(sb contract.StateSandbox, o op, to string) (r opResult) {
	defer func() {
		if x := recover(); x != nil {
			r.panicked = true
			r.panicMsg = fmt.Sprint(x)
		}
	}()
	bucket := bucketNames[o.bkt]
	u := universes[o.u]
	switch o.kind {
	case opGet:
		v, err := sb.Get(bucket, u.keyBytes(int(o.key)))
		if err != nil {
			r.err = true
		} else {
			r.val = string(v)
		}
	case opPut:
		r.err = sb.Put(bucket, u.keyBytes(int(o.key)), []byte(o.val)) != nil
	case opDel:
		r.err = sb.Del(bucket, u.keyBytes(int(o.key))) != nil
	case opSel:
		it, err := sb.Select(bucket, u.bounds[o.s], u.bounds[o.e])
		if err != nil {
			r.err = true
			return
		}
		n := 0
		switch o.consume {
		case consOne:
			n = 1
		case consAll:
			n = maxYield
		}
		for i := 0; i < n && it.Next(); i++ {
			r.items = append(r.items, kv{string(it.Key()), string(it.Value())})
		}
		if len(r.items) == maxYield {
			r.runaway = true
		}
		if o.consume != consNone && it.Error() != nil {
			r.iterErr = true
		}
		it.Close()
	case opXfer:
		r.err = sb.Transfer(world.Addr(payers[o.from].name), to, big.NewInt(int64(o.amt))) != nil
	}
	return r
}

// execProgram runs prog; it stops after an operation that panicked.
func execProgram(sb contract.StateSandbox, prog []op) []opResult {
	to := world.Addr("B")
	out := make([]opResult, 0, len(prog))
	for _, o := range prog {
		r := execOp(sb, o, to)
		out = append(out, r)
		if r.panicked {
			break
		}
	}
	return out
}

// ---------------------------------------------------------------------------
// the reference: a plain map layered over the backing map

type cell struct {
	written bool
	deleted bool
	val     string
	hist    []string // earlier values written in this execution
}

type ref struct {
	b  backing
	u  *universe
	ov [3][maxKeys]cell // [bucket][key]
	// need: keys the read set must hold, with the reason
	need [3][maxKeys]string
	// touched: read by Get earlier in this execution
	touched [3][maxKeys]bool
	// successful transfers, in order
	xfers []xferRec
	// avail: outputs of each payer not yet selected (locked) by a transfer of
	// this execution; a refused transfer leaves it unchanged
	avail [3]int
	// refused: transfers with a positive amount that the utxo reader refused
	refused []uint8 // payer of each
}

type xferRec struct {
	from uint8
	amt  uint32
	k    int // outputs consumed
}

func newRef(b backing) *ref {
	rf := &ref{b: b, u: b.u}
	for i, p := range payers {
		rf.avail[i] = p.nOut
	}
	return rf
}

// xferWant: must the transfer be accepted, and how many outputs does it consume.
func (rf *ref) xferWant(o op) (ok bool, k int) {
	if o.amt == 0 {
		return false, 0
	}
	k = payers[o.from].need(o.amt)
	if k < 0 || k > rf.avail[o.from] {
		return false, 0
	}
	return true, k
}

// wantUtxo is the token read / write set the successful transfers imply:
// k inputs of the payer per transfer; the amount to B then the change to the payer.
func (rf *ref) wantUtxo() (ins, outs []tok) {
	to := world.Addr("B")
	for _, x := range rf.xfers {
		p := payers[x.from]
		addr := world.Addr(p.name)
		for i := 0; i < x.k; i++ {
			ins = append(ins, tok{addr, int64(p.size)})
		}
		outs = append(outs, tok{to, int64(x.amt)})
		if c := x.k*p.size - int(x.amt); c > 0 {
			outs = append(outs, tok{addr, int64(c)})
		}
	}
	return
}

// lookup returns the value a read must observe and where it comes from.
func (rf *ref) lookup(bkt, key int) (val string, live bool, src string) {
	c := rf.ov[bkt][key]
	if c.written {
		if c.deleted {
			return "", false, "own_del"
		}
		return c.val, true, "own_put"
	}
	if bkt == 0 {
		switch rf.b.st[key] {
		case stLive:
			return liveValue(key), true, "backing_live"
		case stDeleted:
			return "", false, "backing_deleted"
		}
	}
	return "", false, "never_written"
}

// status describes a key name that a scan yielded.
func (rf *ref) status(bkt int, k string) (key int, val string, live bool, src string) {
	key = rf.u.keyIndex(k)
	if key < 0 {
		return -1, "", false, "unknown_key"
	}
	val, live, src = rf.lookup(bkt, key)
	return
}

func (rf *ref) write(bkt, key int, val string, del bool) {
	c := &rf.ov[bkt][key]
	if c.written && !c.deleted {
		c.hist = append(c.hist, c.val)
	}
	c.written, c.deleted, c.val = true, del, val
}

// valClass classifies an observed value relative to what the reference knows.
func (rf *ref) valClass(bkt, key int, v string) string {
	switch {
	case v == delMarker:
		return "delete_marker"
	case v == "":
		return "empty_value"
	}
	if key >= 0 {
		if bkt == 0 && rf.b.st[key] != stAbsent && v == liveValue(key) {
			return "backing_value"
		}
		for _, h := range rf.ov[bkt][key].hist {
			if h == v {
				return "overwritten_own_value"
			}
		}
		if c := rf.ov[bkt][key]; c.written && !c.deleted && c.val == v {
			return "own_value"
		}
	}
	return "other_value"
}

// inRange: is the key inside [bounds[s], bounds[e]) in byte order (both bounds non-nil).
func (u *universe) inRange(key string, s, e uint8) bool {
	return key >= string(u.bounds[s]) && key < string(u.bounds[e])
}

// scanWant is the exact answer for non-nil bounds: live keys of [s,e) ascending.
func (rf *ref) scanWant(bkt int, s, e uint8) []kv {
	var out []kv
	for k, name := range rf.u.keys {
		if !rf.u.inRange(name, s, e) {
			continue
		}
		if v, live, _ := rf.lookup(bkt, k); live {
			out = append(out, kv{name, v})
		}
	}
	return out
}

// layers says where rows of the bucket are held when a scan starts: how many
// keys this execution wrote and how many it read (Get, Put and Del read the
// store first; a scan reads what it yields).
func (rf *ref) layers(bkt int) (written, read int) {
	for k := range rf.u.keys {
		if rf.ov[bkt][k].written {
			written++
		}
		if rf.need[bkt][k] != "" || rf.touched[bkt][k] {
			read++
		}
	}
	return
}

// stateID is the packed abstract state of the reference: per bucket/key 2 bits
// overlay (none, put, del) + 1 bit "must be in the read set", the unselected
// outputs of A (4 bits) and C (2 bits), "a transfer was refused" (1 bit); the
// backing index and the universe.
type stateID struct {
	x uint64
	b uint16
	u uint8
}

func (rf *ref) packed() stateID {
	var x uint64
	for b := 0; b < 3; b++ {
		for k := range rf.u.keys {
			var c uint64
			if rf.ov[b][k].written {
				c = 1
				if rf.ov[b][k].deleted {
					c = 2
				}
			}
			if rf.need[b][k] != "" {
				c |= 4
			}
			x = x<<3 | c
		}
	}
	x = x<<4 | uint64(rf.avail[0])
	x = x<<2 | uint64(rf.avail[1])
	x <<= 1
	if len(rf.refused) > 0 {
		x |= 1
	}
	return stateID{x: x, b: uint16(rf.b.index()), u: rf.u.idx}
}
