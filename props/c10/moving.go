package c10

// The moving-state dimension: pre-execution reads the node's XModel live, so a
// transaction confirmed by another goroutine between two calls of one
// execution is visible to the later call. Here the enumerator may apply ONE
// commit (put with a fresh value / delete of any key of the universe, i.e. a
// new version of that key) between any two calls of a program.
//
// Both states are real: the base world realises the backing, the fork is a
// second node opened on a copy of the base world's stores that has confirmed
// one more block holding the commit transaction (so every other key carries
// the same version in both). The sandbox under test reads through a reader
// that delegates to the real XModel reader of the base world before the commit
// point and to the real XModel reader of the fork after it.
//
// Oracle (first read wins):
//  1. every read-set entry carries the version the FIRST read of the key in
//     this execution saw; a later read of the same key (a scan over it, a
//     second Get) must not change the record;
//  2. re-running the calls over the read set alone reproduces the results the
//     execution returned and its write set.

import (
	"bytes"
	"fmt"
	"runtime"
	"strings"
	"sync"

	pb "github.com/xuperchain/xupercore/bcs/ledger/xledger/xldgpb"
	"github.com/xuperchain/xupercore/kernel/contract"
	"github.com/xuperchain/xupercore/kernel/contract/sandbox"
	kledger "github.com/xuperchain/xupercore/kernel/ledger"
	"github.com/xuperchain/xupercore/protos"
	"github.com/xuperchain/xupercore/verifshim/vhook"

	"verif/core"
	"verif/world"
)

// commit is one write to bucket vb that the node confirms while an execution
// is running: put (with commitValue, a value no other writer uses) or delete.
type commit struct {
	key uint8
	del bool
}

// commitValue is the value a put commit gives key i (the committed values of
// the backing are 1..6, the values of the program p..t).
func commitValue(i int) string { return string(rune('A' + i)) }

func (c commit) render(u *universe) string {
	if c.del {
		return "del " + bktMain + " " + u.ktok[c.key]
	}
	return "put " + bktMain + " " + u.ktok[c.key] + " " + commitValue(int(c.key))
}

func (c commit) kind() string {
	if c.del {
		return "del"
	}
	return "put"
}

func parseCommit(u *universe, s string) (commit, error) {
	f := strings.Fields(s)
	bad := fmt.Errorf("bad commit %q", s)
	if len(f) < 3 || f[1] != bktMain {
		return commit{}, bad
	}
	k := indexOf(u.ktok, f[2])
	if k < 0 {
		return commit{}, bad
	}
	switch {
	case f[0] == "del" && len(f) == 3:
		return commit{key: uint8(k), del: true}, nil
	case f[0] == "put" && len(f) == 4 && f[3] == commitValue(k):
		return commit{key: uint8(k)}, nil
	}
	return commit{}, bad
}

// allCommits: put and delete of every key of the universe.
func allCommits(u *universe) []commit {
	var out []commit
	for k := range u.keys {
		out = append(out, commit{key: uint8(k)}, commit{key: uint8(k), del: true})
	}
	return out
}

// commitRequest is the harness-contract call of the commit transaction.
func commitRequest(u *universe, c commit) *protos.InvokeRequest {
	k := int(c.key)
	if !u.quoted {
		if c.del {
			return world.VKVRequest("del " + u.keys[k])
		}
		return world.VKVRequest(fmt.Sprintf("put %s %s", u.keys[k], commitValue(k)))
	}
	args := map[string][]byte{"k0": append([]byte{'k'}, u.keys[k]...)}
	if c.del {
		args["ops"] = []byte{'d'}
	} else {
		args["ops"] = []byte{'p'}
		args["v0"] = []byte(commitValue(k))
	}
	return &protos.InvokeRequest{ModuleName: "xkernel", ContractName: rawKVContract, MethodName: "run", Args: args}
}

// fork opens a second node on a copy of bw's stores and lets it confirm one
// more block that holds the commit transaction. Every key but c.key keeps its
// version (same stores); c.key gets the version of the commit transaction.
func (bw *bworld) fork(c commit) (*bworld, error) {
	u := bw.b.u
	w2, err := bw.w.Reopened()
	if err != nil {
		return nil, fmt.Errorf("universe %s backing %s: reopen on a copy of the stores: %v", u.name, bw.b, err)
	}
	fw := &bworld{b: bw.b, w: w2, ver: bw.ver, tip: bw.tip, ts: bw.ts, feeTx: bw.feeTx, nBlocks: bw.nBlocks}
	fail := func(err error) (*bworld, error) {
		w2.Drop()
		return nil, err
	}
	k := int(c.key)
	val := commitValue(k)
	if c.del {
		val = delMarker
	}
	ins := []*protos.TxInputExt{{Bucket: bktMain, Key: []byte(u.keys[k]), RefTxid: bw.ver[k].txid, RefOffset: bw.ver[k].offset}}
	outs := []*protos.TxOutputExt{{Bucket: bktMain, Key: []byte(u.keys[k]), Value: []byte(val)}}
	tx, err := kvTx(w2, "B", commitRequest(u, c), world.In{Tx: bw.feeTx, Offset: len(bw.feeTx.TxOutputs) - 1}, "c10-commit", ins, outs)
	if err != nil {
		return fail(err)
	}
	if err := fw.block("b3", []*pb.Transaction{tx}); err != nil {
		return fail(commitRefused{err})
	}
	fw.feeTx = tx
	fw.ver[k] = version{}
	for i, o := range tx.TxOutputsExt {
		if o.Bucket == bktMain && string(o.Key) == u.keys[k] {
			fw.ver[k] = version{txid: tx.Txid, offset: int32(i)}
		}
	}
	if fw.ver[k].txid == nil {
		return fail(fmt.Errorf("universe %s backing %s commit %s: key not among the outputs of the commit transaction", u.name, bw.b, c.render(u)))
	}
	// fixture sanity: the fork reports the new version and value for the key of
	// the commit and the versions of the base world for all the others; the base
	// world still reports its own
	rdF, rdB := w2.State.CreateXMReader(), bw.w.State.CreateXMReader()
	for i, name := range u.keys {
		vf, err := rdF.Get(bktMain, []byte(name))
		if err != nil {
			return fail(err)
		}
		vb, err := rdB.Get(bktMain, []byte(name))
		if err != nil {
			return fail(err)
		}
		if !bytes.Equal(vf.RefTxid, fw.ver[i].txid) || vf.RefOffset != fw.ver[i].offset || !bytes.Equal(vb.RefTxid, bw.ver[i].txid) || vb.RefOffset != bw.ver[i].offset {
			return fail(fmt.Errorf("universe %s backing %s commit %s: key %s: the stores do not report the committed versions", u.name, bw.b, c.render(u), u.show(name)))
		}
		if i == k && (string(vf.GetPureData().GetValue()) != val || bytes.Equal(vf.RefTxid, vb.RefTxid)) {
			return fail(fmt.Errorf("universe %s backing %s commit %s: the fork does not hold the commit", u.name, bw.b, c.render(u)))
		}
	}
	return fw, nil
}

// commitRefused: the node did not confirm the block of the commit. The commit
// transaction carries a read / write set written down by the harness (the key
// at its current version, the new value); the node verifies it by re-running
// the harness contract on the sandbox over that read set, so a refusal is an
// observation about the sandbox (reported as a violation), not a fixture fault.
type commitRefused struct{ err error }

func (e commitRefused) Error() string { return e.err.Error() }

func refusedCommitFinding(b backing, c commit, err error) finding {
	return finding{key: "c10.moving_state.node_refuses_commit_transaction." + c.kind() + "_of_" + backingNames[b.st[c.key]] + "_key",
		summary:  fmt.Sprintf("backing (a,b,c)=%s: the node refuses the transaction [%s] whose read set is the key at its current version and whose write set is the value written (verification re-runs the call on the sandbox over the read set): %v", b, c.render(b.u), err),
		expected: "confirmed", observed: "refused"}
}

// switchReader is what the sandbox under test reads through: the real XModel
// reader of the base world, then (after the commit point) the real XModel
// reader of the fork. It delegates every call.
type switchReader struct{ cur kledger.XMReader }

func (s *switchReader) Get(bucket string, key []byte) (*kledger.VersionedData, error) {
	return s.cur.Get(bucket, key)
}

func (s *switchReader) Select(bucket string, startKey []byte, endKey []byte) (kledger.XMIterator, error) {
	return s.cur.Select(bucket, startKey, endKey)
}

// alphabetMoving: the calls of the moving-state programs, all on bucket vb:
// Get / Put / Del of every key, the whole bucket by exact bounds consumed
// fully / stopped after one row / closed at once, the range without its first
// key, the range without its last key, the whole bucket by nil bounds.
func alphabetMoving() []op {
	var out []op
	for _, kind := range []opKind{opGet, opPut, opDel} {
		out = append(out, point(0, kind, 0, 1, 2)...)
	}
	out = append(out,
		sel(0, bA, bD, consAll), sel(0, bA, bD, consOne), sel(0, bA, bD, consNone),
		sel(0, bB, bD, consAll), sel(0, bA, bC, consAll), sel(0, bNil, bNil, consAll),
	)
	return out
}

func movingFamilies(tier core.Tier) []family {
	a, all := alphabetMoving(), allBackings()
	fams := []family{{"moving", a, 2, all, uABC}, {"moving", a, 3, all, uABC}}
	if tier == core.Thorough {
		fams = append(fams, family{"moving", a, 4, all, uABC})
	}
	return fams
}

// mstats are the counters of the moving-state dimension.
type mstats struct {
	traces, ops, replays, replayOps int
	commitsRefused                  int // (backing, commit) pairs whose commit block the node did not confirm
	phantomSkipped                  int // replay not compared: a scan before the commit saw the key of the commit absent (unrecorded, see assumptions) and the commit made it live
	byCommit                        [2]int
	// the key of the commit in the read set
	recordedOld, recordedNew, notRecorded int
	// first-read-wins exercised: the key of the commit was first read before
	// the commit and read again after it (by Get / by a scan whose range holds it)
	rereadByGet, rereadByScan int
	firstReadAfter            int // first read after the commit
	rowsOfCommitYielded       int // rows yielded after the commit that carry the value of the commit
	rowsOfOldYieldedAfter     int // rows of the key of the commit yielded after the commit with the value first read
	violating                 int
	states                    map[[4]int]struct{}
}

func newMStats() *mstats { return &mstats{states: map[[4]int]struct{}{}} }

func (s *mstats) merge(o *mstats) {
	s.traces += o.traces
	s.ops += o.ops
	s.replays += o.replays
	s.replayOps += o.replayOps
	s.phantomSkipped += o.phantomSkipped
	s.commitsRefused += o.commitsRefused
	s.byCommit[0] += o.byCommit[0]
	s.byCommit[1] += o.byCommit[1]
	s.recordedOld += o.recordedOld
	s.recordedNew += o.recordedNew
	s.notRecorded += o.notRecorded
	s.rereadByGet += o.rereadByGet
	s.rereadByScan += o.rereadByScan
	s.firstReadAfter += o.firstReadAfter
	s.rowsOfCommitYielded += o.rowsOfCommitYielded
	s.rowsOfOldYieldedAfter += o.rowsOfOldYieldedAfter
	s.violating += o.violating
	for k := range o.states {
		s.states[k] = struct{}{}
	}
}

// mayTouch: can a scan with these bounds reach key k of bucket vb in the
// store? Exact bounds: iff k is in [start, end); a nil / empty bound: yes
// (its meaning is not fixed by the statement).
func (u *universe) mayTouch(o op, k int) bool {
	if o.kind != opSel || o.bkt != 0 {
		return false
	}
	if !u.exactBounds(o.s, o.e) {
		return true
	}
	return u.inRange(u.keys[k], o.s, o.e)
}

// what the first read of a key before the commit saw (goes into violation
// keys): never written and deleted are both "not live" - the read is recorded
// with the version but is no row of the bucket
var statusNames = [3]string{"not_live", "live", "not_live"}

// checkMoving runs prog on a fresh sandbox whose backing state is that of bw
// for the calls before position `at` and that of fw (= bw + commit c) from
// call `at` on, and judges the read set and the replay over it.
func checkMoving(bw, fw *bworld, c commit, prog []op, at int, st *mstats) (fs []finding) {
	u := bw.b.u
	ck := int(c.key)
	desc := lazyString(func() string {
		return fmt.Sprintf("backing (a,b,c)=%s, program %v, commit [%s] confirmed before call #%d", bw.b, progStrings(prog), c.render(u), at+1)
	})
	add := func(key, summary, expected, observed string) {
		fs = append(fs, finding{key: key, summary: summary, expected: expected, observed: observed})
	}
	st.traces++
	if c.del {
		st.byCommit[1]++
	} else {
		st.byCommit[0]++
	}
	defer func() {
		if len(fs) > 0 {
			st.violating++
		}
	}()

	sw := &switchReader{cur: bw.w.State.CreateXMReader()}
	after := fw.w.State.CreateXMReader()
	sb, err := bw.w.Chain.Contract.NewStateSandbox(&contract.SandboxConfig{XMReader: sw, UTXOReader: bw.utxo})
	if err != nil {
		add("c10.no_sandbox", desc.s()+": NewStateSandbox failed: "+err.Error(), "a sandbox", "error")
		return fs
	}
	to := world.Addr("B")
	res := make([]opResult, 0, len(prog))
	for i, o := range prog {
		if i == at {
			sw.cur = after
		}
		r := execOp(sb, o, to)
		res = append(res, r)
		if r.panicked {
			add("c10.moving_state."+opNames[o.kind]+"_panics", desc.s()+fmt.Sprintf(": call #%d panicked: %s", i+1, r.panicMsg), "a result or an error", "panic: "+r.panicMsg)
			return fs
		}
	}
	st.ops += len(res)

	// ---- what the execution read, and when --------------------------------
	// first[k]: the first call that certainly read key k of vb from below the
	// sandbox (Get / Put / Del of k, a scan that yielded k); early[k]: a scan
	// before it may have fetched the row without yielding it (look-ahead,
	// early stop, a bound whose meaning is not fixed)
	const none = -1
	first := [maxKeys]int{}
	firstKind := [maxKeys]string{}
	for k := range first {
		first[k] = none
	}
	rf := newRef(bw.b)
	rereadGet, rereadScan := false, false
	for i, o := range prog {
		r := res[i]
		switch o.kind {
		case opGet, opPut, opDel:
			if o.bkt == 0 {
				k := int(o.key)
				if first[k] == none {
					first[k], firstKind[k] = i, opNames[o.kind]
				} else if k == ck && first[k] < at && i >= at && o.kind == opGet && !rf.ov[0][k].written {
					rereadGet = true
				}
			}
		case opSel:
			if o.bkt == 0 && !r.err {
				for _, it := range r.items {
					if k := u.keyIndex(it.k); k >= 0 && first[k] == none {
						first[k], firstKind[k] = i, "scan"
					}
				}
				if first[ck] != none && first[ck] < at && i >= at && u.mayTouch(o, ck) {
					rereadScan = true
				}
				if i >= at {
					for _, it := range r.items {
						if it.k == u.keys[ck] {
							if !c.del && it.v == commitValue(ck) {
								st.rowsOfCommitYielded++
							} else if !rf.ov[0][ck].written {
								st.rowsOfOldYieldedAfter++
							}
						}
					}
				}
			}
		}
		rf.apply(o, r)
	}
	if rereadGet {
		st.rereadByGet++
	}
	if rereadScan {
		st.rereadByScan++
	}
	if first[ck] >= at {
		st.firstReadAfter++
	}
	verAt := func(k, i int) version {
		if i >= at {
			return fw.ver[k]
		}
		return bw.ver[k]
	}
	same := func(a, b version) bool { return bytes.Equal(a.txid, b.txid) && a.offset == b.offset }

	flushed := true
	func() {
		defer func() {
			if x := recover(); x != nil {
				flushed = false
				add("c10.moving_state.flush_panics", desc.s()+": Flush panicked: "+fmt.Sprint(x), "ok", "panic")
			}
		}()
		if err := sb.Flush(); err != nil {
			flushed = false
			add("c10.moving_state.flush_rejected", desc.s()+": Flush: "+err.Error(), "ok", "error")
		}
	}()
	if !flushed {
		return fs
	}
	rw := sb.RWSet()
	rsetDesc := func() string {
		var out []string
		for _, vd := range rw.RSet {
			pd := vd.GetPureData()
			out = append(out, fmt.Sprintf("%s/%s@%s=%q", pd.GetBucket(), u.show(string(pd.GetKey())), version{txid: vd.RefTxid, offset: vd.RefOffset}, pd.GetValue()))
		}
		return "[" + strings.Join(out, " ") + "]"
	}

	// ---- (1) the read set records the version of the first read -----------
	var inRSet [maxKeys]bool
	for _, vd := range rw.RSet {
		pd := vd.GetPureData()
		if pd.GetBucket() != bktMain {
			continue
		}
		k := u.keyIndex(string(pd.GetKey()))
		if k < 0 {
			add("c10.moving_state.rset_has_unknown_key", desc.s()+": read set holds a key no call named", "keys of the program", rsetDesc())
			continue
		}
		inRSet[k] = true
		got := version{txid: vd.RefTxid, offset: vd.RefOffset}
		// the versions the record may carry: the one at the first certain read,
		// or the one at an earlier scan that may have fetched the row
		var allowed []version
		last := len(prog)
		if first[k] != none {
			allowed = append(allowed, verAt(k, first[k]))
			last = first[k]
		}
		for j := 0; j < last; j++ {
			if u.mayTouch(prog[j], k) && !res[j].err {
				allowed = append(allowed, verAt(k, j))
			}
		}
		if k == ck {
			switch {
			case same(got, bw.ver[k]):
				st.recordedOld++
			case same(got, fw.ver[k]):
				st.recordedNew++
			}
		}
		if len(allowed) == 0 {
			continue // a key no call can have read: judged by the static enumeration (rset_has_unknown_key / unread keys)
		}
		ok := false
		for _, v := range allowed {
			if same(got, v) {
				ok = true
			}
		}
		if ok {
			continue
		}
		how := "scan_look_ahead"
		if first[k] != none {
			how = firstKind[k]
		}
		key := "c10.moving_state.rset_holds_unknown_version"
		switch {
		case k == ck && same(got, fw.ver[k]):
			// first read before the commit, record replaced by what a later read saw
			key = "c10.moving_state.rset_version_replaced_by_later_read.first_read_by_" + how + "." + statusNames[bw.b.st[k]] + "_then_commit_" + c.kind()
		case k == ck && same(got, bw.ver[k]):
			key = "c10.moving_state.rset_version_older_than_first_read.first_read_by_" + how
		}
		exp := allowed[0].String()
		add(key, desc.s()+fmt.Sprintf(": the first read of %s/%s in this execution (call #%d, %s) saw version %s, the read set records another one", bktMain, u.ktok[k], first[k]+1, how, exp),
			bktMain+"/"+u.ktok[k]+"@"+exp, "read set "+rsetDesc())
	}
	if !inRSet[ck] {
		st.notRecorded++
	}
	for k := range u.keys {
		if first[k] != none && !inRSet[k] {
			add("c10.moving_state.rset_misses_key.read_by_"+firstKind[k], desc.s()+fmt.Sprintf(": key %s/%s, read by call #%d, is not in the read set", bktMain, u.ktok[k], first[k]+1),
				bktMain+"/"+u.ktok[k]+" in the read set", "read set "+rsetDesc())
		}
	}
	sid := [4]int{bw.b.index(), int(c.key) * 2, 0, 0}
	if c.del {
		sid[1]++
	}
	{
		// abstract state of the trace: backing, commit, the reference state
		// reached, when / how the key of the commit was first read
		p := rf.packed()
		sid[2] = int(p.x)
		sid[3] = (first[ck]+1)*8 + at
	}
	st.states[sid] = struct{}{}

	// ---- (2) replay over the read set alone ---------------------------------
	// phantoms (see assumptions): a scan that does not yield a key leaves no
	// record of its absence. If the key of the commit was not live, a scan
	// before the commit could have reached it, no call before the commit read
	// it by name, and the commit makes it live, the replay of that scan over
	// the read set is not comparable.
	if !c.del && bw.b.st[ck] != stLive && (first[ck] == none || first[ck] >= at) {
		for j := 0; j < at; j++ {
			if u.mayTouch(prog[j], ck) && !res[j].err {
				st.phantomSkipped++
				return fs
			}
		}
	}
	sb2, err := bw.w.Chain.Contract.NewStateSandbox(&contract.SandboxConfig{XMReader: sandbox.XMReaderFromRWSet(rw), UTXOReader: sandbox.NewUTXOReaderFromInput(nil)})
	if err != nil {
		add("c10.no_sandbox", desc.s()+": NewStateSandbox (replay) failed: "+err.Error(), "a sandbox", "error")
		return fs
	}
	st.replays++
	res2 := execProgram(sb2, prog)
	st.replayOps += len(res2)
	// how the execution met the key of the commit before the commit
	hist := "key_of_commit_not_read_before_it"
	if first[ck] != none && first[ck] < at {
		hist = "key_of_commit_first_read_" + statusNames[bw.b.st[ck]] + "_by_" + firstKind[ck] + "_then_commit_" + c.kind()
	}
	for i, r2 := range res2 {
		o := prog[i]
		if r2.panicked {
			add("c10.moving_state.replay."+opNames[o.kind]+"_panics", desc.s()+fmt.Sprintf(": call #%d panics when re-run over the read set: %s", i+1, r2.panicMsg), o.observation(res[i]), "panic: "+r2.panicMsg)
			return fs
		}
		if sameResult(res[i], r2) {
			continue
		}
		when := "before_commit"
		if i >= at {
			when = "after_commit"
		}
		add("c10.moving_state.replay."+opNames[o.kind]+"_"+when+"_differs."+hist,
			desc.s()+fmt.Sprintf(": call #%d (%s) gives another result when the calls are re-run over the recorded read set %s", i+1, o, rsetDesc()), o.observation(res[i]), o.observation(r2))
		return fs
	}
	if err := sb2.Flush(); err != nil {
		add("c10.moving_state.replay.flush_rejected", desc.s()+": Flush on replay: "+err.Error(), "ok", "error")
		return fs
	}
	gotW, _ := wsetMap(rw.WSet)
	gotW2, _ := wsetMap(sb2.RWSet().WSet)
	if !sameStringMap(gotW, gotW2) {
		add("c10.moving_state.replay.write_set_differs."+hist, desc.s()+": re-running over the read set gives another write set", describeWSet(u, gotW), describeWSet(u, gotW2))
	}
	return fs
}

// movingCase is the replay case of a moving-state counterexample.
func movingCase(b backing, prog []string, c commit, at int) map[string]interface{} {
	m := caseOf(b, prog)
	m["commit"] = c.render(b.u)
	m["commit_before_call"] = at + 1
	m["commit_legend"] = "the node confirms one more block holding this write to bucket vb after call commit_before_call-1 of the program returned and before call commit_before_call starts"
	return m
}

type mhit struct {
	f     finding
	r     [5]int // length, family, program index, position of the commit, job (backing x commit)
	cs    map[string]interface{}
	count int
}

func lessRank(a, b [5]int) bool {
	for i := range a {
		if a[i] != b[i] {
			return a[i] < b[i]
		}
	}
	return false
}

// runMoving enumerates the moving-state dimension: every program of the
// families x every position of the commit (between two calls) x every commit
// x every backing. A job is one (backing, commit) pair: the worker builds the
// base world and its fork, runs everything on them and drops them.
func runMoving(rep *core.Report, tier core.Tier) (total *mstats, hits map[string]*mhit, fams []family, done []int, err error) {
	fams = movingFamilies(tier)
	u := uABC
	commits := allCommits(u)
	backs := allBackings()
	type mjob struct{ bi, ci, id int }
	jobs := make(chan mjob, len(backs)*len(commits))
	for _, bi := range backs {
		for ci := range commits {
			jobs <- mjob{bi, ci, bi*len(commits) + ci}
		}
	}
	close(jobs)
	workers := runtime.NumCPU()
	if workers > 16 {
		workers = 16
	}
	if workers < 1 {
		workers = 1
	}
	type result struct {
		st   *mstats
		hits map[string]*mhit
		done []int
		err  error
	}
	results := make([]result, workers)
	var wg sync.WaitGroup
	for wi := 0; wi < workers; wi++ {
		wg.Add(1)
		go func(wi int) {
			defer wg.Done()
			vhook.Capture()
			defer vhook.Release()
			res := result{st: newMStats(), hits: map[string]*mhit{}, done: make([]int, len(fams))}
			defer func() { results[wi] = res }()
			buf := make([]op, 8)
			for j := range jobs {
				if rep.Expired() || res.err != nil {
					continue
				}
				b := backingOf(u, j.bi)
				c := commits[j.ci]
				bw, err := buildWorld(b)
				if err != nil {
					res.err = err
					continue
				}
				fw, err := bw.fork(c)
				if err != nil {
					bw.w.Drop()
					if cr, ok := err.(commitRefused); ok {
						// reported; the job stays undone (run not exhaustive)
						fd := refusedCommitFinding(b, c, cr)
						r := [5]int{0, 0, 0, 0, j.id}
						h := res.hits[fd.key]
						if h == nil {
							h = &mhit{r: [5]int{1 << 30}}
							res.hits[fd.key] = h
						}
						h.count++
						if lessRank(r, h.r) {
							h.f, h.r, h.cs = fd, r, movingCase(b, nil, c, 0)
						}
						res.st.commitsRefused++
						continue
					}
					res.err = err
					continue
				}
				for fi, f := range fams {
					n := f.size()
					for idx := 0; idx < n; idx++ {
						if rep.Expired() {
							break
						}
						prog := f.program(idx, buf)
						for at := 1; at < f.length; at++ {
							for _, fd := range checkMoving(bw, fw, c, prog, at, res.st) {
								r := [5]int{f.length, fi, idx, at, j.id}
								h := res.hits[fd.key]
								if h == nil {
									h = &mhit{r: [5]int{1 << 30}}
									res.hits[fd.key] = h
								}
								h.count++
								if lessRank(r, h.r) {
									h.f, h.r, h.cs = fd, r, movingCase(b, progStrings(prog), c, at)
								}
							}
						}
						res.done[fi]++
					}
				}
				fw.w.Drop()
				bw.w.Drop()
			}
		}(wi)
	}
	wg.Wait()
	total = newMStats()
	hits = map[string]*mhit{}
	done = make([]int, len(fams))
	for _, r := range results {
		if r.err != nil {
			return nil, nil, nil, nil, r.err
		}
		total.merge(r.st)
		for i, n := range r.done {
			done[i] += n
		}
		for k, h := range r.hits {
			cur := hits[k]
			if cur == nil {
				hits[k] = h
				continue
			}
			n := cur.count + h.count
			if lessRank(h.r, cur.r) {
				hits[k] = h
			}
			hits[k].count = n
		}
	}
	return total, hits, fams, done, nil
}

// replayMoving re-executes one moving-state case.
func replayMoving(b backing, prog []op, c commit, at int) (bool, string, error) {
	world.Init()
	restore := silence()
	defer restore()
	vhook.Capture()
	defer vhook.Release()
	bw, err := buildWorld(b)
	if err != nil {
		return false, "", err
	}
	defer bw.w.Drop()
	fw, err := bw.fork(c)
	if err != nil {
		if cr, ok := err.(commitRefused); ok {
			f := refusedCommitFinding(b, c, cr)
			return true, fmt.Sprintf("%s: %s (expected %s, observed %s)", f.key, f.summary, f.expected, f.observed), nil
		}
		return false, "", err
	}
	defer fw.w.Drop()
	if len(prog) == 0 {
		return false, "the node confirms the commit", nil
	}
	if at < 1 || at >= len(prog) {
		return false, "", fmt.Errorf("commit_before_call %d: want 2..%d", at+1, len(prog))
	}
	fs := checkMoving(bw, fw, c, prog, at, newMStats())
	if len(fs) == 0 {
		return false, "program replayed over the moving state without violation", nil
	}
	var lines []string
	for _, f := range fs {
		lines = append(lines, fmt.Sprintf("%s: %s (expected %s, observed %s)", f.key, f.summary, f.expected, f.observed))
	}
	return true, strings.Join(lines, "\n"), nil
}
