package c10

import (
	"bytes"
	"fmt"
	"math/big"
	"sort"
	"strings"

	"github.com/xuperchain/xupercore/bcs/ledger/xledger/state/xmodel"
	"github.com/xuperchain/xupercore/kernel/contract"
	"github.com/xuperchain/xupercore/kernel/contract/sandbox"
	kledger "github.com/xuperchain/xupercore/kernel/ledger"
	"github.com/xuperchain/xupercore/protos"

	"verif/world"
)

// finding is one property violation of one (backing, program) pair.
type finding struct {
	key      string
	summary  string
	expected string
	observed string
}

// stats are the coverage counters of one worker.
type stats struct {
	traces       int // (backing, program) pairs executed on the real sandbox
	ops          int // operations executed on the real sandbox (first run)
	replayOps    int // operations executed again over the read set
	replays      int
	getFound     int
	getNotFound  int
	scans        int
	scansYield   int // scans that yielded at least one key
	scanItems    int
	scansStrict  int // scans judged by the exact oracle
	scanRejected int
	xferOK       int
	xferRefused  int
	// the Transfer dimension
	xferBy                [3][2]int           // per payer: accepted, refused
	xferByReader          int                 // refused by the utxo reader (positive amount): nothing may stay selected
	xferMultiInput        int                 // accepted and covered by more than one output
	xferExact             int                 // accepted without change
	xferAfterRefuse       int                 // accepted after a transfer of this execution that the reader refused
	progsRefuseThenOK     int                 // traces with such a transfer
	utxoInputs            int                 // token inputs recorded
	replayXfers           int                 // transfers re-run over the recorded token inputs
	replayXferRefused     int                 // of which refused again
	replayXferAfterRefuse int                 // accepted again after a refused one
	xferSeqs              map[string]struct{} // distinct accept / refuse patterns of the transfers of a trace
	panics                int
	pruned                int // traces not executed: same calls up to a call that panicked on this backing
	violating             int // traces with at least one finding
	rsetEntries           int
	wsetEntries           int
	states                map[stateID]struct{}
	outcomes              [5 * 32]bool // per call kind: error flag x number of keys yielded
	// the key dimension, per universe
	byU [nUniverses]uStats
}

const nUniverses = 5

// uStats are the counters of the traces of one universe.
type uStats struct {
	traces       int
	scansExact   int             // scans judged by the exact oracle
	yielded      [maxKeys]int    // rows yielded per key of the universe
	yieldedFirst [maxKeys]int    // ... as the first row of a scan
	getFound     [maxKeys]int    // Get found the key
	bySource     [3][maxKeys]int // rows yielded per layer that holds the visible value: written in this execution, read earlier in this execution, only in the store
	mergedScans  int             // scans that yielded >= 2 rows while this execution had written or read a key of the bucket (rows come from several layers)
	earlyStops   int             // scans stopped after one row that had more to yield
	rsetEntries  [maxKeys]int    // read-set entries per key
	wsetEntries  [maxKeys]int    // write-set entries per key
	replayedRows [maxKeys]int    // rows yielded per key on replay over the read set
}

func (a *uStats) merge(b *uStats) {
	a.traces += b.traces
	a.scansExact += b.scansExact
	a.mergedScans += b.mergedScans
	a.earlyStops += b.earlyStops
	for k := 0; k < maxKeys; k++ {
		a.yielded[k] += b.yielded[k]
		a.yieldedFirst[k] += b.yieldedFirst[k]
		a.getFound[k] += b.getFound[k]
		a.rsetEntries[k] += b.rsetEntries[k]
		a.wsetEntries[k] += b.wsetEntries[k]
		a.replayedRows[k] += b.replayedRows[k]
		for l := 0; l < 3; l++ {
			a.bySource[l][k] += b.bySource[l][k]
		}
	}
}

func newStats() *stats {
	return &stats{states: map[stateID]struct{}{}, xferSeqs: map[string]struct{}{}}
}

func (s *stats) merge(o *stats) {
	s.traces += o.traces
	s.ops += o.ops
	s.replayOps += o.replayOps
	s.replays += o.replays
	s.getFound += o.getFound
	s.getNotFound += o.getNotFound
	s.scans += o.scans
	s.scansYield += o.scansYield
	s.scanItems += o.scanItems
	s.scansStrict += o.scansStrict
	s.scanRejected += o.scanRejected
	s.xferOK += o.xferOK
	s.xferRefused += o.xferRefused
	for i := range s.xferBy {
		s.xferBy[i][0] += o.xferBy[i][0]
		s.xferBy[i][1] += o.xferBy[i][1]
	}
	s.xferByReader += o.xferByReader
	s.xferMultiInput += o.xferMultiInput
	s.xferExact += o.xferExact
	s.xferAfterRefuse += o.xferAfterRefuse
	s.progsRefuseThenOK += o.progsRefuseThenOK
	s.utxoInputs += o.utxoInputs
	s.replayXfers += o.replayXfers
	s.replayXferRefused += o.replayXferRefused
	s.replayXferAfterRefuse += o.replayXferAfterRefuse
	for k := range o.xferSeqs {
		s.xferSeqs[k] = struct{}{}
	}
	s.panics += o.panics
	s.pruned += o.pruned
	s.violating += o.violating
	s.rsetEntries += o.rsetEntries
	s.wsetEntries += o.wsetEntries
	for k := range o.states {
		s.states[k] = struct{}{}
	}
	for i, b := range o.outcomes {
		if b {
			s.outcomes[i] = true
		}
	}
	for i := range s.byU {
		s.byU[i].merge(&o.byU[i])
	}
}

var (
	utxoInKey  = "ContractUtxo.Inputs"
	utxoOutKey = "ContractUtxo.Outputs"
)

var opNames = [5]string{"get", "put", "del", "select", "transfer"}

var backingNames = [3]string{"never_written", "backing_live", "backing_deleted"}

// reasons a key must be in the read set, strongest first
const (
	needGet     = "read_by_get"
	needWritten = "written"
	needScan    = "yielded_by_scan"
)

func (rf *ref) require(bkt, key int, why string) {
	if bkt == 2 {
		return // transient outputs aside
	}
	cur := rf.need[bkt][key]
	rank := func(s string) int {
		switch s {
		case needGet:
			return 3
		case needWritten:
			return 2
		case needScan:
			return 1
		}
		return 0
	}
	if rank(why) > rank(cur) {
		rf.need[bkt][key] = why
	}
}

// exactBounds: does the pair of bounds fix the range under any reading? Both
// bounds are non-nil and non-empty; in a universe where "" is a key an empty
// start bound is that key (the smallest key there is), so it counts too.
func (u *universe) exactBounds(s, e uint8) bool {
	return (s >= 2 || (s == 1 && u.emptyIsKey)) && e >= 2
}

// keySuffix: in the boundary universes the kind of key a finding is about is
// part of the violation key.
func (u *universe) keySuffix(k string) string {
	if !u.quoted {
		return ""
	}
	if k == "" && u.nilSpelled {
		return ".empty_key_passed_as_nil"
	}
	return "." + keyClass(k)
}

// rowSuffix: keySuffix plus which version of the row was yielded (boundary
// universes only): a row misplaced or repeated with the value of the
// committed state is another defect than one with the value just written.
func (rf *ref) rowSuffix(bkt int, it kv) string {
	if !rf.u.quoted {
		return ""
	}
	return rf.u.keySuffix(it.k) + ".value_" + rf.valClass(bkt, rf.u.keyIndex(it.k), it.v)
}

// checkScan compares what a scan yielded with the reference and returns the
// first discrepancy. exact: the bounds fix the range, so the live keys of
// [start,end) are demanded; otherwise only what holds under any reading of a
// nil / empty bound: yielded keys are live, carry the visible value, ascend.
func (rf *ref) checkScan(o op, r opResult, exact bool) (key string, want []kv) {
	bkt := int(o.bkt)
	u := rf.u
	if exact {
		want = rf.scanWant(bkt, o.s, o.e)
		switch {
		case o.consume == consNone:
			want = nil
		case o.consume == consOne && len(want) > 1:
			want = want[:1]
		}
	}
	prev := ""
	for i, it := range r.items {
		k, val, live, src := rf.status(bkt, it.k)
		if i > 0 && it.k == prev {
			return "c10.select_yields_key_twice" + rf.rowSuffix(bkt, it), want
		}
		if i > 0 && it.k < prev {
			return "c10.select_not_ascending" + rf.rowSuffix(bkt, it), want
		}
		prev = it.k
		if !live {
			name := ""
			switch src {
			case "own_del":
				name = "c10.select_yields_key_deleted_in_this_execution"
			case "backing_deleted":
				name = "c10.select_yields_key_deleted_in_backing"
			case "never_written":
				name = "c10.select_yields_never_written_key"
			default:
				return "c10.select_yields_unknown_key", want
			}
			name += u.keySuffix(it.k)
			name += ".value_" + rf.valClass(bkt, k, it.v)
			if src != "own_del" && rf.touched[bkt][k] {
				name += ".after_get_of_it"
			}
			return name, want
		}
		if exact {
			if !u.inRange(it.k, o.s, o.e) {
				return "c10.select_yields_key_outside_range" + u.keySuffix(it.k), want
			}
			if i < len(want) && want[i].k != it.k {
				// both ascend and it.k is live and in range: want[i] was skipped
				_, _, _, s2 := rf.status(bkt, want[i].k)
				return "c10.select_misses_live_key." + s2 + u.keySuffix(want[i].k), want
			}
		}
		if it.v != val {
			return "c10.select_wrong_value.want_" + src + ".got_" + rf.valClass(bkt, k, it.v) + u.keySuffix(it.k), want
		}
	}
	if exact && len(r.items) < len(want) {
		_, _, _, s2 := rf.status(bkt, want[len(r.items)].k)
		return "c10.select_misses_live_key." + s2 + u.keySuffix(want[len(r.items)].k), want
	}
	return "", want
}

// apply moves the reference over one executed call.
func (rf *ref) apply(o op, r opResult) {
	bkt, k := int(o.bkt), int(o.key)
	switch o.kind {
	case opGet:
		// a read served by an own write does not depend on the store; the key
		// is then demanded as a written key only
		if !rf.ov[bkt][k].written {
			rf.require(bkt, k, needGet)
		}
		rf.touched[bkt][k] = true
	case opPut, opDel:
		if !r.err {
			rf.write(bkt, k, o.val, o.kind == opDel)
			rf.require(bkt, k, needWritten)
		}
	case opSel:
		if !r.err {
			for _, it := range r.items {
				if ki := rf.u.keyIndex(it.k); ki >= 0 {
					rf.require(bkt, ki, needScan)
				}
			}
		}
	case opXfer:
		if !r.err {
			k := payers[o.from].need(o.amt)
			if k < 0 {
				k = 0
			}
			if k > rf.avail[o.from] {
				k = rf.avail[o.from]
			}
			rf.avail[o.from] -= k
			rf.xfers = append(rf.xfers, xferRec{from: o.from, amt: o.amt, k: k})
		} else if o.amt > 0 {
			rf.refused = append(rf.refused, o.from)
		}
	}
}

// refBefore is the reference state before call i.
func refBefore(b backing, prog []op, res []opResult, i int) *ref {
	rf := newRef(b)
	for j := 0; j < i; j++ {
		rf.apply(prog[j], res[j])
	}
	return rf
}

type lazyString func() string

func (l lazyString) s() string { return l() }

func sameResult(a, b opResult) bool {
	if a.err != b.err || a.val != b.val || a.iterErr != b.iterErr || a.runaway != b.runaway || a.panicked != b.panicked || len(a.items) != len(b.items) {
		return false
	}
	for i := range a.items {
		if a.items[i] != b.items[i] {
			return false
		}
	}
	return true
}

func bucketClass(b uint8) string {
	if b == 2 {
		return "transient_bucket"
	}
	return "plain_bucket"
}

func sumAmounts(ins []*protos.TxInput, outs []*protos.TxOutput) (*big.Int, *big.Int) {
	a, b := new(big.Int), new(big.Int)
	for _, i := range ins {
		a.Add(a, new(big.Int).SetBytes(i.GetAmount()))
	}
	for _, o := range outs {
		b.Add(b, new(big.Int).SetBytes(o.GetAmount()))
	}
	return a, b
}

// showID renders the write-set id bucket/key (bucket names hold no "/").
func (u *universe) showID(id string) string {
	if !u.quoted {
		return id
	}
	parts := strings.SplitN(id, "/", 2)
	return parts[0] + "/" + u.show(parts[1])
}

func describeWSet(u *universe, ws map[string]string) string {
	keys := make([]string, 0, len(ws))
	for k := range ws {
		keys = append(keys, k)
	}
	sort.Strings(keys)
	var sb strings.Builder
	sb.WriteString("{")
	for i, k := range keys {
		if i > 0 {
			sb.WriteString(" ")
		}
		if strings.HasPrefix(k, bktTransient+"/ContractUtxo.") {
			// rendered by owner and amount: which of the equal outputs of an owner
			// the ledger picked (hence the encoded length) varies from run to run
			fmt.Fprintf(&sb, "%s=%s", k, describeUtxoRecord(k, ws[k]))
		} else {
			fmt.Fprintf(&sb, "%s=%q", u.showID(k), ws[k])
		}
	}
	sb.WriteString("}")
	return sb.String()
}

func describeUtxoRecord(id, v string) string {
	switch id {
	case bktTransient + "/" + utxoInKey:
		var ins []*protos.TxInput
		if xmodel.UnmsarshalMessages([]byte(v), &ins) == nil {
			return "<inputs " + describeUtxoIns(ins) + ">"
		}
	case bktTransient + "/" + utxoOutKey:
		var outs []*protos.TxOutput
		if xmodel.UnmsarshalMessages([]byte(v), &outs) == nil {
			return "<outputs " + describeUtxoOuts(outs) + ">"
		}
	}
	return "<undecodable record>"
}

func wsetMap(ws []*kledger.PureData) (map[string]string, bool) {
	m := map[string]string{}
	dup := false
	for _, pd := range ws {
		id := pd.GetBucket() + "/" + string(pd.GetKey())
		if _, ok := m[id]; ok {
			dup = true
		}
		m[id] = string(pd.GetValue())
	}
	return m, dup
}

func addrName(a []byte) string {
	if n, ok := world.AddrName[string(a)]; ok {
		return n
	}
	return string(a)
}

func listUtxoOuts(outs []*protos.TxOutput) []string {
	var l []string
	for _, o := range outs {
		l = append(l, fmt.Sprintf("%s:%s", addrName(o.GetToAddr()), new(big.Int).SetBytes(o.GetAmount())))
	}
	return l
}

func describeUtxoOuts(outs []*protos.TxOutput) string {
	return "[" + strings.Join(listUtxoOuts(outs), " ") + "]"
}

// listUtxoIns renders owner:amount of every input (which of several equal
// outputs of the owner the ledger picked is not an observable of the property).
func listUtxoIns(ins []*protos.TxInput) []string {
	var l []string
	for _, in := range ins {
		l = append(l, fmt.Sprintf("%s:%s", addrName(in.GetFromAddr()), new(big.Int).SetBytes(in.GetAmount())))
	}
	return l
}

func describeUtxoIns(ins []*protos.TxInput) string {
	return "[" + strings.Join(listUtxoIns(ins), " ") + "]"
}

// sameInput / sameOutput compare every field of the messages (proto.Equal
// costs a reflection walk per message and there are millions of them).
func sameInput(a, b *protos.TxInput) bool {
	return bytes.Equal(a.GetRefTxid(), b.GetRefTxid()) && a.GetRefOffset() == b.GetRefOffset() && bytes.Equal(a.GetFromAddr(), b.GetFromAddr()) &&
		bytes.Equal(a.GetAmount(), b.GetAmount()) && a.GetFrozenHeight() == b.GetFrozenHeight() && bytes.Equal(a.XXX_unrecognized, b.XXX_unrecognized)
}

func sameOutput(a, b *protos.TxOutput) bool {
	return bytes.Equal(a.GetAmount(), b.GetAmount()) && bytes.Equal(a.GetToAddr(), b.GetToAddr()) && a.GetFrozenHeight() == b.GetFrozenHeight() &&
		bytes.Equal(a.XXX_unrecognized, b.XXX_unrecognized)
}

func sameInputs(a, b []*protos.TxInput) bool {
	if len(a) != len(b) {
		return false
	}
	for i := range a {
		if !sameInput(a[i], b[i]) {
			return false
		}
	}
	return true
}

func sameOutputs(a, b []*protos.TxOutput) bool {
	if len(a) != len(b) {
		return false
	}
	for i := range a {
		if !sameOutput(a[i], b[i]) {
			return false
		}
	}
	return true
}

// tok is owner and amount of a token input / output.
type tok struct {
	owner string
	amt   int64
}

func amountOf(b []byte) int64 {
	if len(b) > 7 {
		return -1 // no amount of the model is that large
	}
	var x int64
	for _, c := range b {
		x = x<<8 | int64(c)
	}
	return x
}

func sameToks(a, b []tok) bool {
	if len(a) != len(b) {
		return false
	}
	for i := range a {
		if a[i] != b[i] {
			return false
		}
	}
	return true
}

func describeToks(l []tok) string {
	var sb strings.Builder
	sb.WriteString("[")
	for i, t := range l {
		if i > 0 {
			sb.WriteString(" ")
		}
		fmt.Fprintf(&sb, "%s:%d", addrName([]byte(t.owner)), t.amt)
	}
	sb.WriteString("]")
	return sb.String()
}

// refusalContext names how a transfer relates to the transfers the utxo
// reader refused before it in the same execution.
func refusalContext(rs *ref, o op) string {
	if len(rs.refused) == 0 {
		return ""
	}
	if rs.refused[len(rs.refused)-1] == o.from {
		return ".after_refused_transfer_of_same_payer"
	}
	return ".after_refused_transfer_of_other_payer"
}

// checkProgram runs prog on a fresh sandbox over the real XModel of bw,
// judges every observable against the reference, then re-runs prog over the
// recorded read set alone and compares.
//
// panicAt is the position of the call that panicked (-1: none): execution
// stops there, so every program with the same first panicAt+1 calls is the
// same trace on this backing.
func checkProgram(bw *bworld, prog []op, st *stats) (fs []finding, panicAt int) {
	panicAt = -1
	u := bw.b.u
	us := &st.byU[u.idx]
	us.traces++
	bdesc := "backing (a,b,c)=" + bw.b.String()
	if u.quoted {
		bdesc = "backing (" + strings.Join(u.ktok, ",") + ")=" + bw.b.String()
	}
	where := func(i int) string {
		return fmt.Sprintf("%s, program %v, operation #%d (%s)", bdesc, progStrings(prog), i+1, prog[i])
	}
	whole := lazyString(func() string { return fmt.Sprintf("%s, program %v", bdesc, progStrings(prog)) })
	add := func(key, summary, expected, observed string) {
		fs = append(fs, finding{key: key, summary: summary, expected: expected, observed: observed})
	}
	st.traces++
	defer func() {
		if len(fs) > 0 {
			st.violating++
		}
	}()

	sb, lr, err := bw.newSandbox()
	if err != nil {
		add("c10.no_sandbox", whole.s()+": NewStateSandbox failed: "+err.Error(), "a sandbox", "error")
		return fs, panicAt
	}
	defer bw.release(lr)
	res := execProgram(sb, prog)
	st.ops += len(res)

	rf := newRef(bw.b)
	xferSeq := make([]byte, 0, 8)
	refuseThenOK := false
	for i, r := range res {
		o := prog[i]
		oc := int(o.kind)*32 + len(r.items)
		if r.err || r.panicked {
			oc += 16
		}
		st.outcomes[oc] = true
		if r.panicked {
			st.panics++
			key := "c10." + opNames[o.kind] + "_panics"
			if o.kind == opSel {
				cls := boundsClass(o.s, o.e)
				if cls == "inverted_range" {
					key = "c10.select_panics_on_inverted_range"
				} else {
					key += "." + cls
				}
			}
			add(key, where(i)+" panicked: "+r.panicMsg, "a result or an error", "panic: "+r.panicMsg)
			return fs, i
		}
		bkt, k := int(o.bkt), int(o.key)
		switch o.kind {
		case opGet:
			want, live, src := rf.lookup(bkt, k)
			if r.err {
				st.getNotFound++
			} else {
				st.getFound++
				us.getFound[k]++
			}
			if live == r.err || (live && want != r.val) {
				got := "not_found"
				if !r.err {
					got = rf.valClass(bkt, k, r.val)
				}
				exp := "not found"
				if live {
					exp = fmt.Sprintf("%q", want)
				}
				add("c10.get.want_"+src+".got_"+got+u.keySuffix(u.keys[k]), where(i)+": a read does not observe the latest write / the underlying state", exp, o.observation(r))
			}
		case opPut, opDel:
			if r.err {
				add("c10."+opNames[o.kind]+"_rejected."+bucketClass(o.bkt), where(i)+": write refused", "ok", "error")
			}
		case opSel:
			st.scans++
			cls := boundsClass(o.s, o.e)
			exact := u.exactBounds(o.s, o.e)
			if r.err {
				st.scanRejected++
				if cls == "proper_range" {
					add("c10.select_rejected.proper_range", where(i)+": scan of a proper range refused", "an iterator", "error")
				}
				break
			}
			if exact {
				st.scansStrict++
				us.scansExact++
			}
			if len(r.items) > 0 {
				st.scansYield++
				st.scanItems += len(r.items)
				nw, nr := rf.layers(bkt)
				if len(r.items) >= 2 && nw+nr > 0 {
					us.mergedScans++
				}
				for j, it := range r.items {
					if ki := u.keyIndex(it.k); ki >= 0 {
						us.yielded[ki]++
						if j == 0 {
							us.yieldedFirst[ki]++
						}
						switch {
						case rf.ov[bkt][ki].written:
							us.bySource[0][ki]++
						case rf.need[bkt][ki] != "" || rf.touched[bkt][ki]:
							us.bySource[1][ki]++
						default:
							us.bySource[2][ki]++
						}
					}
				}
			}
			if r.iterErr {
				add("c10.select_iterator_error."+cls, where(i)+": iterator reports an error", "no error", o.observation(r))
			}
			if r.runaway {
				add("c10.select_does_not_terminate", where(i)+fmt.Sprintf(": more than %d keys yielded", maxYield-1), fmt.Sprintf("at most %d keys", len(u.keys)), o.observation(r))
			}
			if exact && o.consume == consOne && len(rf.scanWant(bkt, o.s, o.e)) > 1 {
				us.earlyStops++
			}
			if key, want := rf.checkScan(o, r, exact); key != "" {
				exp := "only live keys, ascending, with their visible value"
				if exact {
					exp = o.observation(opResult{items: want})
				}
				add(key, where(i)+": a scan does not yield exactly the live keys of its range in order", exp, o.observation(r))
			}
		case opXfer:
			if r.err {
				st.xferRefused++
			} else {
				st.xferOK++
			}
			wantOK, k := rf.xferWant(o)
			if r.err {
				st.xferBy[o.from][1]++
				xferSeq = append(xferSeq, 'a'+o.from)
				if o.amt > 0 {
					st.xferByReader++
				}
			} else {
				st.xferBy[o.from][0]++
				xferSeq = append(xferSeq, 'A'+o.from)
				if k > 1 {
					st.xferMultiInput++
				}
				if wantOK && k*payers[o.from].size == int(o.amt) {
					st.xferExact++
				}
				if len(rf.refused) > 0 {
					st.xferAfterRefuse++
					refuseThenOK = true
				}
			}
			switch {
			case o.amt == 0 && !r.err:
				add("c10.transfer_of_zero_accepted", where(i), "error", "ok")
			case wantOK && r.err:
				add("c10.transfer_refused"+refusalContext(rf, o), where(i)+fmt.Sprintf(": the sender owns %d unselected outputs of %d", rf.avail[o.from], payers[o.from].size), "ok", "error")
			case !wantOK && !r.err:
				add("c10.transfer_accepted_beyond_unselected_funds"+refusalContext(rf, o), where(i)+fmt.Sprintf(": the sender owns %d unselected outputs of %d", rf.avail[o.from], payers[o.from].size), "error", "ok")
			}
		}
		rf.apply(o, r)
		st.states[rf.packed()] = struct{}{}
	}
	if len(xferSeq) > 0 {
		st.xferSeqs[string(xferSeq)] = struct{}{}
	}
	if refuseThenOK {
		st.progsRefuseThenOK++
	}

	// ---- read / write sets ------------------------------------------------
	flushed := true
	func() {
		defer func() {
			if x := recover(); x != nil {
				flushed = false
				add("c10.flush_panics", whole.s()+": Flush panicked: "+fmt.Sprint(x), "ok", "panic")
			}
		}()
		if err := sb.Flush(); err != nil {
			flushed = false
			add("c10.flush_rejected", whole.s()+": Flush: "+err.Error(), "ok", "error")
		}
	}()
	if !flushed {
		return fs, panicAt
	}
	rw := sb.RWSet()
	urw := sb.UTXORWSet()
	st.rsetEntries += len(rw.RSet)
	st.wsetEntries += len(rw.WSet)

	rsetDesc := func() []string {
		var out []string
		for _, vd := range rw.RSet {
			pd := vd.GetPureData()
			out = append(out, pd.GetBucket()+"/"+u.show(string(pd.GetKey()))+"@"+version{txid: vd.RefTxid, offset: vd.RefOffset}.String())
		}
		return out
	}
	var inRSet [3][maxKeys]bool
	for _, vd := range rw.RSet {
		pd := vd.GetPureData()
		bi, ki := indexOf(bucketNames[:], pd.GetBucket()), u.keyIndex(string(pd.GetKey()))
		if bi < 0 || ki < 0 {
			id := pd.GetBucket() + "/" + u.show(string(pd.GetKey()))
			add("c10.rset_has_unknown_key", whole.s()+": read set holds "+id+" which no call named", "keys of the program", id)
			continue
		}
		us.rsetEntries[ki]++
		if inRSet[bi][ki] {
			id := pd.GetBucket() + "/" + u.show(string(pd.GetKey()))
			add("c10.rset_duplicate_key"+u.keySuffix(u.keys[ki]), whole.s()+": read set holds "+id+" twice", "one entry per key", id+" twice")
		}
		inRSet[bi][ki] = true
		wantVer := version{}
		status := backingNames[stAbsent]
		if bi == 0 {
			wantVer = bw.ver[ki]
			status = backingNames[bw.b.st[ki]]
		}
		if !bytes.Equal(vd.RefTxid, wantVer.txid) || vd.RefOffset != wantVer.offset {
			id := pd.GetBucket() + "/" + u.show(string(pd.GetKey()))
			add("c10.rset_wrong_version."+status+u.keySuffix(u.keys[ki]), whole.s()+": read set entry "+id+" does not carry the version the store holds",
				wantVer.String(), version{txid: vd.RefTxid, offset: vd.RefOffset}.String())
		}
	}
	for b := 0; b < 2; b++ {
		for k := range u.keys {
			if why := rf.need[b][k]; why != "" && !inRSet[b][k] {
				status := backingNames[stAbsent]
				if b == 0 {
					status = backingNames[bw.b.st[k]]
				}
				add("c10.rset_misses_key."+why+"."+status+u.keySuffix(u.keys[k]), whole.s()+fmt.Sprintf(": key %s/%s (%s) is not in the read set", bucketNames[b], u.ktok[k], why),
					bucketNames[b]+"/"+u.ktok[k]+" in the read set", fmt.Sprintf("read set %v", rsetDesc()))
			}
		}
	}

	wantW := map[string]string{}
	for b := 0; b < 3; b++ {
		for k := range u.keys {
			if c := rf.ov[b][k]; c.written {
				v := c.val
				if c.deleted {
					v = delMarker
				}
				wantW[bucketNames[b]+"/"+u.keys[k]] = v
			}
		}
	}
	gotW, dup := wsetMap(rw.WSet)
	if dup {
		add("c10.wset_duplicate_key", whole.s()+": a key appears twice in the write set", "one entry per key", describeWSet(u, gotW))
	}
	utxoIn, hasIn := gotW[bktTransient+"/"+utxoInKey]
	utxoOut, hasOut := gotW[bktTransient+"/"+utxoOutKey]
	kvW := map[string]string{}
	for id, v := range gotW {
		if id == bktTransient+"/"+utxoInKey || id == bktTransient+"/"+utxoOutKey {
			continue
		}
		kvW[id] = v
	}
	ids := make([]string, 0, len(kvW)+len(wantW))
	for id := range kvW {
		ids = append(ids, id)
	}
	for id := range wantW {
		if _, ok := kvW[id]; !ok {
			ids = append(ids, id)
		}
	}
	sort.Strings(ids)
	for _, id := range ids {
		w, okW := wantW[id]
		g, okG := kvW[id]
		kind := "put"
		if w == delMarker {
			kind = "del"
		}
		bc := "plain_bucket"
		if strings.HasPrefix(id, bktTransient+"/") {
			bc = "transient_bucket"
		}
		parts := strings.SplitN(id, "/", 2)
		ksfx := u.keySuffix(parts[1])
		if ki := u.keyIndex(parts[1]); ki >= 0 && okG {
			us.wsetEntries[ki]++
		}
		switch {
		case okW && !okG:
			add("c10.wset_misses_written_key."+kind+"."+bc+ksfx, whole.s()+": written key "+u.showID(id)+" is not in the write set", describeWSet(u, wantW), describeWSet(u, kvW))
		case !okW && okG:
			add("c10.wset_has_unwritten_key."+bc, whole.s()+": write set holds "+u.showID(id)+" which the program never wrote", describeWSet(u, wantW), describeWSet(u, kvW))
		case w != g:
			vc := rf.valClass(indexOf(bucketNames[:], parts[0]), u.keyIndex(parts[1]), g)
			add("c10.wset_wrong_final_value.want_"+kind+".got_"+vc+ksfx, whole.s()+": write set does not hold the final value of "+u.showID(id), describeWSet(u, wantW), describeWSet(u, kvW))
		}
	}

	// ---- token part ---------------------------------------------------------
	st.utxoInputs += len(urw.Rset)
	sumIn, sumOut := sumAmounts(urw.Rset, urw.WSet)
	if sumIn.Cmp(sumOut) != 0 {
		add("c10.utxo_not_conserved", whole.s()+": token inputs and outputs of the sandbox differ", "inputs = outputs", fmt.Sprintf("inputs %s, outputs %s", sumIn, describeUtxoOuts(urw.WSet)))
	}
	wantIns, wantOuts := rf.wantUtxo()
	gotIns := make([]tok, 0, len(urw.Rset))
	for _, in := range urw.Rset {
		gotIns = append(gotIns, tok{string(in.GetFromAddr()), amountOf(in.GetAmount())})
	}
	gotOuts := make([]tok, 0, len(urw.WSet))
	for _, o := range urw.WSet {
		gotOuts = append(gotOuts, tok{string(o.GetToAddr()), amountOf(o.GetAmount())})
	}
	if !sameToks(gotIns, wantIns) {
		key := "c10.utxo_inputs_do_not_match_transfers"
		if len(gotIns) == len(wantIns) {
			for i := range gotIns {
				if gotIns[i].owner != wantIns[i].owner {
					key = "c10.utxo_input_of_other_owner"
					break
				}
			}
		}
		add(key, whole.s()+": the recorded token inputs are not the outputs of the senders that cover the accepted transfers, in call order",
			describeToks(wantIns), describeToks(gotIns))
	}
	if !sameToks(gotOuts, wantOuts) {
		add("c10.utxo_outputs_do_not_match_transfers", whole.s()+": token outputs are not the accepted transfers of the program, each followed by its change",
			describeToks(wantOuts), describeToks(gotOuts))
	}
	if len(rf.xfers) == 0 {
		if hasIn || hasOut {
			add("c10.wset_utxo_record_without_transfer", whole.s()+": transient token record without a transfer", "none", describeWSet(u, gotW))
		}
	} else {
		okRec := hasIn && hasOut
		if okRec {
			var ins []*protos.TxInput
			var outs []*protos.TxOutput
			e1 := xmodel.UnmsarshalMessages([]byte(utxoIn), &ins)
			e2 := xmodel.UnmsarshalMessages([]byte(utxoOut), &outs)
			okRec = e1 == nil && e2 == nil && sameInputs(ins, urw.Rset) && sameOutputs(outs, urw.WSet)
		}
		if !okRec {
			add("c10.wset_utxo_record_differs", whole.s()+": after Flush the transient bucket does not record the token inputs / outputs of the sandbox",
				"ContractUtxo.Inputs / ContractUtxo.Outputs = UTXORWSet", describeWSet(u, gotW))
		}
	}

	// ---- replay over the read set alone ------------------------------------
	sb2, err := bw.w.Chain.Contract.NewStateSandbox(&contract.SandboxConfig{
		XMReader:   sandbox.XMReaderFromRWSet(rw),
		UTXOReader: sandbox.NewUTXOReaderFromInput(urw.Rset),
	})
	if err != nil {
		add("c10.no_sandbox", whole.s()+": NewStateSandbox (replay) failed: "+err.Error(), "a sandbox", "error")
		return fs, panicAt
	}
	st.replays++
	res2 := execProgram(sb2, prog)
	st.replayOps += len(res2)
	refusedSoFar := false // the utxo reader refused a transfer of the first run before this call
	for i, r2 := range res2 {
		o := prog[i]
		bkt, k := int(o.bkt), int(o.key)
		// only a nil end bound is read differently by the store and by the
		// read-set reader, so only that class goes into the key
		cls := ""
		if o.kind == opSel && boundsClass(o.s, o.e) == "nil_end" {
			cls = ".nil_end"
		}
		if r2.panicked {
			add("c10.replay."+opNames[o.kind]+"_panics"+cls, where(i)+": panics when re-run over the read set: "+r2.panicMsg, o.observation(res[i]), "panic: "+r2.panicMsg)
			return fs, panicAt
		}
		if o.kind == opXfer {
			st.replayXfers++
			switch {
			case r2.err:
				st.replayXferRefused++
			case !res[i].err && refusedSoFar:
				st.replayXferAfterRefuse++
			}
			if res[i].err && o.amt > 0 {
				refusedSoFar = true
			}
		}
		if o.kind == opSel {
			for _, it := range r2.items {
				if ki := u.keyIndex(it.k); ki >= 0 {
					us.replayedRows[ki]++
				}
			}
		}
		if sameResult(res[i], r2) {
			continue
		}
		a, b := o.observation(res[i]), o.observation(r2)
		rs := refBefore(bw.b, prog, res, i)
		key := "c10.replay." + opNames[o.kind] + "_differs"
		switch o.kind {
		case opXfer:
			// which transfers fail is part of the result; the class says which
			// way the replay deviates and whether the utxo reader had refused a
			// transfer of this execution before (a refusal must leave no trace)
			if r2.err {
				key += ".replay_refuses"
			} else {
				key += ".replay_accepts"
			}
			key += refusalContext(rs, o)
		case opGet:
			_, _, src := rs.lookup(bkt, k)
			got := "not_found"
			if !r2.err {
				got = rs.valClass(bkt, k, r2.val)
			}
			key += ".of_" + src + ".replay_" + got + u.keySuffix(u.keys[k])
		case opSel:
			switch {
			case res[i].err != r2.err:
				key += cls
				if r2.err {
					key += ".replay_rejects"
				} else {
					key += ".replay_accepts"
				}
			default:
				x, y := res[i].items, r2.items
				j := 0
				for j < len(x) && j < len(y) && x[j] == y[j] {
					j++
				}
				side, name, named := "", "", true
				switch {
				case j < len(x) && j < len(y) && x[j].k == y[j].k:
					side, name = "value_differs", x[j].k
				case j < len(x) && (j >= len(y) || x[j].k < y[j].k):
					side, name = "replay_misses", x[j].k
				case j < len(y):
					side, name = "replay_yields_extra", y[j].k
				default:
					side, named = "iterator_state_differs", false
				}
				src := ""
				if named {
					_, _, _, src = rs.status(bkt, name)
				}
				if src != "never_written" {
					// a never-written key can only come from its empty-version
					// read-set entry, whatever the bounds
					key += cls
				}
				key += "." + side
				if src != "" {
					key += "." + src + "_key"
				}
				if named {
					key += u.keySuffix(name)
				}
			}
		}
		add(key, where(i)+": re-running the same calls over the recorded read set gives another result", a, b)
		return fs, panicAt
	}
	flushed = true
	func() {
		defer func() {
			if x := recover(); x != nil {
				flushed = false
				add("c10.replay.flush_panics", whole.s()+": Flush panicked on replay: "+fmt.Sprint(x), "ok", "panic")
			}
		}()
		if err := sb2.Flush(); err != nil {
			flushed = false
			add("c10.replay.flush_rejected", whole.s()+": Flush on replay: "+err.Error(), "ok", "error")
		}
	}()
	if !flushed {
		return fs, panicAt
	}
	rw2 := sb2.RWSet()
	gotW2, _ := wsetMap(rw2.WSet)
	if !sameStringMap(gotW, gotW2) {
		add("c10.replay.write_set_differs", whole.s()+": re-running over the read set gives another write set", describeWSet(u, gotW), describeWSet(u, gotW2))
	}
	urw2 := sb2.UTXORWSet()
	ctx := ""
	if len(rf.refused) > 0 {
		ctx = ".with_refused_transfer"
	}
	if !sameInputs(urw.Rset, urw2.Rset) {
		add("c10.replay.utxo_inputs_differ"+ctx, whole.s()+": re-running over the recorded token inputs selects other token inputs", describeUtxoIns(urw.Rset), describeUtxoIns(urw2.Rset))
	}
	if !sameOutputs(urw.WSet, urw2.WSet) {
		add("c10.replay.utxo_outputs_differ"+ctx, whole.s()+": re-running over the recorded token inputs gives other token outputs", describeUtxoOuts(urw.WSet), describeUtxoOuts(urw2.WSet))
	}
	return fs, panicAt
}

func sameStringMap(a, b map[string]string) bool {
	if len(a) != len(b) {
		return false
	}
	for k, v := range a {
		if w, ok := b[k]; !ok || w != v {
			return false
		}
	}
	return true
}
