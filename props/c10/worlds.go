package c10

import (
	"bytes"
	"fmt"
	"math/big"
	"strings"

	pb "github.com/xuperchain/xupercore/bcs/ledger/xledger/xldgpb"
	"github.com/xuperchain/xupercore/kernel/contract"
	"github.com/xuperchain/xupercore/protos"
	"github.com/xuperchain/xupercore/verifshim/vhook"

	"verif/world"
)

// Key status in the backing store.
const (
	stAbsent  = 0 // never written
	stLive    = 1 // written in a committed block
	stDeleted = 2 // written in one block, deleted in the next
)

// the three keys of the model and the four bound letters
var keyNames = [3]string{"a", "b", "c"}

// the buckets: vb holds the backing state, vb2 is empty in the store, the
// transient bucket never persists.
const (
	bktMain      = "vb"
	bktEmpty     = "vb2"
	bktTransient = "$transient"
)

var bucketNames = [3]string{bktMain, bktEmpty, bktTransient}

// backing is one assignment {absent, live, deleted}^3 to (a,b,c) in bucket vb.
type backing [3]uint8

func (b backing) String() string {
	s := ""
	for _, x := range b {
		s += string("-LD"[x])
	}
	return s
}

func (b backing) index() int { return int(b[0])*9 + int(b[1])*3 + int(b[2]) }

func backingOf(i int) backing { return backing{uint8(i / 9 % 3), uint8(i / 3 % 3), uint8(i % 3)} }

func parseBacking(s string) (backing, error) {
	var b backing
	if len(s) != 3 {
		return b, fmt.Errorf("backing %q: want 3 letters over -LD", s)
	}
	for i := 0; i < 3; i++ {
		p := strings.IndexByte("-LD", s[i])
		if p < 0 {
			return b, fmt.Errorf("backing %q: want 3 letters over -LD", s)
		}
		b[i] = uint8(p)
	}
	return b, nil
}

// liveValue is the committed value of key i when it is live.
func liveValue(i int) string { return string(rune('1' + i)) }

// version of a key as the backing store must report it.
type version struct {
	txid   []byte
	offset int32
}

func (v version) String() string {
	if v.txid == nil {
		return "<empty>"
	}
	return fmt.Sprintf("%x.../%d", v.txid[:4], v.offset)
}

// bworld is a real node whose committed state realises one backing.
type bworld struct {
	b       backing
	w       *world.World
	ver     [3]version // version of vb/a, vb/b, vb/c from the transactions that were committed
	unlock  func([]byte)
	utxo    contract.UtxoReader
	nBlocks int
}

// lockingReader delegates to the node's real UTXO reader and remembers which
// outputs it locked, so they can be released after the program (the real
// reader keeps a time-based lock per selected output; without the release
// the result of a Transfer would depend on the programs run before).
type lockingReader struct {
	real   contract.UtxoReader
	locked [][]byte
}

func (l *lockingReader) SelectUtxo(from string, amount *big.Int, lock bool, excl bool) ([]*protos.TxInput, [][]byte, *big.Int, error) {
	ins, keys, total, err := l.real.SelectUtxo(from, amount, lock, excl)
	if err == nil {
		l.locked = append(l.locked, keys...)
	}
	return ins, keys, total, err
}

// buildWorld commits real transactions so that the XModel of the node holds backing b:
//
//	block 1: A splits its genesis output into 10 x 100 (so a Transfer of a small
//	         amount always finds an unlocked output of the same size), B gives C
//	         2 x 2 (a payer that runs out; D holds nothing), B runs the harness
//	         contract "put k v" for every key that is live or deleted
//	block 2: B runs "del k" for every deleted key
//
// The calling goroutine must have called vhook.Capture.
func buildWorld(b backing) (*bworld, error) {
	w, err := world.New(world.DefaultConfig(), world.RegisterVKV)
	if err != nil {
		return nil, err
	}
	bw := &bworld{b: b, w: w}
	root := w.Genesis.Transactions[0]
	parent := w.Genesis
	ts := int64(100)
	block := func(tag string, txs []*pb.Transaction) error {
		for _, t := range txs {
			if err := w.SubmitStrict(world.CloneTx(t)); err != nil {
				return fmt.Errorf("backing %s: tx of block %s refused: %v", b, tag, err)
			}
		}
		ts++
		blk, err := w.FormatBlock("M", parent, txs, ts, tag)
		if err != nil {
			return err
		}
		stored := world.CloneBlock(blk)
		if ok, st := w.Recv(blk); !ok {
			return fmt.Errorf("backing %s: block %s refused: %s", b, tag, st)
		}
		if err := w.State.PlayForMiner(blk.Blockid); err != nil {
			return fmt.Errorf("backing %s: play %s: %v", b, tag, err)
		}
		vhook.Drain()
		parent = stored
		bw.nBlocks++
		return nil
	}
	outs := make([]world.Out, 10)
	for i := range outs {
		outs[i] = world.Out{To: "A", Amount: "100"}
	}
	split := world.BuildTx(world.TxSpec{Initiator: "A", Ins: []world.In{{Tx: root, Offset: 0}}, Outs: outs, Nonce: "split"})
	// B funds the payers of the model other than A out of its genesis output
	// (payers[i].nOut outputs of payers[i].size each); the rest returns to B
	// and pays the fees of the harness-contract transactions below
	var fundOuts []world.Out
	rest := new(big.Int).SetBytes(root.TxOutputs[1].Amount)
	for _, p := range payers[1:] {
		for i := 0; i < p.nOut; i++ {
			fundOuts = append(fundOuts, world.Out{To: p.name, Amount: fmt.Sprint(p.size)})
			rest.Sub(rest, big.NewInt(int64(p.size)))
		}
	}
	fundOuts = append(fundOuts, world.Out{To: "B", Amount: rest.String()})
	fund := world.BuildTx(world.TxSpec{Initiator: "B", Ins: []world.In{{Tx: root, Offset: 1}}, Outs: fundOuts, Nonce: "fund"})
	var puts, dels []string
	for i, st := range b {
		if st != stAbsent {
			puts = append(puts, fmt.Sprintf("put %s %s", keyNames[i], liveValue(i)))
		}
		if st == stDeleted {
			dels = append(dels, "del "+keyNames[i])
		}
	}
	b1 := []*pb.Transaction{split, fund}
	var putTx, delTx *pb.Transaction
	if len(puts) > 0 {
		// read set: every key at its empty version; write set: the values
		var ins []*protos.TxInputExt
		var outs []*protos.TxOutputExt
		for i, st := range b {
			if st != stAbsent {
				ins = append(ins, &protos.TxInputExt{Bucket: bktMain, Key: []byte(keyNames[i])})
				outs = append(outs, &protos.TxOutputExt{Bucket: bktMain, Key: []byte(keyNames[i]), Value: []byte(liveValue(i))})
			}
		}
		putTx, err = kvTx(w, "B", strings.Join(puts, ";"), world.In{Tx: fund, Offset: len(fundOuts) - 1}, "c10-put", ins, outs)
		if err != nil {
			return nil, err
		}
		b1 = append(b1, putTx)
	}
	if err := block("b1", b1); err != nil {
		return nil, err
	}
	if len(dels) > 0 {
		var ins []*protos.TxInputExt
		var outs []*protos.TxOutputExt
		for i, st := range b {
			if st == stDeleted {
				off := -1
				for j, o := range putTx.TxOutputsExt {
					if string(o.Key) == keyNames[i] {
						off = j
					}
				}
				ins = append(ins, &protos.TxInputExt{Bucket: bktMain, Key: []byte(keyNames[i]), RefTxid: putTx.Txid, RefOffset: int32(off)})
				outs = append(outs, &protos.TxOutputExt{Bucket: bktMain, Key: []byte(keyNames[i]), Value: []byte(delMarker)})
			}
		}
		delTx, err = kvTx(w, "B", strings.Join(dels, ";"), world.In{Tx: putTx, Offset: len(putTx.TxOutputs) - 1}, "c10-del", ins, outs)
		if err != nil {
			return nil, err
		}
		if err := block("b2", []*pb.Transaction{delTx}); err != nil {
			return nil, err
		}
	}
	// the version every key must be reported with: position of the key in the
	// outputs of the transaction that wrote it last
	find := func(tx *pb.Transaction, k string) (version, error) {
		for i, o := range tx.TxOutputsExt {
			if o.Bucket == bktMain && string(o.Key) == k {
				return version{txid: tx.Txid, offset: int32(i)}, nil
			}
		}
		return version{}, fmt.Errorf("backing %s: key %s not among the outputs of its writer", b, k)
	}
	rd := w.State.CreateXMReader()
	for i, st := range b {
		switch st {
		case stLive:
			bw.ver[i], err = find(putTx, keyNames[i])
		case stDeleted:
			bw.ver[i], err = find(delTx, keyNames[i])
		}
		if err != nil {
			return nil, err
		}
		// fixture sanity: the store agrees with what was committed
		vd, err := rd.Get(bktMain, []byte(keyNames[i]))
		if err != nil {
			return nil, fmt.Errorf("backing %s: store Get(%s): %v", b, keyNames[i], err)
		}
		if !bytes.Equal(vd.RefTxid, bw.ver[i].txid) || vd.RefOffset != bw.ver[i].offset {
			return nil, fmt.Errorf("backing %s: store reports version %x/%d for %s, committed %s", b, vd.RefTxid, vd.RefOffset, keyNames[i], bw.ver[i])
		}
		val := string(vd.GetPureData().GetValue())
		switch st {
		case stAbsent:
			if vd.RefTxid != nil || val != "" {
				return nil, fmt.Errorf("backing %s: never-written key %s has a version", b, keyNames[i])
			}
		case stLive:
			if val != liveValue(i) {
				return nil, fmt.Errorf("backing %s: key %s = %q", b, keyNames[i], val)
			}
		case stDeleted:
			if val != delMarker {
				return nil, fmt.Errorf("backing %s: deleted key %s = %q", b, keyNames[i], val)
			}
		}
	}
	// fixture sanity: every payer holds what the model says
	for _, p := range payers {
		bal, err := w.State.GetBalance(world.Addr(p.name))
		if err != nil {
			return nil, fmt.Errorf("backing %s: balance of %s: %v", b, p.name, err)
		}
		if bal.Cmp(big.NewInt(int64(p.balance()))) != 0 {
			return nil, fmt.Errorf("backing %s: %s holds %s, the model says %d", b, p.name, bal, p.balance())
		}
	}
	bw.utxo = w.State.CreateUtxoReader()
	u, ok := bw.utxo.(interface{ UnlockKey([]byte) })
	if !ok {
		return nil, fmt.Errorf("the node's UTXO reader has no UnlockKey")
	}
	bw.unlock = u.UnlockKey
	return bw, nil
}

// kvTx assembles a harness-contract transaction whose read / write set is
// given by the caller (not taken from a pre-execution: the fixture must not
// depend on the sandbox under test); pre-execution only supplies the resource
// limits of the request. The fee is paid from `in`, change returns to the initiator.
func kvTx(w *world.World, initiator, prog string, in world.In, nonce string, ins []*protos.TxInputExt, outs []*protos.TxOutputExt) (*pb.Transaction, error) {
	addr := world.Addr(initiator)
	pre, err := w.PreExec([]*protos.InvokeRequest{world.VKVRequest(prog)}, addr, []string{addr})
	if err != nil {
		return nil, err
	}
	total := new(big.Int).SetBytes(in.Tx.TxOutputs[in.Offset].Amount)
	fee := big.NewInt(pre.GasUsed)
	change := new(big.Int).Sub(total, fee)
	if change.Sign() <= 0 {
		return nil, fmt.Errorf("fee input %s does not cover fee %s", total, fee)
	}
	var o []world.Out
	if fee.Sign() > 0 {
		o = append(o, world.Out{To: "$", Amount: fee.String()})
	}
	o = append(o, world.Out{To: initiator, Amount: change.String()})
	return world.BuildTx(world.TxSpec{Initiator: initiator, Ins: []world.In{in}, Outs: o, Nonce: nonce, Requests: pre.Requests, InputsExt: ins, OutputsExt: outs}), nil
}

// newSandbox returns a sandbox over the node's real XModel and UTXO reader.
func (bw *bworld) newSandbox() (contract.StateSandbox, *lockingReader, error) {
	lr := &lockingReader{real: bw.utxo}
	sb, err := bw.w.Chain.Contract.NewStateSandbox(&contract.SandboxConfig{XMReader: bw.w.State.CreateXMReader(), UTXOReader: lr})
	return sb, lr, err
}

func (bw *bworld) release(lr *lockingReader) {
	for _, k := range lr.locked {
		bw.unlock(k)
	}
	lr.locked = nil
}

// worldSet is the 27 backing worlds of one worker goroutine.
type worldSet [27]*bworld

func buildWorldSet() (*worldSet, error) {
	ws := &worldSet{}
	for i := 0; i < 27; i++ {
		bw, err := buildWorld(backingOf(i))
		if err != nil {
			return nil, err
		}
		ws[i] = bw
	}
	return ws, nil
}

func (ws *worldSet) drop() {
	for _, bw := range ws {
		if bw != nil {
			bw.w.Drop()
		}
	}
}
