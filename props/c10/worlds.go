package c10

import (
	"bytes"
	"fmt"
	"math/big"
	"strconv"
	"strings"

	pb "github.com/xuperchain/xupercore/bcs/ledger/xledger/xldgpb"
	"github.com/xuperchain/xupercore/kernel/contract"
	"github.com/xuperchain/xupercore/protos"
	"github.com/xuperchain/xupercore/verifshim/vhook"

	"verif/world"
)

// Key status in the backing store.
const (
	stAbsent  = 0 // never written
	stLive    = 1 // written in a committed block
	stDeleted = 2 // written in one block, deleted in the next
)

// maxKeys is the largest number of keys a universe names.
const maxKeys = 6

// universe is one key alphabet of the model: the keys the calls name (and the
// committed state holds, in bucket vb) and the bounds a scan can carry.
//
//	keys   ascending in byte order
//	bounds [0] is a nil slice, [1] an empty non-nil slice, [2:] ascend in byte
//	       order and hold every non-empty key plus one bound beyond the last key
//
// Universe "abc" is the plain alphabet (letters a b c, bounds a b c d). The
// other universes hold the keys at the edges of the byte order and of the
// bucket/key encoding ("boundary keys"): the empty key (a legal key, the
// smallest of its bucket, raw key "vb/"), a chain of strict prefixes ("a",
// "a\x00", "ab"), the bytes 0x00 and 0xff, and the character "/" that
// separates bucket and key in the raw key (alone: raw key "vb//"; inside a key
// whose first component is another key: "a/b" next to "a").
type universe struct {
	idx        uint8
	name       string
	keys       []string
	bounds     [][]byte
	btok       []string // how the bounds are written in a program
	ktok       []string // how the keys are written in a program
	quoted     bool     // keys and bounds are written as Go string literals
	emptyIsKey bool     // "" is a key of the universe
	nilSpelled bool     // Get / Put / Del pass the empty key as a nil slice (written nil), not as an empty one
}

func newUniverse(idx uint8, name string, quoted bool, keys []string, beyond string, nilSpelled bool) *universe {
	u := &universe{idx: idx, name: name, keys: keys, quoted: quoted, nilSpelled: nilSpelled}
	u.bounds = [][]byte{nil, {}}
	u.btok = []string{"nil", `""`}
	for _, k := range keys {
		if k == "" {
			u.emptyIsKey = true
			if nilSpelled {
				u.ktok = append(u.ktok, "nil")
			} else {
				u.ktok = append(u.ktok, u.show(k))
			}
			continue
		}
		u.ktok = append(u.ktok, u.show(k))
		u.bounds = append(u.bounds, []byte(k))
		u.btok = append(u.btok, u.show(k))
	}
	u.bounds = append(u.bounds, []byte(beyond))
	u.btok = append(u.btok, u.show(beyond))
	if len(keys) > maxKeys {
		panic("c10: universe " + name + ": too many keys")
	}
	for i := 1; i < len(keys); i++ {
		if keys[i-1] >= keys[i] {
			panic("c10: universe " + name + ": keys do not ascend")
		}
	}
	for i := 2; i < len(u.bounds); i++ {
		if bytes.Compare(u.bounds[i-1], u.bounds[i]) >= 0 {
			panic("c10: universe " + name + ": bounds do not ascend")
		}
	}
	return u
}

// show renders a key / bound of the universe (never contains white space).
func (u *universe) show(k string) string {
	if u.quoted {
		return strconv.Quote(k)
	}
	return k
}

func (u *universe) nBackings() int {
	n := 1
	for range u.keys {
		n *= 3
	}
	return n
}

func (u *universe) keyIndex(k string) int { return indexOf(u.keys, k) }

// keyBytes is the slice a Get / Put / Del of key k passes: []byte("") is an
// empty non-nil slice; the empty key of a nilSpelled universe is a nil slice
// (how an empty key arrives through the contract bridge: the wire format does
// not keep an empty byte string). Both name the same row, raw key "vb/".
func (u *universe) keyBytes(k int) []byte {
	if u.nilSpelled && u.keys[k] == "" {
		return nil
	}
	return []byte(u.keys[k])
}

// keyClass names what kind of boundary a key is (goes into violation keys of
// the boundary universes, so that a defect around the empty key gets another
// key than one around, say, the separator).
func keyClass(k string) string {
	switch {
	case k == "":
		return "empty_key"
	case strings.Contains(k, "/"):
		return "key_with_separator"
	case strings.Contains(k, "\x00"):
		return "key_with_0x00"
	case strings.Contains(k, "\xff"):
		return "key_with_0xff"
	}
	return "plain_key"
}

var (
	uABC = newUniverse(0, "abc", false, []string{"a", "b", "c"}, "d", false)
	// the empty key and a chain of strict prefixes through the byte 0x00
	uEmptyPrefix = newUniverse(1, "empty_prefix", true, []string{"", "a", "a\x00", "ab"}, "b", false)
	// the bucket/key separator (alone and after another key) and the byte 0xff
	uSepHigh = newUniverse(2, "separator_0xff", true, []string{"/", "a", "a/b", "\xff"}, "\xff\xff", false)
	// all boundary keys at once (thorough tier)
	uBoundary6 = newUniverse(3, "boundary6", true, []string{"", "/", "a", "a\x00", "a/b", "\xff"}, "\xff\xff", false)
	// the empty key passed as a nil slice
	uNilKey = newUniverse(4, "nil_key", true, []string{"", "a", "b"}, "c", true)

	universes = []*universe{uABC, uEmptyPrefix, uSepHigh, uBoundary6, uNilKey}
)

func universeByName(name string) *universe {
	if name == "" {
		return uABC
	}
	for _, u := range universes {
		if u.name == name {
			return u
		}
	}
	return nil
}

// the buckets: vb holds the backing state, vb2 is empty in the store (its
// name extends the name of vb: rows of one must never show in the other), the
// transient bucket never persists.
const (
	bktMain      = "vb"
	bktEmpty     = "vb2"
	bktTransient = "$transient"
)

var bucketNames = [3]string{bktMain, bktEmpty, bktTransient}

// backing is one assignment {absent, live, deleted}^n to the keys of a universe in bucket vb.
type backing struct {
	u  *universe
	st [maxKeys]uint8
}

func (b backing) String() string {
	s := ""
	for i := range b.u.keys {
		s += string("-LD"[b.st[i]])
	}
	return s
}

func (b backing) index() int {
	x := 0
	for i := range b.u.keys {
		x = x*3 + int(b.st[i])
	}
	return x
}

func backingOf(u *universe, idx int) backing {
	b := backing{u: u}
	for i := len(u.keys) - 1; i >= 0; i-- {
		b.st[i] = uint8(idx % 3)
		idx /= 3
	}
	return b
}

func parseBacking(u *universe, s string) (backing, error) {
	b := backing{u: u}
	bad := fmt.Errorf("backing %q: want %d letters over -LD", s, len(u.keys))
	if len(s) != len(u.keys) {
		return b, bad
	}
	for i := range u.keys {
		p := strings.IndexByte("-LD", s[i])
		if p < 0 {
			return b, bad
		}
		b.st[i] = uint8(p)
	}
	return b, nil
}

// liveValue is the committed value of key i when it is live.
func liveValue(i int) string { return string(rune('1' + i)) }

// version of a key as the backing store must report it.
type version struct {
	txid   []byte
	offset int32
}

func (v version) String() string {
	if v.txid == nil {
		return "<empty>"
	}
	return fmt.Sprintf("%x.../%d", v.txid[:4], v.offset)
}

// bworld is a real node whose committed state realises one backing.
type bworld struct {
	b       backing
	w       *world.World
	ver     [maxKeys]version // version of every key of the universe in vb, from the transactions that were committed
	unlock  func([]byte)
	utxo    contract.UtxoReader
	nBlocks int
	// where the chain of the fixture ends (a fork commits one more block on a
	// copy of the stores, see moving.go): the tip, its timestamp, the
	// transaction whose last output is the rest of B's funds
	tip   *pb.InternalBlock
	ts    int64
	feeTx *pb.Transaction
}

// block submits txs, packs them into the next block of the fixture chain and
// plays it.
func (bw *bworld) block(tag string, txs []*pb.Transaction) error {
	w, u, b := bw.w, bw.b.u, bw.b
	for _, t := range txs {
		if err := w.SubmitStrict(world.CloneTx(t)); err != nil {
			return fmt.Errorf("universe %s backing %s: tx of block %s refused: %v", u.name, b, tag, err)
		}
	}
	bw.ts++
	blk, err := w.FormatBlock("M", bw.tip, txs, bw.ts, tag)
	if err != nil {
		return err
	}
	stored := world.CloneBlock(blk)
	if ok, st := w.Recv(blk); !ok {
		return fmt.Errorf("universe %s backing %s: block %s refused: %s", u.name, b, tag, st)
	}
	if err := w.State.PlayForMiner(blk.Blockid); err != nil {
		return fmt.Errorf("universe %s backing %s: play %s: %v", u.name, b, tag, err)
	}
	vhook.Drain()
	bw.tip = stored
	bw.nBlocks++
	return nil
}

// lockingReader delegates to the node's real UTXO reader and remembers which
// outputs it locked, so they can be released after the program (the real
// reader keeps a time-based lock per selected output; without the release
// the result of a Transfer would depend on the programs run before).
type lockingReader struct {
	real   contract.UtxoReader
	locked [][]byte
}

func (l *lockingReader) SelectUtxo(from string, amount *big.Int, lock bool, excl bool) ([]*protos.TxInput, [][]byte, *big.Int, error) {
	ins, keys, total, err := l.real.SelectUtxo(from, amount, lock, excl)
	if err == nil {
		l.locked = append(l.locked, keys...)
	}
	return ins, keys, total, err
}

// rawKVContract is a second harness kernel contract: the statement language of
// $vkv splits its program at white space and cannot name the empty key, so the
// boundary universes commit their backing state through this one. Arguments:
// "ops" one byte per write ('p' put, 'd' delete), "k<i>" the key after one
// filler byte (an argument that is empty does not survive the wire format),
// "v<i>" the value of a put. It writes bucket vb in index order.
const rawKVContract = "$c10kv"

func rawKVRun(ctx contract.KContext) (*contract.Response, error) {
	args := ctx.Args()
	ops := args["ops"]
	for i, o := range ops {
		k := args[fmt.Sprintf("k%d", i)]
		if len(k) < 1 {
			return nil, fmt.Errorf("%s: no key %d", rawKVContract, i)
		}
		key := append([]byte{}, k[1:]...) // empty key: an empty slice, not nil
		var err error
		switch o {
		case 'p':
			err = ctx.Put(bktMain, key, args[fmt.Sprintf("v%d", i)])
		case 'd':
			err = ctx.Del(bktMain, key)
		default:
			err = fmt.Errorf("%s: bad op %q", rawKVContract, o)
		}
		if err != nil {
			return nil, err
		}
	}
	ctx.AddResourceUsed(contract.Limits{XFee: int64(len(ops))})
	return &contract.Response{Status: 200}, nil
}

func registerKernel(m contract.Manager) {
	world.RegisterVKV(m)
	m.GetKernRegistry().RegisterKernMethod(rawKVContract, "run", rawKVRun)
}

// writeRequest is the harness-contract call that puts (with liveValue) or
// deletes the given keys of b's universe: $vkv for the plain universe (as
// before the boundary universes existed), $c10kv for the others.
func writeRequest(u *universe, keys []int, del bool) *protos.InvokeRequest {
	if !u.quoted {
		var st []string
		for _, i := range keys {
			if del {
				st = append(st, "del "+u.keys[i])
			} else {
				st = append(st, fmt.Sprintf("put %s %s", u.keys[i], liveValue(i)))
			}
		}
		return world.VKVRequest(strings.Join(st, ";"))
	}
	args := map[string][]byte{}
	var ops []byte
	for n, i := range keys {
		args[fmt.Sprintf("k%d", n)] = append([]byte{'k'}, u.keys[i]...)
		if del {
			ops = append(ops, 'd')
		} else {
			ops = append(ops, 'p')
			args[fmt.Sprintf("v%d", n)] = []byte(liveValue(i))
		}
	}
	args["ops"] = ops
	return &protos.InvokeRequest{ModuleName: "xkernel", ContractName: rawKVContract, MethodName: "run", Args: args}
}

// buildWorld commits real transactions so that the XModel of the node holds backing b:
//
//	block 1: A splits its genesis output into 10 x 100 (so a Transfer of a small
//	         amount always finds an unlocked output of the same size), B gives C
//	         2 x 2 (a payer that runs out; D holds nothing), B runs the harness
//	         contract "put k v" for every key that is live or deleted
//	block 2: B runs "del k" for every deleted key
//
// The calling goroutine must have called vhook.Capture.
func buildWorld(b backing) (*bworld, error) {
	u := b.u
	w, err := world.New(world.DefaultConfig(), registerKernel)
	if err != nil {
		return nil, err
	}
	bw := &bworld{b: b, w: w}
	root := w.Genesis.Transactions[0]
	bw.tip, bw.ts = w.Genesis, 100
	block := bw.block
	outs := make([]world.Out, 10)
	for i := range outs {
		outs[i] = world.Out{To: "A", Amount: "100"}
	}
	split := world.BuildTx(world.TxSpec{Initiator: "A", Ins: []world.In{{Tx: root, Offset: 0}}, Outs: outs, Nonce: "split"})
	// B funds the payers of the model other than A out of its genesis output
	// (payers[i].nOut outputs of payers[i].size each); the rest returns to B
	// and pays the fees of the harness-contract transactions below
	var fundOuts []world.Out
	rest := new(big.Int).SetBytes(root.TxOutputs[1].Amount)
	for _, p := range payers[1:] {
		for i := 0; i < p.nOut; i++ {
			fundOuts = append(fundOuts, world.Out{To: p.name, Amount: fmt.Sprint(p.size)})
			rest.Sub(rest, big.NewInt(int64(p.size)))
		}
	}
	fundOuts = append(fundOuts, world.Out{To: "B", Amount: rest.String()})
	fund := world.BuildTx(world.TxSpec{Initiator: "B", Ins: []world.In{{Tx: root, Offset: 1}}, Outs: fundOuts, Nonce: "fund"})
	var puts, dels []int
	for i := range u.keys {
		if b.st[i] != stAbsent {
			puts = append(puts, i)
		}
		if b.st[i] == stDeleted {
			dels = append(dels, i)
		}
	}
	b1 := []*pb.Transaction{split, fund}
	bw.feeTx = fund
	var putTx, delTx *pb.Transaction
	if len(puts) > 0 {
		// read set: every key at its empty version; write set: the values
		var ins []*protos.TxInputExt
		var outs []*protos.TxOutputExt
		for _, i := range puts {
			ins = append(ins, &protos.TxInputExt{Bucket: bktMain, Key: []byte(u.keys[i])})
			outs = append(outs, &protos.TxOutputExt{Bucket: bktMain, Key: []byte(u.keys[i]), Value: []byte(liveValue(i))})
		}
		putTx, err = kvTx(w, "B", writeRequest(u, puts, false), world.In{Tx: fund, Offset: len(fundOuts) - 1}, "c10-put", ins, outs)
		if err != nil {
			return nil, err
		}
		b1 = append(b1, putTx)
		bw.feeTx = putTx
	}
	if err := block("b1", b1); err != nil {
		return nil, err
	}
	if len(dels) > 0 {
		var ins []*protos.TxInputExt
		var outs []*protos.TxOutputExt
		for _, i := range dels {
			off := -1
			for j, o := range putTx.TxOutputsExt {
				if string(o.Key) == u.keys[i] {
					off = j
				}
			}
			ins = append(ins, &protos.TxInputExt{Bucket: bktMain, Key: []byte(u.keys[i]), RefTxid: putTx.Txid, RefOffset: int32(off)})
			outs = append(outs, &protos.TxOutputExt{Bucket: bktMain, Key: []byte(u.keys[i]), Value: []byte(delMarker)})
		}
		delTx, err = kvTx(w, "B", writeRequest(u, dels, true), world.In{Tx: putTx, Offset: len(putTx.TxOutputs) - 1}, "c10-del", ins, outs)
		if err != nil {
			return nil, err
		}
		if err := block("b2", []*pb.Transaction{delTx}); err != nil {
			return nil, err
		}
		bw.feeTx = delTx
	}
	// the version every key must be reported with: position of the key in the
	// outputs of the transaction that wrote it last
	find := func(tx *pb.Transaction, k string) (version, error) {
		for i, o := range tx.TxOutputsExt {
			if o.Bucket == bktMain && string(o.Key) == k {
				return version{txid: tx.Txid, offset: int32(i)}, nil
			}
		}
		return version{}, fmt.Errorf("universe %s backing %s: key %s not among the outputs of its writer", u.name, b, u.show(k))
	}
	rd := w.State.CreateXMReader()
	for i, k := range u.keys {
		st := b.st[i]
		switch st {
		case stLive:
			bw.ver[i], err = find(putTx, k)
		case stDeleted:
			bw.ver[i], err = find(delTx, k)
		}
		if err != nil {
			return nil, err
		}
		// fixture sanity: the store agrees with what was committed
		vd, err := rd.Get(bktMain, []byte(k))
		if err != nil {
			return nil, fmt.Errorf("universe %s backing %s: store Get(%s): %v", u.name, b, u.show(k), err)
		}
		if !bytes.Equal(vd.RefTxid, bw.ver[i].txid) || vd.RefOffset != bw.ver[i].offset {
			return nil, fmt.Errorf("universe %s backing %s: store reports version %x/%d for %s, committed %s", u.name, b, vd.RefTxid, vd.RefOffset, u.show(k), bw.ver[i])
		}
		val := string(vd.GetPureData().GetValue())
		switch st {
		case stAbsent:
			if vd.RefTxid != nil || val != "" {
				return nil, fmt.Errorf("universe %s backing %s: never-written key %s has a version", u.name, b, u.show(k))
			}
		case stLive:
			if val != liveValue(i) {
				return nil, fmt.Errorf("universe %s backing %s: key %s = %q", u.name, b, u.show(k), val)
			}
		case stDeleted:
			if val != delMarker {
				return nil, fmt.Errorf("universe %s backing %s: deleted key %s = %q", u.name, b, u.show(k), val)
			}
		}
	}
	// fixture sanity: every payer holds what the model says
	for _, p := range payers {
		bal, err := w.State.GetBalance(world.Addr(p.name))
		if err != nil {
			return nil, fmt.Errorf("backing %s: balance of %s: %v", b, p.name, err)
		}
		if bal.Cmp(big.NewInt(int64(p.balance()))) != 0 {
			return nil, fmt.Errorf("backing %s: %s holds %s, the model says %d", b, p.name, bal, p.balance())
		}
	}
	bw.utxo = w.State.CreateUtxoReader()
	ur, ok := bw.utxo.(interface{ UnlockKey([]byte) })
	if !ok {
		return nil, fmt.Errorf("the node's UTXO reader has no UnlockKey")
	}
	bw.unlock = ur.UnlockKey
	return bw, nil
}

// kvTx assembles a harness-contract transaction whose read / write set is
// given by the caller (not taken from a pre-execution: the fixture must not
// depend on the sandbox under test); pre-execution only supplies the resource
// limits of the request. The fee is paid from `in`, change returns to the initiator.
func kvTx(w *world.World, initiator string, req *protos.InvokeRequest, in world.In, nonce string, ins []*protos.TxInputExt, outs []*protos.TxOutputExt) (*pb.Transaction, error) {
	addr := world.Addr(initiator)
	pre, err := w.PreExec([]*protos.InvokeRequest{req}, addr, []string{addr})
	if err != nil {
		return nil, err
	}
	total := new(big.Int).SetBytes(in.Tx.TxOutputs[in.Offset].Amount)
	fee := big.NewInt(pre.GasUsed)
	change := new(big.Int).Sub(total, fee)
	if change.Sign() <= 0 {
		return nil, fmt.Errorf("fee input %s does not cover fee %s", total, fee)
	}
	var o []world.Out
	if fee.Sign() > 0 {
		o = append(o, world.Out{To: "$", Amount: fee.String()})
	}
	o = append(o, world.Out{To: initiator, Amount: change.String()})
	return world.BuildTx(world.TxSpec{Initiator: initiator, Ins: []world.In{in}, Outs: o, Nonce: nonce, Requests: pre.Requests, InputsExt: ins, OutputsExt: outs}), nil
}

// newSandbox returns a sandbox over the node's real XModel and UTXO reader.
func (bw *bworld) newSandbox() (contract.StateSandbox, *lockingReader, error) {
	lr := &lockingReader{real: bw.utxo}
	sb, err := bw.w.Chain.Contract.NewStateSandbox(&contract.SandboxConfig{XMReader: bw.w.State.CreateXMReader(), UTXOReader: lr})
	return sb, lr, err
}

func (bw *bworld) release(lr *lockingReader) {
	for _, k := range lr.locked {
		bw.unlock(k)
	}
	lr.locked = nil
}

// worldCache holds the backing worlds one worker goroutine has built: a world
// is built when the worker first runs a program on that backing. The 27 worlds
// of the plain universe stay for the whole run; the worlds of the other
// universes are dropped when more than worldCacheCap of them are held.
type worldCache struct {
	m map[worldID]*bworld
}

type worldID struct {
	u  uint8
	bi int
}

const worldCacheCap = 200

func newWorldCache() *worldCache { return &worldCache{m: map[worldID]*bworld{}} }

func (c *worldCache) get(u *universe, bi int) (*bworld, error) {
	id := worldID{u.idx, bi}
	if bw := c.m[id]; bw != nil {
		return bw, nil
	}
	if len(c.m) >= worldCacheCap {
		for k, bw := range c.m {
			if k.u != uABC.idx {
				bw.w.Drop()
				delete(c.m, k)
			}
		}
	}
	bw, err := buildWorld(backingOf(u, bi))
	if err != nil {
		return nil, err
	}
	c.m[id] = bw
	return bw, nil
}

func (c *worldCache) drop() {
	for k, bw := range c.m {
		bw.w.Drop()
		delete(c.m, k)
	}
}
