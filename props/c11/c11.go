package c11

import (
	"encoding/json"
	"fmt"
	"os"
	"time"

	"verif/core"
)

func run(tier core.Tier) *core.Report {
	rep := core.NewReport("C11", tier, "exploration")
	// B first: for a defect visible at both seams the end-to-end history is the kept counterexample
	timed := func(name string, f func(*core.Report, core.Tier)) {
		t0 := time.Now()
		f(rep, tier)
		if os.Getenv("C11_TIMING") != "" {
			fmt.Fprintf(os.Stderr, "c11: part %s %.1fs\n", name, time.Since(t0).Seconds())
		}
	}
	timed("B", runPartB)
	timed("D", runPartD)
	timed("A", runPartA)
	timed("C", runPartC)
	rep.Set("rule", "Part A: index-order enumeration of (rule of the judged object from the box: threshold rules with weights {0,0.4,0.5,1} on every subset of {k1,k2,k3,X2} x accept {0,0.5,1,1.5,2}, key-set rules with <= 2 sets over subsets of the same names) x (nested rule of X2) x (judged object: account X1 / contract method / account X2 where its rule names X1) x (every ordered signer list of size <= 3 over the URI universe; thorough adds every size-4 multiset in three orders); each case goes through aclutils.IdentifyAccount or CheckContractMethodPerm and the by-definition reference, and every (list minus one entry, list) pair is checked for monotonicity. A case is non-trivial when the signer list satisfies at least one member of the judged rule (measured by the reference); cases are distinct tuples by construction. "+
		"Part A, signed-weight box (same seam, same reference, which sums ALL distinct satisfied members exactly): threshold rules with weights {-1,-0.5,0,0.5,1,2} (thorough adds 1e12 and -1e12) x accept {-1,-0.5,0,0.5,1,2} (thorough adds 1e12) (a) as the rule of the judged object on every subset of <= 3 (thorough: all 4) of {k1,k2,k3,X2} x (nested rule of X2: plain, with a veto key) and (b) as the nested rule of X2 on every subset of {k1,k2,k3} x (rule of the judged object: X2 alone under a threshold, X2 alone as a key set, X2 together with a key, X2 as the vetoing member), each x (judged object: account X1 / contract method) x (every ordered signer list of size <= 3, thorough <= 4, over the 8 URIs of the judged object's universe); sums land exactly on, one step below and one step above the accept value (counted). Monotonicity is judged only in configurations without a negative weight. "+
		"Order oracle (both boxes of Part A): the verdict is a function of the SET of signer entries, every enumerated list must get the verdict of the same entries in ascending order (all orders of every list of size <= 3, thorough <= 4 in the signed box, are enumerated). "+
		"Part B: every event sequence of the listed lengths over {SetAccountAcl(new rule, signer choice), SetMethodAcl(signer choice), spend from the account(signer choice), block} on the real chain fixture, each transaction judged at State.VerifyTx against the rule on the confirmed chain; a history is non-trivial when at least one decision was taken while a rule change was still unconfirmed. "+
		"Part C (fault dimension, evaluation seam): the real acl.Manager over a map-backed store, (rule from a coarser sub-box of Part A) x (nested rule) x (judged object) x (every ordered signer list of size <= 2) x (every fault point of the healthy evaluation: call into the AclManager interface, creation of the confirmed-chain snapshot, Get on the snapshot) x (fault mode: that point once / every point from it on; thorough adds every point with the same target); oracle: a faulted evaluation accepts only if the healthy one does; non-trivial = healthy refusals (they stay refused under every fault). "+
		"Part D (request form, initiator, pending creation, faults at State.VerifyTx): (prepared state: the Part B snapshot followed by [], [e] or [e, block] for e in {legitimate SetAccountAcl of X1, NewAccount X2, SetMethodAcl cntr.m naming a key / naming X1, binding cntr2 to X1}; thorough adds [a, b] and [a, b, block] for every ordered pair of distinct events, and repeats the quick states with the initial rule Rc) x (op: SetAccountAcl X1 / X2, SetMethodAcl cntr / cntr2, NewAccount X3, binding cntr3 to X1, spend from X1, call cntr.m) x {(request form: named contract, registry shortcut with empty contract name, $vkv put on the same bucket row) x (alone, after, before an unrelated request) x (signer choice) with initiator D; (initiator string from the listed alphabet) x (signer choice) in the named form (thorough: in every form)}; one transaction is built by PreExec on the state and judged by State.VerifyTx; the permission it needs is derived from its write set / inputs / requests and evaluated by Part A's reference (judged both ways for the usual form with a bare-key initiator, acceptance-only otherwise); each transaction with initiator D and its request alone (thorough: in every position) is verified again with every lookup of the ACL manager failing in turn (same points and modes as Part C), differential against the healthy decision; non-trivial = judged decisions plus healthy refusals that stay refused under every fault")
	rep.Assume("signature verification itself (IdentifyAK / ECDSA) is trusted; Part A takes every listed URI's LAST segment as a verified signer, as State.verifySignatures establishes")
	rep.Assume("signed-weight box: rules with negative / zero / huge weights and accept values <= 0 are evaluated at the IdentifyAccount / CheckContractMethodPerm seam over a map-backed AclManager; whether the $acl kernel contract stores such rules is not part of this box (its validity check does not look at weights)")
	rep.Assume("cases where the statement is silent are observed, not judged: URIs with an empty segment, empty key sets, member accounts without a rule, a key named inside a longer path that also signed elsewhere in the list, float sums landing exactly on the threshold with inexact weights")
	return rep
}

func replay(c json.RawMessage) (bool, string, error) {
	var head struct {
		Part string `json:"part"`
	}
	if err := json.Unmarshal(c, &head); err != nil {
		return false, "", err
	}
	switch head.Part {
	case "A":
		return replayA(c)
	case "B":
		return replayB(c)
	case "C":
		return replayC(c)
	case "D":
		return replayD(c)
	}
	return false, "", fmt.Errorf("c11: unknown case part %q", head.Part)
}

func replayA(raw json.RawMessage) (bool, string, error) {
	var cs caseA
	if err := json.Unmarshal(raw, &cs); err != nil {
		return false, "", err
	}
	c, err := configFromCase(&cs)
	if err != nil {
		return false, "", err
	}
	m := c.manager()
	uris, real, err := parseList(cs.Signers)
	if err != nil {
		return false, "", err
	}
	out, emsg := impl(c, m, real)
	switch cs.Check {
	case "oracle":
		lo, hi, _ := reference(c, uris)
		msg := fmt.Sprintf("%s, signers %v: implementation %s %s, definition lo=%v hi=%v", c.describe(), cs.Signers, outStr(out), emsg, lo, hi)
		if lo != hi {
			return false, msg + " (statement silent: not judged)", nil
		}
		if (out == outAccept) == lo {
			return false, msg, nil
		}
		bad := false
		for _, u := range uris {
			if malformed(u) {
				bad = true
			}
		}
		if bad && out == outError && lo {
			return false, msg + " (malformed URI: observed only)", nil
		}
		return true, classify(c, m, uris, out, lo) + ": " + msg, nil
	case "monotone":
		suris, sreal, err := parseList(cs.Super)
		if err != nil {
			return false, "", err
		}
		sout, semsg := impl(c, m, sreal)
		msg := fmt.Sprintf("%s: signers %v -> %s; with one more entry %v -> %s %s", c.describe(), cs.Signers, outStr(out), cs.Super, outStr(sout), semsg)
		for _, u := range suris {
			if malformed(u) {
				return false, msg + " (malformed URI: observed only)", nil
			}
		}
		if out == outAccept && sout != outAccept {
			return true, "c11.not_monotone: " + msg, nil
		}
		return false, msg, nil
	case "order":
		// every permutation of the listed entries must get the verdict of the list
		msg := fmt.Sprintf("%s: signers %v -> %s", c.describe(), cs.Signers, outStr(out))
		differs := false
		preal := make([]string, len(real))
		permute(len(real), func(perm []int) bool {
			psym := make([]string, len(perm))
			for i, x := range perm {
				preal[i] = real[x]
				psym[i] = cs.Signers[x]
			}
			po, _ := impl(c, m, preal)
			if (po == outAccept) != (out == outAccept) {
				differs = true
				msg += fmt.Sprintf("; the same entries as %v -> %s", psym, outStr(po))
				return false
			}
			return true
		})
		if differs {
			return true, "c11.verdict_depends_on_signer_order: " + msg, nil
		}
		return false, msg + "; every permutation gets the same verdict", nil
	}
	return false, "", fmt.Errorf("c11: unknown check %q", cs.Check)
}

func init() {
	core.Register(&core.Check{ID: "C11", Run: run, Replay: replay})
}
