package c11

import (
	"encoding/json"
	"fmt"
	"os"
	"runtime/pprof"

	"verif/core"
)

func run(tier core.Tier) *core.Report {
	rep := core.NewReport("C11", tier, "exploration")
	if pf := os.Getenv("C11_PROF"); pf != "" {
		f, _ := os.Create(pf)
		pprof.StartCPUProfile(f)
		defer pprof.StopCPUProfile()
	}
	// B first: for a defect visible at both seams the end-to-end history is the kept counterexample
	runPartB(rep, tier)
	runPartA(rep, tier)
	rep.Set("rule", "Part A: index-order enumeration of (rule of the judged account/method from the threshold and key-set boxes) x (nested account rule) x (judged object: account X1 / method / account X2) x (every ordered signer list up to the size bound over the URI universe); a case is non-trivial when at least one member of the judged rule is satisfied by the signer list (measured by the reference evaluator). Part B: every sequence of events up to the depth bound over (SetAccountAcl | SetMethodAcl | spend-from-account) x new rule x signer choice, plus 'block'; a history is non-trivial when at least one change was pending while a later access decision was taken")
	rep.Assume("signature verification itself (IdentifyAK / ECDSA) is trusted; Part A takes every listed URI's LAST segment as a verified signer, as State.verifySignatures establishes")
	rep.Assume("cases where the statement is silent are observed, not judged: URIs with an empty segment, empty key sets, member accounts without a rule, a key named inside a longer path that also signed elsewhere in the list, float sums landing exactly on the threshold with inexact weights")
	return rep
}

func replay(c json.RawMessage) (bool, string, error) {
	var head struct {
		Part string `json:"part"`
	}
	if err := json.Unmarshal(c, &head); err != nil {
		return false, "", err
	}
	switch head.Part {
	case "A":
		return replayA(c)
	case "B":
		return replayB(c)
	}
	return false, "", fmt.Errorf("c11: unknown case part %q", head.Part)
}

func replayA(raw json.RawMessage) (bool, string, error) {
	var cs caseA
	if err := json.Unmarshal(raw, &cs); err != nil {
		return false, "", err
	}
	c, err := configFromCase(&cs)
	if err != nil {
		return false, "", err
	}
	m := c.manager()
	uris, real, err := parseList(cs.Signers)
	if err != nil {
		return false, "", err
	}
	out, emsg := impl(c, m, real)
	switch cs.Check {
	case "oracle":
		lo, hi, _ := reference(c, uris)
		msg := fmt.Sprintf("%s, signers %v: implementation %s %s, definition lo=%v hi=%v", c.describe(), cs.Signers, outStr(out), emsg, lo, hi)
		if lo != hi {
			return false, msg + " (statement silent: not judged)", nil
		}
		if (out == outAccept) == lo {
			return false, msg, nil
		}
		bad := false
		for _, u := range uris {
			if malformed(u) {
				bad = true
			}
		}
		if bad && out == outError && lo {
			return false, msg + " (malformed URI: observed only)", nil
		}
		return true, classify(c, m, uris, out, lo) + ": " + msg, nil
	case "monotone":
		suris, sreal, err := parseList(cs.Super)
		if err != nil {
			return false, "", err
		}
		sout, semsg := impl(c, m, sreal)
		msg := fmt.Sprintf("%s: signers %v -> %s; with one more entry %v -> %s %s", c.describe(), cs.Signers, outStr(out), cs.Super, outStr(sout), semsg)
		for _, u := range suris {
			if malformed(u) {
				return false, msg + " (malformed URI: observed only)", nil
			}
		}
		if out == outAccept && sout != outAccept {
			return true, "c11.not_monotone: " + msg, nil
		}
		return false, msg, nil
	}
	return false, "", fmt.Errorf("c11: unknown check %q", cs.Check)
}

func init() {
	core.Register(&core.Check{ID: "C11", Run: run, Replay: replay})
}
