package c11

import (
	"encoding/json"
	"fmt"

	"verif/core"
)

func run(tier core.Tier) *core.Report {
	rep := core.NewReport("C11", tier, "exploration")
	// B first: for a defect visible at both seams the end-to-end history is the kept counterexample
	runPartB(rep, tier)
	runPartA(rep, tier)
	rep.Set("rule", "Part A: index-order enumeration of (rule of the judged object from the box: threshold rules with weights {0,0.4,0.5,1} on every subset of {k1,k2,k3,X2} x accept {0,0.5,1,1.5,2}, key-set rules with <= 2 sets over subsets of the same names) x (nested rule of X2) x (judged object: account X1 / contract method / account X2 where its rule names X1) x (every ordered signer list of size <= 3 over the URI universe; thorough adds every size-4 multiset in three orders); each case goes through aclutils.IdentifyAccount or CheckContractMethodPerm and the by-definition reference, and every (list minus one entry, list) pair is checked for monotonicity. A case is non-trivial when the signer list satisfies at least one member of the judged rule (measured by the reference); cases are distinct tuples by construction. "+
		"Part B: every event sequence of the listed lengths over {SetAccountAcl(new rule, signer choice), SetMethodAcl(signer choice), spend from the account(signer choice), block} on the real chain fixture, each transaction judged at State.VerifyTx against the rule on the confirmed chain; a history is non-trivial when at least one decision was taken while a rule change was still unconfirmed")
	rep.Assume("signature verification itself (IdentifyAK / ECDSA) is trusted; Part A takes every listed URI's LAST segment as a verified signer, as State.verifySignatures establishes")
	rep.Assume("cases where the statement is silent are observed, not judged: URIs with an empty segment, empty key sets, member accounts without a rule, a key named inside a longer path that also signed elsewhere in the list, float sums landing exactly on the threshold with inexact weights")
	return rep
}

func replay(c json.RawMessage) (bool, string, error) {
	var head struct {
		Part string `json:"part"`
	}
	if err := json.Unmarshal(c, &head); err != nil {
		return false, "", err
	}
	switch head.Part {
	case "A":
		return replayA(c)
	case "B":
		return replayB(c)
	}
	return false, "", fmt.Errorf("c11: unknown case part %q", head.Part)
}

func replayA(raw json.RawMessage) (bool, string, error) {
	var cs caseA
	if err := json.Unmarshal(raw, &cs); err != nil {
		return false, "", err
	}
	c, err := configFromCase(&cs)
	if err != nil {
		return false, "", err
	}
	m := c.manager()
	uris, real, err := parseList(cs.Signers)
	if err != nil {
		return false, "", err
	}
	out, emsg := impl(c, m, real)
	switch cs.Check {
	case "oracle":
		lo, hi, _ := reference(c, uris)
		msg := fmt.Sprintf("%s, signers %v: implementation %s %s, definition lo=%v hi=%v", c.describe(), cs.Signers, outStr(out), emsg, lo, hi)
		if lo != hi {
			return false, msg + " (statement silent: not judged)", nil
		}
		if (out == outAccept) == lo {
			return false, msg, nil
		}
		bad := false
		for _, u := range uris {
			if malformed(u) {
				bad = true
			}
		}
		if bad && out == outError && lo {
			return false, msg + " (malformed URI: observed only)", nil
		}
		return true, classify(c, m, uris, out, lo) + ": " + msg, nil
	case "monotone":
		suris, sreal, err := parseList(cs.Super)
		if err != nil {
			return false, "", err
		}
		sout, semsg := impl(c, m, sreal)
		msg := fmt.Sprintf("%s: signers %v -> %s; with one more entry %v -> %s %s", c.describe(), cs.Signers, outStr(out), cs.Super, outStr(sout), semsg)
		for _, u := range suris {
			if malformed(u) {
				return false, msg + " (malformed URI: observed only)", nil
			}
		}
		if out == outAccept && sout != outAccept {
			return true, "c11.not_monotone: " + msg, nil
		}
		return false, msg, nil
	}
	return false, "", fmt.Errorf("c11: unknown check %q", cs.Check)
}

func init() {
	core.Register(&core.Check{ID: "C11", Run: run, Replay: replay})
}
