// Package c11 holds the check for property C11.
package c11
