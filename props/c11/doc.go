// Package c11 checks property C11 (access-control evaluation is sound, monotone
// and counts each signer once; rule changes are judged against the rule on the
// confirmed chain).
//
// Part A (eval.go): exhaustive enumeration of rules x nested rules x ordered
// signer lists through aclutils.IdentifyAccount / CheckContractMethodPerm over a
// map-backed AclManager, against a by-definition reference evaluator, plus
// monotonicity on every (list, list plus one entry) pair and order independence
// (every enumerated list gets the verdict of the same entries sorted: the verdict
// is a function of the signer set). A second, signed-weight box (signed.go) puts
// negative, zero and huge weights and accept values <= 0 into threshold rules at
// the top level and in the nested account, with sums exactly on / one step off
// the accept value; monotonicity is judged there only without negative weights.
//
// Part B (hist.go): every short history of SetAccountAcl / SetMethodAcl /
// spend-from-account transactions and blocks on the real chain fixture with the
// real $acl kernel contract and ACL manager, judged at State.VerifyTx against
// the rule in force on the confirmed chain.
//
// Part C (fault.go): the fault dimension at the evaluation seam. The real
// acl.Manager over a map-backed store; every lookup of every evaluation (call
// into the AclManager interface, snapshot creation, snapshot Get) fails in turn;
// a faulted evaluation may accept only if the healthy one does.
//
// Part D (forms.go): one judged transaction in every prepared chain state over
// the request form (named contract, registry shortcut with an empty contract
// name, another kernel contract writing the same bucket row; alone / after /
// before an unrelated request), the initiator string (bare key, paths, account,
// empty), pending creation / change of what the transaction depends on, and
// every lookup of the ACL manager failing in turn during State.VerifyTx. The
// permission a transaction needs is derived from its write set, inputs and
// requests and evaluated by Part A's reference.
package c11
