// Package c11 checks property C11 (access-control evaluation is sound, monotone
// and counts each signer once; rule changes are judged against the rule on the
// confirmed chain).
//
// Part A (eval.go): exhaustive enumeration of rules x nested rules x ordered
// signer lists through aclutils.IdentifyAccount / CheckContractMethodPerm over a
// map-backed AclManager, against a by-definition reference evaluator, plus
// monotonicity on every (list, list plus one entry) pair.
//
// Part B (hist.go): every short history of SetAccountAcl / SetMethodAcl /
// spend-from-account transactions and blocks on the real chain fixture with the
// real $acl kernel contract and ACL manager, judged at State.VerifyTx against
// the rule in force on the confirmed chain.
package c11
