package c11

// Part A: exhaustive evaluation of aclutils.IdentifyAccount and
// CheckContractMethodPerm over a map-backed base.AclManager against a
// by-definition reference evaluator.

import (
	"fmt"
	"math"
	"runtime"
	"runtime/debug"
	"sort"
	"strings"
	"sync"

	aclutils "github.com/xuperchain/xupercore/kernel/permission/acl/utils"
	pb "github.com/xuperchain/xupercore/protos"

	"verif/core"
	"verif/world"
)

// ---------------------------------------------------------------------------
// names

const (
	nK1 = iota
	nK2
	nK3
	nX1
	nX2
	nX1x
	nX2x
	nEmpty
	nNames
)

var symName = [nNames]string{"k1", "k2", "k3", "X1", "X2", "X1x", "X2x", ""}
var realName [nNames]string

const (
	acctX1  = "XC1111111111111111@xuper"
	acctX2  = "XC2222222222222222@xuper"
	acctX1x = "XC1111111111111111@xuperx" // X1's full name is a strict prefix of this valid account name
	acctX2x = "XC2222222222222222@xuperx" // the same for X2 (confusable as a child of X1 / of the method)
	// contract / method used for the method-rule evaluations
	evalContract = "cntr"
	evalMethod   = "m"
)

var namesOnce sync.Once

func initNames() {
	namesOnce.Do(func() {
		world.Init()
		realName = [nNames]string{world.Addr("A"), world.Addr("B"), world.Addr("C"), acctX1, acctX2, acctX1x, acctX2x, ""}
		for n := 0; n < nNames; n++ {
			want := 0
			switch n {
			case nX1, nX2, nX1x, nX2x:
				want = 1
			case nEmpty:
				want = -1
			}
			if got := aclutils.IsAccount(realName[n]); got != want {
				core.HarnessError("c11: name %q (%s): IsAccount=%d, the harness assumed %d", realName[n], symName[n], got, want)
			}
		}
		if !strings.HasPrefix(acctX1x, acctX1) || acctX1x == acctX1 || !strings.HasPrefix(acctX2x, acctX2) || acctX2x == acctX2 {
			core.HarnessError("c11: prefix-confusion account is not a strict extension")
		}
	})
}

func isKeyName(n int) bool { return n <= nK3 }

func symToID(s string) (int, error) {
	for i, n := range symName {
		if n == s {
			return i, nil
		}
	}
	return 0, fmt.Errorf("unknown symbolic name %q", s)
}

// parseURI turns a symbolic URI ("X1/k1") into name ids; the split convention
// is the implementation's (strings.Split on "/", so "" is one empty segment).
func parseURI(sym string) ([]int, error) {
	var out []int
	for _, seg := range strings.Split(sym, "/") {
		id, err := symToID(seg)
		if err != nil {
			return nil, err
		}
		out = append(out, id)
	}
	return out, nil
}

func realURI(u []int) string {
	parts := make([]string, len(u))
	for i, n := range u {
		parts[i] = realName[n]
	}
	return strings.Join(parts, "/")
}

func malformed(u []int) bool {
	for _, n := range u {
		if n == nEmpty {
			return true
		}
	}
	return false
}

// ---------------------------------------------------------------------------
// rules

type ruleSpec struct {
	Kind    string             `json:"kind"` // thr | aks | none
	Weights map[string]float64 `json:"weights,omitempty"`
	Accept  float64            `json:"accept"`
	Sets    [][]string         `json:"sets,omitempty"`
}

func (r ruleSpec) String() string {
	switch r.Kind {
	case "none":
		return "none"
	case "thr":
		keys := make([]string, 0, len(r.Weights))
		for k := range r.Weights {
			keys = append(keys, k)
		}
		sort.Strings(keys)
		parts := []string{}
		for _, k := range keys {
			parts = append(parts, fmt.Sprintf("%s:%g", k, r.Weights[k]))
		}
		return fmt.Sprintf("thr{%s}>=%g", strings.Join(parts, ","), r.Accept)
	case "aks":
		parts := []string{}
		for _, s := range r.Sets {
			parts = append(parts, "{"+strings.Join(s, ",")+"}")
		}
		return "aks[" + strings.Join(parts, ",") + "]"
	}
	return "?" + r.Kind
}

// crule is a compiled rule: the reference works on exact tenths.
type crule struct {
	spec    ruleSpec
	kind    int // 0 thr, 1 aks
	member  [nNames]bool
	w10     [nNames]int
	acc10   int
	sets    [][]int
	acl     *pb.Acl
	inexact bool // some weight is not exactly representable (0.4)
	neg     bool // some member weight is negative
}

// tenths converts a weight / accept value (any sign) into exact tenths.
func tenths(f float64) (int, error) {
	t := int(math.Floor(f*10 + 0.5))
	if math.IsNaN(f) || math.IsInf(f, 0) || math.Abs(f) > 1e13 || float64(t)/10 != f {
		return 0, fmt.Errorf("weight/accept %v is not a multiple of 0.1 of magnitude <= 1e13", f)
	}
	return t, nil
}

func compile(spec ruleSpec) (*crule, error) {
	if spec.Kind == "none" {
		return nil, nil
	}
	c := &crule{spec: spec}
	switch spec.Kind {
	case "thr":
		c.kind = 0
		acl := &pb.Acl{Pm: &pb.PermissionModel{Rule: pb.PermissionRule_SIGN_THRESHOLD, AcceptValue: spec.Accept}, AksWeight: map[string]float64{}}
		a, err := tenths(spec.Accept)
		if err != nil {
			return nil, err
		}
		c.acc10 = a
		for s, w := range spec.Weights {
			id, err := symToID(s)
			if err != nil {
				return nil, err
			}
			t, err := tenths(w)
			if err != nil {
				return nil, err
			}
			c.member[id] = true
			c.w10[id] = t
			if t%5 != 0 {
				c.inexact = true
			}
			if t < 0 {
				c.neg = true
			}
			acl.AksWeight[realName[id]] = w
		}
		c.acl = acl
	case "aks":
		c.kind = 1
		acl := &pb.Acl{Pm: &pb.PermissionModel{Rule: pb.PermissionRule_SIGN_AKSET}, AkSets: &pb.AkSets{Sets: map[string]*pb.AkSet{}}}
		for i, set := range spec.Sets {
			ids := []int{}
			real := []string{}
			for _, s := range set {
				id, err := symToID(s)
				if err != nil {
					return nil, err
				}
				ids = append(ids, id)
				real = append(real, realName[id])
				c.member[id] = true
			}
			c.sets = append(c.sets, ids)
			acl.AkSets.Sets[fmt.Sprintf("s%d", i)] = &pb.AkSet{Aks: real}
		}
		c.acl = acl
	default:
		return nil, fmt.Errorf("unknown rule kind %q", spec.Kind)
	}
	return c, nil
}

func mustCompile(spec ruleSpec) *crule {
	c, err := compile(spec)
	if err != nil {
		panic(err)
	}
	return c
}

var boxMembers = []int{nK1, nK2, nK3, nX2}

// ruleBox enumerates the rules of the judged object (account X1 / the method):
// threshold rules with weights from wvals on every subset of {k1,k2,k3,X2} and
// every accept value, then key-set rules with <= 2 sets over subsets of the
// same names.
func ruleBox() []ruleSpec {
	wvals := []float64{0, 0.4, 0.5, 1}
	accepts := []float64{0, 0.5, 1, 1.5, 2}
	var out []ruleSpec
	for mask := 0; mask < 1<<len(boxMembers); mask++ {
		var mem []int
		for i, m := range boxMembers {
			if mask&(1<<i) != 0 {
				mem = append(mem, m)
			}
		}
		n := 1
		for range mem {
			n *= len(wvals)
		}
		for wi := 0; wi < n; wi++ {
			ws := map[string]float64{}
			x := wi
			for _, m := range mem {
				ws[symName[m]] = wvals[x%len(wvals)]
				x /= len(wvals)
			}
			for _, a := range accepts {
				cp := map[string]float64{}
				for k, v := range ws {
					cp[k] = v
				}
				out = append(out, ruleSpec{Kind: "thr", Weights: cp, Accept: a})
			}
		}
	}
	set := func(mask int) []string {
		s := []string{}
		for i, m := range boxMembers {
			if mask&(1<<i) != 0 {
				s = append(s, symName[m])
			}
		}
		return s
	}
	out = append(out, ruleSpec{Kind: "aks", Sets: [][]string{}})
	for a := 0; a < 16; a++ {
		out = append(out, ruleSpec{Kind: "aks", Sets: [][]string{set(a)}})
	}
	for a := 0; a < 16; a++ {
		for b := a; b < 16; b++ {
			out = append(out, ruleSpec{Kind: "aks", Sets: [][]string{set(a), set(b)}})
		}
	}
	return out
}

// nestedBox is the smaller box of X2's own rule (nesting depth 2; one rule
// names X1 so that X2/X1/k is meaningful; "none" = X2 does not exist).
func nestedBox(tier core.Tier) []ruleSpec {
	box := []ruleSpec{
		{Kind: "thr", Weights: map[string]float64{"k1": 1}, Accept: 1},
		{Kind: "aks", Sets: [][]string{{"k1", "k2"}}},
		{Kind: "thr", Weights: map[string]float64{"X1": 1}, Accept: 1},
	}
	if tier == core.Thorough {
		box = append(box,
			ruleSpec{Kind: "none"},
			ruleSpec{Kind: "thr", Weights: map[string]float64{"k1": 0.5, "k2": 0.5}, Accept: 1},
			ruleSpec{Kind: "thr", Weights: map[string]float64{"k2": 1, "k3": 1}, Accept: 1},
			ruleSpec{Kind: "aks", Sets: [][]string{{"k3"}, {"k1"}}},
		)
	}
	return box
}

// fixedX1 is X1's rule while the judged object is the method.
var fixedX1 = ruleSpec{Kind: "thr", Weights: map[string]float64{"k1": 1}, Accept: 1}

// ---------------------------------------------------------------------------
// signer lists

// uriUniverse: bare keys, keys of X1, keys of X2, nested both ways, a bare
// account name, a trailing separator, the prefix-confusion accounts (at root
// level and as a sibling of X2 under the method / under X1), the empty string,
// and a path whose middle key never signed (only the last segment of an
// AuthRequire entry is signature-checked by State.verifySignatures).
var uriUniverse = []string{
	"k1", "k2",
	"X1/k1", "X1/k2", "X1/k3",
	"X2/k1", "X2/k2",
	"X1/X2/k1", "X1/X2/k2",
	"X2/X1/k1",
	"X1", "X1/", "X1x/k1", "",
	"X1/k1/k3",
	"X2x/k1", "X1/X2x/k1",
}

type listSet struct {
	syms   []string   // symbolic universe
	canon  []int32    // per list: index of the same entries in ascending universe order
	uris   [][]int    // parsed universe
	real   []string   // real strings of the universe
	lists  [][]uint8  // every enumerated list (indices into the universe)
	reals  [][]string // real URI strings per list
	subs   [][]int32  // per list: indices of the lists obtained by deleting one entry
	hasBad []bool     // list contains a URI with an empty segment
	index  map[string]int32
}

func buildLists(tier core.Tier) *listSet {
	return buildListsOver(uriUniverse, 3, tier == core.Thorough)
}

// buildListsOver enumerates every ordered list of size <= allOrdered over the
// universe; with size4 every size-4 multiset in three orders on top (allOrdered
// must be 3 then). The family is closed under deleting one entry and under
// sorting.
func buildListsOver(universe []string, allOrdered int, size4 bool) *listSet {
	ls := &listSet{index: map[string]int32{}, syms: universe}
	for _, s := range universe {
		u, err := parseURI(s)
		if err != nil {
			panic(err)
		}
		ls.uris = append(ls.uris, u)
		ls.real = append(ls.real, realURI(u))
	}
	n := len(universe)
	add := func(l []uint8) {
		k := string(l)
		if _, ok := ls.index[k]; ok {
			return
		}
		ls.index[k] = int32(len(ls.lists))
		ls.lists = append(ls.lists, append([]uint8(nil), l...))
	}
	// all ordered lists of size <= 3
	add(nil)
	for size := 1; size <= allOrdered; size++ {
		total := 1
		for i := 0; i < size; i++ {
			total *= n
		}
		l := make([]uint8, size)
		for x := 0; x < total; x++ {
			y := x
			for i := size - 1; i >= 0; i-- {
				l[i] = uint8(y % n)
				y /= n
			}
			add(l)
		}
	}
	if size4 {
		// size 4: every multiset, in ascending order, rotated by one and reversed
		l := make([]uint8, 4)
		for a := 0; a < n; a++ {
			for b := a; b < n; b++ {
				for c := b; c < n; c++ {
					for d := c; d < n; d++ {
						l[0], l[1], l[2], l[3] = uint8(a), uint8(b), uint8(c), uint8(d)
						add(l)
						add([]uint8{l[1], l[2], l[3], l[0]})
						add([]uint8{l[3], l[2], l[1], l[0]})
					}
				}
			}
		}
	}
	for _, l := range ls.lists {
		r := make([]string, len(l))
		bad := false
		for i, x := range l {
			r[i] = ls.real[x]
			if malformed(ls.uris[x]) {
				bad = true
			}
		}
		ls.reals = append(ls.reals, r)
		ls.hasBad = append(ls.hasBad, bad)
		var sub []int32
		for i := range l {
			d := append(append([]uint8{}, l[:i]...), l[i+1:]...)
			si, ok := ls.index[string(d)]
			if !ok {
				panic("c11: list family not closed under deletion")
			}
			dup := false
			for _, s := range sub {
				if s == si {
					dup = true
				}
			}
			if !dup {
				sub = append(sub, si)
			}
		}
		ls.subs = append(ls.subs, sub)
		srt := append([]uint8{}, l...)
		sort.Slice(srt, func(a, b int) bool { return srt[a] < srt[b] })
		ci, ok := ls.index[string(srt)]
		if !ok {
			panic("c11: list family not closed under sorting")
		}
		ls.canon = append(ls.canon, ci)
	}
	return ls
}

func (ls *listSet) symbolic(li int) []string {
	out := []string{}
	for _, x := range ls.lists[li] {
		out = append(out, ls.syms[x])
	}
	return out
}

// ---------------------------------------------------------------------------
// implementation side

type mapMgr struct {
	acc  map[string]*pb.Acl
	meth map[string]*pb.Acl
}

// GetAccountACL mirrors acl.Manager: (nil, nil) for an unknown account.
func (m *mapMgr) GetAccountACL(name string) (*pb.Acl, error) { return m.acc[name], nil }

func (m *mapMgr) GetContractMethodACL(c, me string) (*pb.Acl, error) {
	return m.meth[aclutils.MakeContractMethodKey(c, me)], nil
}

func (m *mapMgr) GetAccountAddresses(string) ([]string, error) { return nil, nil }

const (
	tgtX1 = iota
	tgtX2
	tgtMethod
)

var tgtName = []string{"account:X1", "account:X2", "method"}

type config struct {
	target int
	rules  [nNames]*crule // account rules
	method *crule
}

func (c *config) manager() *mapMgr {
	m := &mapMgr{acc: map[string]*pb.Acl{}, meth: map[string]*pb.Acl{}}
	for n, r := range c.rules {
		if r != nil {
			m.acc[realName[n]] = r.acl
		}
	}
	if c.method != nil {
		m.meth[aclutils.MakeContractMethodKey(evalContract, evalMethod)] = c.method.acl
	}
	return m
}

const (
	outReject = 0
	outAccept = 1
	outError  = 2
)

func outStr(o int) string { return []string{"reject", "accept", "reject(error)"}[o] }

func impl(c *config, m *mapMgr, uris []string) (int, string) {
	var ok bool
	var err error
	switch c.target {
	case tgtX1:
		ok, err = aclutils.IdentifyAccount(m, realName[nX1], uris)
	case tgtX2:
		ok, err = aclutils.IdentifyAccount(m, realName[nX2], uris)
	default:
		ok, err = aclutils.CheckContractMethodPerm(m, uris, evalContract, evalMethod)
	}
	if err != nil {
		return outError, err.Error()
	}
	if ok {
		return outAccept, ""
	}
	return outReject, ""
}

// ---------------------------------------------------------------------------
// reference evaluator (by definition)
//
// A node (account or method) is satisfied iff its rule is satisfied by the set
// of its distinct satisfied member children: threshold = exact sum of weights
// >= accept; key sets = some listed set wholly satisfied. The children of a
// node at path P are the names following P in the signer URIs. A key child is
// satisfied iff some URI is exactly P/key (the signature check of
// State.verifySignatures covers the LAST segment of an entry only: a key that
// only occurs inside a longer path is an unverified name; this convention is
// probed on the real chain, see middleKeysUnverified). An account child is
// satisfied iff its own rule is, recursively. Only URIs whose first segment is
// the judged account are looked at for an account.
//
// Where the statement is silent the reference is evaluated both ways (lo / hi)
// and the case is judged only when both agree:
//   - a key named inside a longer path that is verified elsewhere in the list,
//   - an empty key set (vacuously contained?),
//   - a member account that has no rule (does not exist),
//   - a float sum that lands exactly on the threshold with inexact weights.

const (
	ambPathKey  = iota // key named inside a longer path, verified elsewhere in the list
	ambEmptySet        // empty key set
	ambNoRule          // (member) account without a rule
	ambFloat           // inexact float sum exactly on the threshold
	ambKinds
)

var ambName = [ambKinds]string{"path_key_signed_elsewhere", "empty_key_set", "account_without_rule", "float_sum_on_threshold"}

type refEval struct {
	rules    [nNames]*crule
	uris     [][]int
	verified [nNames]bool
	hi       bool
	ambig    bool
	kinds    uint8 // which silent spots were consulted (bit per ambKind)
	rootSat  int
	// rootThr: the judged rule is a threshold rule; rootMargin = exact sum of the
	// satisfied members' weights minus the accept value, in tenths. negSat: at some
	// evaluated node a member of negative weight was satisfied.
	rootThr    bool
	rootMargin int
	negSat     bool
	buf        [8]int
	// forceMid: names in the middle of a path are unverified whatever the probe of
	// the signature stage says (Part D: the harness signs with the last segment's
	// key only, and the initiator string is not covered by that probe)
	forceMid bool
}

func samePrefix(u []int, p []int) bool {
	for i, x := range p {
		if u[i] != x {
			return false
		}
	}
	return true
}

func (e *refEval) evalRule(r *crule, plen int, root bool) bool {
	prefix := e.buf[:plen]
	var sat [nNames]bool
	nsat := 0
	for m := 0; m < nNames; m++ {
		if !r.member[m] {
			continue
		}
		ext := false
		for _, u := range e.uris {
			if len(u) > plen && u[plen] == m && samePrefix(u, prefix) {
				ext = true
				break
			}
		}
		if !ext {
			continue
		}
		e.buf[plen] = m
		if e.satNode(plen + 1) {
			sat[m] = true
			nsat++
		}
	}
	if root {
		e.rootSat = nsat
	}
	if r.kind == 0 {
		sum := 0
		inexact := false
		for m := 0; m < nNames; m++ {
			if sat[m] {
				sum += r.w10[m]
				if r.w10[m]%5 != 0 {
					inexact = true
				}
				if r.w10[m] < 0 {
					e.negSat = true
				}
			}
		}
		if root {
			e.rootThr = true
			e.rootMargin = sum - r.acc10
		}
		if sum == r.acc10 && inexact {
			e.ambig = true
			e.kinds |= 1 << ambFloat
			return e.hi
		}
		return sum >= r.acc10
	}
	res := false
	for _, set := range r.sets {
		if len(set) == 0 {
			e.ambig = true
			e.kinds |= 1 << ambEmptySet
			if e.hi {
				res = true
			}
			continue
		}
		all := true
		for _, m := range set {
			if !sat[m] {
				all = false
				break
			}
		}
		if all {
			res = true
		}
	}
	return res
}

func (e *refEval) satNode(plen int) bool {
	path := e.buf[:plen]
	name := path[plen-1]
	if isKeyName(name) {
		for _, u := range e.uris {
			if len(u) == plen && samePrefix(u, path) {
				return true
			}
		}
		if e.verified[name] || !(e.forceMid || middleKeysUnverified()) {
			e.ambig = true
			e.kinds |= 1 << ambPathKey
			return e.hi
		}
		return false
	}
	r := e.rules[name]
	if r == nil {
		e.ambig = true
		e.kinds |= 1 << ambNoRule
		return e.hi
	}
	return e.evalRule(r, plen, false)
}

// reference returns (lo, hi, number of satisfied member children of the root in
// the lo evaluation). Malformed URIs (an empty segment) contribute nothing.
func reference(c *config, uris [][]int) (bool, bool, int) {
	return referenceWith(&refEval{}, c, uris)
}

func referenceWith(e *refEval, c *config, uris [][]int) (bool, bool, int) {
	*e = refEval{rules: c.rules, uris: e.uris[:0], forceMid: e.forceMid}
	for _, u := range uris {
		if malformed(u) {
			continue
		}
		e.uris = append(e.uris, u)
		e.verified[u[len(u)-1]] = true
	}
	run := func() bool {
		switch c.target {
		case tgtX1, tgtX2:
			n := nX1
			if c.target == tgtX2 {
				n = nX2
			}
			r := c.rules[n]
			if r == nil {
				e.ambig = true
				e.kinds |= 1 << ambNoRule
				return e.hi
			}
			e.buf[0] = n
			return e.evalRule(r, 1, true)
		default:
			if c.method == nil {
				e.ambig = true
				e.kinds |= 1 << ambNoRule
				return e.hi
			}
			return e.evalRule(c.method, 0, true)
		}
	}
	lo := run()
	sat := e.rootSat
	if !e.ambig {
		return lo, lo, sat
	}
	e.hi = true
	hi := run()
	return lo, hi, sat
}

// ---------------------------------------------------------------------------
// case description / classification

type caseA struct {
	Part    string              `json:"part"`
	Check   string              `json:"check"` // oracle | monotone | order
	Target  string              `json:"target"`
	Rules   map[string]ruleSpec `json:"rules"`
	Signers []string            `json:"signers"`
	Super   []string            `json:"super,omitempty"`
}

func (c *config) ruleMap() map[string]ruleSpec {
	m := map[string]ruleSpec{}
	for _, n := range []int{nX1, nX2} {
		if c.rules[n] != nil {
			m[symName[n]] = c.rules[n].spec
		} else {
			m[symName[n]] = ruleSpec{Kind: "none"}
		}
	}
	if c.method != nil {
		m["method"] = c.method.spec
	}
	return m
}

func (c *config) describe() string {
	m := c.ruleMap()
	keys := []string{}
	for k := range m {
		keys = append(keys, k)
	}
	sort.Strings(keys)
	parts := []string{}
	for _, k := range keys {
		parts = append(parts, k+"="+m[k].String())
	}
	return tgtName[c.target] + " with " + strings.Join(parts, " ")
}

func configFromCase(cs *caseA) (*config, error) {
	initNames()
	c := &config{target: -1}
	for i, n := range tgtName {
		if n == cs.Target {
			c.target = i
		}
	}
	if c.target < 0 {
		return nil, fmt.Errorf("bad target %q", cs.Target)
	}
	for k, spec := range cs.Rules {
		r, err := compile(spec)
		if err != nil {
			return nil, err
		}
		switch k {
		case "X1":
			c.rules[nX1] = r
		case "X2":
			c.rules[nX2] = r
		case "method":
			c.method = r
		default:
			return nil, fmt.Errorf("bad rule owner %q", k)
		}
	}
	return c, nil
}

func parseList(sym []string) ([][]int, []string, error) {
	var us [][]int
	var real []string
	for _, s := range sym {
		u, err := parseURI(s)
		if err != nil {
			return nil, nil, err
		}
		us = append(us, u)
		real = append(real, realURI(u))
	}
	return us, real, nil
}

func rootedAt(c *config, u []int) bool {
	switch c.target {
	case tgtX1:
		return len(u) >= 1 && u[0] == nX1
	case tgtX2:
		return len(u) >= 1 && u[0] == nX2
	}
	return true
}

// classify names the defect class of an oracle mismatch by asking the
// implementation again on reduced signer lists.
func classify(c *config, m *mapMgr, uris [][]int, implOut int, expected bool) string {
	if implOut != outAccept && expected {
		if implOut == outError {
			return "c11.satisfied_rule_rejected_with_error"
		}
		return "c11.satisfied_rule_rejected"
	}
	ask := func(keep func(i int, u []int) bool) bool {
		var real []string
		for i, u := range uris {
			if keep(i, u) {
				real = append(real, realURI(u))
			}
		}
		o, _ := impl(c, m, real)
		return o == outAccept
	}
	// the same entries in another order are refused: the verdict is not a function
	// of the signer set
	if len(uris) <= 5 {
		real := make([]string, len(uris))
		refused := false
		permute(len(uris), func(perm []int) bool {
			for i, x := range perm {
				real[i] = realURI(uris[x])
			}
			if o, _ := impl(c, m, real); o != outAccept {
				refused = true
				return false
			}
			return true
		})
		if refused {
			return "c11.unsatisfied_rule_accepted_in_some_signer_order"
		}
	}
	// with a negative weight in play deleting entries may legitimately turn a
	// refusal into an acceptance: the reduction probes below cannot name the class
	if c.hasNegativeWeight() {
		return "c11.unsatisfied_rule_with_negative_weight_accepted"
	}
	// repeated entries
	if !ask(func(i int, u []int) bool {
		for j := 0; j < i; j++ {
			if realURI(uris[j]) == realURI(u) {
				return false
			}
		}
		return true
	}) {
		return "c11.repeated_signer_counted_twice"
	}
	if !ask(func(i int, u []int) bool {
		for _, n := range u {
			if n == nX1x || n == nX2x {
				return false
			}
		}
		return true
	}) {
		return "c11.prefix_confused_account_counts"
	}
	if c.target != tgtMethod && !ask(func(i int, u []int) bool { return rootedAt(c, u) }) {
		return "c11.foreign_account_signer_counts"
	}
	// a key inside a longer path (never signature-checked)
	if !ask(func(i int, u []int) bool {
		for _, n := range u[:len(u)-1] {
			if isKeyName(n) {
				return false
			}
		}
		return true
	}) {
		return "c11.unverified_path_name_counts"
	}
	if !ask(func(i int, u []int) bool { return !malformed(u) }) {
		return "c11.malformed_uri_counts"
	}
	// signers that speak through a nested account (below the judged object)
	if !ask(func(i int, u []int) bool {
		from := 0
		if c.target != tgtMethod {
			from = 1
		}
		for k := from; k < len(u)-1; k++ {
			if !isKeyName(u[k]) {
				return false
			}
		}
		return true
	}) {
		return "c11.unsatisfied_nested_account_counts"
	}
	if !ask(func(i int, u []int) bool { return false }) {
		return "c11.unsatisfied_rule_accepted"
	}
	return "c11.unsatisfied_rule_accepted_without_signers"
}

// permute calls f with every permutation of 0..n-1 (lexicographic order) until f
// returns false.
func permute(n int, f func([]int) bool) {
	perm := make([]int, n)
	used := make([]bool, n)
	var rec func(k int) bool
	rec = func(k int) bool {
		if k == n {
			return f(perm)
		}
		for i := 0; i < n; i++ {
			if used[i] {
				continue
			}
			used[i] = true
			perm[k] = i
			ok := rec(k + 1)
			used[i] = false
			if !ok {
				return false
			}
		}
		return true
	}
	rec(0)
}

func (c *config) hasNegativeWeight() bool {
	for _, r := range c.rules {
		if r != nil && r.neg {
			return true
		}
	}
	return c.method != nil && c.method.neg
}

// ---------------------------------------------------------------------------
// enumeration

type statsA struct {
	// order oracle and signed-weight dimension
	orderPairs, orderPairsAccepted     int
	configsNeg                         int
	monoSkippedNeg, obsVetoPairs       int
	marginAt, marginBelow, marginAbove int
	negSat, negSatAccept, negSatReject int
	defAccept, defReject               int

	evals, judged, unjudged           int
	accept, reject, errs              int
	nontrivial                        int
	monoPairs, monoPairsAccepted      int
	obsMalformedReject, obsMalformedM int
	obsAmbigAccept, obsAmbigReject    int
	obsKind                           [ambKinds][2]int
	configs, configsBoth              int
	byTarget                          [3]int
}

func (s *statsA) add(o *statsA) {
	s.orderPairs += o.orderPairs
	s.orderPairsAccepted += o.orderPairsAccepted
	s.configsNeg += o.configsNeg
	s.monoSkippedNeg += o.monoSkippedNeg
	s.obsVetoPairs += o.obsVetoPairs
	s.marginAt += o.marginAt
	s.marginBelow += o.marginBelow
	s.marginAbove += o.marginAbove
	s.negSat += o.negSat
	s.negSatAccept += o.negSatAccept
	s.negSatReject += o.negSatReject
	s.defAccept += o.defAccept
	s.defReject += o.defReject
	s.evals += o.evals
	s.judged += o.judged
	s.unjudged += o.unjudged
	s.accept += o.accept
	s.reject += o.reject
	s.errs += o.errs
	s.nontrivial += o.nontrivial
	s.monoPairs += o.monoPairs
	s.monoPairsAccepted += o.monoPairsAccepted
	s.obsMalformedReject += o.obsMalformedReject
	s.obsMalformedM += o.obsMalformedM
	s.obsAmbigAccept += o.obsAmbigAccept
	s.obsAmbigReject += o.obsAmbigReject
	for k := range s.obsKind {
		s.obsKind[k][0] += o.obsKind[k][0]
		s.obsKind[k][1] += o.obsKind[k][1]
	}
	s.configs += o.configs
	s.configsBoth += o.configsBoth
	for i := range s.byTarget {
		s.byTarget[i] += o.byTarget[i]
	}
}

type jobResult struct {
	stats statsA
	viol  []core.Violation // first per key within the job, in discovery order
	done  bool
}

func (j *jobResult) violation(v core.Violation) {
	for _, x := range j.viol {
		if x.Key == v.Key {
			return
		}
	}
	j.viol = append(j.viol, v)
}

// evalConfig runs every list on one configuration.
func evalConfig(c *config, ls *listSet, res []uint8, jr *jobResult, e *refEval) {
	m := c.manager()
	var ubuf [8][]int
	st := &jr.stats
	st.configs++
	neg := c.hasNegativeWeight()
	if neg {
		st.configsNeg++
	}
	acc, rej := 0, 0
	for li := range ls.lists {
		l := ls.lists[li]
		out, emsg := impl(c, m, ls.reals[li])
		res[li] = uint8(out)
		st.evals++
		st.byTarget[c.target]++
		switch out {
		case outAccept:
			st.accept++
			acc++
		case outReject:
			st.reject++
			rej++
		default:
			st.errs++
			rej++
		}
		uris := ubuf[:len(l)]
		for i, x := range l {
			uris[i] = ls.uris[x]
		}
		lo, hi, sat := referenceWith(e, c, uris)
		if sat > 0 {
			st.nontrivial++
		}
		if lo != hi {
			st.unjudged++
			ai := 0
			if out == outAccept {
				st.obsAmbigAccept++
				ai = 1
			} else {
				st.obsAmbigReject++
			}
			for k := 0; k < ambKinds; k++ {
				if e.kinds&(1<<k) != 0 {
					st.obsKind[k][ai]++
				}
			}
			continue
		}
		st.judged++
		expected := lo
		if expected {
			st.defAccept++
		} else {
			st.defReject++
		}
		if e.rootThr {
			switch e.rootMargin {
			case 0:
				st.marginAt++
			case -5:
				st.marginBelow++
			case 5:
				st.marginAbove++
			}
		}
		if e.negSat {
			st.negSat++
			if expected {
				st.negSatAccept++
			} else {
				st.negSatReject++
			}
		}
		if (out == outAccept) == expected {
			continue
		}
		if ls.hasBad[li] && out == outError && expected {
			// a URI with an empty segment makes the implementation refuse the whole
			// list with an error: the statement does not say what such an entry means
			st.obsMalformedReject++
			continue
		}
		key := classify(c, m, uris, out, expected)
		obs := outStr(out)
		if emsg != "" {
			obs += ": " + emsg
		}
		exp := "reject"
		if expected {
			exp = "accept"
		}
		jr.violation(core.Violation{
			Key:      key,
			Summary:  fmt.Sprintf("%s, signers %v: implementation %s, by definition %s", c.describe(), ls.symbolic(li), outStr(out), exp),
			Case:     caseA{Part: "A", Check: "oracle", Target: tgtName[c.target], Rules: c.ruleMap(), Signers: ls.symbolic(li)},
			Expected: exp,
			Observed: obs,
		})
	}
	if acc > 0 && rej > 0 {
		st.configsBoth++
	}
	// order: the verdict is a function of the signer SET, so every list gets the
	// verdict of the same entries in ascending universe order (all orders of a list
	// are enumerated, so every permutation is compared with every other through it)
	for li := range ls.lists {
		ci := int(ls.canon[li])
		if ci == li {
			continue
		}
		st.orderPairs++
		if res[ci] == outAccept {
			st.orderPairsAccepted++
		}
		if (res[li] == outAccept) == (res[ci] == outAccept) {
			continue
		}
		jr.violation(core.Violation{
			Key:      "c11.verdict_depends_on_signer_order",
			Summary:  fmt.Sprintf("%s: signers %v -> %s, the same entries as %v -> %s", c.describe(), ls.symbolic(li), outStr(int(res[li])), ls.symbolic(ci), outStr(int(res[ci]))),
			Case:     caseA{Part: "A", Check: "order", Target: tgtName[c.target], Rules: c.ruleMap(), Signers: ls.symbolic(li), Super: ls.symbolic(ci)},
			Expected: "the same verdict for every order of the same signer entries",
			Observed: fmt.Sprintf("%v: %s; %v: %s", ls.symbolic(li), outStr(int(res[li])), ls.symbolic(ci), outStr(int(res[ci]))),
		})
	}
	// monotonicity on every pair (list minus one entry, list); the statement
	// promises it for non-negative weights only: with a negative weight somewhere
	// in the configuration the pairs are counted, not judged (the by-definition
	// oracle above says what each list must get)
	for li := range ls.lists {
		for _, si := range ls.subs[li] {
			if neg {
				st.monoSkippedNeg++
				if res[si] == outAccept && res[li] != outAccept && !ls.hasBad[li] {
					st.obsVetoPairs++
				}
				continue
			}
			st.monoPairs++
			if res[si] != outAccept {
				continue
			}
			st.monoPairsAccepted++
			if res[li] == outAccept {
				continue
			}
			if ls.hasBad[li] {
				st.obsMalformedM++
				continue
			}
			jr.violation(core.Violation{
				Key:      "c11.not_monotone",
				Summary:  fmt.Sprintf("%s: signers %v accepted, but %v (one more entry) %s", c.describe(), ls.symbolic(int(si)), ls.symbolic(li), outStr(int(res[li]))),
				Case:     caseA{Part: "A", Check: "monotone", Target: tgtName[c.target], Rules: c.ruleMap(), Signers: ls.symbolic(int(si)), Super: ls.symbolic(li)},
				Expected: "accept",
				Observed: outStr(int(res[li])),
			})
		}
	}
}

func specNamesX1(s ruleSpec) bool {
	if _, ok := s.Weights["X1"]; ok {
		return true
	}
	for _, set := range s.Sets {
		for _, n := range set {
			if n == "X1" {
				return true
			}
		}
	}
	return false
}

func runPartA(rep *core.Report, tier core.Tier) {
	initNames()
	ls := buildLists(tier)
	box := ruleBox()
	nested := nestedBox(tier)
	compiledBox := make([]*crule, len(box))
	for i, s := range box {
		compiledBox[i] = mustCompile(s)
	}
	compiledNested := make([]*crule, len(nested))
	for i, s := range nested {
		compiledNested[i] = mustCompile(s)
	}
	fx1 := mustCompile(fixedX1)

	// the implementation allocates a small tree per call over a tiny live heap:
	// let the collector run less often while enumerating
	defer debug.SetGCPercent(debug.SetGCPercent(1600))

	results := make([]jobResult, len(box))
	jobs := make(chan int, len(box))
	for i := range box {
		jobs <- i
	}
	close(jobs)
	var wg sync.WaitGroup
	workers := runtime.NumCPU()
	if workers > 16 {
		workers = 16
	}
	for w := 0; w < workers; w++ {
		wg.Add(1)
		go func() {
			defer wg.Done()
			res := make([]uint8, len(ls.lists))
			e := &refEval{}
			for ri := range jobs {
				if rep.Expired() {
					continue
				}
				jr := &results[ri]
				r := compiledBox[ri]
				for qi, q := range compiledNested {
					// account X1 carries the rule, X2 the nested one
					c := &config{target: tgtX1}
					c.rules[nX1] = r
					c.rules[nX2] = q
					evalConfig(c, ls, res, jr, e)
					// the method carries the rule; X1 fixed
					c = &config{target: tgtMethod, method: r}
					c.rules[nX1] = fx1
					c.rules[nX2] = q
					evalConfig(c, ls, res, jr, e)
					// X2 judged where its rule names X1 (X2/X1/k): X1 carries the rule
					if specNamesX1(nested[qi]) {
						c = &config{target: tgtX2}
						c.rules[nX1] = r
						c.rules[nX2] = q
						evalConfig(c, ls, res, jr, e)
					}
				}
				jr.done = true
			}
		}()
	}
	wg.Wait()

	var st statsA
	complete := true
	for i := range results {
		if !results[i].done {
			complete = false
			continue
		}
		st.add(&results[i].stats)
		for _, v := range results[i].viol {
			rep.Violation(v)
		}
	}
	// samples: a few actual cases, deterministic
	for _, pick := range [][2]int{{7, 20}, {len(box) / 2, 300}, {len(box) - 1, 1000}} {
		c := &config{target: tgtX1}
		c.rules[nX1] = compiledBox[pick[0]]
		c.rules[nX2] = compiledNested[0]
		li := pick[1] % len(ls.lists)
		out, _ := impl(c, c.manager(), ls.reals[li])
		rep.Sample(map[string]interface{}{"part": "A", "config": c.describe(), "signers": ls.symbolic(li), "implementation": outStr(out)})
	}
	rep.Set("a.rules_judged_object", len(box))
	rep.Set("a.rules_nested_account", len(nested))
	rep.Set("a.uri_universe", uriUniverse)
	rep.Set("a.signer_lists", len(ls.lists))
	rep.Set("a.configurations", st.configs)
	rep.Set("a.configurations_with_both_outcomes", st.configsBoth)
	rep.Set("a.evaluations", st.evals)
	rep.Set("a.evaluations_by_target", map[string]int{tgtName[0]: st.byTarget[0], tgtName[1]: st.byTarget[1], tgtName[2]: st.byTarget[2]})
	rep.Set("a.judged", st.judged)
	rep.Set("a.unjudged_statement_silent", st.unjudged)
	rep.Set("a.impl_accept", st.accept)
	rep.Set("a.impl_reject", st.reject)
	rep.Set("a.impl_reject_with_error", st.errs)
	rep.Set("a.nontrivial", st.nontrivial)
	rep.Set("a.monotone_pairs", st.monoPairs)
	rep.Set("a.monotone_pairs_with_accepted_sublist", st.monoPairsAccepted)
	rep.Set("a.observed.malformed_uri_turns_definition_accept_into_error", st.obsMalformedReject)
	rep.Set("a.observed.malformed_uri_added_to_accepted_list_rejects", st.obsMalformedM)
	rep.Set("a.observed.unjudged_impl_accept", st.obsAmbigAccept)
	rep.Set("a.observed.unjudged_impl_reject", st.obsAmbigReject)
	byKind := map[string]map[string]int{}
	for k := 0; k < ambKinds; k++ {
		byKind[ambName[k]] = map[string]int{"impl_reject": st.obsKind[k][0], "impl_accept": st.obsKind[k][1]}
	}
	rep.Set("a.observed.unjudged_by_silent_spot", byKind)
	rep.Set("a.order_pairs", st.orderPairs)
	rep.Set("a.order_pairs_with_accepted_sorted_list", st.orderPairsAccepted)
	rep.Set("a.complete", complete)
	rep.Add("evaluations", st.evals)
	rep.Add("distinct_nontrivial", st.nontrivial)
	runSignedBox(rep, tier)
}
