package c11

// Fault dimension: the lookups the ACL evaluation makes may fail. A fault plan
// numbers every fault point of one evaluation (one call into the AclManager
// interface, one creation of the confirmed-chain snapshot, one Get on that
// snapshot) and fails the chosen ones with an error; every position of every
// evaluation is enumerated. The oracle is differential: a fault may turn an
// acceptance into a refusal, never a refusal into an acceptance.
//
// Two seams carry the same plan:
//   - faultMgr wraps a base.AclManager (the interface the perm-tree builder calls),
//   - faultLedger / faultReader wrap the LedgerRely the REAL acl.Manager reads
//     through (GetTipXMSnapshotReader and XMSnapshotReader.Get).
//
// Part C (this file) runs the real acl.Manager over a map-backed store through
// aclutils.IdentifyAccount / CheckContractMethodPerm on a sub-box of Part A.
// Part D (forms.go) installs the same wrappers under State.VerifyTx.

import (
	"encoding/json"
	"errors"
	"fmt"
	"runtime"
	"sync"

	kledger "github.com/xuperchain/xupercore/kernel/ledger"
	"github.com/xuperchain/xupercore/kernel/permission/acl"
	"github.com/xuperchain/xupercore/kernel/permission/acl/base"
	actx "github.com/xuperchain/xupercore/kernel/permission/acl/context"
	aclutils "github.com/xuperchain/xupercore/kernel/permission/acl/utils"
	"github.com/xuperchain/xupercore/lib/timer"
	pb "github.com/xuperchain/xupercore/protos"

	"verif/core"
	"verif/world"
)

const (
	fmOff    = iota
	fmOnce   // the k-th fault point fails
	fmFrom   // every fault point from the k-th on fails (outage)
	fmTarget // every fault point with the same kind / bucket / key as the k-th fails (bad record)
	fmModes
)

var fmName = [fmModes]string{"off", "once", "from", "same_target"}

func fmByName(s string) (int, error) {
	for i, n := range fmName {
		if n == s {
			return i, nil
		}
	}
	return 0, fmt.Errorf("c11: unknown fault mode %q", s)
}

var errInjected = errors.New("c11: injected lookup fault")

// faultPlan is shared by the wrappers of one fixture; one evaluation at a time.
type faultPlan struct {
	mu     sync.Mutex
	mode   int
	k      int
	target string
	n      int
	fired  int
	rec    bool
	trace  []string
}

// arm starts a new evaluation. With mode fmOff and rec the points are recorded.
func (p *faultPlan) arm(mode, k int, target string, rec bool) {
	p.mu.Lock()
	p.mode, p.k, p.target, p.n, p.fired, p.rec = mode, k, target, 0, 0, rec
	if rec {
		p.trace = p.trace[:0]
	}
	p.mu.Unlock()
}

func (p *faultPlan) disarm() { p.arm(fmOff, 0, "", false) }

func (p *faultPlan) point(kind, bucket, key string) bool {
	p.mu.Lock()
	defer p.mu.Unlock()
	i := p.n
	p.n++
	if p.mode == fmOff && !p.rec {
		return false
	}
	if p.rec {
		p.trace = append(p.trace, kind+"|"+bucket+"|"+key)
	}
	hit := false
	switch p.mode {
	case fmOnce:
		hit = i == p.k
	case fmFrom:
		hit = i >= p.k
	case fmTarget:
		hit = kind+"|"+bucket+"|"+key == p.target
	}
	if hit {
		p.fired++
	}
	return hit
}

// ---- seam 1: the AclManager interface

type faultMgr struct {
	inner base.AclManager
	plan  *faultPlan
}

func (m *faultMgr) GetAccountACL(name string) (*pb.Acl, error) {
	if m.plan.point("mgr", "account", name) {
		return nil, errInjected
	}
	return m.inner.GetAccountACL(name)
}

func (m *faultMgr) GetContractMethodACL(c, me string) (*pb.Acl, error) {
	if m.plan.point("mgr", "method", aclutils.MakeContractMethodKey(c, me)) {
		return nil, errInjected
	}
	return m.inner.GetContractMethodACL(c, me)
}

func (m *faultMgr) GetAccountAddresses(name string) ([]string, error) {
	if m.plan.point("mgr", "addresses", name) {
		return nil, errInjected
	}
	return m.inner.GetAccountAddresses(name)
}

// ---- seam 2: what the real acl.Manager reads through

type faultLedger struct {
	inner actx.LedgerRely
	plan  *faultPlan
}

func (l *faultLedger) GetNewAccountGas() (int64, error) { return l.inner.GetNewAccountGas() }

func (l *faultLedger) GetTipXMSnapshotReader() (kledger.XMSnapshotReader, error) {
	if l.plan.point("snapshot", "", "") {
		return nil, errInjected
	}
	r, err := l.inner.GetTipXMSnapshotReader()
	if err != nil {
		return nil, err
	}
	return &faultReader{inner: r, plan: l.plan}, nil
}

type faultReader struct {
	inner kledger.XMSnapshotReader
	plan  *faultPlan
}

func (r *faultReader) Get(bucket string, key []byte) ([]byte, error) {
	if r.plan.point("get", bucket, string(key)) {
		return nil, errInjected
	}
	return r.inner.Get(bucket, key)
}

// faultyManager is the real acl.Manager (no second registration of the kernel
// methods: the struct is built directly) reading through rely, behind the
// interface wrapper.
func faultyManager(rely actx.LedgerRely, plan *faultPlan) base.AclManager {
	ctx := &actx.AclCtx{BcName: world.BCName, Ledger: &faultLedger{inner: rely, plan: plan}}
	ctx.XLog = world.NopLogger{}
	ctx.Timer = timer.NewXTimer()
	return &faultMgr{inner: &acl.Manager{Ctx: ctx}, plan: plan}
}

// ---------------------------------------------------------------------------
// Part C: evaluation seam, real acl.Manager over a map-backed store

type mapStore struct{ kv map[string][]byte }

func (s *mapStore) GetNewAccountGas() (int64, error) { return 0, nil }
func (s *mapStore) GetTipXMSnapshotReader() (kledger.XMSnapshotReader, error) {
	return s, nil
}
func (s *mapStore) Get(bucket string, key []byte) ([]byte, error) {
	return s.kv[bucket+"/"+string(key)], nil
}

func (c *config) store() *mapStore {
	s := &mapStore{kv: map[string][]byte{}}
	put := func(bucket, key string, a *pb.Acl) {
		b, err := json.Marshal(a)
		if err != nil {
			panic(err)
		}
		s.kv[bucket+"/"+key] = b
	}
	for n, r := range c.rules {
		if r != nil {
			put(aclutils.GetAccountBucket(), realName[n], r.acl)
		}
	}
	if c.method != nil {
		put(aclutils.GetContractBucket(), aclutils.MakeContractMethodKey(evalContract, evalMethod), c.method.acl)
	}
	return s
}

func implOn(c *config, m base.AclManager, uris []string) int {
	var ok bool
	var err error
	switch c.target {
	case tgtX1:
		ok, err = aclutils.IdentifyAccount(m, realName[nX1], uris)
	case tgtX2:
		ok, err = aclutils.IdentifyAccount(m, realName[nX2], uris)
	default:
		ok, err = aclutils.CheckContractMethodPerm(m, uris, evalContract, evalMethod)
	}
	switch {
	case err != nil:
		return outError
	case ok:
		return outAccept
	}
	return outReject
}

// faultBox is the sub-box of Part A the fault sweep runs on: what matters is the
// shape of the lookups (root, nested member, key, foreign path), so the weights
// are coarser than in Part A.
func faultBox(tier core.Tier) []ruleSpec {
	wvals := []float64{1}
	accepts := []float64{1, 2}
	if tier == core.Thorough {
		wvals = []float64{0.5, 1}
	}
	var out []ruleSpec
	for mask := 0; mask < 1<<len(boxMembers); mask++ {
		var mem []int
		for i, m := range boxMembers {
			if mask&(1<<i) != 0 {
				mem = append(mem, m)
			}
		}
		n := 1
		for range mem {
			n *= len(wvals)
		}
		for wi := 0; wi < n; wi++ {
			ws := map[string]float64{}
			x := wi
			for _, m := range mem {
				ws[symName[m]] = wvals[x%len(wvals)]
				x /= len(wvals)
			}
			for _, a := range accepts {
				cp := map[string]float64{}
				for k, v := range ws {
					cp[k] = v
				}
				out = append(out, ruleSpec{Kind: "thr", Weights: cp, Accept: a})
			}
		}
	}
	set := func(mask int) []string {
		s := []string{}
		for i, m := range boxMembers {
			if mask&(1<<i) != 0 {
				s = append(s, symName[m])
			}
		}
		return s
	}
	for a := 1; a < 16; a++ {
		out = append(out, ruleSpec{Kind: "aks", Sets: [][]string{set(a)}})
	}
	if tier == core.Thorough {
		for a := 1; a < 16; a++ {
			for b := a + 1; b < 16; b++ {
				out = append(out, ruleSpec{Kind: "aks", Sets: [][]string{set(a), set(b)}})
			}
		}
	}
	return out
}

// faultLists: every ordered signer list of size <= 2 over the URI universe.
func faultLists() [][]string {
	out := [][]string{{}}
	for _, a := range uriUniverse {
		out = append(out, []string{a})
	}
	for _, a := range uriUniverse {
		for _, b := range uriUniverse {
			out = append(out, []string{a, b})
		}
	}
	return out
}

type caseC struct {
	Part    string              `json:"part"`
	Target  string              `json:"target"`
	Rules   map[string]ruleSpec `json:"rules"`
	Signers []string            `json:"signers"`
	Mode    string              `json:"fault_mode"`
	K       int                 `json:"fault_position"`
	Point   string              `json:"fault_point"`
}

type statsC struct {
	configs, healthy, healthyAccept, healthyReject int
	points, faulted, fired                         int
	acceptToRefuse, refuseToAccept                 int
	refusedUnderEveryFault                         int // healthy refusals whose every faulted run stayed refused
	kinds                                          map[string]int
}

func faultModes(tier core.Tier) []int {
	if tier == core.Thorough {
		return []int{fmOnce, fmFrom, fmTarget}
	}
	return []int{fmOnce, fmFrom}
}

// sweepConfig: every list x every fault point x every mode on one configuration.
func sweepConfig(c *config, lists [][]string, reals [][]string, modes []int, st *statsC, viol *[]core.Violation) {
	plan := &faultPlan{}
	m := faultyManager(c.store(), plan)
	st.configs++
	var trace []string
	for li, real := range reals {
		plan.arm(fmOff, 0, "", true)
		healthy := implOn(c, m, real)
		trace = append(trace[:0], plan.trace...)
		st.healthy++
		if healthy == outAccept {
			st.healthyAccept++
		} else {
			st.healthyReject++
		}
		st.points += len(trace)
		flipped := false
		for _, mode := range modes {
			for k, id := range trace {
				if mode == fmTarget {
					first := true
					for _, prev := range trace[:k] {
						if prev == id {
							first = false
						}
					}
					if !first {
						continue
					}
				}
				plan.arm(mode, k, id, false)
				out := implOn(c, m, real)
				st.faulted++
				if plan.fired > 0 {
					st.fired++
				}
				st.kinds[id[:indexByte(id, '|')]]++
				switch {
				case healthy == outAccept && out != outAccept:
					st.acceptToRefuse++
				case healthy != outAccept && out == outAccept:
					st.refuseToAccept++
					flipped = true
					key := "c11.lookup_fault_satisfies_rule.member_unreadable"
					if k < 3 {
						// the first lookup (interface call, snapshot, get) is the judged object itself
						key = "c11.lookup_fault_satisfies_rule.judged_object_unreadable"
					}
					dup := false
					for _, v := range *viol {
						if v.Key == key {
							dup = true
						}
					}
					if !dup {
						*viol = append(*viol, core.Violation{Key: key,
							Summary:  fmt.Sprintf("%s, signers %v: refused with healthy lookups, accepted when lookup %d (%s) fails (mode %s); lookups of the evaluation: %v", c.describe(), lists[li], k, id, fmName[mode], trace),
							Case:     caseC{Part: "C", Target: tgtName[c.target], Rules: c.ruleMap(), Signers: lists[li], Mode: fmName[mode], K: k, Point: id},
							Expected: "reject (a failed lookup never grants)", Observed: "accept"})
					}
				}
			}
		}
		if healthy != outAccept && !flipped {
			st.refusedUnderEveryFault++
		}
	}
	plan.disarm()
}

func indexByte(s string, b byte) int {
	for i := 0; i < len(s); i++ {
		if s[i] == b {
			return i
		}
	}
	return len(s)
}

func runPartC(rep *core.Report, tier core.Tier) {
	initNames()
	box := faultBox(tier)
	nested := nestedBox(tier)
	lists := faultLists()
	reals := make([][]string, len(lists))
	for i, l := range lists {
		_, r, err := parseList(l)
		if err != nil {
			panic(err)
		}
		reals[i] = r
	}
	modes := faultModes(tier)
	fx1 := mustCompile(fixedX1)
	type res struct {
		st   statsC
		viol []core.Violation
		done bool
	}
	results := make([]res, len(box))
	jobs := make(chan int, len(box))
	for i := range box {
		jobs <- i
	}
	close(jobs)
	workers := runtime.NumCPU()
	if workers > 16 {
		workers = 16
	}
	var wg sync.WaitGroup
	for w := 0; w < workers; w++ {
		wg.Add(1)
		go func() {
			defer wg.Done()
			for ri := range jobs {
				if rep.Expired() {
					continue
				}
				r := &results[ri]
				r.st.kinds = map[string]int{}
				root := mustCompile(box[ri])
				for qi, qs := range nested {
					q := mustCompile(qs)
					c := &config{target: tgtX1}
					c.rules[nX1], c.rules[nX2] = root, q
					sweepConfig(c, lists, reals, modes, &r.st, &r.viol)
					c = &config{target: tgtMethod, method: root}
					c.rules[nX1], c.rules[nX2] = fx1, q
					sweepConfig(c, lists, reals, modes, &r.st, &r.viol)
					if specNamesX1(nested[qi]) {
						c = &config{target: tgtX2}
						c.rules[nX1], c.rules[nX2] = root, q
						sweepConfig(c, lists, reals, modes, &r.st, &r.viol)
					}
				}
				r.done = true
			}
		}()
	}
	wg.Wait()
	tot := statsC{kinds: map[string]int{}}
	complete := true
	for i := range results {
		r := &results[i]
		if !r.done {
			complete = false
			continue
		}
		tot.configs += r.st.configs
		tot.healthy += r.st.healthy
		tot.healthyAccept += r.st.healthyAccept
		tot.healthyReject += r.st.healthyReject
		tot.points += r.st.points
		tot.faulted += r.st.faulted
		tot.fired += r.st.fired
		tot.acceptToRefuse += r.st.acceptToRefuse
		tot.refuseToAccept += r.st.refuseToAccept
		tot.refusedUnderEveryFault += r.st.refusedUnderEveryFault
		for k, v := range r.st.kinds {
			tot.kinds[k] += v
		}
		for _, v := range r.viol {
			rep.Violation(v)
		}
	}
	mn := []string{}
	for _, m := range modes {
		mn = append(mn, fmName[m])
	}
	rep.Set("c.rules_judged_object", len(box))
	rep.Set("c.rules_nested_account", len(nested))
	rep.Set("c.signer_lists", len(lists))
	rep.Set("c.fault_modes", mn)
	rep.Set("c.configurations", tot.configs)
	rep.Set("c.healthy_evaluations", tot.healthy)
	rep.Set("c.healthy_accept", tot.healthyAccept)
	rep.Set("c.healthy_reject", tot.healthyReject)
	rep.Set("c.fault_points_in_healthy_evaluations", tot.points)
	rep.Set("c.faulted_evaluations", tot.faulted)
	rep.Set("c.faulted_evaluations_where_the_fault_fired", tot.fired)
	rep.Set("c.faulted_by_point_kind", tot.kinds)
	rep.Set("c.fault_turned_accept_into_refusal", tot.acceptToRefuse)
	rep.Set("c.fault_turned_refusal_into_accept", tot.refuseToAccept)
	rep.Set("c.healthy_refusals_refused_under_every_fault", tot.refusedUnderEveryFault)
	rep.Set("c.complete", complete)
	rep.Add("evaluations", tot.healthy+tot.faulted)
	rep.Add("distinct_nontrivial", tot.refusedUnderEveryFault)
}

func replayC(raw json.RawMessage) (bool, string, error) {
	var cs caseC
	if err := json.Unmarshal(raw, &cs); err != nil {
		return false, "", err
	}
	c, err := configFromCase(&caseA{Target: cs.Target, Rules: cs.Rules})
	if err != nil {
		return false, "", err
	}
	mode, err := fmByName(cs.Mode)
	if err != nil {
		return false, "", err
	}
	_, real, err := parseList(cs.Signers)
	if err != nil {
		return false, "", err
	}
	plan := &faultPlan{}
	m := faultyManager(c.store(), plan)
	plan.arm(fmOff, 0, "", true)
	healthy := implOn(c, m, real)
	trace := append([]string(nil), plan.trace...)
	plan.arm(mode, cs.K, cs.Point, false)
	out := implOn(c, m, real)
	msg := fmt.Sprintf("%s, signers %v: healthy %s; lookup %d (%s) failing (mode %s, fired %d times): %s; lookups %v", c.describe(), cs.Signers, outStr(healthy), cs.K, cs.Point, cs.Mode, plan.fired, outStr(out), trace)
	if healthy != outAccept && out == outAccept {
		return true, "c11.lookup_fault_satisfies_rule: " + msg, nil
	}
	return false, msg, nil
}
