package c11

// Part D: one judged transaction in every prepared chain state, over the
// dimensions Part B keeps fixed:
//
//   - the REQUEST FORM that reaches a rule-changing kernel method: the named
//     contract ($acl.SetAccountAcl ...), the shortcut the registry resolves for an
//     empty contract name, and a write to the same bucket row by another kernel
//     contract ($vkv put); each alone, after and before an unrelated request;
//   - the INITIATOR string: bare keys, paths with a key or an account in front
//     of the signing key, an account (signed by a member / a stranger), empty
//     and half-empty strings;
//   - PENDING creation / change of the rule, the method rule or the ownership
//     the transaction depends on (prefix events, with and without a block);
//   - FAULTS: every lookup the ACL manager makes during State.VerifyTx fails in
//     turn (fault.go), differential against the healthy decision.
//
// The permission a transaction needs is derived from what it does (its write
// set, its inputs, its requests), not from how it was built.

import (
	"bytes"
	"encoding/json"
	"fmt"
	"runtime"
	"strings"
	"sync"

	pb "github.com/xuperchain/xupercore/bcs/ledger/xledger/xldgpb"
	"github.com/xuperchain/xupercore/kernel/contract"
	"github.com/xuperchain/xupercore/kernel/engines/xuperos/agent"
	aclutils "github.com/xuperchain/xupercore/kernel/permission/acl/utils"
	"github.com/xuperchain/xupercore/protos"
	"github.com/xuperchain/xupercore/verifshim/vhook"

	"verif/core"
	"verif/world"
)

const (
	rawX2        = "2222222222222222"
	rawX3        = "3333333333333333"
	acctX3       = "XC3333333333333333@xuper"
	cntr2        = "cntr2"
	cntr3        = "cntr3"
	bindShortcut = "C11Bind"
)

// fixtureHook registers the harness kernel methods of the histories: the
// ownership binder (bindHook), its shortcut, the harness contract $vkv (puts
// into any bucket) and a callable method cntr.m whose method rule is judged by
// verifyContractPermission like that of a deployed contract.
func fixtureHook(m contract.Manager) {
	bindHook(m)
	world.RegisterVKV(m)
	r := m.GetKernRegistry()
	r.RegisterShortcut(bindShortcut, bindContract, "bind")
	r.RegisterKernMethod(histContract, histMethod, func(ctx contract.KContext) (*contract.Response, error) {
		ctx.AddResourceUsed(contract.Limits{XFee: 1})
		return &contract.Response{Status: 200, Message: "success"}, nil
	})
}

// rules of Part D by name
var dRules = map[string]ruleSpec{
	"Ra": histRules["Ra"],
	"Rb": histRules["Rb"],
	"Rc": histRules["Rc"],
	"Rn": {Kind: "thr", Weights: map[string]float64{"k2": 1}, Accept: 1},          // X2 / X3 at creation
	"Mk": {Kind: "thr", Weights: map[string]float64{"k3": 1}, Accept: 1},          // method rule naming a key
	"Mx": {Kind: "thr", Weights: map[string]float64{"X1": 1}, Accept: 1},          // method rule naming account X1
	"Mn": {Kind: "thr", Weights: map[string]float64{"k2": 1, "k3": 1}, Accept: 1}, // the method rule a judged SetMethodAcl writes
}

// AuthRequire choices besides the fee payer D (each entry signed by the key of its last segment)
var dSigners = map[string][]string{
	"-":  {},
	"A":  {"X1/k1"},
	"B":  {"X1/k2"},
	"AB": {"X1/k1", "X1/k2"},
	"C":  {"k3"},
	"fA": {"X1/k1/k3"},
	"2B": {"X2/k2"},
	"AA": {"X1/k1", "X1/k1"},
}
var dSignerOrder = []string{"-", "A", "B", "AB", "C", "fA", "2B", "AA"}

// initiators: label -> (symbolic URI, signing key). "D" is the bare fee payer.
type initSpec struct {
	label, uri, signer string
	bare               bool
}

var dInitiators = []initSpec{
	{"D", "", "D", true},
	{"k2", "k2", "B", true},
	{"k3", "k3", "C", true},
	{"k3/k2", "k3/k2", "B", false},
	{"k1/k2", "k1/k2", "B", false},
	{"X1/k2", "X1/k2", "B", false},
	{"X1/k1", "X1/k1", "A", false},
	{"X1~A", "X1", "A", false},
	{"X1~B", "X1", "B", false},
	{"~B", "", "B", false},
	{"k3/~B", "k3/", "B", false},
	{"/k2", "/k2", "B", false},
}

func initByLabel(l string) (initSpec, error) {
	for _, i := range dInitiators {
		if i.label == l {
			return i, nil
		}
	}
	return initSpec{}, fmt.Errorf("c11: unknown initiator %q", l)
}

func (i initSpec) show() string {
	if i.label == "D" {
		return "D"
	}
	return fmt.Sprintf("%q", i.uri)
}

func (i initSpec) real() string {
	if i.label == "D" {
		return world.Addr("D")
	}
	u, err := parseURI(i.uri)
	if err != nil {
		panic(err)
	}
	return realURI(u)
}

// refURIs: what the initiator contributes to the signer URIs of the reference:
// a key or path as it stands, an account as account/<signing key>.
func (i initSpec) refURIs() []string {
	switch {
	case i.label == "D":
		return nil
	case i.uri == "X1":
		return []string{"X1/" + map[string]string{"A": "k1", "B": "k2", "C": "k3"}[i.signer]}
	}
	return []string{i.uri}
}

var (
	dOps      = []string{"setacl:X1", "setacl:X2", "setm:cntr", "setm:cntr2", "new:X3", "bind:cntr3", "spend", "call"}
	dForms    = []string{"named", "short", "raw"}
	dPos      = []string{"alone", "after", "before"}
	opWhat    = map[string]string{"setacl": "acl_change", "setm": "method_acl_change", "new": "account_creation", "bind": "contract_binding", "spend": "account_spend", "call": "method_call"}
	dPrefixEv = []string{"setX1", "newX2", "setmK", "setmX", "bind2"}
)

func writesBuckets(op string) bool { return op != "spend" && op != "call" }

type dEvent struct {
	Op, Form, Pos, Signers, Init string
}

func (e dEvent) String() string {
	return strings.Join([]string{e.Op, e.Form, e.Pos, e.Signers, e.Init}, "|")
}

func parseDEvent(s string) (dEvent, error) {
	f := strings.Split(s, "|")
	if len(f) != 5 {
		return dEvent{}, fmt.Errorf("c11: bad event %q", s)
	}
	return dEvent{f[0], f[1], f[2], f[3], f[4]}, nil
}

func vkvPut(bucket, key, value string) *protos.InvokeRequest {
	return &protos.InvokeRequest{ModuleName: "xkernel", ContractName: world.VKVContract, MethodName: "run",
		Args: map[string][]byte{"prog": []byte("put " + key + " " + value), "bucket": []byte(bucket)}}
}

// dRequest builds the request of a bucket-writing op in the given form.
func dRequest(op, form string) (*protos.InvokeRequest, error) {
	f := strings.SplitN(op, ":", 2)
	obj := ""
	if len(f) == 2 {
		obj = f[1]
	}
	kern := func(named, method string, args map[string][]byte) *protos.InvokeRequest {
		cn := named
		if form == "short" {
			cn = ""
			if named == bindContract {
				method = bindShortcut
			}
		}
		return &protos.InvokeRequest{ModuleName: "xkernel", ContractName: cn, MethodName: method, Args: args}
	}
	switch f[0] {
	case "setacl":
		acct, rule := acctX1, "Rb"
		if obj == "X2" {
			acct, rule = acctX2, "Ra"
		}
		if form == "raw" {
			return vkvPut(aclutils.GetAccountBucket(), acct, string(aclJSON(dRules[rule]))), nil
		}
		return kern(aclutils.SubModName, "SetAccountAcl", map[string][]byte{"account_name": []byte(acct), "acl": aclJSON(dRules[rule])}), nil
	case "setm":
		if form == "raw" {
			return vkvPut(aclutils.GetContractBucket(), aclutils.MakeContractMethodKey(obj, histMethod), string(aclJSON(dRules["Mn"]))), nil
		}
		return kern(aclutils.SubModName, "SetMethodAcl", map[string][]byte{"contract_name": []byte(obj), "method_name": []byte(histMethod), "acl": aclJSON(dRules["Mn"])}), nil
	case "new":
		if form == "raw" {
			return vkvPut(aclutils.GetAccountBucket(), acctX3, string(aclJSON(dRules["Rn"]))), nil
		}
		return kern(aclutils.SubModName, "NewAccount", map[string][]byte{"account_name": []byte(rawX3), "acl": aclJSON(dRules["Rn"])}), nil
	case "bind":
		if form == "raw" {
			return vkvPut(aclutils.GetContract2AccountBucket(), obj, acctX1), nil
		}
		return kern(bindContract, "bind", map[string][]byte{"contract_name": []byte(obj), "account_name": []byte(acctX1)}), nil
	case "call":
		return &protos.InvokeRequest{ModuleName: "xkernel", ContractName: histContract, MethodName: histMethod}, nil
	}
	return nil, fmt.Errorf("c11: op %q has no request", op)
}

func benignRequest() *protos.InvokeRequest { return world.VKVRequest("put a 1") }

// ---------------------------------------------------------------------------
// model of the prepared state

type ver struct{ conf, pend string }

type dmodel struct {
	acct  map[string]*ver // account -> rule name
	meth  map[string]*ver // contract \x01 method -> rule name
	owner map[string]*ver // contract -> account
}

func newDModel(initial string) *dmodel {
	return &dmodel{
		acct:  map[string]*ver{acctX1: {initial, initial}},
		meth:  map[string]*ver{},
		owner: map[string]*ver{histContract: {acctX1, acctX1}},
	}
}

func (m *dmodel) confirm() {
	for _, t := range []map[string]*ver{m.acct, m.meth, m.owner} {
		for _, v := range t {
			v.conf = v.pend
		}
	}
}

func setPend(t map[string]*ver, k, v string) {
	if t[k] == nil {
		t[k] = &ver{}
	}
	t[k].pend = v
}

func (m *dmodel) describe() string {
	var parts []string
	show := func(name string, t map[string]*ver) {
		keys := []string{}
		for k := range t {
			keys = append(keys, k)
		}
		sortStrings(keys)
		for _, k := range keys {
			v := t[k]
			s := fmt.Sprintf("%s[%s]=%s", name, strings.ReplaceAll(k, "\x01", "."), orNone(v.conf))
			if v.pend != v.conf {
				s += fmt.Sprintf(" (pending: %s)", orNone(v.pend))
			}
			parts = append(parts, s)
		}
	}
	show("rule", m.acct)
	show("method_rule", m.meth)
	show("owner", m.owner)
	return strings.Join(parts, ", ")
}

func orNone(s string) string {
	if s == "" {
		return "none"
	}
	return s
}

// dw: one node in a prepared state.
type dw struct {
	*hw
	plan    *faultPlan
	model   *dmodel
	initial string
}

func openD(s *snap) *dw {
	h := s.open()
	plan := &faultPlan{}
	// the real acl.Manager, reading through the fault seam, replaces the State's manager
	h.w.State.SetAclMG(faultyManager(agent.NewLedgerAgent(h.w.Chain), plan))
	return &dw{hw: h, plan: plan, model: newDModel(s.initial), initial: s.initial}
}

func (d *dw) verify(tx *pb.Transaction) bool {
	ok, err := d.w.State.VerifyTx(tx)
	vhook.Drain()
	return ok && err == nil
}

// build assembles the transaction of an event on the node's current state; nil
// when the request cannot be pre-executed there (e.g. the account is missing).
func (d *dw) build(ev dEvent) (*pb.Transaction, error) {
	auth, ok := dSigners[ev.Signers]
	if !ok {
		return nil, fmt.Errorf("c11: bad signer choice %q", ev.Signers)
	}
	ini, err := initByLabel(ev.Init)
	if err != nil {
		return nil, err
	}
	if ev.Op == "spend" {
		if len(d.x1) == 0 {
			core.HarnessError("c11: no unspent output of X1 left")
		}
		src := d.x1[0]
		return d.assembleAs(ini, auth, []outpoint{src}, []txOut{{"B", amountOf(src)}}, nil), nil
	}
	req, err := dRequest(ev.Op, ev.Form)
	if err != nil {
		return nil, err
	}
	reqs := []*protos.InvokeRequest{req}
	switch ev.Pos {
	case "after":
		reqs = []*protos.InvokeRequest{benignRequest(), req}
	case "before":
		reqs = []*protos.InvokeRequest{req, benignRequest()}
	}
	ar, _ := authRequire(auth)
	pre, perr := d.w.PreExec(reqs, ini.real(), ar)
	if perr != nil {
		return nil, nil
	}
	total := amountOf(d.fee)
	var outs []txOut
	if pre.GasUsed > 0 {
		outs = append(outs, txOut{"$", pre.GasUsed})
	}
	outs = append(outs, txOut{"D", total - pre.GasUsed})
	return d.assembleAs(ini, auth, []outpoint{d.fee}, outs, pre), nil
}

// step applies one prefix event (built with the permission it needs); false if
// it cannot be built or is refused in this state.
func (d *dw) step(ev string) bool {
	legit := []string{"X1/k1", "X1/k2"}
	var tx *pb.Transaction
	var chg int
	var err error
	switch ev {
	case "block":
		d.block()
		d.model.confirm()
		return true
	case "setX1":
		tx, chg, err = d.contractTx(aclRequest("SetAccountAcl", map[string][]byte{"account_name": []byte(acctX1), "acl": aclJSON(dRules["Rb"])}), legit)
	case "newX2":
		tx, chg, err = d.contractTx(aclRequest("NewAccount", map[string][]byte{"account_name": []byte(rawX2), "acl": aclJSON(dRules["Rn"])}), nil)
	case "setmK", "setmX":
		tx, chg, err = d.contractTx(aclRequest("SetMethodAcl", map[string][]byte{"contract_name": []byte(histContract), "method_name": []byte(histMethod),
			"acl": aclJSON(dRules["M"+strings.ToLower(ev[4:])])}), legit)
	case "bind2":
		tx, chg, err = d.contractTx(&protos.InvokeRequest{ModuleName: "xkernel", ContractName: bindContract, MethodName: "bind",
			Args: map[string][]byte{"contract_name": []byte(cntr2), "account_name": []byte(acctX1)}}, legit)
	default:
		core.HarnessError("c11: bad prefix event %q", ev)
	}
	if err != nil {
		return false
	}
	// the rule on the confirmed chain decides; a prefix event signed by k1 and k2
	// is not permitted once the confirmed rule of X1 is neither Ra nor Rc ... it
	// is then simply not part of this state space
	if ok, _ := d.submit(tx); !ok {
		return false
	}
	d.fee = outpoint{tx, chg}
	switch ev {
	case "setX1":
		setPend(d.model.acct, acctX1, "Rb")
	case "newX2":
		setPend(d.model.acct, acctX2, "Rn")
	case "setmK":
		setPend(d.model.meth, aclutils.MakeContractMethodKey(histContract, histMethod), "Mk")
	case "setmX":
		setPend(d.model.meth, aclutils.MakeContractMethodKey(histContract, histMethod), "Mx")
	case "bind2":
		setPend(d.model.owner, cntr2, acctX1)
	}
	return true
}

// ---------------------------------------------------------------------------
// what a transaction needs, by definition

type need struct {
	what     string // human readable
	target   int    // tgtX1 / tgtX2 / tgtMethod
	rule     string // rule name the signers must satisfy; "" with deny = nobody can
	deny     bool
	oneSided bool // the statement gives a necessary condition only
	pendingC bool // the rule is that of an account whose creation is unconfirmed
	// citedRule: the (unconfirmed) rule version the transaction's read set cites
	// when it differs from the rule on the confirmed chain; observed only
	citedRule string
}

var acctID = map[string]int{acctX1: nX1, acctX2: nX2}

func (m *dmodel) accountNeed(a, why string, tx *pb.Transaction) (need, bool) {
	v := m.acct[a]
	tgt, known := map[string]int{acctX1: tgtX1, acctX2: tgtX2}[a]
	switch {
	case v != nil && v.conf != "" && known:
		n := need{what: why + " " + a + " (rule on the confirmed chain " + v.conf + ")", target: tgt, rule: v.conf}
		if v.pend != v.conf && citesExisting(tx, aclutils.GetAccountBucket(), a) {
			n.citedRule = v.pend
		}
		return n, true
	case v != nil && v.pend != "" && known && citesExisting(tx, aclutils.GetAccountBucket(), a):
		return need{what: why + " " + a + " (no rule on the confirmed chain; the transaction's read set cites the unconfirmed creation with rule " + v.pend + ")", target: tgt, rule: v.pend, oneSided: true, pendingC: true}, true
	}
	return need{}, false
}

func citesExisting(tx *pb.Transaction, bucket, key string) bool {
	for _, in := range tx.TxInputsExt {
		if in.Bucket == bucket && string(in.Key) == key && len(in.RefTxid) > 0 {
			return true
		}
	}
	return false
}

func (m *dmodel) needs(tx *pb.Transaction) []need {
	var out []need
	for _, in := range tx.TxInputs {
		from := string(in.FromAddr)
		if aclutils.IsAccount(from) != 1 {
			continue
		}
		if n, ok := m.accountNeed(from, "spends from", tx); ok && !n.pendingC {
			out = append(out, n)
		} else {
			out = append(out, need{what: "spends from " + from + " which has no rule on the confirmed chain", deny: true})
		}
	}
	for _, r := range tx.ContractRequests {
		k := aclutils.MakeContractMethodKey(r.ContractName, r.MethodName)
		if v := m.meth[k]; v != nil && v.conf != "" {
			out = append(out, need{what: "calls " + r.ContractName + "." + r.MethodName + " (method rule on the confirmed chain " + v.conf + ")", target: tgtMethod, rule: v.conf})
		}
	}
	for _, o := range tx.TxOutputsExt {
		switch o.Bucket {
		case aclutils.GetAccountBucket():
			if n, ok := m.accountNeed(string(o.Key), "writes the rule of", tx); ok {
				out = append(out, n)
			}
		case aclutils.GetContractBucket():
			c := string(o.Key)
			if i := bytes.IndexByte(o.Key, 1); i >= 0 {
				c = string(o.Key[:i])
			}
			ow := m.owner[c]
			if ow == nil || ow.conf == "" {
				out = append(out, need{what: "writes a method rule of " + c + " which no account owns on the confirmed chain", deny: true, oneSided: true})
				continue
			}
			if n, ok := m.accountNeed(ow.conf, "writes a method rule of "+c+" owned by", tx); ok {
				out = append(out, n)
			}
		case aclutils.GetContract2AccountBucket():
			if n, ok := m.accountNeed(string(o.Value), "binds contract "+string(o.Key)+" to", tx); ok {
				out = append(out, n)
			}
		}
	}
	return out
}

// permitted evaluates every need with Part A's reference on the signer URIs
// (AuthRequire plus what the initiator contributes). Names in the middle of a
// path are unverified by construction (only the last segment's key signs).
func (m *dmodel) permitted(needs []need, uris []string) (lo, hi bool) {
	lo, hi = true, true
	us, _, err := parseList(uris)
	if err != nil {
		panic(err)
	}
	for _, n := range needs {
		if n.deny {
			return false, false
		}
		c := &config{target: n.target}
		for a, id := range acctID {
			if v := m.acct[a]; v != nil && v.conf != "" {
				c.rules[id] = mustCompile(dRules[v.conf])
			}
		}
		r := mustCompile(dRules[n.rule])
		switch n.target {
		case tgtX1:
			c.rules[nX1] = r
		case tgtX2:
			c.rules[nX2] = r
		default:
			c.method = r
		}
		e := &refEval{forceMid: true}
		l, h, _ := referenceWith(e, c, us)
		lo = lo && l
		hi = hi && h
	}
	return lo, hi
}

// citedUnsatisfied: the transaction is permitted by the confirmed rules, and
// some rule it rewrites has a newer unconfirmed version (cited by its read set)
// that the signers do not satisfy.
func (m *dmodel) citedUnsatisfied(needs []need, uris []string) bool {
	if lo, _ := m.permitted(needs, uris); !lo {
		return false
	}
	for _, n := range needs {
		if n.citedRule == "" {
			continue
		}
		c := n
		c.rule = n.citedRule
		if _, hi := m.permitted([]need{c}, uris); !hi {
			return true
		}
	}
	return false
}

func plainURIs(uris []string) bool {
	for _, s := range uris {
		u, err := parseURI(s)
		if err != nil {
			panic(err)
		}
		if malformed(u) {
			return false
		}
		for _, n := range u[:len(u)-1] {
			if isKeyName(n) {
				return false
			}
		}
	}
	return true
}

// ---------------------------------------------------------------------------
// judging one event

type caseD struct {
	Part    string   `json:"part"`
	Initial string   `json:"initial"`
	Prefix  []string `json:"prefix"`
	Event   string   `json:"event"`
	Mode    string   `json:"fault_mode,omitempty"`
	K       int      `json:"fault_position,omitempty"`
	Point   string   `json:"fault_point,omitempty"`
}

type dStats struct {
	events, unbuildable, accepted, refused                int
	judgedTwoSided, judgedOneSided, unconstrained, silent int
	refusedThoughPermittedObserved                        int
	acceptedAgainstCitedPendingRule                       int
	refusedThoughPermittedBy                              map[string]int
	faultTx, faultPoints, faulted, fired                  int
	acceptToRefuse, refuseToAccept, refusedEveryFault     int
	pointKinds                                            map[string]int
	kinds                                                 map[string]bool
	nontrivial                                            int
	sample                                                map[string]interface{}
}

func (s *dStats) add(o *dStats) {
	s.events += o.events
	s.unbuildable += o.unbuildable
	s.accepted += o.accepted
	s.refused += o.refused
	s.judgedTwoSided += o.judgedTwoSided
	s.judgedOneSided += o.judgedOneSided
	s.unconstrained += o.unconstrained
	s.silent += o.silent
	s.refusedThoughPermittedObserved += o.refusedThoughPermittedObserved
	s.acceptedAgainstCitedPendingRule += o.acceptedAgainstCitedPendingRule
	s.faultTx += o.faultTx
	s.faultPoints += o.faultPoints
	s.faulted += o.faulted
	s.fired += o.fired
	s.acceptToRefuse += o.acceptToRefuse
	s.refuseToAccept += o.refuseToAccept
	s.refusedEveryFault += o.refusedEveryFault
	s.nontrivial += o.nontrivial
	for k, v := range o.pointKinds {
		s.pointKinds[k] += v
	}
	for k, v := range o.refusedThoughPermittedBy {
		s.refusedThoughPermittedBy[k] += v
	}
	for k := range o.kinds {
		s.kinds[k] = true
	}
}

// healthyOutcome builds and verifies a variant of the event; used to name the
// dimension a wrong acceptance depends on.
func (d *dw) healthyOutcome(ev dEvent) (built, accepted bool) {
	tx, err := d.build(ev)
	if err != nil || tx == nil {
		return false, false
	}
	d.plan.disarm()
	return true, d.verify(tx)
}

// judge runs one event with healthy lookups and (modes != nil) under every fault.
func (d *dw) judge(ev dEvent, prefix []string, modes []int, only *caseD, st *dStats) []core.Violation {
	var viol []core.Violation
	tx, err := d.build(ev)
	if err != nil {
		core.HarnessError("c11: %v", err)
	}
	st.events++
	if tx == nil {
		st.unbuildable++
		return nil
	}
	ini, _ := initByLabel(ev.Init)
	uris := append(append([]string{}, dSigners[ev.Signers]...), ini.refURIs()...)
	needs := d.model.needs(tx)
	lo, hi := d.model.permitted(needs, uris)
	d.plan.arm(fmOff, 0, "", true)
	ok := d.verify(tx)
	trace := append([]string(nil), d.plan.trace...)
	d.plan.disarm()
	what := opWhat[strings.SplitN(ev.Op, ":", 2)[0]]
	st.kinds[fmt.Sprintf("%s/%s/%v", what, ev.Form, ok)] = true
	if ok {
		st.accepted++
	} else {
		st.refused++
	}
	var whats []string
	oneSided := !ini.bare || !plainURIs(uris) || ev.Form != "named" || ev.Pos != "alone"
	pendingC := false
	for _, n := range needs {
		whats = append(whats, n.what)
		oneSided = oneSided || n.oneSided
		pendingC = pendingC || n.pendingC
	}
	mk := func(key, exp, obs string, cs caseD) core.Violation {
		return core.Violation{Key: key,
			Summary: fmt.Sprintf("X1 created with %s=%s; state after %v: %s. Transaction %s (initiator %s signed by %s, AuthRequire D + %v, each entry signed by the key of its last segment) %s: State.VerifyTx %s",
				d.initial, dRules[d.initial], prefix, d.model.describe(), ev, ini.show(), ini.signer, dSigners[ev.Signers], strings.Join(whats, "; "), obs),
			Case: cs, Expected: exp, Observed: obs}
	}
	base := caseD{Part: "D", Initial: d.initial, Prefix: append([]string{}, prefix...), Event: ev.String()}
	switch {
	case len(needs) == 0:
		st.unconstrained++
	case lo != hi:
		st.silent++
	case ok && d.model.citedUnsatisfied(needs, uris):
		// accepted by the rule on the confirmed chain (what the statement asks for)
		// although the signers do not satisfy the newer, unconfirmed rule version
		// the transaction's own read set cites: observed, not judged
		st.acceptedAgainstCitedPendingRule++
		if oneSided {
			st.judgedOneSided++
		} else {
			st.judgedTwoSided++
		}
	case ok && !hi:
		if oneSided {
			st.judgedOneSided++
		} else {
			st.judgedTwoSided++
		}
		// name the dimension the wrong acceptance depends on
		key := "c11.verifytx." + what + "_accepted_without_permission"
		switch {
		case !ini.bare && refusedAs(d, ev, func(e *dEvent) { e.Init = "D" }):
			key = "c11.unverified_initiator_name_counts"
		case pendingC:
			key = "c11.rule_of_unconfirmed_account_not_enforced"
		case ev.Pos != "alone" && refusedAs(d, ev, func(e *dEvent) { e.Pos = "alone" }):
			key = "c11.acl_bucket_write_unguarded.request_position"
		case ev.Form == "short" && refusedAs(d, ev, func(e *dEvent) { e.Form, e.Pos = "named", "alone" }):
			key = "c11.acl_bucket_write_unguarded.shortcut_request"
		case ev.Form == "raw" && refusedAs(d, ev, func(e *dEvent) { e.Form, e.Pos = "named", "alone" }):
			key = "c11.acl_bucket_write_unguarded.other_kernel_contract"
		case ev.Signers == "fA":
			key = "c11.unverified_path_name_counts"
		}
		viol = append(viol, mk(key, "refused", "accepted", base))
	case !ok && lo:
		if oneSided {
			st.refusedThoughPermittedObserved++
			st.refusedThoughPermittedBy[ev.Form+"/"+ev.Pos+"/initiator "+ev.Init+"/signers "+ev.Signers]++
		} else {
			st.judgedTwoSided++
			viol = append(viol, mk("c11.verifytx."+what+"_refused_with_permission", "accepted", "refused", base))
		}
	default:
		if oneSided {
			st.judgedOneSided++
		} else {
			st.judgedTwoSided++
		}
	}
	if modes == nil {
		return viol
	}
	// every lookup of the healthy verification fails in turn
	st.faultTx++
	st.faultPoints += len(trace)
	flipped := false
	for _, mode := range modes {
		for k, id := range trace {
			if only != nil && (fmName[mode] != only.Mode || k != only.K) {
				continue
			}
			if mode == fmTarget {
				first := true
				for _, prev := range trace[:k] {
					if prev == id {
						first = false
					}
				}
				if !first {
					continue
				}
			}
			d.plan.arm(mode, k, id, false)
			fok := d.verify(tx)
			fired := d.plan.fired
			d.plan.disarm()
			st.faulted++
			if fired > 0 {
				st.fired++
			}
			st.pointKinds[id[:indexByte(id, '|')]]++
			switch {
			case ok && !fok:
				st.acceptToRefuse++
			case !ok && fok:
				st.refuseToAccept++
				flipped = true
				cs := base
				cs.Mode, cs.K, cs.Point = fmName[mode], k, id
				v := mk("c11.lookup_fault_turns_refusal_into_acceptance."+what,
					"refused (as with healthy lookups: a failed lookup never grants)",
					fmt.Sprintf("refused with healthy lookups, accepted when lookup %d (%s) fails (mode %s); lookups of the verification: %v", k, strings.ReplaceAll(id, "\x01", "."), fmName[mode], cleanTrace(trace)), cs)
				dup := false
				for _, x := range viol {
					if x.Key == v.Key {
						dup = true
					}
				}
				if !dup {
					viol = append(viol, v)
				}
			}
		}
	}
	if !ok {
		st.nontrivial++
		if !flipped {
			st.refusedEveryFault++
		}
		if st.sample == nil && only == nil && len(needs) > 0 {
			st.sample = map[string]interface{}{"part": "D", "initial": d.initial, "prefix": append([]string{}, prefix...), "event": ev.String(),
				"needs": whats, "healthy": "refused", "lookups_of_the_verification": cleanTrace(trace), "fault_modes": len(modes), "accepted_under_some_fault": flipped}
		}
	}
	return viol
}

func cleanTrace(t []string) []string {
	out := make([]string, len(t))
	for i, s := range t {
		out[i] = strings.ReplaceAll(s, "\x01", ".")
	}
	return out
}

// refusedAs: is the variant of the event (one dimension moved back to its
// baseline) buildable and refused in the same state?
func refusedAs(d *dw, ev dEvent, change func(*dEvent)) bool {
	v := ev
	change(&v)
	built, acc := d.healthyOutcome(v)
	return built && !acc
}

// ---------------------------------------------------------------------------
// enumeration

func dPrefixes(tier core.Tier) [][]string {
	out := [][]string{{}}
	for _, e := range dPrefixEv {
		out = append(out, []string{e}, []string{e, "block"})
	}
	if tier == core.Thorough {
		for _, a := range dPrefixEv {
			for _, b := range dPrefixEv {
				if a == b {
					continue
				}
				out = append(out, []string{a, b}, []string{a, b, "block"})
			}
		}
	}
	return out
}

// dEvents: the judged alphabet of one op. faults reports whether the event is
// also run under every lookup fault.
func dEvents(op string, tier core.Tier) (evs []dEvent, faults []bool) {
	add := func(e dEvent, f bool) {
		evs = append(evs, e)
		faults = append(faults, f)
	}
	forms, poss := []string{"named"}, []string{"alone"}
	if writesBuckets(op) {
		forms, poss = dForms, dPos
	}
	// request form x position x signers, initiator D
	for _, f := range forms {
		for _, p := range poss {
			for _, s := range dSignerOrder {
				add(dEvent{op, f, p, s, "D"}, p == "alone" || tier == core.Thorough)
			}
		}
	}
	// initiator x signers (x form in the thorough tier), request alone
	iforms := []string{"named"}
	if tier == core.Thorough {
		iforms = forms
	}
	for _, f := range iforms {
		for _, ini := range dInitiators[1:] {
			for _, s := range dSignerOrder {
				add(dEvent{op, f, "alone", s, ini.label}, false)
			}
		}
	}
	return
}

type dJob struct {
	snap   *snap
	prefix []string
	op     string
}

type dResult struct {
	st      dStats
	viol    []core.Violation
	skipped bool // prefix not applicable in this state space
	done    bool
}

func newDStats() dStats {
	return dStats{pointKinds: map[string]int{}, kinds: map[string]bool{}, refusedThoughPermittedBy: map[string]int{}}
}

func runDJob(j dJob, tier core.Tier) *dResult {
	res := &dResult{st: newDStats()}
	d := openD(j.snap)
	defer d.close()
	for _, e := range j.prefix {
		if !d.step(e) {
			res.skipped = true
			res.done = true
			return res
		}
	}
	modes := faultModes(tier)
	evs, faults := dEvents(j.op, tier)
	var first *pb.Transaction
	var firstOK bool
	for i, ev := range evs {
		var ms []int
		if faults[i] {
			ms = modes
		}
		for _, v := range d.judge(ev, j.prefix, ms, nil, &res.st) {
			dup := false
			for _, x := range res.viol {
				if x.Key == v.Key {
					dup = true
				}
			}
			if !dup {
				res.viol = append(res.viol, v)
			}
		}
		if first == nil {
			if tx, _ := d.build(ev); tx != nil {
				first, firstOK = tx, d.verify(tx)
			}
		}
	}
	// the judged transactions are only verified, never applied: the state every
	// one of them was judged in must still be the prepared one
	if first != nil && d.verify(first) != firstOK {
		core.HarnessError("c11: Part D state changed while judging (prefix %v op %s)", j.prefix, j.op)
	}
	res.done = true
	return res
}

func runPartD(rep *core.Report, tier core.Tier) {
	initNames()
	initials := []string{"Ra"}
	if tier == core.Thorough {
		initials = []string{"Ra", "Rc"}
	}
	snaps := map[string]*snap{}
	defer func() {
		for _, s := range snaps {
			s.space.Drop()
		}
	}()
	for _, r := range initials {
		sn, err := buildSnap(r)
		if err != nil {
			// Part B reports the refused setup transaction
			rep.Set("d.events", 0)
			return
		}
		snaps[r] = sn
	}
	// what the registry of the fixture resolves for an empty contract name
	{
		d := openD(snaps[initials[0]])
		reg := d.w.Chain.Contract.GetKernRegistry()
		resolved := []string{}
		for _, m := range []string{"NewAccount", "SetAccountAcl", "SetMethodAcl", bindShortcut, "Deploy", "Upgrade"} {
			if _, err := reg.GetKernMethod("", m); err == nil {
				resolved = append(resolved, m)
			}
		}
		d.close()
		rep.Set("d.registry_shortcuts_resolved_for_empty_contract_name", resolved)
	}
	// the deeper prefixes run on the first initial rule only
	prefixes := dPrefixes(tier)
	var jobs []dJob
	for ii, ini := range initials {
		ps := prefixes
		if ii > 0 {
			ps = dPrefixes(core.Quick)
		}
		for _, p := range ps {
			for _, op := range dOps {
				jobs = append(jobs, dJob{snaps[ini], p, op})
			}
		}
	}
	outs := make([]*dResult, len(jobs))
	ch := make(chan int, len(jobs))
	for i := range jobs {
		ch <- i
	}
	close(ch)
	workers := runtime.NumCPU()
	if workers > 16 {
		workers = 16
	}
	var wg sync.WaitGroup
	for w := 0; w < workers; w++ {
		wg.Add(1)
		go func() {
			defer wg.Done()
			vhook.Capture()
			defer vhook.Release()
			for i := range ch {
				if rep.Expired() {
					continue
				}
				outs[i] = runDJob(jobs[i], tier)
			}
		}()
	}
	wg.Wait()
	tot := newDStats()
	done, skipped := 0, 0
	sampled := false
	states := map[string]bool{}
	for i, o := range outs {
		if o == nil || !o.done {
			continue
		}
		done++
		if o.skipped {
			skipped++
			continue
		}
		states[jobs[i].snap.initial+":"+strings.Join(jobs[i].prefix, ",")] = true
		tot.add(&o.st)
		for _, v := range o.viol {
			rep.Violation(v)
		}
		if o.st.sample != nil && !sampled {
			sampled = true
			rep.Sample(o.st.sample)
		}
	}
	kl := []string{}
	for k := range tot.kinds {
		kl = append(kl, k)
	}
	sortStrings(kl)
	mn := []string{}
	for _, m := range faultModes(tier) {
		mn = append(mn, fmName[m])
	}
	il := []string{}
	for _, i := range dInitiators {
		il = append(il, i.label)
	}
	rep.Set("d.initial_rules", initials)
	rep.Set("d.prefixes", len(prefixes))
	rep.Set("d.states_reached", len(states))
	rep.Set("d.jobs", len(jobs))
	rep.Set("d.jobs_done", done)
	rep.Set("d.jobs_prefix_not_applicable", skipped)
	rep.Set("d.ops", dOps)
	rep.Set("d.request_forms", dForms)
	rep.Set("d.request_positions", dPos)
	rep.Set("d.signer_choices", dSignerOrder)
	rep.Set("d.initiators", il)
	rep.Set("d.fault_modes", mn)
	rep.Set("d.events", tot.events)
	rep.Set("d.events_not_buildable_in_state", tot.unbuildable)
	rep.Set("d.tx_accepted", tot.accepted)
	rep.Set("d.tx_refused", tot.refused)
	rep.Set("d.judged_both_ways", tot.judgedTwoSided)
	rep.Set("d.judged_acceptance_only", tot.judgedOneSided)
	rep.Set("d.not_judged_no_rule_applies", tot.unconstrained)
	rep.Set("d.not_judged_statement_silent", tot.silent)
	rep.Set("d.observed.refused_though_permitted_in_unusual_form", tot.refusedThoughPermittedObserved)
	rep.Set("d.observed.accepted_by_confirmed_rule_while_cited_unconfirmed_rule_version_unsatisfied", tot.acceptedAgainstCitedPendingRule)
	rep.Set("d.observed.refused_though_permitted_by_form_position_initiator_signers", tot.refusedThoughPermittedBy)
	rep.Set("d.decision_kinds_seen", kl)
	rep.Set("d.fault.transactions", tot.faultTx)
	rep.Set("d.fault.healthy_refusals", tot.nontrivial)
	rep.Set("d.fault.points_in_healthy_verifications", tot.faultPoints)
	rep.Set("d.fault.faulted_verifications", tot.faulted)
	rep.Set("d.fault.faulted_verifications_where_the_fault_fired", tot.fired)
	rep.Set("d.fault.by_point_kind", tot.pointKinds)
	rep.Set("d.fault.turned_accept_into_refusal", tot.acceptToRefuse)
	rep.Set("d.fault.turned_refusal_into_accept", tot.refuseToAccept)
	rep.Set("d.fault.healthy_refusals_refused_under_every_fault", tot.refusedEveryFault)
	rep.Add("evaluations", tot.events-tot.unbuildable+tot.faulted)
	rep.Add("distinct_nontrivial", tot.judgedTwoSided+tot.judgedOneSided+tot.refusedEveryFault)
	rep.Assume("Part D: the judged transactions are verified (State.VerifyTx), not applied; prefix events are applied by VerifyTx + DoTx and blocks as in Part B. The rule-changing kernel methods are reached as $acl.<method>, through the registry shortcut (empty contract name) and by a $vkv put on the same bucket row; ownership is written by the harness binder $c11bind (shortcut " + bindShortcut + "); cntr.m is a harness kernel method so that its method rule is exercised by a real call; the shortcuts Deploy / Upgrade of $contract need a VM driver and are not exercised")
	rep.Assume("faults are injected at the AclManager interface and at the LedgerRely the real acl.Manager reads through (snapshot creation, snapshot Get); reads State itself makes (xmodel, utxo) have no fault seam in the in-memory engine and are not faulted")
}

func replayD(raw json.RawMessage) (bool, string, error) {
	var cs caseD
	if err := json.Unmarshal(raw, &cs); err != nil {
		return false, "", err
	}
	if _, ok := histRules[cs.Initial]; !ok {
		return false, "", fmt.Errorf("c11: unknown initial rule %q", cs.Initial)
	}
	ev, err := parseDEvent(cs.Event)
	if err != nil {
		return false, "", err
	}
	initNames()
	s, err := buildSnap(cs.Initial)
	if err != nil {
		return true, "c11.verifytx.permitted_tx_refused: " + err.Error(), nil
	}
	defer s.space.Drop()
	vhook.Capture()
	defer vhook.Release()
	d := openD(s)
	defer d.close()
	for _, e := range cs.Prefix {
		if !d.step(e) {
			return false, fmt.Sprintf("prefix event %s of %v is not applicable any more", e, cs.Prefix), nil
		}
	}
	st := newDStats()
	var modes []int
	var only *caseD
	if cs.Mode != "" {
		m, err := fmByName(cs.Mode)
		if err != nil {
			return false, "", err
		}
		modes, only = []int{m}, &cs
	}
	viol := d.judge(ev, cs.Prefix, modes, only, &st)
	for _, v := range viol {
		fault := strings.HasPrefix(v.Key, "c11.lookup_fault")
		if fault == (cs.Mode != "") {
			return true, v.Key + ": " + v.Summary, nil
		}
	}
	return false, fmt.Sprintf("event %s in state %s replayed without violation (accepted %d, refused %d, faulted verifications %d)", ev, d.model.describe(), st.accepted, st.refused, st.faulted), nil
}
