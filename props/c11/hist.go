package c11

// Part B: the rule in force is the one on the confirmed chain. Real chain
// fixture, real $acl kernel contract, real ACL manager, real transactions
// through State.VerifyTx / DoTx; blocks by FormatBlock / ConfirmBlock /
// PlayForMiner as the miner does.

import (
	"encoding/json"
	"fmt"
	"math/big"
	"runtime"
	"strings"
	"sync"

	"github.com/xuperchain/xupercore/bcs/ledger/xledger/state/utxo/txhash"
	pb "github.com/xuperchain/xupercore/bcs/ledger/xledger/xldgpb"
	"github.com/xuperchain/xupercore/kernel/contract"
	aclutils "github.com/xuperchain/xupercore/kernel/permission/acl/utils"
	"github.com/xuperchain/xupercore/protos"
	"github.com/xuperchain/xupercore/verifshim/vhook"

	"verif/core"
	"verif/engine/vkv"
	"verif/world"
)

const (
	bindContract = "$c11bind"
	histContract = "cntr"
	histMethod   = "m"
	rawX1        = "1111111111111111"
)

// bindHook registers the harness kernel method that records "contract cntr is
// owned by account X" exactly as managerImpl.deployContract does after the VM
// deployed the code (no VM driver is available in the kernel-only fixture).
func bindHook(m contract.Manager) {
	m.GetKernRegistry().RegisterKernMethod(bindContract, "bind", func(ctx contract.KContext) (*contract.Response, error) {
		c := ctx.Args()["contract_name"]
		a := ctx.Args()["account_name"]
		if err := ctx.Put(aclutils.GetContract2AccountBucket(), c, a); err != nil {
			return nil, err
		}
		key := aclutils.MakeAccountContractKey(string(a), string(c))
		if err := ctx.Put(aclutils.GetAccount2ContractBucket(), []byte(key), []byte(aclutils.GetAccountContractValue())); err != nil {
			return nil, err
		}
		ctx.AddResourceUsed(contract.Limits{XFee: 1})
		return &contract.Response{Status: 200, Message: "success"}, nil
	})
}

// rules and signer choices of the histories (k1,k2,k3 are the keys A,B,C).
var histRules = map[string]ruleSpec{
	"Ra": {Kind: "thr", Weights: map[string]float64{"k1": 1}, Accept: 1},
	"Rb": {Kind: "thr", Weights: map[string]float64{"k2": 1}, Accept: 1},
	"Rc": {Kind: "thr", Weights: map[string]float64{"k1": 0.5, "k2": 0.5}, Accept: 1},
}

// signer choice -> AuthRequire entries (symbolic); every entry is signed by the
// key named by its last segment. "fA": C signs an entry that names A on the way.
var histSigners = map[string][]string{
	"A":  {"X1/k1"},
	"B":  {"X1/k2"},
	"AB": {"X1/k1", "X1/k2"},
	"fA": {"X1/k1/k3"},
}

var keyOfName = map[int]string{nK1: "A", nK2: "B", nK3: "C"}

type outpoint struct {
	tx  *pb.Transaction
	off int
}

// hw is one node plus the bookkeeping needed to build the next transaction.
type hw struct {
	w      *world.World
	fee    outpoint   // D's spendable change
	x1     []outpoint // unspent outputs owned by account X1
	parent *pb.InternalBlock
	ts     int64
	seq    int
}

func aclJSON(spec ruleSpec) []byte {
	b, err := json.Marshal(mustCompile(spec).acl)
	if err != nil {
		panic(err)
	}
	return b
}

func sign(key string, digest []byte) *protos.SignatureInfo {
	k := world.Keys[key]
	sg, err := world.Crypto.SignECDSA(k.Priv, digest)
	if err != nil {
		panic(err)
	}
	return &protos.SignatureInfo{PublicKey: k.PubJSON, Sign: sg}
}

// authRequire: the initiator D (bare address, as clients list it) followed by
// the signer URIs.
func authRequire(auth []string) ([]string, []string) {
	req := []string{world.Addr("D")}
	keys := []string{"D"}
	for _, s := range auth {
		u, err := parseURI(s)
		if err != nil {
			panic(err)
		}
		req = append(req, realURI(u))
		keys = append(keys, keyOfName[u[len(u)-1]])
	}
	return req, keys
}

type txOut struct {
	to     string
	amount int64
}

func (h *hw) assemble(auth []string, ins []outpoint, outs []txOut, pre *world.PreExecResult) *pb.Transaction {
	return h.assembleAs(dInitiators[0], auth, ins, outs, pre)
}

// assembleAs: the initiator string is ini's, signed by ini's key (Part D).
func (h *hw) assembleAs(ini initSpec, auth []string, ins []outpoint, outs []txOut, pre *world.PreExecResult) *pb.Transaction {
	h.seq++
	tx := &pb.Transaction{Version: 3, Nonce: fmt.Sprintf("c11-%d", h.seq), Timestamp: int64(h.seq)}
	tx.Initiator = ini.real()
	req, keys := authRequire(auth)
	tx.AuthRequire = req
	for _, in := range ins {
		o := in.tx.TxOutputs[in.off]
		tx.TxInputs = append(tx.TxInputs, &protos.TxInput{
			RefTxid:   in.tx.Txid,
			RefOffset: int32(in.off),
			FromAddr:  o.ToAddr,
			Amount:    new(big.Int).SetBytes(o.Amount).Bytes(),
		})
	}
	for _, o := range outs {
		tx.TxOutputs = append(tx.TxOutputs, &protos.TxOutput{ToAddr: []byte(world.ResolveAddr(o.to)), Amount: big.NewInt(o.amount).Bytes()})
	}
	if pre != nil {
		tx.ContractRequests = pre.Requests
		tx.TxInputsExt = pre.Inputs
		tx.TxOutputsExt = pre.Outputs
	}
	digest, err := txhash.MakeTxDigestHash(tx)
	if err != nil {
		panic(err)
	}
	tx.InitiatorSigns = []*protos.SignatureInfo{sign(ini.signer, digest)}
	for _, k := range keys {
		tx.AuthRequireSigns = append(tx.AuthRequireSigns, sign(k, digest))
	}
	tx.Txid, err = txhash.MakeTransactionID(tx)
	if err != nil {
		panic(err)
	}
	return tx
}

func amountOf(o outpoint) int64 {
	return new(big.Int).SetBytes(o.tx.TxOutputs[o.off].Amount).Int64()
}

// contractTx pre-executes the request on the node's current (latest) state and
// assembles the transaction: fee from D's change, change back to D.
func (h *hw) contractTx(req *protos.InvokeRequest, auth []string) (*pb.Transaction, int, error) {
	ar, _ := authRequire(auth)
	pre, err := h.w.PreExec([]*protos.InvokeRequest{req}, world.Addr("D"), ar)
	if err != nil {
		return nil, 0, err
	}
	total := amountOf(h.fee)
	var outs []txOut
	if pre.GasUsed > 0 {
		outs = append(outs, txOut{"$", pre.GasUsed})
	}
	outs = append(outs, txOut{"D", total - pre.GasUsed})
	return h.assemble(auth, []outpoint{h.fee}, outs, pre), len(outs) - 1, nil
}

// submit is Chain.SubmitTx: VerifyTx then DoTx.
func (h *hw) submit(tx *pb.Transaction) (bool, string) {
	ok, err := h.w.State.VerifyTx(tx)
	vhook.Drain()
	if err != nil {
		return false, err.Error()
	}
	if !ok {
		return false, "VerifyTx returned false"
	}
	if err := h.w.State.DoTx(tx); err != nil {
		core.HarnessError("c11: DoTx refused a verified transaction: %v", err)
	}
	vhook.Drain()
	return true, ""
}

func (h *hw) block() {
	txs, err := h.w.State.GetUnconfirmedTx(false)
	if err != nil {
		core.HarnessError("c11: GetUnconfirmedTx: %v", err)
	}
	h.ts++
	blk, err := h.w.FormatBlock("M", h.parent, txs, h.ts, fmt.Sprintf("b%d", h.ts))
	if err != nil {
		core.HarnessError("c11: FormatBlock: %v", err)
	}
	stored := world.CloneBlock(blk)
	if ok, st := h.w.Recv(blk); !ok {
		core.HarnessError("c11: own block refused: %s", st)
	}
	if err := h.w.State.PlayForMiner(blk.Blockid); err != nil {
		core.HarnessError("c11: PlayForMiner: %v", err)
	}
	vhook.Drain()
	h.parent = stored
}

func aclRequest(method string, args map[string][]byte) *protos.InvokeRequest {
	return &protos.InvokeRequest{ModuleName: "xkernel", ContractName: aclutils.SubModName, MethodName: method, Args: args}
}

// ---------------------------------------------------------------------------
// snapshot of the common prefix: X1 created with R1 (block 1), contract bound to
// X1 and X1 funded (block 2).

type snap struct {
	initial string
	cfg     world.Config
	space   *vkv.Space
	fee     outpoint
	x1      []outpoint
	ts      int64
	seq     int
}

func histConfig() world.Config {
	cfg := world.DefaultConfig()
	cfg.Quotas = map[string]string{"A": "1000", "B": "500", "D": "100000000"}
	cfg.NewAccountGas = 1000
	return cfg
}

func buildSnap(initial string) (*snap, error) {
	initNames()
	vhook.Capture()
	defer vhook.Discard()
	cfg := histConfig()
	w, err := world.New(cfg, fixtureHook)
	if err != nil {
		core.HarnessError("c11: world: %v", err)
	}
	root := w.Genesis.Transactions[0]
	dOff := -1
	for i, o := range root.TxOutputs {
		if string(o.ToAddr) == world.Addr("D") {
			dOff = i
		}
	}
	if dOff < 0 {
		core.HarnessError("c11: genesis has no output for D")
	}
	h := &hw{w: w, fee: outpoint{root, dOff}, parent: w.Genesis, ts: 100}
	var refused error
	must := func(what string, tx *pb.Transaction, chg int, err error) {
		if refused != nil {
			return
		}
		if err != nil {
			core.HarnessError("c11: setup %s: %v", what, err)
		}
		if ok, why := h.submit(tx); !ok {
			// every setup transaction carries the permission it needs
			refused = fmt.Errorf("setup transaction %s refused by State.VerifyTx: %s", what, why)
			return
		}
		if chg >= 0 {
			h.fee = outpoint{tx, chg}
		}
	}
	giveUp := func() (*snap, error) {
		w.State.Close()
		w.Ledger.Close()
		w.Drop()
		return nil, refused
	}
	tx, chg, err := h.contractTx(aclRequest("NewAccount", map[string][]byte{"account_name": []byte(rawX1), "acl": aclJSON(histRules[initial])}), nil)
	must("NewAccount(X1, "+initial+") by D", tx, chg, err)
	if refused != nil {
		return giveUp()
	}
	h.block()
	tx, chg, err = h.contractTx(&protos.InvokeRequest{ModuleName: "xkernel", ContractName: bindContract, MethodName: "bind",
		Args: map[string][]byte{"contract_name": []byte(histContract), "account_name": []byte(acctX1)}}, []string{"X1/k1", "X1/k2"})
	must("bind(cntr -> X1) with AuthRequire [X1/k1 X1/k2]", tx, chg, err)
	if refused != nil {
		return giveUp()
	}
	// fund X1
	total := amountOf(h.fee)
	outs := []txOut{}
	for i := 0; i < 5; i++ {
		outs = append(outs, txOut{acctX1, 10})
	}
	outs = append(outs, txOut{"D", total - 50})
	ftx := h.assemble(nil, []outpoint{h.fee}, outs, nil)
	must("transfer D -> X1", ftx, len(outs)-1, nil)
	if refused != nil {
		return giveUp()
	}
	for i := 0; i < 5; i++ {
		h.x1 = append(h.x1, outpoint{ftx, i})
	}
	h.block()
	if got, _ := w.Acl().GetAccountACL(acctX1); got == nil {
		core.HarnessError("c11: setup: account X1 not visible after its block")
	}
	s := &snap{initial: initial, cfg: cfg, space: w.Space.Clone(), fee: h.fee, x1: h.x1, ts: h.ts, seq: h.seq}
	w.State.Close()
	w.Ledger.Close()
	w.Drop()
	return s, nil
}

func (s *snap) open() *hw {
	w, err := world.Open(s.cfg, s.space.Clone(), fixtureHook)
	if err != nil {
		core.HarnessError("c11: reopen snapshot: %v", err)
	}
	tip, err := w.Ledger.QueryBlock(w.Ledger.GetMeta().TipBlockid)
	if err != nil {
		core.HarnessError("c11: tip: %v", err)
	}
	return &hw{w: w, fee: s.fee, x1: append([]outpoint(nil), s.x1...), parent: tip, ts: s.ts, seq: s.seq}
}

func (h *hw) close() {
	vhook.Discard()
	h.w.State.Close()
	h.w.Ledger.Close()
	h.w.Drop()
}

// ---------------------------------------------------------------------------
// probe: does the signature stage of State.VerifyTx admit an AuthRequire entry
// whose middle key never signed? A plain transfer by D that has nothing to do
// with X1 carries the entry X1/k1/k3 signed by k3 (= C) only. If it is admitted,
// names inside a path reach IdentifyAccount unverified (the reference then says
// they contribute nothing); if the chain refuses such entries, they cannot be
// unverified at the evaluation seam and the reference does not judge them.

var (
	probeOnce   sync.Once
	probeResult bool
)

func middleKeysUnverified() bool {
	probeOnce.Do(func() {
		// default (fixture unusable): the convention read off verifySignatures
		probeResult = true
		s, err := buildSnap("Ra")
		if err != nil {
			return
		}
		defer s.space.Drop()
		vhook.Capture()
		defer vhook.Discard()
		h := s.open()
		defer h.close()
		total := amountOf(h.fee)
		tx := h.assemble([]string{"X1/k1/k3"}, []outpoint{h.fee}, []txOut{{"D", total}}, nil)
		probeResult, _ = h.submit(tx)
	})
	return probeResult
}

// ---------------------------------------------------------------------------
// model and history execution

type hmodel struct {
	confirmed, pending   string // X1's rule: on the confirmed chain / latest
	mConfirmed, mPending int    // method rule version (0 = unset)
}

// satisfies is Part A's reference on (account X1 with the rule, the signer URIs).
// judged is false where the statement is silent (lo != hi).
func satisfies(rule string, auth []string) (ok, judged bool) {
	c := &config{target: tgtX1}
	c.rules[nX1] = mustCompile(histRules[rule])
	uris, _, err := parseList(auth)
	if err != nil {
		panic(err)
	}
	lo, hi, _ := reference(c, uris)
	return lo, lo == hi
}

type caseB struct {
	Part    string   `json:"part"`
	Initial string   `json:"initial"`
	History []string `json:"history"`
}

func methodRule(version int) ruleSpec {
	return ruleSpec{Kind: "thr", Weights: map[string]float64{"k3": 1}, Accept: float64(version)}
}

type histOutcome struct {
	viol          []core.Violation
	accepted      int
	rejected      int
	whilePending  int
	unjudged      int
	obs           []string
	decisionKinds map[string]bool
}

func runHistory(s *snap, hist []string) *histOutcome {
	h := s.open()
	defer h.close()
	m := &hmodel{confirmed: s.initial, pending: s.initial}
	out := &histOutcome{decisionKinds: map[string]bool{}}
	report := func(upto int, key, summary, exp, obs string) {
		for _, v := range out.viol {
			if v.Key == key {
				return
			}
		}
		out.viol = append(out.viol, core.Violation{Key: key,
			Summary:  fmt.Sprintf("X1 created with %s=%s; history %v: %s", s.initial, histRules[s.initial], hist[:upto+1], summary),
			Case:     caseB{Part: "B", Initial: s.initial, History: append([]string(nil), hist[:upto+1]...)},
			Expected: exp, Observed: obs})
	}
	for idx, ev := range hist {
		f := strings.Split(ev, ":")
		if f[0] == "block" {
			h.block()
			m.confirmed = m.pending
			m.mConfirmed = m.mPending
			out.obs = append(out.obs, "block")
		} else {
			var tx *pb.Transaction
			var chg = -1
			var err error
			var signers string
			switch f[0] {
			case "set":
				signers = f[2]
				tx, chg, err = h.contractTx(aclRequest("SetAccountAcl", map[string][]byte{"account_name": []byte(acctX1), "acl": aclJSON(histRules[f[1]])}), histSigners[signers])
			case "setm":
				signers = f[1]
				tx, chg, err = h.contractTx(aclRequest("SetMethodAcl", map[string][]byte{"contract_name": []byte(histContract), "method_name": []byte(histMethod),
					"acl": aclJSON(methodRule(m.mPending + 1))}), histSigners[signers])
			case "spend":
				signers = f[1]
				if len(h.x1) == 0 {
					core.HarnessError("c11: no unspent output of X1 left")
				}
				src := h.x1[0]
				h.x1 = h.x1[1:]
				tx = h.assemble(histSigners[signers], []outpoint{src}, []txOut{{"B", amountOf(src)}}, nil)
			default:
				core.HarnessError("c11: bad event %q", ev)
			}
			if err != nil {
				core.HarnessError("c11: building %s: %v", ev, err)
			}
			auth := histSigners[signers]
			if auth == nil {
				core.HarnessError("c11: bad signer choice in %q", ev)
			}
			expected, judged := satisfies(m.confirmed, auth)
			byPending, _ := satisfies(m.pending, auth)
			if m.pending != m.confirmed {
				out.whilePending++
			}
			ok, why := h.submit(tx)
			out.decisionKinds[fmt.Sprintf("%s/%v", f[0], ok)] = true
			if ok {
				out.accepted++
				out.obs = append(out.obs, ev+"=accepted")
				if chg >= 0 {
					h.fee = outpoint{tx, chg}
				}
			} else {
				out.rejected++
				out.obs = append(out.obs, ev+"=refused")
			}
			if !judged {
				out.unjudged++
			} else if ok != expected {
				what := map[string]string{"set": "acl_change", "setm": "method_acl_change", "spend": "account_spend"}[f[0]]
				var key string
				switch {
				case m.pending != m.confirmed && ok == byPending:
					key = "c11." + what + "_checked_against_pending_rule"
				case ok && signers == "fA":
					// same defect class as at the evaluation seam: one key
					key = "c11.unverified_path_name_counts"
				case ok:
					key = "c11.verifytx." + what + "_accepted_without_permission"
				default:
					key = "c11.verifytx." + what + "_refused_with_permission"
				}
				exp, obs := "refused", "accepted"
				if expected {
					exp, obs = "accepted", "refused: "+why
				}
				report(idx, key, fmt.Sprintf("%s carries AuthRequire %v (each entry signed by the key of its last segment); rule on the confirmed chain %s=%s, latest (pending) rule %s: State.VerifyTx %s",
					ev, auth, m.confirmed, histRules[m.confirmed], m.pending, obs), exp, obs)
			}
			// the model follows the implementation so that later steps stay comparable
			if ok {
				switch f[0] {
				case "set":
					m.pending = f[1]
				case "setm":
					m.mPending++
				}
			}
		}
		// what the ACL manager shows must be the confirmed rule
		got, err := h.w.Acl().GetAccountACL(acctX1)
		want := mustCompile(histRules[m.confirmed]).acl
		if err != nil || got == nil || !sameACL(got, want) {
			report(idx, "c11.manager_shows_unconfirmed_account_rule", fmt.Sprintf("ACL manager shows %v for X1 (err %v), the confirmed chain holds %s", got, err, m.confirmed), histRules[m.confirmed].String(), fmt.Sprint(got))
		}
		gm, err := h.w.Acl().GetContractMethodACL(histContract, histMethod)
		if err != nil || (m.mConfirmed == 0) != (gm == nil) || (gm != nil && !sameACL(gm, mustCompile(methodRule(m.mConfirmed)).acl)) {
			report(idx, "c11.manager_shows_unconfirmed_method_rule", fmt.Sprintf("ACL manager shows %v for the method (err %v), the confirmed chain holds version %d", gm, err, m.mConfirmed), fmt.Sprint(m.mConfirmed), fmt.Sprint(gm))
		}
	}
	return out
}

func sameACL(a, b *protos.Acl) bool {
	ja, _ := json.Marshal(a)
	jb, _ := json.Marshal(b)
	return string(ja) == string(jb)
}

// ---------------------------------------------------------------------------
// enumeration

const (
	alphaReduced = iota
	alphaMedium
	alphaFull
)

func alphabet(level int, initial string) []string {
	var evs []string
	switch {
	case level == alphaFull:
		for _, r := range []string{"Ra", "Rb", "Rc"} {
			for _, s := range []string{"A", "B", "AB", "fA"} {
				evs = append(evs, "set:"+r+":"+s)
			}
		}
		for _, s := range []string{"A", "B", "AB", "fA"} {
			evs = append(evs, "setm:"+s)
		}
		for _, s := range []string{"A", "B", "AB", "fA"} {
			evs = append(evs, "spend:"+s)
		}
	case level == alphaMedium:
		for _, r := range []string{"Ra", "Rb", "Rc"} {
			for _, s := range []string{"A", "B", "AB"} {
				evs = append(evs, "set:"+r+":"+s)
			}
		}
		evs = append(evs, "set:Ra:fA", "setm:A", "setm:B", "setm:AB", "spend:A", "spend:B")
	case initial == "Ra":
		// R1 = A alone: changes to / from "B alone", signed for R1 only or R2 only
		evs = []string{"set:Ra:A", "set:Ra:B", "set:Rb:A", "set:Rb:B", "setm:A", "setm:B"}
	default:
		// R1 = A and B: changes to / from "A alone", signed for R1 (both) or R2 only (A)
		evs = []string{"set:Ra:AB", "set:Ra:A", "set:Rc:AB", "set:Rc:A", "setm:AB", "setm:A"}
	}
	return append(evs, "block")
}

type histJob struct {
	snap *snap
	hist []string
}

func sequences(alpha []string, n int) [][]string {
	total := 1
	for i := 0; i < n; i++ {
		total *= len(alpha)
	}
	out := make([][]string, 0, total)
	for x := 0; x < total; x++ {
		l := make([]string, n)
		y := x
		for i := n - 1; i >= 0; i-- {
			l[i] = alpha[y%len(alpha)]
			y /= len(alpha)
		}
		out = append(out, l)
	}
	return out
}

func runPartB(rep *core.Report, tier core.Tier) {
	initNames()
	rep.Set("signature_stage_admits_entries_with_unsigned_middle_key", middleKeysUnverified())
	snaps := map[string]*snap{}
	for _, r := range []string{"Ra", "Rc"} {
		sn, err := buildSnap(r)
		if err != nil {
			rep.Violation(core.Violation{Key: "c11.verifytx.permitted_tx_refused",
				Summary:  fmt.Sprintf("X1 to be created with %s=%s: %v", r, histRules[r], err),
				Case:     caseB{Part: "B", Initial: r, History: []string{}},
				Expected: "accepted", Observed: "refused"})
			rep.Set("b.histories", 0)
			rep.Assume("Part B could not run: its setup transactions were refused (reported as a violation)")
			for _, s := range snaps {
				s.space.Drop()
			}
			return
		}
		snaps[r] = sn
	}
	defer func() {
		for _, s := range snaps {
			s.space.Drop()
		}
	}()
	// (initial rule, alphabet, exact length) families, shortest first so that the
	// first counterexample kept per key is a shortest one
	type family struct {
		initial string
		level   int
		n       int
	}
	var fams []family
	// alphabet level per (initial rule, history length); shortest first so that
	// the first counterexample kept per key is a shortest one
	plan := map[string][]int{"Ra": {alphaFull, alphaFull, alphaFull, alphaReduced}, "Rc": {alphaFull, alphaFull, alphaReduced, alphaReduced}}
	if tier == core.Thorough {
		plan = map[string][]int{"Ra": {alphaFull, alphaFull, alphaFull, alphaMedium, alphaReduced}, "Rc": {alphaFull, alphaFull, alphaFull, alphaReduced, alphaReduced}}
	}
	for n := 1; n <= len(plan["Ra"]); n++ {
		for _, ini := range []string{"Ra", "Rc"} {
			fams = append(fams, family{ini, plan[ini][n-1], n})
		}
	}
	var jobs []histJob
	famDesc := []string{}
	for _, f := range fams {
		alpha := alphabet(f.level, f.initial)
		seqs := sequences(alpha, f.n)
		famDesc = append(famDesc, fmt.Sprintf("initial=%s alphabet=%d length=%d histories=%d", f.initial, len(alpha), f.n, len(seqs)))
		for _, s := range seqs {
			jobs = append(jobs, histJob{snaps[f.initial], s})
		}
	}
	outs := make([]*histOutcome, len(jobs))
	ch := make(chan int, len(jobs))
	for i := range jobs {
		ch <- i
	}
	close(ch)
	workers := runtime.NumCPU()
	if workers > 16 {
		workers = 16
	}
	var wg sync.WaitGroup
	for w := 0; w < workers; w++ {
		wg.Add(1)
		go func() {
			defer wg.Done()
			vhook.Capture()
			defer vhook.Release()
			for i := range ch {
				if rep.Expired() {
					continue
				}
				outs[i] = runHistory(jobs[i].snap, jobs[i].hist)
			}
		}()
	}
	wg.Wait()
	done, events, acc, rej, nontrivial, whilePending, unjudged, samples := 0, 0, 0, 0, 0, 0, 0, 0
	kinds := map[string]bool{}
	obsSeen := map[string]bool{}
	for i, o := range outs {
		if o == nil {
			continue
		}
		done++
		events += len(jobs[i].hist)
		acc += o.accepted
		rej += o.rejected
		whilePending += o.whilePending
		unjudged += o.unjudged
		if o.whilePending > 0 {
			nontrivial++
		}
		for k := range o.decisionKinds {
			kinds[k] = true
		}
		obsSeen[strings.Join(o.obs, " ")] = true
		for _, v := range o.viol {
			rep.Violation(v)
		}
		if samples < 2 && o.whilePending > 1 && len(jobs[i].hist) >= 3 && i%97 == 0 {
			samples++
			rep.Sample(map[string]interface{}{"part": "B", "initial": jobs[i].snap.initial, "observed": o.obs})
		}
	}
	kl := []string{}
	for k := range kinds {
		kl = append(kl, k)
	}
	sortStrings(kl)
	rep.Set("b.families", famDesc)
	rep.Set("b.histories", done)
	rep.Set("b.histories_planned", len(jobs))
	rep.Set("b.events", events)
	rep.Set("b.tx_accepted", acc)
	rep.Set("b.tx_refused", rej)
	rep.Set("b.decisions_not_judged_statement_silent", unjudged)
	rep.Set("b.decisions_taken_while_a_change_was_pending", whilePending)
	rep.Set("b.histories_with_decision_while_pending", nontrivial)
	rep.Set("b.distinct_observation_sequences", len(obsSeen))
	rep.Set("b.decision_kinds_seen", kl)
	rep.Add("evaluations", events)
	rep.Add("distinct_nontrivial", nontrivial)
	rep.Assume("the contract->account ownership entry is written by a harness kernel method ($c11bind.bind) that performs the two Put calls of managerImpl.deployContract; no VM driver is available offline to deploy a real contract")
	rep.Assume("Part B transactions are initiated and paid by key D (bare address in AuthRequire), which is a member of no rule")
}

func sortStrings(s []string) {
	for i := 1; i < len(s); i++ {
		for j := i; j > 0 && s[j] < s[j-1]; j-- {
			s[j], s[j-1] = s[j-1], s[j]
		}
	}
}

func replayB(raw json.RawMessage) (bool, string, error) {
	var cs caseB
	if err := json.Unmarshal(raw, &cs); err != nil {
		return false, "", err
	}
	if _, ok := histRules[cs.Initial]; !ok {
		return false, "", fmt.Errorf("c11: unknown initial rule %q", cs.Initial)
	}
	initNames()
	s, err := buildSnap(cs.Initial)
	if err != nil {
		return true, "c11.verifytx.permitted_tx_refused: " + err.Error(), nil
	}
	defer s.space.Drop()
	vhook.Capture()
	defer vhook.Release()
	o := runHistory(s, cs.History)
	if len(o.viol) > 0 {
		// the last violation belongs to the last event, the one the stored history was cut at
		v := o.viol[len(o.viol)-1]
		keys := []string{}
		for _, x := range o.viol {
			keys = append(keys, x.Key)
		}
		return true, fmt.Sprintf("%s: %s (all keys on this history: %v)", v.Key, v.Summary, keys), nil
	}
	return false, fmt.Sprintf("history replayed without violation: %v", o.obs), nil
}
