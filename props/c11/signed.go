package c11

// Part A, signed-weight box: threshold rules whose weights and accept values
// take any sign, zero, a value far above the others, and values that put the sum
// of the satisfied members exactly on, one step below and one step above the
// accept value, at the top level (account X1 / the contract method) and in the
// nested account X2. Evaluated at the same seam and by the same by-definition
// reference as the first box (the reference sums ALL distinct satisfied members
// exactly, in tenths), plus the order oracle of evalConfig: every permutation of
// a signer list gets the same verdict. Monotonicity is judged only in
// configurations without a negative weight (the statement promises it for
// non-negative weights).
//
// Every weight / accept value is a multiple of 0.5 of magnitude <= 1e12, so
// every partial sum is exact in float64 in every order: nothing here falls into
// the "inexact float sum" silent spot.

import (
	"runtime"
	"runtime/debug"
	"sync"

	"verif/core"
)

const hugeWeight = 1e12

func signedWeights(tier core.Tier) []float64 {
	w := []float64{-1, -0.5, 0, 0.5, 1, 2}
	if tier == core.Thorough {
		w = append(w, hugeWeight, -hugeWeight)
	}
	return w
}

func signedAccepts(tier core.Tier) []float64 {
	a := []float64{-1, -0.5, 0, 0.5, 1, 2}
	if tier == core.Thorough {
		a = append(a, hugeWeight)
	}
	return a
}

// thrRulesOver: every threshold rule on every subset of members of size <=
// maxMembers with every weight assignment and every accept value, in index order.
func thrRulesOver(members []int, maxMembers int, wvals, accepts []float64) []ruleSpec {
	var out []ruleSpec
	for mask := 0; mask < 1<<len(members); mask++ {
		var mem []int
		for i, m := range members {
			if mask&(1<<i) != 0 {
				mem = append(mem, m)
			}
		}
		if len(mem) > maxMembers {
			continue
		}
		n := 1
		for range mem {
			n *= len(wvals)
		}
		for wi := 0; wi < n; wi++ {
			for _, a := range accepts {
				ws := map[string]float64{}
				x := wi
				for _, m := range mem {
					ws[symName[m]] = wvals[x%len(wvals)]
					x /= len(wvals)
				}
				out = append(out, ruleSpec{Kind: "thr", Weights: ws, Accept: a})
			}
		}
	}
	return out
}

// signedTopBox: rules of the judged object (quick: <= 3 of the 4 names are
// members; thorough: every subset).
func signedTopBox(tier core.Tier) []ruleSpec {
	max := 3
	if tier == core.Thorough {
		max = 4
	}
	return thrRulesOver(boxMembers, max, signedWeights(tier), signedAccepts(tier))
}

// signedNestedSmall: X2's rule while the judged object's rule ranges over
// signedTopBox (one plain, one with a veto key).
var signedNestedSmall = []ruleSpec{
	{Kind: "thr", Weights: map[string]float64{"k1": 1}, Accept: 1},
	{Kind: "thr", Weights: map[string]float64{"k1": 2, "k2": -1}, Accept: 2},
}

// signedNestedBox: X2's own rule over every subset of {k1,k2,k3}.
func signedNestedBox(tier core.Tier) []ruleSpec {
	return thrRulesOver([]int{nK1, nK2, nK3}, 3, signedWeights(tier), signedAccepts(tier))
}

// signedHosts: rules of the judged object while X2's rule ranges over
// signedNestedBox: X2 alone under a threshold and under a key set, X2 needed
// together with a key, and X2 as the vetoing member.
var signedHosts = []ruleSpec{
	{Kind: "thr", Weights: map[string]float64{"X2": 1}, Accept: 1},
	{Kind: "aks", Sets: [][]string{{"X2"}}},
	{Kind: "thr", Weights: map[string]float64{"X2": 1, "k1": 1}, Accept: 2},
	{Kind: "thr", Weights: map[string]float64{"X2": -1, "k1": 1}, Accept: 1},
}

// Signer URI universes of the signed box, per judged object: every key of the
// judged object, every key of the nested account below it, and two entries that
// must contribute nothing (a bare key / a key of another account for the
// account; keys speaking for X1, which the method's rules here never name).
var signedUniverseAccount = []string{"X1/k1", "X1/k2", "X1/k3", "X1/X2/k1", "X1/X2/k2", "X1/X2/k3", "k1", "X2/k1"}
var signedUniverseMethod = []string{"k1", "k2", "k3", "X2/k1", "X2/k2", "X2/k3", "X1/k1", "X1/X2/k1"}

func runSignedBox(rep *core.Report, tier core.Tier) {
	initNames()
	maxLen := 3
	if tier == core.Thorough {
		maxLen = 4
	}
	lsAcc := buildListsOver(signedUniverseAccount, maxLen, false)
	lsMeth := buildListsOver(signedUniverseMethod, maxLen, false)
	top := signedTopBox(tier)
	nbox := signedNestedBox(tier)
	compileAll := func(specs []ruleSpec) []*crule {
		out := make([]*crule, len(specs))
		for i, s := range specs {
			out[i] = mustCompile(s)
		}
		return out
	}
	ctop, cnbox := compileAll(top), compileAll(nbox)
	csmall, chosts := compileAll(signedNestedSmall), compileAll(signedHosts)
	fx1 := mustCompile(fixedX1)

	defer debug.SetGCPercent(debug.SetGCPercent(1600))

	// job i < len(top): judged rule top[i] x signedNestedSmall x {account X1, method};
	// job len(top)+j: nested rule nbox[j] x signedHosts x {account X1, method}
	njobs := len(top) + len(nbox)
	results := make([]jobResult, njobs)
	jobs := make(chan int, njobs)
	for i := 0; i < njobs; i++ {
		jobs <- i
	}
	close(jobs)
	var wg sync.WaitGroup
	workers := runtime.NumCPU()
	if workers > 16 {
		workers = 16
	}
	nl := len(lsAcc.lists)
	if len(lsMeth.lists) > nl {
		nl = len(lsMeth.lists)
	}
	for w := 0; w < workers; w++ {
		wg.Add(1)
		go func() {
			defer wg.Done()
			res := make([]uint8, nl)
			e := &refEval{}
			pair := func(jr *jobResult, r, q *crule) {
				c := &config{target: tgtX1}
				c.rules[nX1] = r
				c.rules[nX2] = q
				evalConfig(c, lsAcc, res, jr, e)
				c = &config{target: tgtMethod, method: r}
				c.rules[nX1] = fx1
				c.rules[nX2] = q
				evalConfig(c, lsMeth, res, jr, e)
			}
			for ji := range jobs {
				if rep.Expired() {
					continue
				}
				jr := &results[ji]
				if ji < len(top) {
					for _, q := range csmall {
						pair(jr, ctop[ji], q)
					}
				} else {
					for _, h := range chosts {
						pair(jr, h, cnbox[ji-len(top)])
					}
				}
				jr.done = true
			}
		}()
	}
	wg.Wait()

	var st statsA
	complete := true
	for i := range results {
		if !results[i].done {
			complete = false
			continue
		}
		st.add(&results[i].stats)
		for _, v := range results[i].viol {
			rep.Violation(v)
		}
	}
	// samples: a veto key at the top level and in the nested account
	for _, pick := range []struct {
		r, q    ruleSpec
		signers []string
	}{
		{ruleSpec{Kind: "thr", Weights: map[string]float64{"k1": 2, "k2": -1}, Accept: 2}, signedNestedSmall[0], []string{"X1/k1", "X1/k2"}},
		{signedHosts[1], signedNestedSmall[1], []string{"X1/X2/k2", "X1/X2/k1"}},
	} {
		c := &config{target: tgtX1}
		c.rules[nX1] = mustCompile(pick.r)
		c.rules[nX2] = mustCompile(pick.q)
		uris, real, err := parseList(pick.signers)
		if err != nil {
			panic(err)
		}
		out, _ := impl(c, c.manager(), real)
		lo, _, _ := reference(c, uris)
		rep.Sample(map[string]interface{}{"part": "A.signed", "config": c.describe(), "signers": pick.signers, "implementation": outStr(out), "definition_accepts": lo})
	}
	rep.Set("a.signed.weights", signedWeights(tier))
	rep.Set("a.signed.accept_values", signedAccepts(tier))
	rep.Set("a.signed.rules_judged_object", len(top))
	rep.Set("a.signed.rules_nested_account_with_judged_rule_box", len(signedNestedSmall))
	rep.Set("a.signed.rules_nested_account_box", len(nbox))
	rep.Set("a.signed.rules_judged_object_with_nested_box", len(signedHosts))
	rep.Set("a.signed.uri_universe_account", signedUniverseAccount)
	rep.Set("a.signed.uri_universe_method", signedUniverseMethod)
	rep.Set("a.signed.signer_lists_per_configuration", len(lsAcc.lists))
	rep.Set("a.signed.max_list_length", maxLen)
	rep.Set("a.signed.configurations", st.configs)
	rep.Set("a.signed.configurations_with_a_negative_weight", st.configsNeg)
	rep.Set("a.signed.configurations_with_both_outcomes", st.configsBoth)
	rep.Set("a.signed.evaluations", st.evals)
	rep.Set("a.signed.evaluations_by_target", map[string]int{tgtName[0]: st.byTarget[0], tgtName[2]: st.byTarget[2]})
	rep.Set("a.signed.judged", st.judged)
	rep.Set("a.signed.unjudged_statement_silent", st.unjudged)
	rep.Set("a.signed.impl_accept", st.accept)
	rep.Set("a.signed.impl_reject", st.reject)
	rep.Set("a.signed.impl_reject_with_error", st.errs)
	rep.Set("a.signed.definition_accept", st.defAccept)
	rep.Set("a.signed.definition_reject", st.defReject)
	rep.Set("a.signed.nontrivial", st.nontrivial)
	rep.Set("a.signed.judged_with_satisfied_negative_member", map[string]int{"total": st.negSat, "definition_accept": st.negSatAccept, "definition_reject": st.negSatReject})
	rep.Set("a.signed.judged_threshold_sum_vs_accept", map[string]int{"exactly_at": st.marginAt, "one_step_below": st.marginBelow, "one_step_above": st.marginAbove})
	rep.Set("a.signed.order_pairs", st.orderPairs)
	rep.Set("a.signed.order_pairs_with_accepted_sorted_list", st.orderPairsAccepted)
	rep.Set("a.signed.monotone_pairs_judged_no_negative_weight", st.monoPairs)
	rep.Set("a.signed.monotone_pairs_with_accepted_sublist", st.monoPairsAccepted)
	rep.Set("a.signed.monotone_pairs_not_judged_negative_weight", st.monoSkippedNeg)
	rep.Set("a.signed.observed.added_signer_turns_accept_into_reject_under_negative_weight", st.obsVetoPairs)
	rep.Set("a.signed.complete", complete)
	rep.Add("evaluations", st.evals)
	rep.Add("distinct_nontrivial", st.nontrivial)
}
