// Package c12: concurrent submissions are serialisable. Schedule enumeration
// (iterative preemption bounding) over real goroutines running the real
// SpinLock protocol (harness A) and real State.DoTx / SelectUtxos /
// PlayAndRepost calls (harness B) under the cooperative scheduler.
package c12

import (
	"crypto/sha256"
	"encoding/json"
	"fmt"
	"math/big"
	"os"
	"os/exec"
	"sort"
	"strconv"
	"strings"
	"sync"
	"time"

	"github.com/xuperchain/xupercore/bcs/ledger/xledger/state/utxo"
	pb "github.com/xuperchain/xupercore/bcs/ledger/xledger/xldgpb"
	"github.com/xuperchain/xupercore/protos"
	"github.com/xuperchain/xupercore/verifshim/vhook"
	"github.com/xuperchain/xupercore/verifshim/vsync"

	"verif/core"
	"verif/engine/vkv"
	"verif/engine/vsched"
	"verif/props/chain"
	"verif/world"
)

// ---------------------------------------------------------------------------
// Harness A: the lock protocol alone.

// req is one lock request: key -> 'S' or 'X'.
type req map[string]byte

type patternA struct {
	Name    string
	Threads [][]req // per thread: requests run in sequence
}

var patternsA = []patternA{
	{"SSX", [][]req{{{"K": 'S'}}, {{"K": 'S'}}, {{"K": 'X'}}}},
	{"S.X_S_X", [][]req{{{"K": 'S'}, {"K": 'X'}}, {{"K": 'S'}}, {{"K": 'X'}}}},
	{"XXX", [][]req{{{"K": 'X'}}, {{"K": 'X'}}, {{"K": 'X'}}}},
	{"SS_SS", [][]req{{{"K": 'S'}, {"K": 'S'}}, {{"K": 'S'}, {"K": 'S'}}}},
	{"2keys", [][]req{{{"K": 'S', "L": 'X'}}, {{"K": 'X', "L": 'S'}}, {{"L": 'S'}}}},
	{"SX_SX", [][]req{{{"K": 'S'}, {"K": 'X'}}, {{"K": 'S'}, {"K": 'X'}}}},
}

func reqTx(r req) *pb.Transaction {
	tx := &pb.Transaction{Txid: []byte(fmt.Sprintf("tx-%p", &r))}
	keys := make([]string, 0, len(r))
	for k := range r {
		keys = append(keys, k)
	}
	sort.Strings(keys)
	for _, k := range keys {
		tx.TxInputsExt = append(tx.TxInputsExt, &protos.TxInputExt{Bucket: "b", Key: []byte(k)})
		if r[k] == 'X' {
			tx.TxOutputsExt = append(tx.TxOutputsExt, &protos.TxOutputExt{Bucket: "b", Key: []byte(k), Value: []byte("v")})
		}
	}
	return tx
}

func newA(p patternA) func() vsched.Instance {
	return func() vsched.Instance {
		sp := utxo.NewSpinLock()
		var hm sync.Mutex // harness bookkeeping, not a scheduling point
		holders := map[int]req{}
		var viol []string
		var granted, refused int
		var bodies []func()
		id := 0
		for ti, reqs := range p.Threads {
			ti, reqs := ti, reqs
			bodies = append(bodies, func() {
				for ri, r := range reqs {
					hm.Lock()
					id++
					me := id
					hm.Unlock()
					keys := sp.ExtractLockKeys(reqTx(r))
					succ, ok := sp.TryLock(keys)
					if ok {
						hm.Lock()
						granted++
						for other, or := range holders {
							for k, t := range r {
								if ot, both := or[k]; both && (t == 'X' || ot == 'X') {
									viol = append(viol, fmt.Sprintf("c12.lock.overlap: request %d of thread %d holds %s:%c while request #%d holds %s:%c", ri, ti, k, t, other, k, ot))
								}
							}
						}
						holders[me] = r
						hm.Unlock()
						vsync.Point(sp, "critical-section")
						hm.Lock()
						delete(holders, me)
						hm.Unlock()
					} else {
						hm.Lock()
						refused++
						hm.Unlock()
					}
					sp.Unlock(succ)
				}
			})
		}
		check := func(o vsched.Outcome) []string {
			out := append([]string(nil), viol...)
			if o.Deadlock {
				out = append(out, "c12.lock.deadlock: "+strings.Join(o.Blocked, "; "))
			}
			if o.Livelock {
				out = append(out, "c12.lock.livelock")
			}
			for _, p := range o.Panics {
				out = append(out, "c12.lock.panic: "+firstLine(p))
			}
			if !o.Deadlock && !o.Livelock {
				for _, k := range []string{"b/K", "b/L"} {
					if sp.IsLocked(k) {
						out = append(out, "c12.lock.leaked: key "+k+" is still locked after every request finished")
					}
				}
			}
			return out
		}
		return vsched.Instance{Bodies: bodies, Check: check}
	}
}

func firstLine(s string) string {
	if i := strings.IndexByte(s, '\n'); i >= 0 {
		return s[:i]
	}
	return s
}

// ---------------------------------------------------------------------------
// Harness B: real requests on a real State.

type opB struct {
	Kind string // dotx | select | play
	Arg  string // tx name | address name | block name
}

type patternB struct {
	Name    string
	Threads [][]opB
	// LockOnly restricts scheduling points to the lock protocol's objects and
	// storage writes (deeper preemption bounds become affordable).
	LockOnly bool
}

var patternsB = []patternB{
	{"same_output", [][]opB{{{"dotx", "sB1"}}, {{"dotx", "sB2"}}}, false},
	{"write_write", [][]opB{{{"dotx", "wB"}}, {{"dotx", "wC"}}}, false},
	{"read_write", [][]opB{{{"dotx", "rD"}}, {{"dotx", "wB"}}}, false},
	{"read_read_write", [][]opB{{{"dotx", "rD"}}, {{"dotx", "rA"}}, {{"dotx", "wB"}}}, false},
	{"readers_then_writers", [][]opB{{{"dotx", "rD"}, {"dotx", "wC"}}, {{"dotx", "rA"}}, {{"dotx", "wB"}}}, false},
	{"independent", [][]opB{{{"dotx", "tC"}}, {{"dotx", "sB1"}}, {{"dotx", "rD"}}}, false},
	{"select_select", [][]opB{{{"select", "B"}}, {{"select", "B"}}, {{"dotx", "sB1"}}}, false},
	{"select_short", [][]opB{{{"select", "B:1000"}}, {{"select", "B:1000"}}, {{"select", "B:1000"}}}, false},
	{"select_short_seq", [][]opB{{{"select", "B:1000"}, {"select", "B:1000"}, {"select", "B:1000"}}, {{"dotx", "tC"}}}, false},
	// a shared output cited at different input positions (sB1: [r1]; sB3: [s0, r1]; sB4: [s1, s0])
	{"same_output_other_position", [][]opB{{{"dotx", "sB1"}}, {{"dotx", "sB3"}}}, false},
	{"same_output_other_position3", [][]opB{{{"dotx", "sB3"}}, {{"dotx", "sB4"}}, {{"dotx", "sB1"}}}, false},
	// a submission refused half-way through taking its locks, then the transactions that need
	// exactly the keys it does not share with the winner (judged again after quiescence)
	{"refused_then_needed", [][]opB{{{"dotx", "wB"}}, {{"dotx", "wCk0"}, {"dotx", "tC"}, {"dotx", "wD0"}}}, false},
	{"refused_then_needed_lock", [][]opB{{{"dotx", "wB"}}, {{"dotx", "wCk0"}, {"dotx", "tC"}, {"dotx", "wD0"}}}, true},
	// locking selections by size
	{"selectsize_selectsize", [][]opB{{{"selectsize", "B"}}, {{"selectsize", "B"}}, {{"selectsize", "B"}}}, false},
	{"selectsize_select", [][]opB{{{"selectsize", "B"}}, {{"select", "B:1200"}}, {{"dotx", "sB4"}}}, false},
	// two blocks that extend the same tip, played at once while a submission is in flight
	{"play_play_dotx", [][]opB{{{"play", "k2"}}, {{"play", "j2"}}, {{"dotx", "tC"}}}, false},
	// four submissions around two outputs (r1 = B's genesis output, s0): one holds an output while a
	// two-output spender takes the other one and fails on it; then two more want the output it took
	// (the first and the last share a thread: three threads; variant b for the other lock-key order)
	{"partial_lock_then_two_more_a", [][]opB{{{"dotx", "sB1"}, {"dotx", "sB5"}}, {{"dotx", "sB3"}}, {{"dotx", "sB4"}}}, true},
	{"partial_lock_then_two_more_b", [][]opB{{{"dotx", "sB5"}, {"dotx", "sB2"}}, {{"dotx", "sB3"}}, {{"dotx", "sB1"}}}, true},
	{"play_vs_dotx", [][]opB{{{"play", "k2"}}, {{"dotx", "wB"}}, {{"dotx", "wC"}}}, false},
	{"lock_rrww3", [][]opB{{{"dotx", "rD"}, {"dotx", "wC"}}, {{"dotx", "rA"}}, {{"dotx", "wB"}}}, true},
	{"lock_rrww4", [][]opB{{{"dotx", "rD"}}, {{"dotx", "rA"}}, {{"dotx", "wB"}}, {{"dotx", "wC"}}}, true},
}

var (
	uniOnce sync.Once
	uni     *world.Universe
)

func universe() *world.Universe {
	uniOnce.Do(func() { uni = world.UniverseC12() })
	return uni
}

var (
	baseOnce  sync.Once
	baseSpace *vkv.Space
)

var (
	replicaMu    sync.Mutex
	replicaCache = map[string][]string{}
)

type resultB struct {
	admitted []string
	selected [][]string
	errs     map[string]string
}

func newB(p patternB, withKV bool) func() vsched.Instance {
	u := universe()
	return func() vsched.Instance {
		vhook.Capture()
		baseOnce.Do(func() {
			b := chain.New(u, chain.Menu{})
			for _, ev := range []string{"recv:k1", "sync", "recv:k2", "recv:j2"} {
				if o := b.Apply(ev); strings.HasPrefix(o, "ERR") || strings.HasPrefix(o, "refused") {
					panic("c12 fixture: " + ev + ": " + o)
				}
			}
			b.W.State.Close()
			b.W.Ledger.Close()
			baseSpace = b.W.Space
		})
		w, err := world.Open(u.Cfg, baseSpace.Clone(), u.Hook)
		if err != nil {
			panic(err)
		}
		inst := chain.NewOn(u, w, []string{"k1", "k2", "j2"}, chain.Menu{})
		if withKV {
			inst.W.Space.Hook = func(store, kind string) {
				if kind == "batch" {
					vsync.Point(store, "kv:"+kind)
				}
			}
		}
		var hm sync.Mutex
		res := &resultB{errs: map[string]string{}}
		var bodies []func()
		for _, ops := range p.Threads {
			ops := ops
			bodies = append(bodies, func() {
				for _, op := range ops {
					switch op.Kind {
					case "dotx":
						// what Chain.SubmitTx does: VerifyTx, then DoTx, looking at errors only
						tx := u.Tx(op.Arg)
						_, err := inst.W.State.VerifyTx(tx)
						if err == nil {
							err = inst.W.State.DoTx(tx)
						}
						hm.Lock()
						if err == nil {
							res.admitted = append(res.admitted, op.Arg)
						} else {
							res.errs[op.Arg] = err.Error()
						}
						hm.Unlock()
					case "select":
						who, need := op.Arg, int64(1)
						if j := strings.IndexByte(who, ':'); j >= 0 {
							fmt.Sscan(who[j+1:], &need)
							who = who[:j]
						}
						ins, _, _, err := inst.W.State.SelectUtxos(world.Addr(who), big.NewInt(need), true, false)
						var keys []string
						if err == nil {
							for _, in := range ins {
								keys = append(keys, fmt.Sprintf("%s_%d", u.Names.Of(in.RefTxid), in.RefOffset))
							}
						}
						hm.Lock()
						res.selected = append(res.selected, keys)
						hm.Unlock()
					case "selectsize":
						ins, _, _, err := inst.W.State.SelectUtxosBySize(world.Addr(op.Arg), true, false)
						var keys []string
						if err == nil {
							for _, in := range ins {
								keys = append(keys, fmt.Sprintf("%s_%d", u.Names.Of(in.RefTxid), in.RefOffset))
							}
						}
						hm.Lock()
						res.selected = append(res.selected, keys)
						hm.Unlock()
					case "play":
						err := inst.W.State.PlayAndRepost(u.ID(op.Arg), false, false)
						hm.Lock()
						if err != nil {
							res.errs["play:"+op.Arg] = err.Error()
						}
						hm.Unlock()
					}
				}
			})
		}
		check := func(o vsched.Outcome) []string {
			inst.W.Space.Hook = nil
			var out []string
			if o.Deadlock {
				out = append(out, "c12.deadlock: "+strings.Join(o.Blocked, "; "))
				return out
			}
			if o.Livelock {
				return append(out, "c12.livelock")
			}
			for _, pn := range o.Panics {
				out = append(out, "c12.panic: "+firstLine(pn))
			}
			if len(o.Panics) > 0 {
				return out
			}
			// selections with locking never hand out the same output twice
			seen := map[string]bool{}
			for _, ks := range res.selected {
				for _, k := range ks {
					if seen[k] {
						out = append(out, "c12.select.same_output_twice: output "+k+" was handed to two locking selectors")
					}
					seen[k] = true
				}
			}
			// the pool must be exactly the admitted set and conflict free
			pool := inst.PoolNames()
			ps := append([]string(nil), pool...)
			sort.Strings(ps)
			as := append([]string(nil), res.admitted...)
			sort.Strings(as)
			if strings.Join(ps, ",") != strings.Join(as, ",") {
				out = append(out, fmt.Sprintf("c12.pool_vs_admitted: pool %v, admitted %v", ps, as))
			}
			// the remaining judgement is a pure function of the final stores, the
			// pool order and the live observation: memoise it
			live := stripTx(chain.Observe(inst, inst.W))
			sig := sha(chain.CanonDump(inst.W) + fmt.Sprint(pool) + fmt.Sprint(live))
			replicaMu.Lock()
			cached, hit := replicaCache[sig]
			replicaMu.Unlock()
			if hit {
				return append(append(out, cached...), retryRefused(inst, res)...)
			}
			var more []string
			so := &chain.SpendOracle{}
			for _, v := range so.Check(inst, nil) {
				more = append(more, "c12.admitted_conflict: "+v.Summary)
			}
			// final state equals applying the admitted set one at a time
			ptr := inst.Ptr()
			order, cyclic := chain.SerialOrder(inst, pool)
			if cyclic {
				more = append(more, fmt.Sprintf("c12.not_serialisable.cycle: the admitted set %v has no one-at-a-time order", pool))
			}
			rep, err := inst.Replica(ptr, order)
			if cyclic {
				// already reported
			} else if err != nil {
				more = append(more, "c12.not_serialisable.replica: "+err.Error())
			} else {
				d := chain.Diff(live, stripTx(chain.Observe(inst, rep)))
				rep.Drop()
				if len(d) > 0 {
					more = append(more, "c12.not_serialisable.differs: "+strings.Join(d[:min(len(d), 3)], " | "))
				}
			}
			replicaMu.Lock()
			replicaCache[sig] = more
			replicaMu.Unlock()
			return append(append(out, more...), retryRefused(inst, res)...)
		}
		cleanup := func() { inst.Close() }
		in := vsched.Instance{Bodies: bodies, Check: check, Cleanup: cleanup}
		if p.LockOnly {
			// scheduling points: the lock protocol's own objects and storage writes
			objs := map[interface{}]bool{}
			for _, o := range inst.W.State.VSpinLock().VObjects() {
				objs[o] = true
			}
			in.Filter = func(obj interface{}, kind string) bool {
				return objs[obj] || strings.HasPrefix(kind, "kv:") || kind == "start"
			}
		}
		return in
	}
}

// retryRefused: once every thread is done, a refused transaction all of whose
// inputs are current against chain + pool is submitted again, one at a time, and
// must be admitted (a refusal may come from a collision in flight, it must not
// outlive it: locks that a refused submission keeps are not in the stores, so
// this is judged on the live node and never memoised).
func retryRefused(inst *chain.Inst, res *resultB) []string {
	var names []string
	for n := range res.errs {
		if !strings.HasPrefix(n, "play:") {
			names = append(names, n)
		}
	}
	sort.Strings(names)
	var out []string
	for _, n := range names {
		so := &chain.SpendOracle{}
		so.Before(inst, "submit:"+n)
		tx := inst.U.Tx(n)
		_, err := inst.W.State.VerifyTx(tx)
		if err == nil {
			err = inst.W.State.DoTx(tx)
		}
		obs := "ok"
		if err != nil {
			obs = "ERR " + err.Error()
		}
		so.After(inst, "submit:"+n, obs)
		for _, v := range so.Check(inst, nil) {
			if strings.HasPrefix(v.Key, "c03.refused_current") {
				out = append(out, "c12.refused_without_conflict_after_quiescence: "+v.Summary+" (first refusal: "+res.errs[n]+")")
			}
		}
	}
	return out
}

func sha(s string) string {
	h := sha256.Sum256([]byte(s))
	return string(h[:])
}

func stripTx(m map[string]string) map[string]string {
	o := map[string]string{}
	for k, v := range m {
		if !strings.HasPrefix(k, "tx:") {
			o[k] = v
		}
	}
	return o
}

func min(a, b int) int {
	if a < b {
		return a
	}
	return b
}

// ---------------------------------------------------------------------------

func keyOf(msg string) string {
	if i := strings.Index(msg, ":"); i >= 0 {
		return msg[:i]
	}
	return msg
}

type workerResult struct {
	Executions int
	MaxPoints  int
	Stopped    bool
	Violations []workerViol
}

type workerViol struct {
	Msg      string
	Schedule []int
}

func maker(kind, name string) func() vsched.Instance {
	if kind == "A" {
		for _, p := range patternsA {
			if p.Name == name {
				return newA(p)
			}
		}
	} else {
		for _, p := range patternsB {
			if p.Name == name {
				return newB(p, true)
			}
		}
	}
	return nil
}

// worker explores one pattern and prints the result as JSON.
func worker(args []string) int {
	if len(args) < 4 {
		return 2
	}
	kind, name := args[0], args[1]
	bound, _ := strconv.Atoi(args[2])
	deadlineS, _ := strconv.Atoi(args[3])
	world.Init()
	vhook.Capture()
	mk := maker(kind, name)
	if mk == nil {
		return 2
	}
	deadline := time.Now().Add(time.Duration(deadlineS) * time.Second)
	x := &vsched.Explorer{New: mk, Bound: bound, Workers: 2, Horizon: 4000, Stop: func() bool { return time.Now().After(deadline) }}
	x.Explore()
	res := workerResult{Executions: x.Executions, MaxPoints: x.MaxPoints, Stopped: x.Stopped}
	msgs := make([]string, 0, len(x.Violations))
	for m := range x.Violations {
		msgs = append(msgs, m)
	}
	sort.Strings(msgs)
	for _, m := range msgs {
		res.Violations = append(res.Violations, workerViol{Msg: m, Schedule: x.Violations[m].Choices})
	}
	json.NewEncoder(os.Stdout).Encode(res)
	return 0
}

func run(tier core.Tier) *core.Report {
	rep := core.NewReport("C12", tier, "model_checking")
	type task struct {
		kind, name string
		bound      int
	}
	var tasks []task
	for _, p := range patternsA {
		b := 3
		if tier == core.Thorough {
			b = 6
		}
		tasks = append(tasks, task{"A", p.Name, b})
	}
	heavy := map[string]bool{"read_read_write": true, "readers_then_writers": true, "independent": true, "play_vs_dotx": true}
	for _, p := range patternsB {
		b := 2
		if tier == core.Quick && heavy[p.Name] {
			b = 1
		}
		if p.LockOnly {
			// bound 3 is what reaches the phantom shared lock at state level (3 threads)
			b = 3
			if tier == core.Quick {
				b = 2
			}
		}
		if strings.HasPrefix(p.Name, "partial_lock_") {
			b = 3 // the double release needs three preemptions; three threads keep that affordable
		}
		if tier == core.Quick && p.Name == "lock_rrww4" {
			continue
		}
		if tier == core.Thorough && !heavy[p.Name] {
			b = 3
		}
		tasks = append(tasks, task{"B", p.Name, b})
	}
	only := os.Getenv("C12_ONLY")
	remaining := int(time.Until(rep.Deadline).Seconds()) - 5
	if remaining < 10 {
		remaining = 10
	}
	results := make([]*workerResult, len(tasks))
	errs := make([]error, len(tasks))
	var wg sync.WaitGroup
	sem := make(chan struct{}, 8)
	for ti, t := range tasks {
		if only != "" && only != t.kind+"/"+t.name {
			continue
		}
		wg.Add(1)
		go func(ti int, t task) {
			defer wg.Done()
			sem <- struct{}{}
			defer func() { <-sem }()
			cmd := exec.Command(os.Args[0], "c12worker", t.kind, t.name, strconv.Itoa(t.bound), strconv.Itoa(remaining))
			cmd.Env = append(os.Environ(), "GOMAXPROCS=2")
			cmd.Stderr = os.Stderr
			outb, err := cmd.Output()
			if err != nil {
				errs[ti] = fmt.Errorf("worker %s/%s: %v", t.kind, t.name, err)
				return
			}
			var r workerResult
			if err := json.Unmarshal(outb, &r); err != nil {
				errs[ti] = fmt.Errorf("worker %s/%s: bad output: %v", t.kind, t.name, err)
				return
			}
			results[ti] = &r
		}(ti, t)
	}
	wg.Wait()
	totalExec := 0
	exh := true
	var bounds []string
	for ti, t := range tasks {
		if errs[ti] != nil {
			core.HarnessError("%v", errs[ti])
		}
		r := results[ti]
		if r == nil {
			continue
		}
		totalExec += r.Executions
		if r.Stopped {
			exh = false
		}
		bounds = append(bounds, fmt.Sprintf("%s/%s: preemption bound %d, schedules %d, max scheduling points %d, complete=%v", t.kind, t.name, t.bound, r.Executions, r.MaxPoints, !r.Stopped))
		for _, v := range r.Violations {
			rep.Violation(core.Violation{Key: keyOf(v.Msg) + "." + t.kind + "." + t.name, Summary: v.Msg,
				Case: map[string]interface{}{"harness": t.kind, "pattern": t.name, "schedule": v.Schedule}})
		}
		rep.Sample(map[string]interface{}{"harness": t.kind, "pattern": t.name, "preemption_bound": t.bound, "schedules": r.Executions, "max_points": r.MaxPoints})
	}
	if totalExec == 0 {
		totalExec = 1
	}
	rep.Set("states", totalExec)
	rep.Set("transitions", totalExec)
	rep.Set("traces_validated_against_impl", totalExec)
	rep.Set("schedules", totalExec)
	rep.Set("bound", bounds)
	rep.Set("exhaustive", exh)
	if only == "" {
		core.RacePass(rep, "C12", "c12")
	}
	rep.Assume("scheduling points are the synchronisation operations of the rewritten packages (state/utxo, state/xmodel, state/meta, tx) and storage batch writes; unsynchronised accesses are the race pass's business")
	rep.Assume("wall-clock expiry of selection locks (60 s) and pool entries (300 s) never fires inside an execution")
	rep.Assume("a submission is VerifyTx followed by DoTx, as Chain.SubmitTx does")
	return rep
}

// racePass runs every pattern's bodies as free goroutines (no scheduler) so a
// -race build can see unsynchronised accesses.
func racePass() {
	world.Init()
	vhook.Release()
	for _, p := range patternsA {
		for r := 0; r < 100; r++ {
			freeRun(newA(p)())
		}
	}
	for _, p := range patternsB {
		for r := 0; r < 30; r++ {
			freeRun(newB(p, false)())
		}
	}
}

func freeRun(in vsched.Instance) {
	var wg sync.WaitGroup
	for _, b := range in.Bodies {
		wg.Add(1)
		go func(b func()) { defer wg.Done(); b() }(b)
	}
	wg.Wait()
	if in.Cleanup != nil {
		in.Cleanup()
	}
}

func replay(c json.RawMessage) (bool, string, error) {
	var cs struct {
		Harness  string `json:"harness"`
		Pattern  string `json:"pattern"`
		Schedule []int  `json:"schedule"`
		Part     string `json:"part"`
	}
	if err := json.Unmarshal(c, &cs); err != nil {
		return false, "", err
	}
	if cs.Part == "race" {
		return false, "a race report of the free-running pass carries no schedule: run the check again to look for it", nil
	}
	world.Init()
	vhook.Capture()
	mk := maker(cs.Harness, cs.Pattern)
	if mk == nil {
		return false, "", fmt.Errorf("unknown pattern %s/%s", cs.Harness, cs.Pattern)
	}
	in := mk()
	o := vsched.RunFiltered(in.Bodies, cs.Schedule, 4000, true, in.Filter)
	if o.Diverged != "" {
		if in.Cleanup != nil {
			in.Cleanup()
		}
		return false, "the recorded schedule does not fit the synchronisation structure of this tree (" + o.Diverged + "): nothing reproduced", nil
	}
	msgs := in.Check(o)
	if in.Cleanup != nil {
		in.Cleanup()
	}
	fmt.Println("trace:", strings.Join(o.Trace, " "))
	if len(msgs) > 0 {
		return true, strings.Join(msgs, "\n"), nil
	}
	return false, "schedule replayed without violation", nil
}

func init() {
	core.Register(&core.Check{ID: "C12", Run: run, Replay: replay})
	core.RegisterCmd("c12worker", worker)
	core.RegisterRace("C12", racePass)
}
