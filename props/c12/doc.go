// Package c12 holds the check for property C12.
package c12
