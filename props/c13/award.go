package c13

import (
	"fmt"
	"math/big"

	"github.com/xuperchain/xupercore/bcs/ledger/xledger/ledger"

	"verif/core"
)

// awardHistories: the award of a height is what the producer puts into its
// block and what every other node's IsValidTx recomputes; the two agree only
// if CalcAward is a function of the height alone, whatever the same process
// computed before (the function memoises per decay period). Enumerated: a box
// of decay configurations x every height below a bound x every one (and, for
// low heights, every two) earlier calls on the same object, against a fresh object.
func awardHistories(rep *core.Report, tier core.Tier) {
	awards := []string{"1000000", "1000003", "999999", "7", "1"}
	ratios := []string{"1", "0.5", "0.9", "0.75", "0.3333", "0.999"}
	gaps := []int64{1, 2, 3, 7}
	maxH, maxH3 := int64(48), int64(14)
	if tier == core.Thorough {
		maxH, maxH3 = 160, 40
	}
	evals, configs, distinct := 0, 0, map[string]bool{}
	mk := func(award, ratio string, gap int64) *ledger.GenesisBlock {
		js := fmt.Sprintf(`{"version":"1","predistribution":[],"maxblocksize":"16","award":"%s","decimals":"8","award_decay":{"height_gap":%d,"ratio":%s},"genesis_consensus":{"name":"single","config":{"miner":"x","period":3000}}}`, award, gap, ratio)
		gb, err := ledger.NewGenesisBlock([]byte(js))
		if err != nil {
			core.HarnessError("C13 award part: genesis %s: %v", js, err)
		}
		return gb
	}
	for _, a := range awards {
		for _, r := range ratios {
			for _, g := range gaps {
				configs++
				want := make([]*big.Int, maxH+1)
				for h := int64(0); h <= maxH; h++ {
					want[h] = new(big.Int).Set(mk(a, r, g).CalcAward(h)) // a fresh object per height
					distinct[fmt.Sprintf("%s/%s/%d:%s", a, r, g, want[h])] = true
				}
				report := func(hist []int64, h int64, got *big.Int) {
					rep.Violation(core.Violation{Key: "c13.award.depends_on_earlier_calls",
						Summary:  fmt.Sprintf("award %s ratio %s height_gap %d: CalcAward(%d) = %s after CalcAward of heights %v on the same object, %s on a fresh object (a producer and a validator with different pasts disagree about the block's award)", a, r, g, h, got, hist, want[h]),
						Expected: want[h].String(), Observed: got.String(),
						Case: map[string]interface{}{"award_case": map[string]interface{}{"award": a, "ratio": r, "gap": g, "history": hist, "height": h}}})
				}
				for h1 := int64(0); h1 <= maxH; h1++ {
					for h := int64(0); h <= maxH; h++ {
						gb := mk(a, r, g)
						gb.CalcAward(h1)
						evals++
						if got := gb.CalcAward(h); got.Cmp(want[h]) != 0 {
							report([]int64{h1}, h, got)
						}
					}
				}
				for h1 := int64(0); h1 <= maxH3; h1++ {
					for h2 := int64(0); h2 <= maxH3; h2++ {
						for h := int64(0); h <= maxH3; h++ {
							gb := mk(a, r, g)
							gb.CalcAward(h1)
							gb.CalcAward(h2)
							evals++
							if got := gb.CalcAward(h); got.Cmp(want[h]) != 0 {
								report([]int64{h1, h2}, h, got)
							}
						}
					}
				}
				// the value handed out is the memoised object: a caller that computes with it must not change later answers
				gb := mk(a, r, g)
				for h := int64(0); h <= maxH; h++ {
					v := gb.CalcAward(h)
					keep := new(big.Int).Set(v)
					_ = new(big.Int).Add(v, big.NewInt(1)) // a well-behaved caller: computes into a new value
					evals++
					if got := gb.CalcAward(h); got.Cmp(keep) != 0 {
						report([]int64{h}, h, got)
					}
				}
			}
		}
	}
	rep.Set("award_function", fmt.Sprintf("CalcAward: %d decay configurations (award %v x ratio %v x height_gap %v) x heights 0..%d after every single earlier call, heights 0..%d after every two earlier calls, against a fresh object: %d evaluations, %d distinct (configuration, award) values", configs, awards, ratios, gaps, maxH, maxH3, evals, len(distinct)))
}

func replayAward(award, ratio string, gap int64, hist []int64, h int64) (bool, string, error) {
	js := fmt.Sprintf(`{"version":"1","predistribution":[],"maxblocksize":"16","award":"%s","decimals":"8","award_decay":{"height_gap":%d,"ratio":%s},"genesis_consensus":{"name":"single","config":{"miner":"x","period":3000}}}`, award, gap, ratio)
	fresh, err := ledger.NewGenesisBlock([]byte(js))
	if err != nil {
		return false, "", err
	}
	want := new(big.Int).Set(fresh.CalcAward(h))
	gb, _ := ledger.NewGenesisBlock([]byte(js))
	for _, x := range hist {
		gb.CalcAward(x)
	}
	got := gb.CalcAward(h)
	return got.Cmp(want) != 0, fmt.Sprintf("CalcAward(%d) after %v = %s, fresh object %s", h, hist, got, want), nil
}
