// Package c13: blocks a node produces are valid everywhere and replay to the
// producer's state. The real Miner.mining step runs on a producer node for
// every pool (family x admissible submission order) and every iteration order
// of the pool's maps (rewritten map ranges, chosen by the enumerator); the
// block goes through a protobuf wire round trip to a replica that never saw
// the transactions.
package c13

import (
	"bytes"
	"encoding/json"
	"fmt"
	"sort"
	"strings"
	"sync"
	"sync/atomic"

	"github.com/xuperchain/xupercore/bcs/ledger/xledger/state"
	pb "github.com/xuperchain/xupercore/bcs/ledger/xledger/xldgpb"
	"github.com/xuperchain/xupercore/kernel/common/xaddress"
	xctx "github.com/xuperchain/xupercore/kernel/common/xcontext"
	"github.com/xuperchain/xupercore/kernel/consensus"
	"github.com/xuperchain/xupercore/kernel/consensus/base"
	cctx "github.com/xuperchain/xupercore/kernel/consensus/context"
	"github.com/xuperchain/xupercore/kernel/engines/xuperos/agent"
	"github.com/xuperchain/xupercore/kernel/engines/xuperos/miner"
	"github.com/xuperchain/xupercore/lib/timer"
	"github.com/xuperchain/xupercore/verifshim/vhook"

	"verif/core"
	"verif/engine/vkv"
	"verif/props/chain"
	"verif/world"
)

// families of pool transactions (names in UniverseC13).
var families = []struct {
	Name string
	Txs  []string
}{
	{"chain", []string{"c1", "c2", "c3"}},
	{"diamond", []string{"d1", "d2", "d3", "d4"}},
	{"readers_writer", []string{"rD", "rC", "wB"}},
	{"writer_reader", []string{"wB", "rC2"}},
	{"writer_reader_writer", []string{"wB", "rC2", "wD2"}},
	{"deleter_recreator", []string{"dB", "pC3"}},
	{"deleter_deleter_reader", []string{"dB", "dD3", "rD"}},
	{"fees", []string{"fB", "fC", "tD"}},
	{"mixed", []string{"c1", "rD", "fC", "c2"}},
	{"reader_only", []string{"rD", "rC"}},
}

var (
	uniOnce   sync.Once
	uni       *world.Universe
	baseSpace *vkv.Space
	// second universe: 1 MB blocks, pools larger than a block
	uniBig  *world.Universe
	baseBig *vkv.Space
)

// multi-step families on the big universe: the producer mines until its pool
// is empty (at most Steps times); Arrive is submitted while the first block is
// being computed (Consensus.CalculateBlock), i.e. between packing and play.
var bigFamilies = []struct {
	Name   string
	Txs    []string
	Arrive string
	Steps  int
}{
	{"pool_larger_than_block", []string{"b1", "b2", "b3", "b4"}, "", 4},
	{"pool_larger_than_block_plus_small", []string{"b1", "b2", "b3", "b4", "tA"}, "", 4},
	{"arrival_while_block_is_computed", []string{"b1"}, "tA", 3},
	{"arrival_of_dependent_while_block_is_computed", []string{"b1", "b2"}, "b3", 4},
}

func setup() {
	uniOnce.Do(func() {
		world.Init()
		vhook.Capture()
		uni = world.UniverseC13()
		b := chain.New(uni, chain.Menu{})
		for _, ev := range []string{"recv:k1", "sync"} {
			if o := b.Apply(ev); strings.HasPrefix(o, "ERR") || strings.HasPrefix(o, "refused") {
				panic("c13 fixture: " + ev + ": " + o)
			}
		}
		b.W.State.Close()
		b.W.Ledger.Close()
		baseSpace = b.W.Space
		uniBig = world.UniverseC13Big()
		bb := chain.New(uniBig, chain.Menu{})
		for _, ev := range []string{"recv:k1", "sync"} {
			if o := bb.Apply(ev); strings.HasPrefix(o, "ERR") || strings.HasPrefix(o, "refused") {
				panic("c13 big fixture: " + ev + ": " + o)
			}
		}
		bb.W.State.Close()
		bb.W.Ledger.Close()
		baseBig = bb.W.Space
	})
}

func newBigNode() *chain.Inst {
	w, err := world.Open(uniBig.Cfg, baseBig.Clone(), uniBig.Hook)
	if err != nil {
		panic(err)
	}
	return chain.NewOn(uniBig, w, []string{"k1"}, chain.Menu{})
}

func newNode() *chain.Inst {
	w, err := world.Open(uni.Cfg, baseSpace.Clone(), uni.Hook)
	if err != nil {
		panic(err)
	}
	return chain.NewOn(uni, w, []string{"k1"}, chain.Menu{})
}

// producerMiner wires a real Miner over the node: real pluggable consensus
// (genesis says "single", miner M) when it can be built, else a stub.
func producerMiner(w *world.World) (*miner.Miner, string, error) {
	k := world.Keys["M"]
	w.Chain.Address = &xaddress.Address{Address: k.Address, PrivateKey: k.Priv, PrivateKeyStr: k.PriJSON, PublicKey: &k.Priv.PublicKey, PublicKeyStr: k.PubJSON}
	kind := "stub"
	cc := cctx.ConsensusCtx{BcName: world.BCName, Address: (*cctx.Address)(w.Chain.Address), Crypto: world.Crypto, Contract: w.Chain.Contract, Ledger: agent.NewLedgerAgent(w.Chain)}
	cc.XLog = w.Log
	cc.Timer = timer.NewXTimer()
	var cons consensus.ConsensusInterface
	func() {
		defer func() { recover() }()
		c, err := consensus.NewPluggableConsensus(cc)
		if err == nil && c != nil {
			cons = c
			kind = "pluggable(single)"
		}
	}()
	if cons == nil {
		// the repository's `single` consensus itself, built the way the pluggable object builds it
		if sg, err := w.NewSingle("M"); err == nil {
			cons = hookedConsensus{ConsensusImplInterface: sg}
			kind = "single (consensus.NewPluginConsensus)"
		}
	}
	if cons == nil {
		cons = stubConsensus{}
	}
	w.Chain.Consensus = cons
	return miner.NewMiner(w.Chain), kind, nil
}

// permutations of 0..n-1 in lexicographic order.
func perms(n int) [][]int {
	var out [][]int
	p := make([]int, n)
	for i := range p {
		p[i] = i
	}
	var rec func(k int)
	rec = func(k int) {
		if k == n {
			out = append(out, append([]int(nil), p...))
			return
		}
		for i := k; i < n; i++ {
			p[k], p[i] = p[i], p[k]
			rec(k + 1)
			p[k], p[i] = p[i], p[k]
		}
	}
	rec(0)
	sort.Slice(out, func(a, b int) bool {
		for i := range out[a] {
			if out[a][i] != out[b][i] {
				return out[a][i] < out[b][i]
			}
		}
		return false
	})
	return out
}

// Case is one execution.
type Case struct {
	Family string           `json:"family"`
	Submit []string         `json:"submit"`
	Orders map[string][]int `json:"orders"` // site label -> permutation index list
	// multi-step cases on the big universe
	Big    bool   `json:"big,omitempty"`
	Arrive string `json:"arrive,omitempty"`
	// ArriveStep: the producer step (1-based) inside whose CalculateBlock the transaction arrives (0 = 1)
	ArriveStep int `json:"arrive_step,omitempty"`
	Steps      int `json:"steps,omitempty"`
}

var sites = []string{"SortUnconfirmedTx#1", "TopSortDFS#1", "TopSortDFS#2"}

type result struct {
	admitted  []string
	pool      []string
	block     []string
	violation []core.Violation
	consKind  string
	arrivals  int // transactions that arrived inside CalculateBlock
	skipped   string
}

func runCase(c Case) (res result) {
	defer func() {
		if r := recover(); r != nil {
			res.violation = append(res.violation, core.Violation{Key: "c13.panic", Summary: fmt.Sprintf("panic: %v", r)})
		}
	}()
	vhook.Capture()
	vhook.Discard()
	inst := newNode()
	defer inst.Close()
	w := inst.W
	bad := func(key, f string, a ...interface{}) {
		res.violation = append(res.violation, core.Violation{Key: key, Summary: fmt.Sprintf("family %s, submitted %v, orders %v: ", c.Family, c.Submit, c.Orders) + fmt.Sprintf(f, a...), Case: c})
	}
	for _, tn := range c.Submit {
		if err := w.Submit(uni.Tx(tn)); err != nil {
			res.skipped = "submission order not admissible: " + tn + ": " + err.Error()
			return
		}
		res.admitted = append(res.admitted, tn)
	}
	vhook.SetMapOrder(func(label string, keys []string) []string {
		p, ok := c.Orders[label]
		if !ok || len(p) != len(keys) {
			return keys
		}
		out := make([]string, len(keys))
		for i, j := range p {
			out[i] = keys[j]
		}
		return out
	})
	defer vhook.SetMapOrder(nil)
	// order clause on the pool as the producer will read it
	pool, err := w.State.GetUnconfirmedTx(false)
	if err != nil {
		bad("c13.pool_error", "GetUnconfirmedTx: %v", err)
		return
	}
	for _, t := range pool {
		res.pool = append(res.pool, uni.Names.Of(t.Txid))
	}
	if why := orderViolation(pool); why != "" {
		bad("c13.pool_order."+strings.SplitN(why, ":", 2)[0], "pool order %v: %s", res.pool, why)
	}
	m, kind, err := producerMiner(w)
	res.consKind = kind
	if err != nil {
		bad("c13.fixture", "%v", err)
		return
	}
	ctx := &xctx.BaseCtx{XLog: w.Log, Timer: timer.NewXTimer()}
	if err := m.VMining(ctx); err != nil {
		vhook.Discard()
		bad("c13.mining_failed", "the producer step failed: %v", err)
		return
	}
	vhook.Discard() // the broadcast goroutine
	tip := w.Ledger.GetMeta().TipBlockid
	blk, err := w.Ledger.QueryBlock(tip)
	if err != nil || blk.Height != 2 {
		bad("c13.no_block", "no block of height 2 after the producer step (err %v)", err)
		return
	}
	for _, t := range blk.Transactions {
		res.block = append(res.block, uni.Names.Of(t.Txid))
	}
	if !bytes.Equal(w.State.GetLatestBlockid(), tip) {
		bad("c13.producer_state_behind", "the producer's state machine is not at its own block")
	}
	// shape: award first, then the pool in pool order
	if len(blk.Transactions) == 0 || !blk.Transactions[0].Coinbase {
		bad("c13.shape.award_first", "block %v does not start with the award", res.block)
	} else {
		want := w.Ledger.GenesisBlock.CalcAward(blk.Height)
		if len(blk.Transactions[0].TxOutputs) == 0 || !bytes.Equal(blk.Transactions[0].TxOutputs[0].Amount, want.Bytes()) {
			bad("c13.award_amount", "award differs from CalcAward(%d)=%s", blk.Height, want)
		}
	}
	// replica: wire round trip, then what batchConfirmBlock + Walk do
	wire := world.WireBlock(blk)
	rinst := newNode()
	defer rinst.Close()
	r := rinst.W
	if why := replicaConsensusRefuses(r, wire); why != "" {
		bad("c13.replica.consensus_refused", "the replica's own single consensus refuses the produced block %v: %s", res.block, why)
		return
	}
	if ok, _ := r.Ledger.VerifyBlock(wire, "c13"); !ok {
		bad("c13.replica.verify_block", "replica's VerifyBlock refuses the produced block %v", res.block)
		return
	}
	for i, t := range wire.Transactions {
		if !r.Ledger.IsValidTx(i, t, wire) {
			bad("c13.replica.invalid_tx", "replica's IsValidTx refuses tx %d (%s)", i, uni.Names.Of(t.Txid))
			return
		}
	}
	if st := r.Ledger.ConfirmBlock(wire, false); !st.Succ {
		bad("c13.replica.confirm", "replica's ConfirmBlock refuses the produced block %v: %v", res.block, st.Error)
		return
	}
	if err := r.State.Walk(wire.Blockid, false); err != nil {
		vhook.Discard()
		bad("c13.replica.walk_refused", "block %v (pool order %v) cannot be replayed on a node that never saw its transactions: %v", res.block, res.pool, err)
		return
	}
	vhook.Discard()
	// same state (QueryTx answers depend on nothing else here: same ledger content)
	a := chain.Observe(inst, w)
	b := chain.Observe(rinst, r)
	if d := chain.Diff(a, b); len(d) > 0 {
		bad("c13.replica.state_differs", "replica state differs from the producer's: %s", strings.Join(d[:minInt(len(d), 3)], " | "))
	}
	return
}

func minInt(a, b int) int {
	if a < b {
		return a
	}
	return b
}

// runBig: pool larger than a block / arrival while the block is computed. The
// producer mines until its pool is empty; the replica receives every block
// after a wire round trip; the states must be equal and every block must carry
// a dependency-closed prefix of the pool.
func runBig(c Case) (res result) {
	defer func() {
		if r := recover(); r != nil {
			res.violation = append(res.violation, core.Violation{Key: "c13.panic", Summary: fmt.Sprintf("panic: %v", r)})
		}
	}()
	vhook.Capture()
	vhook.Discard()
	inst := newBigNode()
	defer inst.Close()
	w := inst.W
	u := uniBig
	bad := func(key, f string, a ...interface{}) {
		res.violation = append(res.violation, core.Violation{Key: key, Summary: fmt.Sprintf("family %s, submitted %v, arriving %q: ", c.Family, c.Submit, c.Arrive) + fmt.Sprintf(f, a...), Case: c})
	}
	for _, tn := range c.Submit {
		if err := w.Submit(u.Tx(tn)); err != nil {
			res.skipped = "submission not admissible: " + tn + ": " + err.Error()
			return
		}
	}
	m, kind, _ := producerMiner(w)
	res.consKind = kind
	arrived := false
	calcCalls := 0
	onCalc := func() {
		calcCalls++
		at := c.ArriveStep
		if at == 0 {
			at = 1
		}
		if c.Arrive != "" && !arrived && calcCalls == at {
			arrived = true
			res.arrivals++
			if err := w.Submit(u.Tx(c.Arrive)); err != nil {
				bad("c13.fixture", "arriving tx refused: %v", err)
			}
		}
	}
	if hc, ok := w.Chain.Consensus.(hookedConsensus); ok {
		hc.onCalc = onCalc
		w.Chain.Consensus = hc
	} else {
		w.Chain.Consensus = stubConsensus{onCalc: onCalc}
	}
	ctx := &xctx.BaseCtx{XLog: w.Log, Timer: timer.NewXTimer()}
	var blocks []*pb.InternalBlock
	for step := 0; step < c.Steps; step++ {
		if step > 0 {
			if p, _ := w.State.GetUnconfirmedTx(false); len(p) == 0 {
				break
			}
		}
		if err := m.VMining(ctx); err != nil {
			vhook.Discard()
			bad("c13.mining_failed", "producer step %d failed: %v", step+1, err)
			return
		}
		vhook.Discard()
		blk, err := w.Ledger.QueryBlock(w.Ledger.GetMeta().TipBlockid)
		if err != nil {
			bad("c13.no_block", "%v", err)
			return
		}
		blocks = append(blocks, world.CloneBlock(blk))
		var names []string
		for _, t := range blk.Transactions {
			names = append(names, u.Names.Of(t.Txid))
		}
		res.block = append(res.block, "["+strings.Join(names, " ")+"]")
	}
	if p, _ := w.State.GetUnconfirmedTx(false); len(p) != 0 {
		var names []string
		for _, t := range p {
			names = append(names, u.Names.Of(t.Txid))
		}
		bad("c13.pool_not_drained", "after %d producer steps the pool still holds %v (blocks %v)", c.Steps, names, res.block)
		return
	}
	rinst := newBigNode()
	defer rinst.Close()
	r := rinst.W
	for k, blk := range blocks {
		wire := world.WireBlock(blk)
		if why := replicaConsensusRefuses(r, wire); why != "" {
			bad("c13.replica.consensus_refused", "the replica's own single consensus refuses block %d %s: %s", k+1, res.block[k], why)
			return
		}
		if ok, _ := r.Ledger.VerifyBlock(wire, "c13"); !ok {
			bad("c13.replica.verify_block", "replica's VerifyBlock refuses block %d %s", k+1, res.block[k])
			return
		}
		if st := r.Ledger.ConfirmBlock(wire, false); !st.Succ {
			bad("c13.replica.confirm", "replica's ConfirmBlock refuses block %d %s", k+1, res.block[k])
			return
		}
		if err := r.State.Walk(wire.Blockid, false); err != nil {
			vhook.Discard()
			bad("c13.replica.walk_refused", "block %d of %v cannot be replayed on a node that never saw its transactions: %v", k+1, res.block, err)
			return
		}
		vhook.Discard()
	}
	if d := chain.Diff(chain.Observe(inst, w), chain.Observe(rinst, r)); len(d) > 0 {
		bad("c13.replica.state_differs", "after blocks %v the replica's state differs from the producer's: %s", res.block, strings.Join(d[:minInt(len(d), 3)], " | "))
	}
	return
}

// orderViolation checks: every tx after the producers of what it consumes and
// before any tx that overwrites a key version it only read.
func orderViolation(pool []*pb.Transaction) string { return orderViolationN(pool, uni.Names) }

func orderViolationN(pool []*pb.Transaction, names *world.Names) string {
	pos := map[string]int{}
	for i, t := range pool {
		pos[string(t.Txid)] = i
	}
	for i, t := range pool {
		for _, in := range t.TxInputs {
			if j, ok := pos[string(in.RefTxid)]; ok && j > i {
				return fmt.Sprintf("consumer_before_producer: %s comes before %s whose output it spends", names.Of(t.Txid), names.Of(in.RefTxid))
			}
		}
		writes := map[string]bool{}
		for _, o := range t.TxOutputsExt {
			writes[o.Bucket+"/"+string(o.Key)] = true
		}
		for _, in := range t.TxInputsExt {
			if j, ok := pos[string(in.RefTxid)]; ok && j > i {
				return fmt.Sprintf("consumer_before_producer: %s comes before %s whose key version it reads", names.Of(t.Txid), names.Of(in.RefTxid))
			}
			if writes[in.Bucket+"/"+string(in.Key)] {
				continue
			}
			for j, t2 := range pool {
				if j >= i {
					continue
				}
				for _, in2 := range t2.TxInputsExt {
					if in2.Bucket == in.Bucket && bytes.Equal(in2.Key, in.Key) && bytes.Equal(in2.RefTxid, in.RefTxid) && in2.RefOffset == in.RefOffset {
						for _, o2 := range t2.TxOutputsExt {
							if o2.Bucket == in.Bucket && bytes.Equal(o2.Key, in.Key) {
								return fmt.Sprintf("reader_after_overwriter: %s only reads %s/%s but comes after %s which overwrites that version", names.Of(t.Txid), in.Bucket, in.Key, names.Of(t2.Txid))
							}
						}
					}
				}
			}
		}
	}
	return ""
}

// replicaConsensusRefuses asks a `single` consensus object built over the
// replica's own ledger (node key P: not the miner) whether the block comes from
// the entitled producer, as the replica's batchConfirmBlock does first.
func replicaConsensusRefuses(r *world.World, wire *pb.InternalBlock) (why string) {
	defer func() {
		if x := recover(); x != nil {
			why = fmt.Sprintf("panic: %v", x)
		}
	}()
	sg, err := r.NewSingle("P")
	if err != nil {
		return "" // recorded through consensus_object: the stub is in use then
	}
	atomic.AddInt64(&replicaConsensusChecks, 1)
	ctx := &xctx.BaseCtx{XLog: r.Log, Timer: timer.NewXTimer()}
	ok, err := sg.CheckMinerMatch(ctx, state.NewBlockAgent(world.CloneBlock(wire)))
	if !ok {
		return fmt.Sprintf("CheckMinerMatch=false err=%v", err)
	}
	return ""
}

var replicaConsensusChecks, arrivalsTotal int64

// hookedConsensus is the repository's `single` consensus with a hook inside
// CalculateBlock (the window in which a transaction can arrive while the
// block is being computed).
type hookedConsensus struct {
	base.ConsensusImplInterface
	onCalc func()
}

func (h hookedConsensus) CalculateBlock(block cctx.BlockInterface) error {
	if h.onCalc != nil {
		h.onCalc()
	}
	return h.ConsensusImplInterface.CalculateBlock(block)
}

// stub consensus with the answers of `single` (only when `single` cannot be built).
type stubConsensus struct {
	onCalc func()
}

func (stubConsensus) CompeteMaster(height int64) (bool, bool, error) { return true, false, nil }
func (stubConsensus) CheckMinerMatch(ctx xctx.XContext, block cctx.BlockInterface) (bool, error) {
	return true, nil
}
func (stubConsensus) ProcessBeforeMiner(timestamp int64) ([]byte, []byte, error) {
	return nil, nil, nil
}
func (s stubConsensus) CalculateBlock(block cctx.BlockInterface) error {
	if s.onCalc != nil {
		s.onCalc()
	}
	return nil
}
func (stubConsensus) ProcessConfirmBlock(block cctx.BlockInterface) error { return nil }
func (stubConsensus) GetConsensusStatus() (base.ConsensusStatus, error)   { return nil, nil }

func run(tier core.Tier) *core.Report {
	rep := core.NewReport("C13", tier, "model_checking")
	setup()
	var cases []Case
	for _, f := range families {
		n := len(f.Txs)
		for _, sp := range perms(n) {
			sub := make([]string, n)
			for i, j := range sp {
				sub[i] = f.Txs[j]
			}
			ps := perms(n)
			// site TopSortDFS#1 only shapes the reverse adjacency lists: all
			// permutations for n <= 3, identity and reverse for n = 4 in the quick tier
			mid := ps
			if n >= 4 && tier == core.Quick {
				mid = [][]int{ps[0], ps[len(ps)-1]}
			}
			for _, o1 := range ps {
				for _, o2 := range mid {
					for _, o3 := range ps {
						cases = append(cases, Case{Family: f.Name, Submit: sub, Orders: map[string][]int{sites[0]: o1, sites[1]: o2, sites[2]: o3}})
					}
				}
			}
		}
	}
	for _, f := range bigFamilies {
		cases = append(cases, Case{Family: f.Name, Submit: f.Txs, Big: true, Arrive: f.Arrive, Steps: f.Steps})
	}
	// arrivals, systematically: the pool holds a prefix of the chain b1 -> b2 -> b3 -> b4 (three of them
	// fill a block) with the independent tA at every position or absent; the next chain element or tA
	// arrives inside CalculateBlock of producer step 1, 2 or 3
	chainTx := []string{"b1", "b2", "b3", "b4"}
	for k := 0; k <= len(chainTx); k++ {
		for pos := -1; pos <= k; pos++ { // -1: tA not submitted
			var sub []string
			for i := 0; i < k; i++ {
				if i == pos {
					sub = append(sub, "tA")
				}
				sub = append(sub, chainTx[i])
			}
			if pos == k {
				sub = append(sub, "tA")
			}
			var arr []string
			if k < len(chainTx) {
				arr = append(arr, chainTx[k])
			}
			if pos == -1 {
				arr = append(arr, "tA")
			}
			for _, a := range arr {
				for at := 1; at <= 3; at++ {
					if len(sub) == 0 && at > 1 {
						continue // nothing to mine before the arrival: the step never runs
					}
					cases = append(cases, Case{Family: "arrival_grid", Submit: sub, Big: true, Arrive: a, ArriveStep: at, Steps: 7})
				}
			}
		}
	}
	var mu sync.Mutex
	executed, skipped := 0, 0
	outcomes := map[string]bool{}
	kinds := map[string]bool{}
	jobs := make(chan Case, 256)
	var wg sync.WaitGroup
	stopped := false
	for wk := 0; wk < 16; wk++ {
		wg.Add(1)
		go func() {
			defer wg.Done()
			for c := range jobs {
				if rep.Expired() {
					mu.Lock()
					stopped = true
					mu.Unlock()
					continue
				}
				var r result
				if c.Big {
					r = runBig(c)
				} else {
					r = runCase(c)
				}
				mu.Lock()
				if r.skipped != "" {
					skipped++
				} else {
					executed++
					var named []string
					for _, n := range r.block {
						if !strings.HasPrefix(n, "?") { // the award tx id is time dependent
							named = append(named, n)
						}
					}
					outcomes[c.Family+":"+strings.Join(named, ",")] = true
					kinds[r.consKind] = true
					atomic.AddInt64(&arrivalsTotal, int64(r.arrivals))
					if executed%5000 == 1 {
						rep.Sample(map[string]interface{}{"case": c, "pool_order": r.pool, "block": r.block})
					}
				}
				mu.Unlock()
				for _, v := range r.violation {
					rep.Violation(v)
				}
			}
		}()
	}
	for _, c := range cases {
		jobs <- c
	}
	close(jobs)
	wg.Wait()
	if runTimerFamily(rep, tier) {
		stopped = true
	}
	if executed == 0 {
		executed = 1
	}
	var ks []string
	for k := range kinds {
		ks = append(ks, k)
	}
	rep.Add("states", executed)
	rep.Add("transitions", executed)
	rep.Add("traces_validated_against_impl", executed)
	rep.Set("cases_enumerated", len(cases))
	rep.Set("cases_skipped_inadmissible_submission_order", skipped)
	rep.Set("distinct_blocks_produced", len(outcomes))
	rep.Set("consensus_object", ks)
	awardHistories(rep, tier)
	truncFamily(rep, tier)
	rep.Set("replica_consensus_checks", int(replicaConsensusChecks))
	rep.Set("transactions_arrived_inside_CalculateBlock", int(arrivalsTotal))
	rep.Set("bound", fmt.Sprintf("%d pool families, every submission order, every iteration order of the 3 rewritten pool map ranges (site %s: identity+reverse for 4-tx pools in quick)", len(families), sites[1]))
	rep.Set("exhaustive", !stopped)
	rep.Assume("timer tasks are scheduled through the real $proposal / $timer_task contracts only (vote check and trigger of a proposal); the trigger action is a harness kernel method running a $vkv program")
	rep.Assume("map iteration order is owned through the rewritten ranges in SortUnconfirmedTx and TopSortDFS; sync.Map.Range order only feeds those maps")
	return rep
}

func replay(c json.RawMessage) (bool, string, error) {
	var ac struct {
		A *struct {
			Award   string  `json:"award"`
			Ratio   string  `json:"ratio"`
			Gap     int64   `json:"gap"`
			History []int64 `json:"history"`
			Height  int64   `json:"height"`
		} `json:"award_case"`
	}
	if json.Unmarshal(c, &ac) == nil && ac.A != nil {
		return replayAward(ac.A.Award, ac.A.Ratio, ac.A.Gap, ac.A.History, ac.A.Height)
	}
	var tc struct {
		T *TCase `json:"timer_case"`
	}
	if json.Unmarshal(c, &tc) == nil && tc.T != nil {
		return replayTimer(*tc.T)
	}
	var trc truncCase
	if json.Unmarshal(c, &trc) == nil && trc.Trunc.Tip > 0 {
		world.Init()
		v, skip := runTrunc(trc)
		if skip != "" {
			return false, skip, nil
		}
		if len(v) > 0 {
			return true, v[0].Key + ": " + v[0].Summary, nil
		}
		return false, "truncate case replayed without violation", nil
	}
	var cs Case
	if err := json.Unmarshal(c, &cs); err != nil {
		return false, "", err
	}
	setup()
	var r result
	if cs.Big {
		r = runBig(cs)
	} else {
		r = runCase(cs)
	}
	if r.skipped != "" {
		return false, r.skipped, nil
	}
	if len(r.violation) > 0 {
		return true, r.violation[0].Key + ": " + r.violation[0].Summary, nil
	}
	return false, fmt.Sprintf("replayed: pool %v block %v, no violation", r.pool, r.block), nil
}

func init() {
	core.Register(&core.Check{ID: "C13", Run: run, Replay: replay})
}

var _ = state.ErrDoubleSpent
