// Package c13 holds the check for property C13.
package c13
