package c13

// The timer-transaction dimension of C13.
//
// Universe: governance tokens initialised, proposal p1 (proposer A, passed by
// D's vote) whose vote check (`$proposal.CheckVoteResult`, a timer task at its
// stop_vote_height) and trigger (`$proposal.Trigger`, a timer task at its
// trigger height) fall on the heights the producer mines, optionally a second
// proposal p2 (proposer B, never voted for: rejected by its vote check, which
// unlocks B's tokens) whose vote check falls on one of those heights too. The
// trigger action of p1 is a call of the harness kernel method `$c13trig.fire`,
// which runs a `$vkv` program: it succeeds and writes fresh keys, fails (after
// a write / at once), writes / reads / deletes the key k1 that pending pool
// transactions read and write, or writes nothing.
//
// A case = (image, pool family, submission order, producer step at which the
// pool arrives, iteration order of the three rewritten pool map ranges). The
// producer runs three real Miner.mining steps (heights S+1..S+3); the pool
// transactions are pre-executed on the producer itself (real Chain.PreExec over
// its current state, as a client does) in submission order and submitted
// through the real Chain.SubmitTx right before the chosen step. Every block
// goes through a protobuf wire round trip to a replica that never saw the
// transactions.
//
// Oracles (per produced block): the existing ones (replica's `single`
// consensus, VerifyBlock, IsValidTx for every transaction, ConfirmBlock, Walk,
// equal observation suites at the end, pool drained or the loss justified by a
// real conflict) plus
//   - the block carries a timer transaction exactly when a task with an effect
//     is due at its height on the committed state (known by construction of the
//     image, cross-checked against the task table), right after the award;
//   - the replica's own regeneration (State.ImmediateVerifyAutoTx at the parent
//     state) accepts that transaction;
//   - mutants of the honest block (timer transaction dropped, duplicated,
//     re-generated twice, moved, altered, stripped, replayed at another height,
//     forged where none is due), re-signed by the entitled producer, are refused
//     by a replica at the parent state; the unchanged block rebuilt through the
//     same pipeline is accepted (guard of the pipeline).

import (
	"bytes"
	"encoding/json"
	"errors"
	"fmt"
	"math/big"
	"sort"
	"strconv"
	"strings"
	"sync"

	"github.com/xuperchain/xupercore/bcs/ledger/xledger/state/utxo/txhash"
	pb "github.com/xuperchain/xupercore/bcs/ledger/xledger/xldgpb"
	xctx "github.com/xuperchain/xupercore/kernel/common/xcontext"
	"github.com/xuperchain/xupercore/kernel/contract"
	"github.com/xuperchain/xupercore/lib/timer"
	"github.com/xuperchain/xupercore/protos"
	"github.com/xuperchain/xupercore/verifshim/vhook"

	"verif/core"
	"verif/engine/vkv"
	"verif/props/chain"
	"verif/world"
)

const (
	trigContract = "$c13trig"
	timerS       = 3 // height of the last set-up block; the producer mines timerS+1 ..
	timerSteps   = 3
)

// timerHook registers the harness contracts on every node of the timer universe.
func timerHook(m contract.Manager) {
	world.RegisterVKV(m)
	m.GetKernRegistry().RegisterKernMethod(trigContract, "fire", trigFire)
}

// trigFire is the trigger action of proposal p1: it runs the `$vkv` program
// given in the proposal's trigger arguments; a failing program makes it fail.
func trigFire(ctx contract.KContext) (*contract.Response, error) {
	var a struct {
		Prog string `json:"prog"`
	}
	if err := json.Unmarshal(ctx.Args()["args"], &a); err != nil {
		return nil, err
	}
	resp, err := ctx.Call("xkernel", world.VKVContract, "run", map[string][]byte{"prog": []byte(a.Prog)})
	if err != nil {
		return nil, err
	}
	if resp.Status >= 400 {
		return nil, errors.New("trigger program failed")
	}
	return &contract.Response{Status: 200}, nil
}

// ---------------------------------------------------------------------------
// images

type tAction struct {
	Name  string
	Prog  string
	Fails bool
}

var tActions = []tAction{
	{"ok_fresh_keys", "put k2 t;put k3 t", false},
	{"fail_after_write", "put k3 t;fail", true},
	{"write_k1", "put k1 t", false},
	{"read_k1", "get k1;put k3 t", false},
	{"no_write", "get k9", false},
	// thorough only
	{"fail_at_once", "fail", true},
	{"delete_k1", "del k1", false},
}

type tLayout struct {
	Stop1, Trig1 int64
	Stop2        int64 // 0: no second proposal
}

func (l tLayout) String() string { return fmt.Sprintf("s%dt%dr%d", l.Stop1, l.Trig1, l.Stop2) }

type tImage struct {
	Name   string
	Action tAction
	Layout tLayout
	U      *world.Universe
	Base   *vkv.Space
	Fund   map[string]world.In // funding outputs of the pool transactions
	Err    string              // set-up failure (reported as a violation: the set-up runs real code)
}

var (
	imgMu  sync.Mutex
	images = map[string]*imgSlot{}
)

type imgSlot struct {
	once sync.Once
	img  *tImage
}

func imageName(a tAction, l tLayout) string { return a.Name + "/" + l.String() }

func getImage(name string) *tImage {
	imgMu.Lock()
	s := images[name]
	if s == nil {
		s = &imgSlot{}
		images[name] = s
	}
	imgMu.Unlock()
	s.once.Do(func() { s.img = buildImage(name) })
	return s.img
}

func parseImageName(name string) (tAction, tLayout, bool) {
	f := strings.SplitN(name, "/", 2)
	if len(f) != 2 {
		return tAction{}, tLayout{}, false
	}
	var l tLayout
	if _, err := fmt.Sscanf(f[1], "s%dt%dr%d", &l.Stop1, &l.Trig1, &l.Stop2); err != nil {
		return tAction{}, tLayout{}, false
	}
	for _, a := range tActions {
		if a.Name == f[0] {
			return a, l, true
		}
	}
	return tAction{}, tLayout{}, false
}

func timerConfig() world.Config {
	cfg := world.DefaultConfig()
	// token quotas = governance token quotas: supply 11000, a proposal passes with 5610 votes
	cfg.Quotas = map[string]string{"A": "2000", "B": "2000", "C": "1000", "D": "6000"}
	return cfg
}

func proposalJSONFor(stop, trig int64, prog string) string {
	args, _ := json.Marshal(map[string]string{"prog": prog})
	return fmt.Sprintf(`{"args":{"min_vote_percent":"51","stop_vote_height":"%d"},"trigger":{"height":%d,"module":"xkernel","contract":"%s","method":"fire","args":%s}}`, stop, trig, trigContract, args)
}

func kreq(contractName, method string, args map[string]string) *protos.InvokeRequest {
	r := &protos.InvokeRequest{ModuleName: "xkernel", ContractName: contractName, MethodName: method, Args: map[string][]byte{}}
	for k, v := range args {
		r.Args[k] = []byte(v)
	}
	return r
}

// contractTx pre-executes req on w (real Chain.PreExec) and assembles the signed
// transaction paying the gas from `in`, change back to the initiator.
func contractTx(w *world.World, who string, req *protos.InvokeRequest, in world.In, nonce string) (*pb.Transaction, error) {
	addr := world.Addr(who)
	pre, err := w.PreExec([]*protos.InvokeRequest{req}, addr, []string{addr})
	if err != nil {
		return nil, err
	}
	if len(pre.Responses) != 1 || pre.Responses[0].Status >= 400 {
		return nil, fmt.Errorf("pre-execution status")
	}
	total := new(big.Int).SetBytes(in.Tx.TxOutputs[in.Offset].Amount)
	fee := big.NewInt(pre.GasUsed)
	var outs []world.Out
	if fee.Sign() > 0 {
		outs = append(outs, world.Out{To: "$", Amount: fee.String()})
	}
	change := new(big.Int).Sub(total, fee)
	if change.Sign() < 0 {
		return nil, fmt.Errorf("input %s does not cover the fee %s", total, fee)
	}
	if change.Sign() > 0 {
		outs = append(outs, world.Out{To: who, Amount: change.String()})
	}
	return world.BuildTx(world.TxSpec{Initiator: who, Ins: []world.In{in}, Outs: outs, Nonce: nonce,
		Requests: pre.Requests, InputsExt: pre.Inputs, OutputsExt: pre.Outputs}), nil
}

func buildImage(name string) (img *tImage) {
	a, l, ok := parseImageName(name)
	if !ok {
		return &tImage{Name: name, Err: "bad image name"}
	}
	img = &tImage{Name: name, Action: a, Layout: l, Fund: map[string]world.In{}}
	defer func() {
		if r := recover(); r != nil {
			img.Err = fmt.Sprintf("set-up: %v", r)
		}
	}()
	b := world.NewUniverse("U-c13timer/"+name, timerConfig(), timerHook)
	root := b.Root()
	change := func(tx *pb.Transaction) world.In { return world.In{Tx: tx, Offset: len(tx.TxOutputs) - 1} }
	ktx := func(nm, who string, req *protos.InvokeRequest, in world.In) *pb.Transaction {
		tx, err := contractTx(b.W, who, req, in, nm)
		if err != nil {
			panic(fmt.Sprintf("%s: %v", nm, err))
		}
		return b.Submit(nm, tx)
	}
	b.At("g")
	kvA := b.KV("kvA", "A", "put k1 x", []world.In{{Tx: root, Offset: 0}})
	gi := ktx("gInit", "A", kreq("$govern_token", "Init", nil), change(kvA))
	sB := b.Transfer("sB", "B", []world.In{{Tx: root, Offset: 1}}, []world.Out{{To: "B", Amount: "500"}, {To: "B", Amount: "500"}, {To: "B", Amount: "1000"}})
	sC := b.Transfer("sC", "C", []world.In{{Tx: root, Offset: 2}}, []world.Out{{To: "C", Amount: "300"}, {To: "C", Amount: "300"}, {To: "C", Amount: "400"}})
	sD := b.Transfer("sD", "D", []world.In{{Tx: root, Offset: 3}}, []world.Out{{To: "D", Amount: "1000"}, {To: "D", Amount: "1000"}, {To: "D", Amount: "4000"}})
	b.Block("k1", "M")
	ktx("pr1", "A", kreq("$proposal", "Propose", map[string]string{"proposal": proposalJSONFor(l.Stop1, l.Trig1, a.Prog)}), change(gi))
	if l.Stop2 != 0 {
		ktx("pr2", "B", kreq("$proposal", "Propose", map[string]string{"proposal": proposalJSONFor(l.Stop2, l.Stop2+1, "put k4 never")}), world.In{Tx: sB, Offset: 2})
	}
	b.Block("k2", "M")
	ktx("vD", "D", kreq("$proposal", "Vote", map[string]string{"proposal_id": "1", "amount": "5700"}), world.In{Tx: sD, Offset: 2})
	b.Block("k3", "M")
	if h := b.W.Ledger.GetMeta().TrunkHeight; h != timerS {
		panic(fmt.Sprintf("set-up tip height %d", h))
	}
	img.Fund["B0"] = world.In{Tx: sB, Offset: 0}
	img.Fund["B1"] = world.In{Tx: sB, Offset: 1}
	img.Fund["C0"] = world.In{Tx: sC, Offset: 0}
	img.Fund["C1"] = world.In{Tx: sC, Offset: 1}
	img.Fund["C2"] = world.In{Tx: sC, Offset: 2}
	img.Fund["D0"] = world.In{Tx: sD, Offset: 0}
	img.Fund["D1"] = world.In{Tx: sD, Offset: 1}
	b.W.State.Close()
	b.W.Ledger.Close()
	img.U = b.U
	img.Base = b.W.Space
	return img
}

func (img *tImage) node() *chain.Inst {
	w, err := world.Open(img.U.Cfg, img.Base.Clone(), img.U.Hook)
	if err != nil {
		panic(err)
	}
	return chain.NewOn(img.U, w, []string{"k1", "k2", "k3"}, chain.Menu{})
}

// dueByConstruction: the timer tasks with an effect on the committed state at height h.
func (img *tImage) dueByConstruction(h int64) []string {
	var out []string
	l := img.Layout
	if h == l.Stop1 {
		out = append(out, "check(p1)")
	}
	if h == l.Trig1 {
		out = append(out, "trigger(p1)")
	}
	if l.Stop2 != 0 && h == l.Stop2 {
		out = append(out, "check(p2)")
	}
	return out
}

// ---------------------------------------------------------------------------
// pool alphabet: transactions a client builds on the producer's current state

type poolItem struct {
	Who  string
	Fund string
	Kind string // xfer | kv | vote | gxfer
	Arg  string
}

var poolItems = map[string]poolItem{
	"tC": {"C", "C0", "xfer", "A"},           // independent token transfer
	"rD": {"D", "D0", "kv", "get k1"},        // reads k1
	"wB": {"B", "B0", "kv", "put k1 p1"},     // overwrites k1
	"rC": {"C", "C1", "kv", "get k1"},        // a second reader (of wB's version when built after wB)
	"w2": {"C", "C1", "kv", "put k2 q"},      // writes a key the succeeding trigger writes
	"vC": {"C", "C2", "vote", "10"},          // votes for p1: reads and writes p1's record
	"xD": {"D", "D1", "gxfer", "C:5"},        // governance token transfer D -> C: D's balance record is rewritten by the unlock of p1
	"r3": {"B", "B1", "kv", "get k3;get k2"}, // reads keys only the trigger writes
}

func (img *tImage) buildPoolTx(w *world.World, name string) (*pb.Transaction, error) {
	it := poolItems[name]
	in := img.Fund[it.Fund]
	switch it.Kind {
	case "xfer":
		amt := new(big.Int).SetBytes(in.Tx.TxOutputs[in.Offset].Amount)
		return world.BuildTx(world.TxSpec{Initiator: it.Who, Ins: []world.In{in}, Outs: []world.Out{{To: it.Arg, Amount: new(big.Int).Sub(amt, big.NewInt(1)).String()}, {To: "$", Amount: "1"}}, Nonce: name}), nil
	case "kv":
		tx, _, err := w.BuildKVTx(it.Who, it.Arg, []world.In{in}, name)
		return tx, err
	case "vote":
		return contractTx(w, it.Who, kreq("$proposal", "Vote", map[string]string{"proposal_id": "1", "amount": it.Arg}), in, name)
	case "gxfer":
		f := strings.Split(it.Arg, ":")
		return contractTx(w, it.Who, kreq("$govern_token", "Transfer", map[string]string{"to": world.Addr(f[0]), "amount": f[1]}), in, name)
	}
	return nil, fmt.Errorf("bad pool item %s", name)
}

var timerFamilies = []struct {
	Name string
	Txs  []string
}{
	{"t_empty", nil},
	{"t_independent", []string{"tC"}},
	{"t_reader_k1", []string{"rD"}},
	{"t_writer_k1", []string{"wB"}},
	{"t_writer_k2", []string{"w2"}},
	{"t_reader_trigger_keys", []string{"r3"}},
	{"t_vote_p1", []string{"vC"}},
	{"t_gov_transfer", []string{"xD"}},
	{"t_reader_writer_k1", []string{"rD", "wB"}},
	{"t_writer_then_reader_k1", []string{"wB", "rC"}},
	{"t_vote_and_gov_transfer", []string{"vC", "xD"}},
	{"t_mixed3", []string{"tC", "rD", "wB"}},
}

// ---------------------------------------------------------------------------
// one case

// TCase is one execution of the timer dimension.
type TCase struct {
	Image    string           `json:"image"`
	Family   string           `json:"family"`
	Submit   []string         `json:"submit"`
	PoolStep int              `json:"pool_step"` // 1-based producer step before which the pool arrives
	Orders   map[string][]int `json:"orders,omitempty"`
	// Mutants: "" none, "all" every block, "pool_block" the block of the arrival step, "from_pool_block" that one and the later ones
	Mutants string `json:"mutants,omitempty"`
}

type tResult struct {
	skipped   string
	violation []core.Violation
	cnt       map[string]int
	blocks    []string
	consKind  string
}

func (r *tResult) add(k string, n int) {
	if r.cnt == nil {
		r.cnt = map[string]int{}
	}
	r.cnt[k] += n
}

func txNames(nm *world.Names, txs []*pb.Transaction) []string {
	var out []string
	for i, t := range txs {
		switch {
		case t.Coinbase && i == 0:
			out = append(out, "award")
		case t.Autogen:
			out = append(out, "timer")
		default:
			out = append(out, nm.Of(t.Txid))
		}
	}
	return out
}

func runTimer(c TCase) (res tResult) {
	defer func() {
		if r := recover(); r != nil {
			res.violation = append(res.violation, core.Violation{Key: "c13.timer.panic", Summary: fmt.Sprintf("%+v: panic: %v", c, r), Case: map[string]interface{}{"timer_case": c}})
		}
	}()
	vhook.Capture()
	vhook.Discard()
	img := getImage(c.Image)
	bad := func(key, f string, a ...interface{}) {
		res.violation = append(res.violation, core.Violation{Key: key, Summary: fmt.Sprintf("image %s (trigger action %q, p1 vote check at height %d, trigger at %d, p2 vote check at %d), pool %v arriving before producer step %d, orders %v: ",
			c.Image, img.Action.Prog, img.Layout.Stop1, img.Layout.Trig1, img.Layout.Stop2, c.Submit, c.PoolStep, c.Orders) + fmt.Sprintf(f, a...), Case: map[string]interface{}{"timer_case": c}})
	}
	if img.Err != "" {
		bad("c13.timer.setup_failed", "the set-up chain (real PreExec / SubmitTx / PlayForMiner) failed: %s", img.Err)
		return
	}
	inst := img.node()
	defer inst.Close()
	w := inst.W
	rinst := img.node()
	defer rinst.Close()
	r := rinst.W
	nm := world.NewNames()
	for _, tn := range img.U.TOrder {
		nm.Set(img.U.Tx(tn).Txid, tn)
	}
	m, kind, _ := producerMiner(w)
	res.consKind = kind
	ctx := &xctx.BaseCtx{XLog: w.Log, Timer: timer.NewXTimer()}
	submitted := map[string]*pb.Transaction{}
	included := map[string]bool{}
	var timerTxs []*pb.Transaction // timer transactions of the blocks so far
	var timerWrites [][]*protos.TxOutputExt
	for step := 1; step <= timerSteps; step++ {
		h := int64(timerS + step)
		if step == c.PoolStep {
			for _, tn := range c.Submit {
				tx, err := img.buildPoolTx(w, tn)
				if err != nil {
					res.skipped = "pool transaction cannot be built at this state: " + tn
					return
				}
				if err := w.Submit(tx); err != nil {
					res.skipped = "pool transaction refused at submission: " + tn
					return
				}
				nm.Set(tx.Txid, tn)
				submitted[tn] = tx
			}
			vhook.SetMapOrder(func(label string, keys []string) []string {
				p, ok := c.Orders[label]
				if !ok || len(p) != len(keys) {
					return keys
				}
				// the permutation applies to the keys (transaction ids) ordered by symbolic name: the ids of
				// transactions pre-executed after a timer transaction differ from run to run
				byName := append([]string(nil), keys...)
				sort.SliceStable(byName, func(a, b int) bool { return nm.Of([]byte(byName[a])) < nm.Of([]byte(byName[b])) })
				out := make([]string, len(keys))
				for i, j := range p {
					out[i] = byName[j]
				}
				return out
			})
			defer vhook.SetMapOrder(nil)
			pool, err := w.State.GetUnconfirmedTx(false)
			if err != nil {
				bad("c13.pool_error", "GetUnconfirmedTx: %v", err)
				return
			}
			if why := orderViolationN(pool, nm); why != "" {
				bad("c13.pool_order."+strings.SplitN(why, ":", 2)[0], "pool order %v: %s", txNames(nm, pool), why)
			}
		}
		var pendingBefore []*pb.Transaction
		if len(submitted) > 0 {
			pendingBefore, _ = w.State.GetUnconfirmedTx(false)
		}
		// what is due: by construction, cross-checked against the committed task table of the replica
		due := img.dueByConstruction(h)
		if n := dueInTable(r, h); (n > 0) != (len(due) > 0) && len(res.violation) == 0 {
			bad("c13.timer.task_table", "height %d: %d task(s) in the committed timer table, by construction %v", h, n, due)
		}
		if err := m.VMining(ctx); err != nil {
			vhook.Discard()
			bad("c13.timer.mining_failed", "producer step %d (height %d, due %v, pool %v) failed: %v", step, h, due, txNames(nm, pendingBefore), err)
			return
		}
		vhook.Discard()
		blk, err := w.Ledger.QueryBlock(w.Ledger.GetMeta().TipBlockid)
		if err != nil || blk.Height != h {
			bad("c13.no_block", "no block of height %d after producer step %d (err %v)", h, step, err)
			return
		}
		blk = world.CloneBlock(blk)
		names := txNames(nm, blk.Transactions)
		res.blocks = append(res.blocks, "["+strings.Join(names, " ")+"]")
		for _, n := range names {
			included[n] = true
		}
		res.add("blocks_produced", 1)
		if !bytes.Equal(w.State.GetLatestBlockid(), blk.Blockid) {
			bad("c13.producer_state_behind", "the producer's state machine is not at its own block")
		}
		// shape: award, timer transaction exactly when due, pool
		var autoIdx []int
		for i, t := range blk.Transactions {
			if t.Autogen {
				autoIdx = append(autoIdx, i)
			}
		}
		if len(blk.Transactions) == 0 || !blk.Transactions[0].Coinbase {
			bad("c13.shape.award_first", "block %v does not start with the award", names)
		}
		conflict := ""
		var auto *pb.Transaction
		switch {
		case len(due) > 0 && len(autoIdx) == 0:
			bad("c13.timer.shape.timer_tx_missing", "height %d: %v due on the committed state but block %v carries no timer transaction", h, due, names)
		case len(due) == 0 && len(autoIdx) > 0:
			bad("c13.timer.shape.timer_tx_unexpected", "height %d: nothing due but block %v carries a timer transaction", h, names)
		case len(autoIdx) > 1:
			bad("c13.timer.shape.timer_tx_twice", "height %d: block %v carries %d timer transactions", h, names, len(autoIdx))
		case len(autoIdx) == 1 && autoIdx[0] != 1:
			bad("c13.timer.shape.timer_tx_misplaced", "height %d: the timer transaction of block %v is at position %d, not right after the award", h, names, autoIdx[0])
		}
		if len(autoIdx) > 0 {
			auto = blk.Transactions[autoIdx[0]]
			res.add("blocks_with_timer_tx", 1)
			res.add("blocks_with_timer_tx_and_pool_txs", b2i(len(blk.Transactions) > 2))
			conflict = timerPoolConflict(auto, blk.Transactions, pendingBefore)
			if conflict != "" {
				res.add("blocks_where_timer_tx_and_pool_share_a_key", 1)
			}
		} else {
			res.add("blocks_without_timer_tx", 1)
		}
		// replica at the parent state
		wire := world.WireBlock(blk)
		var parentImage *vkv.Space
		mutHere := c.Mutants == "all" || (c.Mutants == "pool_block" && step == c.PoolStep) || (c.Mutants == "from_pool_block" && step >= c.PoolStep)
		if mutHere {
			parentImage = r.Space.Clone()
			defer parentImage.Drop()
		}
		regen := ""
		if auto != nil {
			if ok, err := r.State.ImmediateVerifyAutoTx(h, world.CloneTx(wire.Transactions[autoIdx[0]]), false); !ok {
				regen = fmt.Sprintf("refused (%v)", err)
			} else {
				regen = "accepted"
				res.add("timer_txs_accepted_by_replica_regeneration", 1)
			}
		}
		if why := replicaPath(r, wire); why != "" {
			// the key names the conflict between the timer transaction and the pending transactions only
			// when that conflict explains the refusal: a timer transaction generated over a pending
			// version is one the replica cannot regenerate; a pending reader of a key the timer
			// transaction overwrites goes stale behind a timer transaction the replica does regenerate
			key := "c13.timer.replica." + strings.SplitN(why, ":", 2)[0]
			if strings.HasPrefix(why, "walk_refused:") {
				switch {
				case conflict == conflictTimerReadsPending && strings.HasPrefix(regen, "refused"),
					conflict == conflictPendingReadsTimerKey && regen == "accepted",
					conflict == conflictPendingWritesTimerKey && regen == "accepted":
					key += "." + conflict
				}
			}
			if regen != "" {
				why += "; the replica's own regeneration of the timer transaction on the parent state (ImmediateVerifyAutoTx): " + regen
			}
			bad(key, "height %d, block %v (due %v, pool before the step %v): %s", h, names, due, txNames(nm, pendingBefore), why)
			return
		}
		if strings.HasPrefix(regen, "refused") {
			bad("c13.timer.replica.regeneration_refuses_but_walk_accepts", "height %d: the replica's own regeneration of the timer transaction (ImmediateVerifyAutoTx on the parent state) refuses the one in block %v, yet the walk takes the block: %s", h, names, regen)
		}
		// what the due tasks did (vacuity guards)
		for _, d := range due {
			switch d {
			case "check(p1)":
				res.add("vote_check_of_p1_ran:"+proposalStatus(r, "1"), 1)
			case "trigger(p1)":
				res.add("trigger_of_p1_ran:"+proposalStatus(r, "1"), 1)
			case "check(p2)":
				res.add("vote_check_of_p2_ran:"+proposalStatus(r, "2"), 1)
			}
		}
		if auto != nil {
			timerTxs = append(timerTxs, auto)
			timerWrites = append(timerWrites, auto.TxOutputsExt)
		}
		if mutHere {
			judgeMutants(&res, img, parentImage, blk, autoIdx, timerTxs, h, names, bad)
		}
	}
	// same state
	a := observeNode(w, submitted)
	b := observeNode(r, submitted)
	if d := chain.Diff(a, b); len(d) > 0 {
		bad("c13.timer.replica.state_differs", "after blocks %v the replica's state differs from the producer's: %s", res.blocks, strings.Join(d[:minInt(len(d), 3)], " | "))
	}
	// pool drained, every submitted transaction in a block or justly lost
	if a["pool"] != "" {
		p, _ := w.State.GetUnconfirmedTx(false)
		bad("c13.pool_not_drained", "after %d producer steps the pool still holds %v (blocks %v)", timerSteps, txNames(nm, p), res.blocks)
	}
	for _, tn := range c.Submit {
		if included[tn] {
			continue
		}
		if !conflictsWithWrites(submitted[tn], timerWrites) {
			bad("c13.timer.pool_tx_lost", "submitted %s is in no block %v although no timer transaction wrote a key it reads or writes", tn, res.blocks)
		} else {
			res.add("pool_txs_evicted_by_a_conflicting_timer_tx", 1)
		}
	}
	return
}

// observeNode is the observation suite of the existing cases (chain.Observe)
// without symbolic renaming: both nodes hold the same block and transaction
// ids, so raw ids compare directly. State pointer, total, balances and their
// details, meta, every harness-contract key and the governance / proposal /
// timer tables through the XMReader, QueryTx of every submitted transaction,
// the raw utxo / extended-utxo / meta tables, the pool.
func observeNode(w *world.World, submitted map[string]*pb.Transaction) map[string]string {
	o := map[string]string{}
	st := w.State
	o["ptr"] = fmt.Sprintf("%x", st.GetLatestBlockid())
	o["total"] = st.GetTotal().String()
	for _, a := range chain.Addresses {
		if bal, err := st.GetBalance(world.Addr(a)); err != nil {
			o["bal:"+a] = "ERR " + err.Error()
		} else {
			o["bal:"+a] = bal.String()
		}
		if d, err := st.GetBalanceDetail(world.Addr(a)); err != nil {
			o["detail:"+a] = "ERR " + err.Error()
		} else {
			s := ""
			for _, x := range d {
				s += fmt.Sprintf("%v=%s;", x.IsFrozen, x.Balance)
			}
			o["detail:"+a] = s
		}
	}
	m := st.GetMeta()
	o["meta"] = fmt.Sprintf("maxblk=%d newacc=%d win=%d gas=%v reserved=%d irr=%d", m.MaxBlockSize, m.NewAccountResourceAmount,
		m.IrreversibleSlideWindow, m.GasPrice, len(m.ReservedContracts), m.IrreversibleBlockHeight)
	rd := st.CreateXMReader()
	for _, bk := range []string{world.VKVBucket, "governToken", "proposal", "timer"} {
		it, err := rd.Select(bk, []byte(""), []byte("~"))
		if err != nil {
			o["select:"+bk] = "ERR " + err.Error()
			continue
		}
		s := ""
		for it.Next() {
			v := it.Value()
			s += fmt.Sprintf("%s=%q@%x_%d;", it.Key(), v.GetPureData().GetValue(), v.RefTxid, v.RefOffset)
		}
		if it.Error() != nil {
			s += "ERR " + it.Error().Error()
		}
		it.Close()
		o["select:"+bk] = s
	}
	for tn, tx := range submitted {
		got, confirmed, err := st.QueryTx(tx.Txid)
		if err != nil {
			o["tx:"+tn] = "absent"
		} else {
			o["tx:"+tn] = fmt.Sprintf("found confirmed=%v blk=%x", confirmed, got.Blockid)
		}
	}
	for _, kv := range w.Space.Dump("utxoVM") {
		k := string(kv[0])
		if strings.HasPrefix(k, "U") || strings.HasPrefix(k, "ZU") || strings.HasPrefix(k, "ZD") || strings.HasPrefix(k, "M") {
			o["raw:"+k] = string(kv[1])
		}
	}
	pool, err := st.GetUnconfirmedTx(false)
	if err != nil {
		o["pool"] = "ERR " + err.Error()
	} else {
		s := ""
		for _, t := range pool {
			s += fmt.Sprintf("%x,", t.Txid)
		}
		o["pool"] = s
	}
	return o
}

func b2i(b bool) int {
	if b {
		return 1
	}
	return 0
}

// dueInTable counts the entries of the committed timer table for height h.
func dueInTable(w *world.World, h int64) int {
	rd := w.State.CreateXMReader()
	prefix := strconv.FormatInt(h, 10) + "_"
	it, err := rd.Select("timer", []byte(prefix), []byte(prefix+"\xff"))
	if err != nil {
		return -1
	}
	defer it.Close()
	n := 0
	for it.Next() {
		if v := it.Value(); v != nil && v.PureData != nil && len(v.PureData.Value) > 0 {
			n++
		}
	}
	return n
}

func proposalStatus(w *world.World, id string) string {
	v, err := w.State.CreateXMReader().Get("proposal", []byte(id))
	if err != nil || v == nil || v.PureData == nil || len(v.PureData.Value) == 0 {
		return "absent"
	}
	var p struct {
		Status string `json:"status"`
	}
	if json.Unmarshal(v.PureData.Value, &p) != nil {
		return "unparsable"
	}
	return p.Status
}

const (
	conflictTimerReadsPending     = "timer_tx_reads_version_written_by_pending_tx"
	conflictPendingReadsTimerKey  = "pending_tx_reads_key_timer_tx_writes"
	conflictPendingWritesTimerKey = "pending_tx_writes_key_timer_tx_touches"
)

// timerPoolConflict classifies how the timer transaction and the pending
// transactions of the same producer step touch common keys ("" = not at all).
func timerPoolConflict(auto *pb.Transaction, blockTxs, pending []*pb.Transaction) string {
	poolIDs := map[string]bool{}
	var pool []*pb.Transaction
	for _, t := range pending {
		poolIDs[string(t.Txid)] = true
		pool = append(pool, t)
	}
	for _, t := range blockTxs {
		if !t.Coinbase && !t.Autogen && !poolIDs[string(t.Txid)] {
			poolIDs[string(t.Txid)] = true
			pool = append(pool, t)
		}
	}
	for _, in := range auto.TxInputsExt {
		if poolIDs[string(in.RefTxid)] {
			return conflictTimerReadsPending
		}
	}
	wr := map[string]bool{}
	for _, o := range auto.TxOutputsExt {
		wr[o.Bucket+"/"+string(o.Key)] = true
	}
	rd := map[string]bool{}
	for _, in := range auto.TxInputsExt {
		rd[in.Bucket+"/"+string(in.Key)] = true
	}
	touchW := false
	for _, t := range pool {
		for _, in := range t.TxInputsExt {
			if wr[in.Bucket+"/"+string(in.Key)] {
				return conflictPendingReadsTimerKey
			}
		}
		for _, o := range t.TxOutputsExt {
			if rd[o.Bucket+"/"+string(o.Key)] || wr[o.Bucket+"/"+string(o.Key)] {
				touchW = true
			}
		}
	}
	if touchW {
		return conflictPendingWritesTimerKey
	}
	return ""
}

// conflictsWithWrites: tx reads or writes a key one of the timer transactions wrote.
func conflictsWithWrites(tx *pb.Transaction, writes [][]*protos.TxOutputExt) bool {
	if tx == nil {
		return false
	}
	keys := map[string]bool{}
	for _, ws := range writes {
		for _, o := range ws {
			keys[o.Bucket+"/"+string(o.Key)] = true
		}
	}
	for _, in := range tx.TxInputsExt {
		if keys[in.Bucket+"/"+string(in.Key)] {
			return true
		}
	}
	for _, o := range tx.TxOutputsExt {
		if keys[o.Bucket+"/"+string(o.Key)] {
			return true
		}
	}
	return false
}

// replicaPath is what a node does with a received block: the consensus check,
// VerifyBlock, IsValidTx for every transaction, ConfirmBlock, Walk. It returns
// "" when the block was taken, else "<stage>: detail".
func replicaPath(r *world.World, wire *pb.InternalBlock) (why string) {
	defer func() {
		if x := recover(); x != nil {
			vhook.Discard()
			why = fmt.Sprintf("panic: %v", x)
		}
	}()
	if y := replicaConsensusRefuses(r, wire); y != "" {
		return "consensus_refused: " + y
	}
	if ok, _ := r.Ledger.VerifyBlock(wire, "c13"); !ok {
		return "verify_block: VerifyBlock refuses the block"
	}
	for i, t := range wire.Transactions {
		if !r.Ledger.IsValidTx(i, t, wire) {
			return fmt.Sprintf("invalid_tx: IsValidTx refuses transaction %d", i)
		}
	}
	if st := r.Ledger.ConfirmBlock(wire, false); !st.Succ {
		return fmt.Sprintf("confirm: ConfirmBlock refuses the block: %v", st.Error)
	}
	if err := r.State.Walk(wire.Blockid, false); err != nil {
		vhook.Discard()
		return fmt.Sprintf("walk_refused: the block cannot be replayed on a node that never saw its transactions: %v", err)
	}
	vhook.Discard()
	return ""
}

// ---------------------------------------------------------------------------
// mutants of the honest block

type mutant struct {
	Kind string
	Txs  []*pb.Transaction
}

func retx(t *pb.Transaction, f func(*pb.Transaction)) *pb.Transaction {
	c := world.CloneTx(t)
	f(c)
	c.Txid, _ = txhash.MakeTransactionID(c)
	return c
}

func cloneTxs(txs []*pb.Transaction) []*pb.Transaction {
	out := make([]*pb.Transaction, len(txs))
	for i, t := range txs {
		out[i] = world.CloneTx(t)
	}
	return out
}

func without(txs []*pb.Transaction, i int) []*pb.Transaction {
	out := cloneTxs(txs)
	return append(out[:i], out[i+1:]...)
}

func insertAt(txs []*pb.Transaction, i int, t *pb.Transaction) []*pb.Transaction {
	out := cloneTxs(txs)
	out = append(out, nil)
	copy(out[i+1:], out[i:])
	out[i] = t
	return out
}

func mutantsOf(blk *pb.InternalBlock, autoIdx []int, earlier []*pb.Transaction) []mutant {
	txs := blk.Transactions
	var out []mutant
	if len(autoIdx) == 1 {
		ai := autoIdx[0]
		auto := txs[ai]
		out = append(out, mutant{"dropped", without(txs, ai)})
		out = append(out, mutant{"duplicated.same_tx_twice", insertAt(txs, ai+1, world.CloneTx(auto))})
		out = append(out, mutant{"duplicated.regenerated_copy", insertAt(txs, ai+1, retx(auto, func(t *pb.Transaction) { t.Nonce += "x" }))})
		if len(txs) > ai+1 {
			out = append(out, mutant{"moved.after_pool_txs", append(without(txs, ai), world.CloneTx(auto))})
		}
		out = append(out, mutant{"moved.before_award", insertAt(without(txs, ai), 0, world.CloneTx(auto))})
		sub := func(kind string, f func(*pb.Transaction)) {
			m := cloneTxs(txs)
			m[ai] = retx(auto, f)
			out = append(out, mutant{kind, m})
		}
		sub("altered.written_value", func(t *pb.Transaction) {
			o := t.TxOutputsExt[len(t.TxOutputsExt)-1]
			o.Value = append(append([]byte(nil), o.Value...), 'X')
		})
		if len(auto.TxOutputsExt) > 1 {
			sub("altered.output_removed", func(t *pb.Transaction) { t.TxOutputsExt = t.TxOutputsExt[:len(t.TxOutputsExt)-1] })
		}
		sub("altered.output_added", func(t *pb.Transaction) {
			t.TxOutputsExt = append(t.TxOutputsExt, &protos.TxOutputExt{Bucket: world.VKVBucket, Key: []byte("k1"), Value: []byte("forged")})
		})
		if len(auto.TxInputsExt) > 0 {
			sub("altered.input_removed", func(t *pb.Transaction) { t.TxInputsExt = t.TxInputsExt[1:] })
		}
		sub("altered.autogen_flag_cleared", func(t *pb.Transaction) { t.Autogen = false })
		sub("altered.token_output_added", func(t *pb.Transaction) {
			t.TxOutputs = append(t.TxOutputs, &protos.TxOutput{ToAddr: []byte(world.Addr("M")), Amount: big.NewInt(777).Bytes()})
		})
		sub("altered.rwsets_stripped_token_output_added", func(t *pb.Transaction) {
			t.TxInputsExt, t.TxOutputsExt = nil, nil
			t.TxOutputs = append(t.TxOutputs, &protos.TxOutput{ToAddr: []byte(world.Addr("M")), Amount: big.NewInt(777).Bytes()})
		})
	}
	if len(autoIdx) == 0 {
		forged := retx(&pb.Transaction{Version: 3, Autogen: true, Nonce: "forged"}, func(t *pb.Transaction) {
			t.TxOutputsExt = []*protos.TxOutputExt{{Bucket: world.VKVBucket, Key: []byte("k1"), Value: []byte("forged")}}
		})
		out = append(out, mutant{"inserted.forged_where_none_is_due", insertAt(txs, 1, forged)})
		if len(earlier) > 0 {
			out = append(out, mutant{"inserted.replay_of_an_earlier_height", insertAt(txs, 1, world.CloneTx(earlier[len(earlier)-1]))})
			out = append(out, mutant{"inserted.regenerated_copy_of_an_earlier_height", insertAt(txs, 1, retx(earlier[len(earlier)-1], func(t *pb.Transaction) { t.Nonce += "y" }))})
		}
	}
	return out
}

func judgeMutants(res *tResult, img *tImage, parent *vkv.Space, blk *pb.InternalBlock, autoIdx []int, timerTxs []*pb.Transaction, h int64, names []string,
	bad func(key, f string, a ...interface{})) {
	earlier := timerTxs
	if len(autoIdx) > 0 && len(earlier) > 0 {
		earlier = earlier[:len(earlier)-1]
	}
	k := world.Keys["M"]
	try := func(txs []*pb.Transaction) (string, error) {
		mw, err := world.Open(img.U.Cfg, parent.Clone(), img.U.Hook)
		if err != nil {
			return "", err
		}
		defer func() {
			mw.State.Close()
			mw.Ledger.Close()
			mw.Drop()
		}()
		mb, err := mw.Ledger.FormatMinerBlock(txs, blk.Proposer, k.Priv, blk.Timestamp, blk.CurTerm, blk.CurBlockNum, blk.PreHash, blk.TargetBits, nil, blk.Justify, nil, blk.Height)
		if err != nil {
			return "", err
		}
		return replicaPath(mw, world.WireBlock(mb)), nil
	}
	// guard: the unchanged list through the same pipeline is taken
	why, err := try(cloneTxs(blk.Transactions))
	if err != nil {
		bad("c13.timer.fixture", "mutant pipeline: %v", err)
		return
	}
	if why != "" {
		bad("c13.timer.mutant_pipeline_refuses_the_honest_block", "height %d: block %v rebuilt unchanged and re-signed is refused: %s", h, names, why)
		return
	}
	res.add("mutant_pipeline_guard_honest_block_accepted", 1)
	for _, mu := range mutantsOf(blk, autoIdx, earlier) {
		why, err := try(mu.Txs)
		verdict := "refused"
		switch {
		case err != nil: // the block cannot even be formed
			verdict = "refused"
		case why == "":
			verdict = "accepted"
		default:
			res.add("mutants_refused_at:"+strings.SplitN(why, ":", 2)[0], 1)
		}
		res.add("mutant:"+mu.Kind+":"+verdict, 1)
		if observedOnly[mu.Kind] {
			res.add("mutants_observed_only", 1)
			continue
		}
		res.add("mutants_judged", 1)
		if verdict == "accepted" {
			bad("c13.timer.mutant_accepted."+mu.Kind, "height %d: honest block %v with its timer transaction %s, re-signed by the producer, is accepted by a replica (VerifyBlock, IsValidTx, ConfirmBlock, Walk all succeed): the verifier takes a timer transaction that differs from its own regeneration", h, names, mu.Kind)
			res.add("mutants_judged_accepted", 1)
		} else {
			res.add("mutants_judged_refused", 1)
		}
	}
}

// observedOnly: mutant kinds whose verdict is recorded but not judged. The
// property speaks about the blocks a node assembles; it does not demand that a
// verifier refuses a block that lacks a due timer transaction or carries the
// (regenerable) timer transaction at another position.
var observedOnly = map[string]bool{"dropped": true, "moved.before_award": true, "moved.after_pool_txs": true}

// ---------------------------------------------------------------------------
// enumeration

func timerCases(tier core.Tier) (cases []TCase, bounds string) {
	acts := tActions[:5]
	var layouts []tLayout
	s := int64(timerS)
	pairs := [][2]int64{{s + 1, s + 2}, {s + 2, s + 3}}
	if tier == core.Thorough {
		pairs = [][2]int64{{s + 1, s + 2}, {s + 1, s + 3}, {s + 2, s + 3}}
	}
	for _, st := range pairs {
		stop2 := []int64{0, st[1]}
		if tier == core.Thorough {
			stop2 = []int64{0, s + 1, s + 2, s + 3}
		}
		for _, s2 := range stop2 {
			layouts = append(layouts, tLayout{Stop1: st[0], Trig1: st[1], Stop2: s2})
		}
	}
	if tier == core.Thorough {
		acts = tActions
	}
	// mutants: judged once per (image, family, submission order, arrival step), under the default
	// iteration order; for the block that carries the pool (thorough: that block and the later ones);
	// the pool-less blocks are judged in the empty-pool case of the image
	mutAll, mutPool := "all", "pool_block"
	if tier == core.Thorough {
		mutPool = "from_pool_block"
	}
	mutOf := func(k int) string {
		if k == 0 {
			return mutPool
		}
		return ""
	}
	var an, ln []string
	for _, a := range acts {
		an = append(an, fmt.Sprintf("%s=%q", a.Name, a.Prog))
	}
	for _, l := range layouts {
		ln = append(ln, fmt.Sprintf("(%d,%d,%d)", l.Stop1, l.Trig1, l.Stop2))
	}
	bounds = fmt.Sprintf("%d trigger actions of p1 [%s] x %d height layouts (vote check of p1, trigger of p1, vote check of the never-voted p2 or 0 = no p2) %v with set-up tip S=%d and producer heights S+1..S+%d",
		len(acts), strings.Join(an, ", "), len(layouts), ln, timerS, timerSteps)
	for _, a := range acts {
		for _, l := range layouts {
			img := imageName(a, l)
			for ps := 1; ps <= timerSteps; ps++ {
				for _, f := range timerFamilies {
					n := len(f.Txs)
					if n == 0 {
						if ps == 1 {
							cases = append(cases, TCase{Image: img, Family: f.Name, PoolStep: 1, Mutants: mutAll})
						}
						continue
					}
					ps3 := perms(n)
					// iteration orders of the three rewritten map ranges: all combinations; for pools of three
					// in the quick tier, and in the images with a second proposal, identity and reverse at all
					// sites together (a pool of one has one order)
					ords := []map[string][]int{nil}
					if n > 1 {
						ords = nil
						if n >= 3 && (tier == core.Quick || l.Stop2 != 0) {
							for _, o := range [][]int{ps3[0], ps3[len(ps3)-1]} {
								ords = append(ords, map[string][]int{sites[0]: o, sites[1]: o, sites[2]: o})
							}
						} else {
							for _, o1 := range ps3 {
								for _, o2 := range ps3 {
									for _, o3 := range ps3 {
										ords = append(ords, map[string][]int{sites[0]: o1, sites[1]: o2, sites[2]: o3})
									}
								}
							}
						}
					}
					for _, sp := range ps3 {
						sub := make([]string, n)
						for i, j := range sp {
							sub[i] = f.Txs[j]
						}
						for k, ord := range ords {
							cases = append(cases, TCase{Image: img, Family: f.Name, Submit: sub, PoolStep: ps, Orders: ord, Mutants: mutOf(k)})
						}
					}
				}
			}
		}
	}
	return cases, bounds
}

func tRank(c TCase) string {
	ord := ""
	for _, s := range sites {
		ord += fmt.Sprint(c.Orders[s])
	}
	ai := 99
	if a, l, ok := parseImageName(c.Image); ok {
		for k := range tActions {
			if tActions[k].Name == a.Name {
				ai = k
			}
		}
		return fmt.Sprintf("%d|%d|%02d|%d%d%d|%s|%s|%s", len(c.Submit), c.PoolStep, ai, l.Stop2, l.Stop1, l.Trig1, c.Family, strings.Join(c.Submit, ","), ord)
	}
	return fmt.Sprintf("%d|%d|%s|%s|%s|%s", len(c.Submit), c.PoolStep, c.Image, c.Family, strings.Join(c.Submit, ","), ord)
}

type tCollector struct {
	mu sync.Mutex
	m  map[string]*tFound
}

type tFound struct {
	v     core.Violation
	rank  string
	count int
}

func (c *tCollector) add(vs []core.Violation, rank string) {
	c.mu.Lock()
	defer c.mu.Unlock()
	for _, v := range vs {
		f := c.m[v.Key]
		if f == nil {
			c.m[v.Key] = &tFound{v: v, rank: rank, count: 1}
			continue
		}
		f.count++
		if rank < f.rank {
			f.v, f.rank = v, rank
		}
	}
}

func (c *tCollector) flush(rep *core.Report) {
	keys := make([]string, 0, len(c.m))
	for k := range c.m {
		keys = append(keys, k)
	}
	sort.Strings(keys)
	for _, k := range keys {
		f := c.m[k]
		for n := 0; n < f.count; n++ {
			rep.Violation(f.v)
		}
	}
}

// runTimerFamily enumerates the timer dimension and reports its coverage.
func runTimerFamily(rep *core.Report, tier core.Tier) (stopped bool) {
	cases, bounds := timerCases(tier)
	col := &tCollector{m: map[string]*tFound{}}
	var mu sync.Mutex
	cnt := map[string]int{}
	outcomes := map[string]bool{}
	executed, skipped := 0, 0
	jobs := make(chan TCase, 256)
	var wg sync.WaitGroup
	for wk := 0; wk < 16; wk++ {
		wg.Add(1)
		go func() {
			defer wg.Done()
			for c := range jobs {
				if rep.Expired() {
					mu.Lock()
					stopped = true
					mu.Unlock()
					continue
				}
				r := runTimer(c)
				mu.Lock()
				if r.skipped != "" {
					skipped++
					cnt["skipped:"+strings.SplitN(r.skipped, ":", 2)[0]]++
				} else {
					executed++
					for k, v := range r.cnt {
						cnt[k] += v
					}
					outcomes[c.Image+"|"+c.Family+"|"+strconv.Itoa(c.PoolStep)+"|"+strings.Join(r.blocks, "")] = true
					if executed%4000 == 1 {
						rep.Sample(map[string]interface{}{"timer_case": c, "blocks": r.blocks})
					}
				}
				mu.Unlock()
				col.add(r.violation, tRank(c))
			}
		}()
	}
	for _, c := range cases {
		jobs <- c
	}
	close(jobs)
	wg.Wait()
	col.flush(rep)
	imgMu.Lock()
	nimg := len(images)
	imgMu.Unlock()
	rep.Add("states", executed)
	rep.Add("transitions", cnt["blocks_produced"])
	rep.Add("traces_validated_against_impl", executed)
	keys := make([]string, 0, len(cnt))
	for k := range cnt {
		keys = append(keys, k)
	}
	sort.Strings(keys)
	tc := map[string]int{}
	for _, k := range keys {
		tc[k] = cnt[k]
	}
	rep.Set("timer_cases_enumerated", len(cases))
	rep.Set("timer_cases_executed", executed)
	rep.Set("timer_cases_skipped_pool_not_buildable_or_not_admissible", skipped)
	rep.Set("timer_images", nimg)
	rep.Set("timer_distinct_block_sequences", len(outcomes))
	byKind := map[string]map[string]int{}
	for k, v := range cnt {
		if f := strings.Split(k, ":"); len(f) == 3 && f[0] == "mutant" {
			if byKind[f[1]] == nil {
				byKind[f[1]] = map[string]int{"accepted": 0, "refused": 0}
			}
			byKind[f[1]][f[2]] += v
			delete(tc, k)
		}
	}
	rep.Set("timer_counters", tc)
	rep.Set("timer_mutants_by_kind_and_verdict", byKind)
	var obs []string
	for k := range observedOnly {
		obs = append(obs, k)
	}
	sort.Strings(obs)
	rep.Set("timer_mutants_observed_not_judged", fmt.Sprintf("%v: verdicts recorded only (the property speaks about assembled blocks, it does not oblige a verifier to refuse a block without a due timer transaction or with it at another position); every other kind must be refused: %d judged, %d refused, %d accepted",
		obs, cnt["mutants_judged"], cnt["mutants_judged_refused"], cnt["mutants_judged_accepted"]))
	rep.Set("timer_rule", "timer dimension: images = "+bounds+fmt.Sprintf("; x %d pool families (0..3 transactions, pre-executed on the producer's current state in every submission order: independent transfer, reader / writer of k1, writer of k2, reader of the keys only the trigger writes, vote for p1, governance-token transfer by p1's voter, pairs and a triple of them) "+
		"x producer step 1..%d before which the pool arrives x every iteration order of the 3 rewritten pool map ranges (3-tx pools: identity and reverse at all sites together in quick and in the images with p2); "+
		"%d real Miner.mining steps per case, every block replayed after a wire round trip on a replica that never saw the transactions; a case is non-trivial when at least one of its blocks carries a timer transaction (all are: every image has two or three due heights); "+
		"mutants of the honest blocks judged once per (image, family, submission order, arrival step) under the default iteration order: in the empty-pool case every block, else the block that carries the pool (thorough: and the later ones)",
		len(timerFamilies), timerSteps, timerSteps))
	rep.Set("timer_vacuity_guards", fmt.Sprintf("blocks produced %d: %d carried a timer transaction (%d of them together with pool transactions, %d sharing a key with the pool), %d carried none; replica regeneration accepted %d timer transactions; vote check of p1 passed %d times, trigger of p1 ran %d times with success and %d times with failure, vote check of p2 rejected it %d times; mutants that must be refused: %d judged, %d refused; honest block through the mutant pipeline accepted %d times",
		cnt["blocks_produced"], cnt["blocks_with_timer_tx"], cnt["blocks_with_timer_tx_and_pool_txs"], cnt["blocks_where_timer_tx_and_pool_share_a_key"], cnt["blocks_without_timer_tx"],
		cnt["timer_txs_accepted_by_replica_regeneration"], cnt["vote_check_of_p1_ran:passed"], cnt["trigger_of_p1_ran:completed_success"], cnt["trigger_of_p1_ran:completed_failure"], cnt["vote_check_of_p2_ran:rejected"],
		cnt["mutants_judged"], cnt["mutants_judged_refused"], cnt["mutant_pipeline_guard_honest_block_accepted"]))
	return stopped
}

// replayTimer re-executes one timer case.
func replayTimer(c TCase) (bool, string, error) {
	setup()
	r := runTimer(c)
	if r.skipped != "" {
		return false, r.skipped, nil
	}
	if len(r.violation) > 0 {
		return true, r.violation[0].Key + ": " + r.violation[0].Summary, nil
	}
	return false, fmt.Sprintf("replayed: blocks %v, no violation", r.blocks), nil
}
