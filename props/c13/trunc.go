package c13

import (
	"fmt"
	"strings"
	"sync"

	xctx "github.com/xuperchain/xupercore/kernel/common/xcontext"
	"github.com/xuperchain/xupercore/lib/timer"
	"github.com/xuperchain/xupercore/verifshim/vhook"

	"verif/core"
	"verif/props/chain"
	"verif/world"
)

// The block after a truncation. When the consensus object answers
// ProcessBeforeMiner with a truncate target (the tip was never justified), the
// miner walks back to the target, truncates the ledger to it and assembles the
// block for the height target+1: its award (and timer transaction) must be the
// ones of THAT height. With a decaying award the two heights disagree.
// Enumerated: decay gap x chain length x every target on the chain x a pool
// transaction or none; the replica holds the chain up to the target and must
// accept and replay the block into the producer's state.

type truncCase struct {
	Trunc struct {
		Gap    int64  `json:"gap"`
		Tip    int    `json:"tip"`    // height of the tip before the round
		Target int    `json:"target"` // height of the truncate target
		Pool   string `json:"pool,omitempty"`
	} `json:"truncate_case"`
}

var (
	truncUniMu sync.Mutex
	truncUnis  = map[int64]*world.Universe{}
)

func truncUniverse(gap int64) *world.Universe {
	truncUniMu.Lock()
	defer truncUniMu.Unlock()
	if u, ok := truncUnis[gap]; ok {
		return u
	}
	cfg := world.DefaultConfig()
	cfg.Quotas = map[string]string{"A": "1000", "B": "1000", "C": "1000", "D": "1000"}
	cfg.Award = "1000000"
	cfg.DecayGap, cfg.DecayRatio = gap, "0.5"
	b := world.NewUniverse(fmt.Sprintf("U-c13decay%d", gap), cfg, world.RegisterVKV)
	root := b.Root()
	b.At("g")
	for h := 1; h <= 5; h++ {
		b.Block(fmt.Sprintf("t%d", h), "M")
	}
	b.At("t1")
	b.Raw("tB", world.BuildTx(world.TxSpec{Initiator: "B", Ins: []world.In{{Tx: root, Offset: 1}}, Outs: []world.Out{{To: "C", Amount: "999"}, {To: "$", Amount: "1"}}, Nonce: "tB"}), false)
	u := b.Done()
	truncUnis[gap] = u
	return u
}

// truncatingConsensus answers the first ProcessBeforeMiner with a truncate target.
type truncatingConsensus struct {
	hookedConsensus
	target *[]byte
}

func (c truncatingConsensus) ProcessBeforeMiner(ts int64) ([]byte, []byte, error) {
	_, ext, err := c.hookedConsensus.ProcessBeforeMiner(ts)
	if t := *c.target; t != nil {
		*c.target = nil
		return t, ext, err
	}
	return nil, ext, err
}

func runTrunc(c truncCase) (viol []core.Violation, skipped string) {
	tc := c.Trunc
	u := truncUniverse(tc.Gap)
	bad := func(key, f string, a ...interface{}) {
		viol = append(viol, core.Violation{Key: key, Summary: fmt.Sprintf("award halves every %d heights, tip at height %d, consensus asks for a truncation to height %d, pool [%s]: ", tc.Gap, tc.Tip, tc.Target, tc.Pool) + fmt.Sprintf(f, a...), Case: c})
	}
	vhook.Capture()
	inst := chain.New(u, chain.Menu{})
	defer inst.Close()
	w := inst.W
	for h := 1; h <= tc.Tip; h++ {
		if o := inst.Apply(fmt.Sprintf("recv:t%d", h)); strings.HasPrefix(o, "ERR") || strings.HasPrefix(o, "refused") {
			core.HarnessError("c13 truncate fixture: %s", o)
		}
	}
	if o := inst.Apply("sync"); o != "ok" {
		core.HarnessError("c13 truncate fixture: sync: %s", o)
	}
	if tc.Pool != "" {
		if err := w.Submit(u.Tx(tc.Pool)); err != nil {
			return nil, "pool transaction not admissible: " + err.Error()
		}
	}
	m, _, err := producerMiner(w)
	if err != nil {
		core.HarnessError("c13 truncate fixture: %v", err)
	}
	hc, ok := w.Chain.Consensus.(hookedConsensus)
	if !ok {
		return nil, "single consensus not available"
	}
	target := append([]byte{}, u.ID(fmt.Sprintf("t%d", tc.Target))...)
	w.Chain.Consensus = truncatingConsensus{hookedConsensus: hc, target: &target}
	ctx := &xctx.BaseCtx{XLog: w.Log, Timer: timer.NewXTimer()}
	if err := m.VMining(ctx); err != nil {
		vhook.Discard()
		bad("c13.truncate.mining_failed", "the producer round fails: %v", err)
		return
	}
	vhook.Discard()
	blk, err := w.Ledger.QueryBlock(w.Ledger.GetMeta().TipBlockid)
	if err != nil {
		bad("c13.truncate.no_block", "%v", err)
		return
	}
	if blk.Height != int64(tc.Target)+1 {
		bad("c13.truncate.height", "the produced block has height %d, expected %d", blk.Height, tc.Target+1)
	}
	want := w.Ledger.GenesisBlock.CalcAward(blk.Height)
	if got := blk.Transactions[0].TxOutputs[0].Amount; string(got) != string(want.Bytes()) {
		bad("c13.truncate.award_of_another_height", "the block at height %d carries award %d, CalcAward(%d) = %s", blk.Height, bytesToInt(got), blk.Height, want)
	}
	// replica: the chain up to the target, then the block
	rinst := chain.New(u, chain.Menu{})
	defer rinst.Close()
	r := rinst.W
	for h := 1; h <= tc.Target; h++ {
		rinst.Apply(fmt.Sprintf("recv:t%d", h))
	}
	rinst.Apply("sync")
	wire := world.WireBlock(world.CloneBlock(blk))
	if why := replicaConsensusRefuses(r, wire); why != "" {
		bad("c13.truncate.replica.consensus_refused", "%s", why)
		return
	}
	if ok, _ := r.Ledger.VerifyBlock(wire, "c13"); !ok {
		bad("c13.truncate.replica.verify_block", "replica's VerifyBlock refuses the block")
		return
	}
	for k, t := range wire.Transactions {
		if !r.Ledger.IsValidTx(k, t, wire) {
			bad("c13.truncate.replica.invalid_tx", "replica's IsValidTx refuses transaction %d of the block (award %d at height %d)", k, bytesToInt(wire.Transactions[0].TxOutputs[0].Amount), wire.Height)
			return
		}
	}
	if st := r.Ledger.ConfirmBlock(wire, false); !st.Succ {
		bad("c13.truncate.replica.confirm", "replica's ConfirmBlock refuses the block: %v", st.Error)
		return
	}
	if err := r.State.Walk(wire.Blockid, false); err != nil {
		vhook.Discard()
		bad("c13.truncate.replica.walk_refused", "the replica cannot replay the block: %v", err)
		return
	}
	vhook.Discard()
	po, ro := chain.ObserveState(w, u.Names), chain.ObserveState(r, u.Names)
	if d := chain.Diff(po, ro); len(d) > 0 {
		bad("c13.truncate.replica.state_differs", "replica state differs from the producer's: %s", strings.Join(d[:minInt(len(d), 3)], " | "))
	}
	return
}

func bytesToInt(b []byte) int64 {
	var n int64
	for _, x := range b {
		n = n<<8 | int64(x)
	}
	return n
}

func truncFamily(rep *core.Report, tier core.Tier) {
	var cases []truncCase
	gaps := []int64{2, 3}
	maxTip := 4
	if tier == core.Thorough {
		gaps, maxTip = []int64{1, 2, 3, 4}, 5
	}
	for _, g := range gaps {
		for tip := 2; tip <= maxTip; tip++ {
			for target := 1; target < tip; target++ {
				for _, pool := range []string{"", "tB"} {
					var c truncCase
					c.Trunc.Gap, c.Trunc.Tip, c.Trunc.Target, c.Trunc.Pool = g, tip, target, pool
					cases = append(cases, c)
				}
			}
		}
	}
	executed, skipped, crossing := 0, 0, 0
	var mu sync.Mutex
	var wg sync.WaitGroup
	sem := make(chan struct{}, 8)
	for _, c := range cases {
		wg.Add(1)
		go func(c truncCase) {
			defer wg.Done()
			sem <- struct{}{}
			defer func() { <-sem }()
			v, skip := runTrunc(c)
			mu.Lock()
			if skip != "" {
				skipped++
			} else {
				executed++
				if (int64(c.Trunc.Tip)+1)/c.Trunc.Gap != (int64(c.Trunc.Target)+1)/c.Trunc.Gap {
					crossing++
				}
			}
			mu.Unlock()
			for _, x := range v {
				rep.Violation(x)
			}
		}(c)
	}
	wg.Wait()
	rep.Set("truncate_then_mine", fmt.Sprintf("consensus answers ProcessBeforeMiner with a truncate target: award halving every %v heights x tip height 2..%d x every target below it x pool {empty, one transfer}: %d cases, %d executed (%d where the pre-truncation height and the block's height lie in different decay periods), %d skipped", gaps, maxTip, len(cases), executed, crossing, skipped))
	rep.Add("transitions", executed)
	rep.Add("traces_validated_against_impl", executed)
}
