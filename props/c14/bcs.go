package c14

import (
	"errors"
	"fmt"
	"strings"

	_ "github.com/xuperchain/xupercore/bcs/consensus/tdpos"
	_ "github.com/xuperchain/xupercore/bcs/consensus/xpoa"
	"github.com/xuperchain/xupercore/bcs/ledger/xledger/state"
	lpb "github.com/xuperchain/xupercore/bcs/ledger/xledger/xldgpb"
	"github.com/xuperchain/xupercore/kernel/common/xcontext"
	"github.com/xuperchain/xupercore/kernel/consensus"
	"github.com/xuperchain/xupercore/kernel/consensus/base"
	bcommon "github.com/xuperchain/xupercore/kernel/consensus/base/common"
	bft "github.com/xuperchain/xupercore/kernel/consensus/base/driver/chained-bft"
	bftpb "github.com/xuperchain/xupercore/kernel/consensus/base/driver/chained-bft/pb"
	cctx "github.com/xuperchain/xupercore/kernel/consensus/context"
	"github.com/xuperchain/xupercore/kernel/consensus/def"
	"github.com/xuperchain/xupercore/kernel/contract"
	"github.com/xuperchain/xupercore/kernel/ledger"
	nctx "github.com/xuperchain/xupercore/kernel/network/context"
	"github.com/xuperchain/xupercore/kernel/network/p2p"
	"github.com/xuperchain/xupercore/lib/timer"
	"github.com/xuperchain/xupercore/protos"

	"verif/core"
	"verif/world"
)

// ---------------------------------------------------------------------------
// stubs: LedgerRely with two stored blocks, network, kernel registry

type stubLedger struct {
	blocks []*state.BlockAgent
}

func (l *stubLedger) GetConsensusConf() ([]byte, error) { return []byte(`{}`), nil }
func (l *stubLedger) QueryBlock(id []byte) (ledger.BlockHandle, error) {
	for _, b := range l.blocks {
		if string(b.GetBlockid()) == string(id) {
			return b, nil
		}
	}
	return nil, errors.New("block not found")
}
func (l *stubLedger) QueryBlockByHeight(h int64) (ledger.BlockHandle, error) {
	if h < 0 || int(h) >= len(l.blocks) {
		return nil, errors.New("block not found")
	}
	return l.blocks[h], nil
}
func (l *stubLedger) GetTipBlock() ledger.BlockHandle { return l.blocks[len(l.blocks)-1] }
func (l *stubLedger) GetTipXMSnapshotReader() (ledger.XMSnapshotReader, error) {
	return emptyReader{}, nil
}
func (l *stubLedger) CreateSnapshot(blkId []byte) (ledger.XMReader, error) { return emptyXM{}, nil }
func (l *stubLedger) GetTipSnapshot() (ledger.XMReader, error)             { return emptyXM{}, nil }

type emptyReader struct{}

func (emptyReader) Get(bucket string, key []byte) ([]byte, error) { return nil, nil }

type emptyXM struct{}

func (emptyXM) Get(bucket string, key []byte) (*ledger.VersionedData, error) { return nil, nil }
func (emptyXM) Select(bucket string, startKey []byte, endKey []byte) (ledger.XMIterator, error) {
	return nil, errors.New("no iterator in stub")
}

type stubNet struct{ account string }

func (stubNet) Start() {}
func (stubNet) Stop()  {}
func (stubNet) SendMessage(xcontext.XContext, *protos.XuperMessage, ...p2p.OptionFunc) error {
	return nil
}
func (stubNet) SendMessageWithResponse(xcontext.XContext, *protos.XuperMessage, ...p2p.OptionFunc) ([]*protos.XuperMessage, error) {
	return nil, nil
}
func (stubNet) NewSubscriber(protos.XuperMessage_MessageType, interface{}, ...p2p.SubscriberOption) p2p.Subscriber {
	return nil
}
func (stubNet) Register(p2p.Subscriber) error   { return nil }
func (stubNet) UnRegister(p2p.Subscriber) error { return nil }
func (stubNet) Context() *nctx.NetCtx           { return nil }
func (n stubNet) PeerInfo() protos.PeerInfo     { return protos.PeerInfo{Account: n.account} }

type stubManager struct{}

func (stubManager) NewContext(cfg *contract.ContextConfig) (contract.Context, error) {
	return nil, errors.New("stub")
}
func (stubManager) NewStateSandbox(cfg *contract.SandboxConfig) (contract.StateSandbox, error) {
	return nil, errors.New("stub")
}
func (stubManager) GetKernRegistry() contract.KernRegistry { return stubRegistry{} }

type stubRegistry struct{}

func (stubRegistry) RegisterKernMethod(contract, method string, handler contract.KernMethod) {}
func (stubRegistry) RegisterShortcut(oldmethod, contract, method string)                     {}
func (stubRegistry) GetKernMethod(contract, method string) (contract.KernMethod, error) {
	return nil, errors.New("not registered")
}

// ---------------------------------------------------------------------------

type bcsDriver struct {
	name string
	n    int
	cons base.ConsensusImplInterface
	ts   int64 // a timestamp of the slot of validator V1 (position 0)
	// consensus start height (newBcsStart)
	start int64
}

const tdposInitTs = int64(1559021720000000000)

// newBcs builds a real tdpos / xpoa consensus instance with chained-BFT
// enabled whose validator set in force is V1..Vn (initial proposers), on a
// ledger holding blocks idRoot (height 0) and idCert (height 1). The local node
// is V2 (V1 when alone).
func newBcs(name string, n int) (*bcsDriver, error) { return newBcsStart(name, n, 1) }

// newBcsStart is newBcs with the consensus (and chained-BFT) start height
// given: 1 (the stored block idCert was made by this consensus, a block at
// height 2 is ABOVE the start height) or 2 (the consensus starts on top of the
// stored tip idCert: a block at height 2 is AT the start height, a block at
// height 1 BELOW it).
func newBcsStart(name string, n int, start int64) (*bcsDriver, error) {
	_, addrs := members(n)
	quoted := make([]string, len(addrs))
	for i, a := range addrs {
		quoted[i] = `"` + a + `"`
	}
	self := "V2"
	if n < 2 {
		self = "V1"
	}
	d := &bcsDriver{name: name, n: n, start: start}
	var conf string
	switch name {
	case "tdpos":
		conf = fmt.Sprintf(`{"timestamp":"%d","proposer_num":"%d","period":"3000","alternate_interval":"3000","term_interval":"6000","block_num":"20","vote_unit_price":"1","init_proposer":{"1":[%s]},"bft_config":{}}`,
			tdposInitTs, n, strings.Join(quoted, ","))
		// term 1 begins at init+term_interval-alternate_interval; position 0, 2nd block slot
		d.ts = tdposInitTs + (3000+3000+1)*1e6
	case "xpoa":
		conf = fmt.Sprintf(`{"version":0,"period":3000,"block_num":10,"init_proposer":{"address":[%s]},"bft_config":{}}`, strings.Join(quoted, ","))
		termTime := int64(3000) * int64(n) * 10
		d.ts = (termTime*1000 + 3000 + 1) * 1e6 // position 0, 2nd block slot of term 1001
	default:
		return nil, fmt.Errorf("unknown consensus %q", name)
	}
	mk := func(h int64, id, pre []byte, proposer string) *state.BlockAgent {
		return state.NewBlockAgent(&lpb.InternalBlock{Version: 1, Blockid: id, PreHash: pre, Height: h, Proposer: []byte(world.Addr(proposer)), Timestamp: d.ts - 3000*1e6*(2-h), CurTerm: 1, InTrunk: true})
	}
	led := &stubLedger{blocks: []*state.BlockAgent{mk(0, idRoot, nil, collector), mk(1, idCert, idRoot, collector)}}
	cc := cctx.ConsensusCtx{BcName: world.BCName, Address: address(self), Crypto: world.Crypto, Contract: stubManager{}, Ledger: led, Network: stubNet{account: world.Addr(self)}}
	cc.XLog = world.NopLogger{}
	cc.Timer = timer.NewXTimer()
	impl, err := newImpl(name, cc, def.ConsensusConfig{ConsensusName: name, Config: conf, StartHeight: start, Index: 0})
	if err != nil {
		return nil, err
	}
	d.cons = impl
	return d, nil
}

// check wraps the signature list as the justify of a block at height 2
// proposed by the collector V1 in its own slot and asks CheckMinerMatch.
func (d *bcsDriver) check(es []*entry) (bool, error) {
	return d.checkBlock(idProp, idCert, signsOf(es))
}

// checkBlock asks CheckMinerMatch about the block `blockid` at height 2 on top
// of idCert whose justify certifies `certified` (a block of height 1) with the
// given signatures.
func (d *bcsDriver) checkBlock(blockid, certified []byte, signs []*bftpb.QuorumCertSign) (bool, error) {
	just, err := bcommon.NewToOldQC(&bft.QuorumCert{VoteInfo: &bft.VoteInfo{ProposalId: certified, ProposalView: 1, ParentId: idRoot, ParentView: 0}, SignInfos: signs})
	if err != nil {
		return false, err
	}
	blk := &lpb.InternalBlock{Version: 1, Blockid: blockid, PreHash: idCert, Height: 2, Proposer: []byte(world.Addr(collector)), Timestamp: d.ts, CurTerm: 1, CurBlockNum: 1, Justify: just}
	ctx := &xcontext.BaseCtx{XLog: world.NopLogger{}, Timer: timer.NewXTimer()}
	ok, _ := d.cons.CheckMinerMatch(ctx, state.NewBlockAgent(world.WireBlock(blk)))
	return ok, nil
}

// bcsHistory is the honest traffic a tdpos / xpoa instance is shown before the
// cases (the block seam has no entry for single votes): a block justified by
// the honest certificate for the OTHER id (every member's signature over it,
// the very entries the cases re-use as Vi:otherid), and the block justified by
// the honest certificate for the certified id.
var bcsHistory = []string{"cert:other", "cert:cert"}

// prime presents the honest blocks of a history; returns accepted / refused.
func (d *bcsDriver) prime(steps []string) (accepted, refused int) {
	for _, st := range steps {
		var ok bool
		var err error
		switch st {
		case "cert:other":
			var toks []string
			for i := 2; i <= d.n; i++ {
				toks = append(toks, vname(i)+":otherid")
			}
			toks = append(toks, collector+":otherid")
			ok, err = d.checkBlock(idNext, idProp, signsOf(mustEntries(toks)))
		case "cert:cert":
			toks := []string{collector}
			for i := 2; i <= d.n; i++ {
				toks = append(toks, vname(i))
			}
			ok, err = d.check(mustEntries(toks))
		default:
			err = fmt.Errorf("unknown history step %q", st)
		}
		if err != nil {
			core.HarnessError("C14: %s fixture: %v", d.name, err)
		}
		if ok {
			accepted++
		} else {
			refused++
		}
	}
	return
}

// replayBcs is the replayable form of a block-seam case with a past: a fresh
// instance, the honest blocks, the earlier certificates, the case. The caller
// stops the instance (not at once: the constructor starts the smr in a
// goroutine of its own, which must have registered before Stop unregisters).
func replayBcs(name string, n int, steps []string, earlier [][]string, es []*entry) (*bcsDriver, bool, error) {
	d, err := newBcs(name, n)
	if err != nil {
		return nil, false, err
	}
	d.prime(steps)
	for _, e := range earlier {
		if _, err := d.check(mustEntries(e)); err != nil {
			return d, false, err
		}
	}
	ok, err := d.check(es)
	return d, ok, err
}

// explainBcs looks, on fresh instances, for the smallest past that reproduces a
// below-quorum acceptance of a long-lived tdpos / xpoa instance: nothing, the
// honest blocks, the earlier certificates, both. The returned driver is the
// instance that reproduced it; every instance made is appended to pool, for the
// caller to stop.
func explainBcs(name string, n int, toks []string, seen [][]string, pool *[]*bcsDriver) (c Case, d *bcsDriver, need string) {
	es := mustEntries(toks)
	c = Case{Seam: name + ".CheckMinerMatch", N: n, Collector: collector, Entries: toks}
	try := func(steps []string, earlier [][]string) bool {
		drv, ok, err := replayBcs(name, n, steps, earlier, es)
		if drv != nil {
			*pool = append(*pool, drv)
		}
		if err != nil {
			core.HarnessError("C14: %s fixture: %v", name, err)
		}
		if ok {
			d = drv
		}
		return ok
	}
	if try(nil, nil) {
		return c, d, "nothing"
	}
	if try(bcsHistory, nil) {
		c.History = bcsHistory
		return c, d, "history"
	}
	for _, steps := range [][]string{nil, bcsHistory} {
		if try(steps, seen) {
			c.History = steps
			c.Earlier = append([][]string{}, seen...)
			c.EarlierTimes = 1
			return c, d, "earlier"
		}
	}
	return c, nil, ""
}

// fullVotes is the certificate signed by every validator but the collector.
func (d *bcsDriver) fullVotes() []*entry {
	var toks []string
	for i := 2; i <= d.n; i++ {
		toks = append(toks, vname(i))
	}
	return mustEntries(toks)
}

func (d *bcsDriver) stop() {
	if d.cons != nil {
		d.cons.Stop()
	}
}

func newImpl(name string, cc cctx.ConsensusCtx, cfg def.ConsensusConfig) (impl base.ConsensusImplInterface, err error) {
	defer func() {
		if r := recover(); r != nil {
			err = fmt.Errorf("constructor panicked: %v", r)
		}
	}()
	impl, err = consensus.NewPluginConsensus(cc, cfg)
	if err != nil {
		return nil, err
	}
	if impl == nil {
		return nil, fmt.Errorf("constructor of %s returned nil", name)
	}
	return impl, nil
}
