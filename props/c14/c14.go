// Package c14: quorum certificates need a quorum of distinct, valid validator
// signatures. Exhaustive bounded enumeration of signature lists (multisets over
// entry kinds, in two orders) against the real DefaultSaftyRules obtained
// through Smr.GetSaftyRules, and against tdpos / xpoa CheckMinerMatch with
// chained-BFT enabled.
package c14

import (
	"container/list"
	"encoding/json"
	"fmt"
	"runtime"
	"sort"
	"strings"
	"sync"

	bft "github.com/xuperchain/xupercore/kernel/consensus/base/driver/chained-bft"
	bftcrypto "github.com/xuperchain/xupercore/kernel/consensus/base/driver/chained-bft/crypto"
	bftpb "github.com/xuperchain/xupercore/kernel/consensus/base/driver/chained-bft/pb"
	cctx "github.com/xuperchain/xupercore/kernel/consensus/context"

	"verif/core"
	"verif/world"
)

const collector = "V1"

// Case is the replayable description of one evaluation.
type Case struct {
	Seam      string   `json:"seam"` // CheckProposal | CheckVote | CalVotesThreshold | tdpos.CheckMinerMatch | xpoa.CheckMinerMatch
	N         int      `json:"n"`    // validator set V1..Vn
	Collector string   `json:"collector,omitempty"`
	Entries   []string `json:"entries"`         // ordered signature entries (tokens, see sigs.go)
	Input     int      `json:"input,omitempty"` // CalVotesThreshold only
}

func address(name string) *cctx.Address {
	k := world.Keys[name]
	return &cctx.Address{Address: k.Address, PrivateKeyStr: k.PriJSON, PublicKeyStr: k.PubJSON, PrivateKey: k.Priv, PublicKey: &k.Priv.PublicKey}
}

func qc(id []byte, view int64, parent []byte, pview int64, signs []*bftpb.QuorumCertSign) *bft.QuorumCert {
	return &bft.QuorumCert{VoteInfo: &bft.VoteInfo{ProposalId: id, ProposalView: view, ParentId: parent, ParentView: pview}, SignInfos: signs}
}

// rules is the narrow view of the (unexported) interface Smr.GetSaftyRules returns.
type rules interface {
	CheckProposal(proposal, parent bft.QuorumCertInterface, justifyValidators []string) error
	CheckVote(qc bft.QuorumCertInterface, logid string, validators []string) error
	CalVotesThreshold(input, sum int) bool
}

// newRules builds a real DefaultSaftyRules (real CBFTCrypto of the local node
// `self`) over a pending tree idRoot <- idCert and hands it out the way the
// consensus plug-ins reach it: through Smr.GetSaftyRules.
func newRules(self string) rules {
	root := &bft.ProposalNode{In: &bft.QuorumCert{VoteInfo: &bft.VoteInfo{ProposalId: idRoot, ProposalView: 0}, LedgerCommitInfo: &bft.LedgerCommitInfo{CommitStateId: idRoot}}}
	cert := &bft.ProposalNode{In: &bft.QuorumCert{VoteInfo: &bft.VoteInfo{ProposalId: idCert, ProposalView: 1, ParentId: idRoot, ParentView: 0}}}
	root.Sons = append(root.Sons, cert)
	tree := &bft.QCPendingTree{Genesis: root, Root: root, HighQC: cert, CommitQC: root, Log: world.NopLogger{}, OrphanList: list.New(), OrphanMap: map[string]bool{}}
	cc := bftcrypto.NewCBFTCrypto(address(self), world.Crypto)
	sr := &bft.DefaultSaftyRules{Crypto: cc, QcTree: tree, Log: world.NopLogger{}}
	smr := bft.NewSmr(world.BCName, world.Addr(self), world.NopLogger{}, nil, cc, &bft.DefaultPaceMaker{CurrentView: 1}, sr, nil, tree)
	return smr.GetSaftyRules()
}

func signsOf(es []*entry) []*bftpb.QuorumCertSign {
	out := make([]*bftpb.QuorumCertSign, len(es))
	for i, e := range es {
		out[i] = e.sign
	}
	return out
}

var (
	addrsOf      [11][]string // validator addresses of V1..Vn, by n
	proposalSign *bftpb.QuorumCertSign
	prepOnce     sync.Once
)

func prep() {
	prepOnce.Do(func() {
		for n := 1; n <= 10; n++ {
			_, addrsOf[n] = members(n)
		}
		// the proposal is signed by its proposer = the collector of the certificate it carries
		ce, err := parseEntry(collector + ":otherid") // the collector's signature over the proposal's own id
		if err != nil {
			panic(err)
		}
		proposalSign = ce.sign
	})
}

// acceptsProposal asks CheckProposal about one signature list.
func acceptsProposal(r rules, n int, es []*entry) bool {
	prep()
	proposal := qc(idProp, 2, idCert, 1, []*bftpb.QuorumCertSign{proposalSign})
	parent := qc(idCert, 1, idRoot, 0, signsOf(es))
	return r.CheckProposal(proposal, parent, addrsOf[n]) == nil
}

// evalProposal runs CheckProposal on one case and judges it.
func evalProposal(r rules, n int, es []*entry) (accepted bool, t tally) {
	return acceptsProposal(r, n, es), tallyOf(n, collector, es)
}

// keyFor classifies an acceptance below quorum by the first sufficient cause:
// the counting entries alone (then the threshold is at fault), or the counting
// entries plus the entries of one kind that must not count.
func keyFor(n int, es []*entry, t tally, accepts func([]*entry) bool) string {
	ks := kindsOf(n, collector, es)
	sub := func(kinds ...string) []*entry {
		var out []*entry
		for i, e := range es {
			if ks[i] == "first" {
				out = append(out, e)
				continue
			}
			for _, k := range kinds {
				if ks[i] == k {
					out = append(out, e)
				}
			}
		}
		return out
	}
	d := sub()
	if len(d) == len(es) || accepts(d) {
		return "c14.accepted_below_quorum"
	}
	for _, c := range []struct {
		key   string
		kinds []string
	}{
		{"c14.repeated_member_signature_counts", []string{"repeat"}},
		{"c14.collector_own_signature_counts", []string{"collector"}},
		{"c14.repeated_member_signature_counts", []string{"repeat", "collector"}},
		{"c14.non_member_signature_counts", []string{"nonmember"}},
		{"c14.signature_over_another_id_counts", []string{"otherid"}},
		{"c14.invalid_signature_counts", []string{"corrupt"}},
		{"c14.address_key_mismatch_counts", []string{"mismatch"}},
	} {
		if l := sub(c.kinds...); len(l) > len(d) && accepts(l) {
			return c.key
		}
	}
	return t.classify() // several kinds together
}

func evalVote(r rules, n int, es []*entry) (accepted bool, t tally) {
	prep()
	vote := qc(idCert, 1, idRoot, 0, signsOf(es))
	err := r.CheckVote(vote, "c14", addrsOf[n])
	return err == nil, tallyOf(n, collector, es)
}

// ---------------------------------------------------------------------------
// enumeration of multisets

// kinds of one validator-set size, in canonical order. A kind's k-th copy is
// turned into a token by tok(k, fresh, badSeq).
type kind struct {
	name   string
	member int // >0: valid signature of V<member>
}

func kindsFor(n int) []kind {
	var ks []kind
	for i := 2; i <= n; i++ {
		ks = append(ks, kind{name: "member", member: i})
	}
	ks = append(ks, kind{name: "collector", member: 1}, kind{name: "nonmember"}, kind{name: "otherid"}, kind{name: "corrupt"}, kind{name: "empty"})
	if n >= 2 {
		ks = append(ks, kind{name: "key=member"})
	}
	ks = append(ks, kind{name: "key=X"})
	return ks
}

// tokens renders a multiset (counts per kind) as the canonical ordered token list.
// Entries that must not count and need a member's address take the members from
// the top (Vn, Vn-1, ...), i.e. preferably members that did not sign validly.
func tokens(n int, ks []kind, counts []int, fresh bool) []string {
	var out []string
	bad := 0
	nextBad := func() int {
		m := n - bad%n
		bad++
		return m
	}
	for ki, k := range ks {
		for c := 0; c < counts[ki]; c++ {
			switch k.name {
			case "member", "collector":
				if c == 0 || !fresh {
					out = append(out, vname(k.member))
				} else {
					out = append(out, fmt.Sprintf("%s#%d", vname(k.member), c))
				}
			case "nonmember":
				out = append(out, "X")
			case "otherid", "corrupt", "empty":
				out = append(out, vname(nextBad())+":"+k.name)
			case "key=member":
				m := nextBad()
				o := m - 1
				if o < 1 {
					o = n
				}
				out = append(out, fmt.Sprintf("%s:key=%s", vname(m), vname(o)))
			case "key=X":
				out = append(out, vname(nextBad())+":key=X")
			}
		}
	}
	return out
}

// forEachMultiset calls f with every count vector over len(ks) kinds of total size <= max.
func forEachMultiset(nk, max int, f func(counts []int)) {
	counts := make([]int, nk)
	var rec func(i, left int)
	rec = func(i, left int) {
		if i == nk {
			f(counts)
			return
		}
		for c := 0; c <= left; c++ {
			counts[i] = c
			rec(i+1, left-c)
		}
		counts[i] = 0
	}
	rec(0, max)
}

func reversed(s []string) []string {
	out := make([]string, len(s))
	for i, x := range s {
		out[len(s)-1-i] = x
	}
	return out
}

// forEachCase streams every case of validator-set size n (lists of size <= max):
// every multiset, in canonical and reversed order, repeats as identical copies
// and as fresh signatures. f must not keep toks.
func forEachCase(n, max int, f func(toks []string)) int {
	ks := kindsFor(n)
	total := 0
	emit := func(t []string) {
		total++
		f(t)
		r := reversed(t)
		if strings.Join(r, ",") != strings.Join(t, ",") {
			total++
			f(r)
		}
	}
	forEachMultiset(len(ks), max, func(counts []int) {
		hasRepeat := false
		for ki, k := range ks {
			if k.member > 0 && counts[ki] >= 2 {
				hasRepeat = true
			}
		}
		emit(tokens(n, ks, counts, false))
		if hasRepeat {
			emit(tokens(n, ks, counts, true))
		}
	})
	return total
}

func nonTrivial(t tally) bool {
	return t.Repeats+t.Collector+t.NonMember+t.OtherID+t.Corrupt+t.Mismatch > 0
}

// best keeps, per violation key, the smallest counterexample (n, length, text).
type best struct {
	mu sync.Mutex
	m  map[string]core.Violation
	c  map[string]Case
}

func less(a, b Case) bool {
	if ca, cb := exotic(a), exotic(b); ca != cb {
		return ca < cb
	}
	if a.N != b.N {
		return a.N < b.N
	}
	if len(a.Entries) != len(b.Entries) {
		return len(a.Entries) < len(b.Entries)
	}
	if ja, jb := strings.Join(a.Entries, ","), strings.Join(b.Entries, ","); ja != jb {
		return ja < jb
	}
	return a.Seam < b.Seam
}

// exotic counts entries in the collector's name and fresh re-signatures: the
// reported counterexample prefers plain ones.
func exotic(c Case) int {
	k := 0
	for _, t := range c.Entries {
		name := t
		if i := strings.IndexAny(t, ":#"); i >= 0 {
			name = t[:i]
		}
		if name == collector {
			k++
		}
		if strings.Contains(t, "#") {
			k++
		}
	}
	return k
}

func (b *best) offer(c Case, v core.Violation) {
	b.mu.Lock()
	defer b.mu.Unlock()
	if old, ok := b.c[v.Key]; ok && !less(c, old) {
		return
	}
	v.Case = c
	b.m[v.Key] = v
	b.c[v.Key] = c
}

type counters struct {
	mu                                                   sync.Mutex
	evals, accepted, rejected, nontrivial, rejectedAbove int
	violations                                           map[string]int
	acceptedByN                                          map[int]int
}

func proposalViolation(seam string, n int, toks []string, key string, t tally) (Case, core.Violation) {
	c := Case{Seam: seam, N: n, Collector: collector, Entries: toks}
	return c, core.Violation{
		Key:      key,
		Summary:  fmt.Sprintf("%s accepted a certificate for n=%d validators (collector %s) with entries %v: %d distinct members besides the collector validly signed the certified id, %d needed", seam, n, collector, toks, t.Distinct, t.Threshold),
		Expected: fmt.Sprintf("refused: fewer than n-floor((n-1)/3)-1 = %d distinct non-collector members signed", t.Threshold),
		Observed: fmt.Sprintf("accepted (model tally %+v)", t),
	}
}

func run(tier core.Tier) *core.Report {
	rep := core.NewReport("C14", tier, "exploration")
	world.Init()
	maxN, capSize, maxNBcs := 7, 6, 4
	if tier == core.Thorough {
		maxN, capSize, maxNBcs = 10, 8, 5
	}
	bst := &best{m: map[string]core.Violation{}, c: map[string]Case{}}
	cnt := &counters{violations: map[string]int{}, acceptedByN: map[int]int{}}

	// --- CalVotesThreshold against the formula -------------------------------
	r0 := newRules("V2")
	thr := 0
	for n := 1; n <= 10; n++ {
		for in := 0; in <= n; in++ {
			got := r0.CalVotesThreshold(in, n)
			want := in >= threshold(n)
			thr++
			if got != want {
				c := Case{Seam: "CalVotesThreshold", N: n, Input: in}
				kind := "too_low"
				if want {
					kind = "too_high"
				}
				bst.offer(c, core.Violation{Key: "c14.threshold_" + kind, Summary: fmt.Sprintf("CalVotesThreshold(%d, %d) = %v, formula input >= n-floor((n-1)/3)-1 = %d says %v", in, n, got, threshold(n), want)})
				cnt.violations["CalVotesThreshold c14.threshold_"+kind]++
			}
		}
	}
	rep.Set("threshold_pairs", thr)
	rep.Set("threshold_n0_observed", fmt.Sprintf("CalVotesThreshold(0,0)=%v (empty validator set, outside the quantifier; CheckProposal refuses nil validators only)", r0.CalVotesThreshold(0, 0)))

	// --- CheckProposal: all multisets -----------------------------------------
	type job struct {
		n    int
		toks []string
		es   []*entry
	}
	perN := map[string]int{}
	workers := runtime.NumCPU()
	if workers > 32 {
		workers = 32
	}
	var wg sync.WaitGroup
	ch := make(chan job, 1024)
	for w := 0; w < workers; w++ {
		wg.Add(1)
		go func() {
			defer wg.Done()
			r := newRules("V2") // a replica checking the collector's proposal
			loc := counters{violations: map[string]int{}, acceptedByN: map[int]int{}}
			for j := range ch {
				acc, t := evalProposal(r, j.n, j.es)
				loc.evals++
				if nonTrivial(t) {
					loc.nontrivial++
				}
				if acc {
					loc.accepted++
					loc.acceptedByN[j.n]++
					if t.Distinct < t.Threshold {
						key := keyFor(j.n, j.es, t, func(x []*entry) bool { return acceptsProposal(r, j.n, x) })
						c, v := proposalViolation("CheckProposal", j.n, j.toks, key, t)
						loc.violations["CheckProposal "+v.Key]++
						bst.offer(c, v)
					}
				} else {
					loc.rejected++
					if t.Distinct >= t.Threshold {
						loc.rejectedAbove++
					}
				}
			}
			cnt.mu.Lock()
			cnt.evals += loc.evals
			cnt.accepted += loc.accepted
			cnt.rejected += loc.rejected
			cnt.nontrivial += loc.nontrivial
			cnt.rejectedAbove += loc.rejectedAbove
			for k, v := range loc.violations {
				cnt.violations[k] += v
			}
			for k, v := range loc.acceptedByN {
				cnt.acceptedByN[k] += v
			}
			cnt.mu.Unlock()
		}()
	}
	complete := true
	var sampleToks [][]string
	// the producer builds every signature once (memoised), so workers only read
	for n := 1; n <= maxN && complete; n++ {
		max := n + 1
		if max > capSize {
			max = capSize
		}
		sent := 0
		total := forEachCase(n, max, func(toks []string) {
			if !complete {
				return
			}
			if sent%8192 == 0 && rep.Expired() {
				complete = false
				return
			}
			sent++
			if n == 4 && (len(toks) == 2 && toks[0] == "V2" && toks[1] == "V3" || sent == 700 || sent == 4000) {
				sampleToks = append(sampleToks, toks)
			}
			ch <- job{n, toks, mustEntries(toks)}
		})
		perN[fmt.Sprintf("n=%d(size<=%d)", n, max)] = total
	}
	close(ch)
	wg.Wait()
	rep.Set("proposal_cases", cnt.evals)
	rep.Set("proposal_cases_per_n", perN)
	rep.Set("proposal_accepted", cnt.accepted)
	rep.Set("proposal_rejected", cnt.rejected)
	rep.Set("proposal_accepted_per_n", strMap(cnt.acceptedByN))
	rep.Set("proposal_rejected_although_quorum_present", cnt.rejectedAbove)

	// --- CheckVote -------------------------------------------------------------
	voteEvals, voteAcc := 0, 0
	rv := newRules(collector) // the collector checks incoming votes
	for n := 1; n <= maxN; n++ {
		firsts := []string{}
		for i := 1; i <= n; i++ {
			firsts = append(firsts, vname(i))
		}
		top := vname(n)
		firsts = append(firsts, "X", "X:otherid", top+":otherid", top+":corrupt", top+":empty", top+":key=X", "X:key="+top)
		if n >= 2 {
			firsts = append(firsts, fmt.Sprintf("%s:key=%s", top, vname(n-1)))
		}
		if n < 10 {
			firsts = append(firsts, vname(n+1)) // a validator of a larger set, not of this one
		}
		seconds := []string{"", top, "X", top + ":corrupt"}
		lists := [][]string{{}}
		for _, f := range firsts {
			for _, s := range seconds {
				if s == "" {
					lists = append(lists, []string{f})
				} else {
					lists = append(lists, []string{f, s})
				}
			}
		}
		for _, toks := range lists {
			es := mustEntries(toks)
			acc, t := evalVote(rv, n, es)
			voteEvals++
			if acc {
				voteAcc++
				if !t.FirstIsMember {
					c := Case{Seam: "CheckVote", N: n, Collector: collector, Entries: toks}
					key := voteKey(n, es)
					cnt.violations["CheckVote "+key]++
					bst.offer(c, core.Violation{Key: key, Summary: fmt.Sprintf("CheckVote accepted a vote for n=%d validators whose first signature entry (of %v) is not a member's valid signature over the voted id", n, toks),
						Expected: "refused", Observed: "accepted (the collector then counts this vote towards the threshold)"})
				}
			}
		}
	}
	rep.Set("vote_cases", voteEvals)
	rep.Set("vote_accepted", voteAcc)

	// --- tdpos / xpoa CheckMinerMatch with BFT enabled, small n ---------------
	bcsEvals, bcsAcc, bcsFullRefused := 0, 0, 0
	var bcsSamples []interface{}
	for _, name := range []string{"tdpos", "xpoa"} {
		for n := 1; n <= maxNBcs; n++ {
			if rep.Expired() {
				complete = false
				break
			}
			drv, err := newBcs(name, n)
			if err != nil {
				core.HarnessError("C14: cannot construct %s with %d validators: %v", name, n, err)
			}
			if full := drv.fullVotes(); !mustCheck(drv, full) {
				// every other validator signed and the block is refused: the fixture's fault unless
				// CheckProposal itself refuses the same certificate (then the acceptance count shows it)
				if acceptsProposal(r0, n, full) {
					core.HarnessError("C14: %s fixture with %d validators refuses a block carrying all votes that CheckProposal accepts", name, n)
				}
				bcsFullRefused++
			}
			idx := 0
			forEachCase(n, n+1, func(toks []string) {
				es := mustEntries(toks)
				acc, err := drv.check(es)
				if err != nil {
					core.HarnessError("C14: %s fixture: %v", name, err)
				}
				t := tallyOf(n, collector, es)
				bcsEvals++
				if idx++; n == 4 && idx == 1500 {
					bcsSamples = append(bcsSamples, map[string]interface{}{"case": Case{Seam: name + ".CheckMinerMatch", N: n, Collector: collector, Entries: toks}, "accepted": acc, "distinct_valid_non_collector_members": t.Distinct, "needed": t.Threshold})
				}
				if acc {
					bcsAcc++
					if t.Distinct < t.Threshold {
						key := keyFor(n, es, t, func(x []*entry) bool { ok, _ := drv.check(x); return ok })
						c, v := proposalViolation(name+".CheckMinerMatch", n, toks, key, t)
						cnt.violations[name+".CheckMinerMatch "+v.Key]++
						bst.offer(c, v)
					}
				}
			})
			drv.stop()
		}
	}
	rep.Set("bcs_cases", bcsEvals)
	rep.Set("bcs_accepted", bcsAcc)
	rep.Set("bcs_instances_refusing_a_full_certificate", bcsFullRefused)

	// --- report ---------------------------------------------------------------
	keys := make([]string, 0, len(bst.m))
	for k := range bst.m {
		keys = append(keys, k)
	}
	sort.Strings(keys)
	perKey := map[string]int{}
	for sk, c := range cnt.violations {
		perKey[sk[strings.Index(sk, " ")+1:]] += c
	}
	for _, k := range keys {
		for i := 0; i < perKey[k] || i == 0; i++ {
			rep.Violation(bst.m[k])
		}
	}
	rep.Set("violating_cases_per_seam_and_key", cnt.violations)
	rep.Set("evaluations", thr+cnt.evals+voteEvals+bcsEvals)
	rep.Set("distinct_nontrivial", cnt.nontrivial)
	rep.Set("rule", "cases = every multiset of signature entries of size <= min(n+1, cap) over the kinds {valid member Vi (i=2..n), collector V1, non-member X, member over another id, corrupted, empty, member address with another member's key, member address with X's key}, each in canonical and reversed order, repeats as identical copies and as fresh signatures; a case is non-trivial when its list holds at least one entry that must not count (repeat, collector, non-member, other id, invalid, mismatch); counted over the CheckProposal seam")
	rep.Set("bounds", fmt.Sprintf("n=1..%d, list size <= min(n+1,%d); CalVotesThreshold 0<=input<=n<=10; CheckVote n=1..%d; tdpos/xpoa n=1..%d size<=n+1", maxN, capSize, maxN, maxNBcs))
	rep.Set("accepted_total", cnt.accepted+voteAcc+bcsAcc)
	rep.Set("exhaustive", complete)
	if len(bcsSamples) > 0 {
		rep.Sample(bcsSamples[0])
	}
	for _, toks := range sampleToks {
		acc, t := evalProposal(r0, 4, mustEntries(toks))
		rep.Sample(map[string]interface{}{"case": Case{Seam: "CheckProposal", N: 4, Collector: collector, Entries: toks}, "accepted": acc, "distinct_valid_non_collector_members": t.Distinct, "needed": t.Threshold})
	}
	{
		toks := []string{"V3:key=X", "V3"}
		acc, t := evalVote(rv, 3, mustEntries(toks))
		rep.Sample(map[string]interface{}{"case": Case{Seam: "CheckVote", N: 3, Collector: collector, Entries: toks}, "accepted": acc, "first_is_valid_member_signature": t.FirstIsMember})
	}
	rep.Assume("a certificate does not name its collector; the sender of the proposal / proposer of the block (V1) may carry a certificate another validator collected, so V1's own valid signature counts as one member signature (excluding it would refuse the honest fork case of TestSMR); judged: accepted => distinct valid member signatures >= n-floor((n-1)/3)-1")
	rep.Assume("entries of one kind are interchangeable: invalid entries are attributed to the members Vn, Vn-1, ... in turn; lists are tried in canonical and reversed order, not in every permutation")
	rep.Assume("tdpos / xpoa run over a stub LedgerRely, network and kernel registry (two stored blocks, initial validator set), block at height 2 wrapped by the real state.BlockAgent")
	rep.Assume("binding of the certificate to the block's parent (justify id vs PreHash) is outside this statement and not judged here")
	fmt.Printf("C14 %s: threshold pairs=%d; CheckProposal cases=%d accepted=%d rejected=%d (rejected with quorum present=%d); CheckVote cases=%d accepted=%d; tdpos/xpoa cases=%d accepted=%d\n",
		tier, thr, cnt.evals, cnt.accepted, cnt.rejected, cnt.rejectedAbove, voteEvals, voteAcc, bcsEvals, bcsAcc)
	return rep
}

// voteKey classifies an accepted vote whose first entry is not a member's valid signature.
func voteKey(n int, es []*entry) string {
	if len(es) == 0 {
		return "c14.vote_without_signature_accepted"
	}
	t := tallyOf(n, collector, es[:1])
	switch {
	case t.NonMember > 0:
		return "c14.vote_non_member_accepted"
	case t.OtherID > 0 || t.Corrupt > 0:
		return "c14.vote_invalid_signature_accepted"
	case t.Mismatch > 0:
		return "c14.vote_address_key_mismatch_accepted"
	}
	return "c14.vote_accepted_without_valid_member_signature"
}

func mustCheck(d *bcsDriver, es []*entry) bool {
	ok, err := d.check(es)
	if err != nil {
		core.HarnessError("C14: %s fixture: %v", d.name, err)
	}
	return ok
}

func strMap(m map[int]int) map[string]int {
	out := map[string]int{}
	for k, v := range m {
		out[fmt.Sprintf("n=%d", k)] = v
	}
	return out
}

func replay(raw json.RawMessage) (bool, string, error) {
	var c Case
	if err := json.Unmarshal(raw, &c); err != nil {
		return false, "", err
	}
	world.Init()
	if c.Seam == "CalVotesThreshold" {
		got := newRules("V2").CalVotesThreshold(c.Input, c.N)
		want := c.Input >= threshold(c.N)
		return got != want, fmt.Sprintf("CalVotesThreshold(%d,%d)=%v formula=%v", c.Input, c.N, got, want), nil
	}
	if c.N < 1 || c.N > 10 {
		return false, "", fmt.Errorf("n out of range")
	}
	es := make([]*entry, len(c.Entries))
	for i, t := range c.Entries {
		e, err := parseEntry(t)
		if err != nil {
			return false, "", err
		}
		es[i] = e
	}
	switch c.Seam {
	case "CheckProposal":
		r := newRules("V2")
		acc, t := evalProposal(r, c.N, es)
		bad := acc && t.Distinct < t.Threshold
		msg := fmt.Sprintf("CheckProposal n=%d entries=%v accepted=%v distinct=%d needed=%d", c.N, c.Entries, acc, t.Distinct, t.Threshold)
		if bad {
			msg += " class=" + keyFor(c.N, es, t, func(x []*entry) bool { return acceptsProposal(r, c.N, x) })
		}
		return bad, msg, nil
	case "CheckVote":
		acc, t := evalVote(newRules(collector), c.N, es)
		msg := fmt.Sprintf("CheckVote n=%d entries=%v accepted=%v first_is_valid_member=%v", c.N, c.Entries, acc, t.FirstIsMember)
		if acc && !t.FirstIsMember {
			msg += " class=" + voteKey(c.N, es)
		}
		return acc && !t.FirstIsMember, msg, nil
	case "tdpos.CheckMinerMatch", "xpoa.CheckMinerMatch":
		drv, err := newBcs(strings.TrimSuffix(c.Seam, ".CheckMinerMatch"), c.N)
		if err != nil {
			return false, "", err
		}
		defer drv.stop()
		acc, err := drv.check(es)
		if err != nil {
			return false, "", err
		}
		t := tallyOf(c.N, collector, es)
		return acc && t.Distinct < t.Threshold, fmt.Sprintf("%s n=%d entries=%v accepted=%v distinct=%d needed=%d", c.Seam, c.N, c.Entries, acc, t.Distinct, t.Threshold), nil
	}
	return false, "", fmt.Errorf("unknown seam %q", c.Seam)
}

func init() {
	core.Register(&core.Check{ID: "C14", Run: run, Replay: replay})
}
