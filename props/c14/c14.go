// Package c14: quorum certificates need a quorum of distinct, valid validator
// signatures. Exhaustive bounded enumeration of signature lists (multisets over
// entry kinds, in two orders, a repeated member in every spelling of its
// further entries: identical, re-signed, re-encoded - sigs.go) against the real
// DefaultSaftyRules obtained through Smr.GetSaftyRules, and against tdpos /
// xpoa CheckMinerMatch with chained-BFT enabled; every list is judged by a
// history-free instance and by long-lived instances that were first shown
// honest traffic (hist.go): what an instance verified before must not change
// its verdict on a certificate. change.go adds the chains on which the
// validator set CHANGES between the certified view and the carrying block;
// shape.go adds the ENCODING of the carrying block's consensus storage (justify
// absent / null / empty / mistyped, storage not an object, signature container
// absent / empty, ...) above, at and below the chained-BFT start height.
package c14

import (
	"container/list"
	"encoding/json"
	"fmt"
	"os"
	"sort"
	"strings"
	"sync"
	"syscall"
	"time"

	bft "github.com/xuperchain/xupercore/kernel/consensus/base/driver/chained-bft"
	bftcrypto "github.com/xuperchain/xupercore/kernel/consensus/base/driver/chained-bft/crypto"
	bftpb "github.com/xuperchain/xupercore/kernel/consensus/base/driver/chained-bft/pb"
	cctx "github.com/xuperchain/xupercore/kernel/consensus/context"

	"verif/core"
	"verif/world"
)

const collector = "V1"

// Case is the replayable description of one evaluation.
type Case struct {
	Seam      string   `json:"seam"` // CheckProposal | CheckVote | CalVotesThreshold | tdpos.CheckMinerMatch | xpoa.CheckMinerMatch
	N         int      `json:"n"`    // validator set V1..Vn
	Collector string   `json:"collector,omitempty"`
	Entries   []string `json:"entries"`         // ordered signature entries (tokens, see sigs.go)
	Input     int      `json:"input,omitempty"` // CalVotesThreshold only
	// what the judging instance saw before (hist.go); all empty: a fresh instance
	History      []string   `json:"history,omitempty"`       // honest steps, in order
	Earlier      [][]string `json:"earlier,omitempty"`       // then these certificates, each EarlierTimes times
	EarlierTimes int        `json:"earlier_times,omitempty"` // (the history-free instance is shown every list twice)
	Times        int        `json:"times,omitempty"`         // the list is presented Times times, the last verdict is judged
	// validator-set change dimension (change.go); Old empty: the fixed set V1..Vn
	Old         []string `json:"old_set,omitempty"`               // validator set before the change, schedule order
	New         []string `json:"new_set,omitempty"`               // validator set after the change
	Effective   string   `json:"new_set_in_force_from,omitempty"` // carrying_view-1 | carrying_view | carrying_view+1
	ClaimedView string   `json:"claimed_view,omitempty"`          // view the certificate claims for the certified id: "" (true) | true_view+1 | true_view-1 | true_view+2
	// storage-shape dimension (shape.go); Shape empty: the certificate is carried in the canonical encoding
	Shape         string     `json:"storage_shape,omitempty"`    // name of the shape of the carrying block's consensus storage (shapeCatalogue)
	StartHeight   int64      `json:"bft_start_height,omitempty"` // chained-BFT start height of the instance
	Height        int64      `json:"block_height,omitempty"`     // height of the carrying block
	EarlierBlocks []ShapeRef `json:"earlier_blocks,omitempty"`   // blocks the instance was shown before (after History)
}

func (c Case) hasPast() bool { return len(c.History) > 0 || len(c.Earlier) > 0 || c.Times > 1 }

func address(name string) *cctx.Address {
	k := world.Keys[name]
	return &cctx.Address{Address: k.Address, PrivateKeyStr: k.PriJSON, PublicKeyStr: k.PubJSON, PrivateKey: k.Priv, PublicKey: &k.Priv.PublicKey}
}

func qc(id []byte, view int64, parent []byte, pview int64, signs []*bftpb.QuorumCertSign) *bft.QuorumCert {
	return &bft.QuorumCert{VoteInfo: &bft.VoteInfo{ProposalId: id, ProposalView: view, ParentId: parent, ParentView: pview}, SignInfos: signs}
}

// rules is the narrow view of the (unexported) interface Smr.GetSaftyRules returns.
type rules interface {
	CheckProposal(proposal, parent bft.QuorumCertInterface, justifyValidators []string) error
	CheckVote(qc bft.QuorumCertInterface, logid string, validators []string) error
	CalVotesThreshold(input, sum int) bool
}

// newRules builds a real DefaultSaftyRules (real CBFTCrypto of the local node
// `self`) over a pending tree idRoot <- idCert and hands it out the way the
// consensus plug-ins reach it: through Smr.GetSaftyRules.
func newRules(self string) rules {
	root := &bft.ProposalNode{In: &bft.QuorumCert{VoteInfo: &bft.VoteInfo{ProposalId: idRoot, ProposalView: 0}, LedgerCommitInfo: &bft.LedgerCommitInfo{CommitStateId: idRoot}}}
	cert := &bft.ProposalNode{In: &bft.QuorumCert{VoteInfo: &bft.VoteInfo{ProposalId: idCert, ProposalView: 1, ParentId: idRoot, ParentView: 0}}}
	root.Sons = append(root.Sons, cert)
	tree := &bft.QCPendingTree{Genesis: root, Root: root, HighQC: cert, CommitQC: root, Log: world.NopLogger{}, OrphanList: list.New(), OrphanMap: map[string]bool{}}
	cc := bftcrypto.NewCBFTCrypto(address(self), world.Crypto)
	sr := &bft.DefaultSaftyRules{Crypto: cc, QcTree: tree, Log: world.NopLogger{}}
	smr := bft.NewSmr(world.BCName, world.Addr(self), world.NopLogger{}, nil, cc, &bft.DefaultPaceMaker{CurrentView: 1}, sr, nil, tree)
	return smr.GetSaftyRules()
}

func signsOf(es []*entry) []*bftpb.QuorumCertSign {
	out := make([]*bftpb.QuorumCertSign, len(es))
	for i, e := range es {
		out[i] = e.sign
	}
	return out
}

var (
	addrsOf      [11][]string // validator addresses of V1..Vn, by n
	proposalSign *bftpb.QuorumCertSign
	prepOnce     sync.Once
)

func prep() {
	prepOnce.Do(func() {
		for n := 1; n <= 10; n++ {
			_, addrsOf[n] = members(n)
		}
		// the proposal is signed by its proposer = the collector of the certificate it carries
		ce, err := parseEntry(collector + ":otherid") // the collector's signature over the proposal's own id
		if err != nil {
			panic(err)
		}
		proposalSign = ce.sign
	})
}

// acceptsProposal asks CheckProposal about one signature list.
func acceptsProposal(r rules, n int, es []*entry) bool {
	prep()
	proposal := qc(idProp, 2, idCert, 1, []*bftpb.QuorumCertSign{proposalSign})
	parent := qc(idCert, 1, idRoot, 0, signsOf(es))
	return r.CheckProposal(proposal, parent, addrsOf[n]) == nil
}

// evalProposal runs CheckProposal on one case and judges it.
func evalProposal(r rules, n int, es []*entry) (accepted bool, t tally) {
	return acceptsProposal(r, n, es), tallyOf(n, collector, es)
}

// keyFor classifies an acceptance below quorum by the first sufficient cause:
// the counting entries alone (then the threshold is at fault), or the counting
// entries plus the entries of one kind that must not count.
func keyFor(n int, es []*entry, t tally, accepts func([]*entry) bool) string {
	ks := kindsOf(n, collector, es)
	firstCollector := -1
	for i := range es {
		if ks[i] == "collector" && firstCollector < 0 {
			firstCollector = i
		}
	}
	sub := func(kinds ...string) []*entry {
		var out []*entry
		for i, e := range es {
			if ks[i] == "first" || i == firstCollector { // the entries the model counts (tallyOf)
				out = append(out, e)
				continue
			}
			for _, k := range kinds {
				if ks[i] == k {
					out = append(out, e)
				}
			}
		}
		return out
	}
	d := sub()
	if len(d) == len(es) || accepts(d) {
		return "c14.accepted_below_quorum"
	}
	for _, c := range []struct {
		key   string
		kinds []string
	}{
		{"c14.repeated_member_signature_counts", []string{"repeat"}},
		{"c14.collector_own_signature_counts", []string{"collector"}},
		{"c14.repeated_member_signature_counts", []string{"repeat", "collector"}},
		{"c14.non_member_signature_counts", []string{"nonmember"}},
		{"c14.signature_over_another_id_counts", []string{"otherid"}},
		{"c14.invalid_signature_counts", []string{"corrupt"}},
		{"c14.address_key_mismatch_counts", []string{"mismatch"}},
	} {
		if l := sub(c.kinds...); len(l) > len(d) && accepts(l) {
			if c.key != "c14.non_member_signature_counts" && len(c.kinds) > 0 && (c.kinds[0] == "repeat" || c.kinds[0] == "collector") {
				// further entries of a member (or of the collector) count: in any spelling, or only in other bytes?
				if k := repeatKey(l, accepts); k != "c14.repeated_member_signature_counts" {
					return k
				}
			}
			return c.key
		}
	}
	return t.classify() // several kinds together
}

// repeatKey tells WHICH repeats count: identical copies of one entry (then
// every repeat does), or only repeats in other bytes - the member's public key
// re-encoded, or other signature bytes of the same member (re-signed, or the
// signature re-encoded).
func repeatKey(l []*entry, accepts func([]*entry) bool) string {
	first := map[string]*entry{}
	same := make([]*entry, len(l))
	otherKey, otherSig := false, false
	for i, e := range l {
		f, ok := first[e.addr]
		if !ok {
			first[e.addr] = e
			same[i] = e
			continue
		}
		same[i] = f
		if e.sign.PublicKey != f.sign.PublicKey {
			otherKey = true
		}
		if string(e.sign.Sign) != string(f.sign.Sign) {
			otherSig = true
		}
	}
	switch {
	case !otherKey && !otherSig, accepts(same):
		return "c14.repeated_member_signature_counts"
	case otherKey:
		return "c14.repeated_member_reencoded_public_key_counts"
	}
	return "c14.repeated_member_other_signature_bytes_counts"
}

func evalVote(r rules, n int, es []*entry) (accepted bool, t tally) {
	prep()
	vote := qc(idCert, 1, idRoot, 0, signsOf(es))
	err := r.CheckVote(vote, "c14", addrsOf[n])
	return err == nil, tallyOf(n, collector, es)
}

// ---------------------------------------------------------------------------
// enumeration of multisets

// kinds of one validator-set size, in canonical order. A kind's k-th copy is
// turned into a token by tok(k, fresh, badSeq).
type kind struct {
	name   string
	member int // >0: valid signature of V<member>
}

func kindsFor(n int) []kind {
	var ks []kind
	for i := 2; i <= n; i++ {
		ks = append(ks, kind{name: "member", member: i})
	}
	ks = append(ks, kind{name: "collector", member: 1}, kind{name: "nonmember"}, kind{name: "otherid"}, kind{name: "corrupt"}, kind{name: "empty"})
	if n >= 2 {
		ks = append(ks, kind{name: "key=member"})
	}
	ks = append(ks, kind{name: "key=X"})
	return ks
}

// tokens renders a multiset (counts per kind) as the canonical ordered token list.
// Entries that must not count and need a member's address take the members from
// the top (Vn, Vn-1, ...), i.e. preferably members that did not sign validly.
//
// mode says how the further copies (c >= 1) of a repeated member are spelled:
// modeSame identical copies of the entry, modeFresh other signatures of the
// same member over the same id (Vi#c), modeReenc+r the entry re-encoded, copy c
// with re-encoding (r+c-1) mod R of the R accepted ones (so that two copies
// never coincide while R allows it).
func tokens(n int, ks []kind, counts []int, mode int) []string {
	renc := reencodingNames()
	var out []string
	bad := 0
	nextBad := func() int {
		m := n - bad%n
		bad++
		return m
	}
	for ki, k := range ks {
		for c := 0; c < counts[ki]; c++ {
			switch k.name {
			case "member", "collector":
				switch {
				case c == 0 || mode == modeSame:
					out = append(out, vname(k.member))
				case mode == modeFresh:
					out = append(out, fmt.Sprintf("%s#%d", vname(k.member), c))
				default:
					out = append(out, vname(k.member)+"~"+renc[(mode-modeReenc+c-1)%len(renc)])
				}
			case "nonmember":
				out = append(out, "X")
			case "otherid", "corrupt", "empty":
				out = append(out, vname(nextBad())+":"+k.name)
			case "key=member":
				m := nextBad()
				o := m - 1
				if o < 1 {
					o = n
				}
				out = append(out, fmt.Sprintf("%s:key=%s", vname(m), vname(o)))
			case "key=X":
				out = append(out, vname(nextBad())+":key=X")
			}
		}
	}
	return out
}

const (
	modeSame = iota
	modeFresh
	modeReenc
)

const (
	reencNone = iota
	reencOnce
	reencAll
)

// reencFor: all re-encodings up to validator-set size allN, one rotating spelling up to onceN, none above.
func reencFor(n, allN, onceN int) int {
	switch {
	case n <= allN:
		return reencAll
	case n <= onceN:
		return reencOnce
	}
	return reencNone
}

// forEachMultiset calls f with every count vector over len(ks) kinds of total size <= max.
func forEachMultiset(nk, max int, f func(counts []int)) {
	counts := make([]int, nk)
	var rec func(i, left int)
	rec = func(i, left int) {
		if i == nk {
			f(counts)
			return
		}
		for c := 0; c <= left; c++ {
			counts[i] = c
			rec(i+1, left-c)
		}
		counts[i] = 0
	}
	rec(0, max)
}

func reversed(s []string) []string {
	out := make([]string, len(s))
	for i, x := range s {
		out[len(s)-1-i] = x
	}
	return out
}

// forEachCase streams every case of validator-set size n (lists of size <= max):
// every multiset, in canonical and reversed order; a multiset that repeats a
// member in every spelling of the repeats: identical copies, fresh signatures,
// and re-encoded (see tokens) in `reenc` spellings: reencAll = once per
// accepted re-encoding r (copy c takes re-encoding r+c-1), reencOnce = once (r=0:
// copy c takes re-encoding c-1, so the copies still run through the alphabet),
// reencNone = not at all. ms is the index of the multiset (all spellings of one
// multiset share it).
func forEachCase(n, max int, reenc int, f func(ms int, toks []string)) int {
	ks := kindsFor(n)
	modes := modeReenc
	switch reenc {
	case reencOnce:
		modes = modeReenc + 1
	case reencAll:
		modes = modeReenc + len(reencodingNames())
	}
	total, ms := 0, 0
	emit := func(t []string) {
		total++
		f(ms, t)
		r := reversed(t)
		if strings.Join(r, ",") != strings.Join(t, ",") {
			total++
			f(ms, r)
		}
	}
	forEachMultiset(len(ks), max, func(counts []int) {
		hasRepeat := false
		for ki, k := range ks {
			if k.member > 0 && counts[ki] >= 2 {
				hasRepeat = true
			}
		}
		emit(tokens(n, ks, counts, modeSame))
		if hasRepeat {
			for m := modeFresh; m < modes; m++ {
				emit(tokens(n, ks, counts, m))
			}
		}
		ms++
	})
	return total
}

func nonTrivial(t tally) bool {
	return t.Repeats+t.Collector+t.NonMember+t.OtherID+t.Corrupt+t.Mismatch > 0
}

// best keeps, per violation key, the smallest counterexample (n, length, text).
type best struct {
	mu sync.Mutex
	m  map[string]core.Violation
	c  map[string]Case
}

func less(a, b Case) bool {
	if len(a.Old) > 0 && len(b.Old) > 0 {
		return lessChange(a, b)
	}
	if ca, cb := exotic(a), exotic(b); ca != cb {
		return ca < cb
	}
	if a.N != b.N {
		return a.N < b.N
	}
	if len(a.Entries) != len(b.Entries) {
		return len(a.Entries) < len(b.Entries)
	}
	if ja, jb := strings.Join(a.Entries, ","), strings.Join(b.Entries, ","); ja != jb {
		return ja < jb
	}
	if a.Seam != b.Seam {
		return a.Seam < b.Seam
	}
	if a.Shape != b.Shape {
		return a.Shape < b.Shape
	}
	return a.Height < b.Height
}

// exotic counts entries in the collector's name, fresh re-signatures and
// re-encodings, and what the instance must have seen before: the reported
// counterexample prefers plain ones.
func exotic(c Case) int {
	k := 0
	for _, t := range c.Entries {
		name := t
		if i := strings.IndexAny(t, ":#~"); i >= 0 {
			name = t[:i]
		}
		if name == collector {
			k++
		}
		if strings.ContainsAny(t, "#~") {
			k++
		}
	}
	return k + len(c.History) + 100*len(c.Earlier) + c.Times + 100*len(c.EarlierBlocks)
}

func (b *best) offer(c Case, v core.Violation) {
	b.mu.Lock()
	defer b.mu.Unlock()
	if old, ok := b.c[v.Key]; ok && !less(c, old) {
		return
	}
	v.Case = c
	b.m[v.Key] = v
	b.c[v.Key] = c
}

type counters struct {
	mu                                                   sync.Mutex
	evals, accepted, rejected, nontrivial, rejectedAbove int
	violations                                           map[string]int
	acceptedByN                                          map[int]int
}

func proposalViolation(seam string, n int, toks []string, key string, t tally) (Case, core.Violation) {
	c := Case{Seam: seam, N: n, Collector: collector, Entries: toks}
	return c, core.Violation{
		Key:      key,
		Summary:  fmt.Sprintf("%s accepted a certificate for n=%d validators (collector %s) with entries %v: %d distinct members besides the collector validly signed the certified id, %d needed", seam, n, collector, toks, t.Distinct, t.Threshold),
		Expected: fmt.Sprintf("refused: fewer than n-floor((n-1)/3)-1 = %d distinct non-collector members signed", t.Threshold),
		Observed: fmt.Sprintf("accepted (model tally %+v)", t),
	}
}

// shards is the fixed number of long-lived instance sets the cases are dealt
// to (multiset index mod shards), independent of the machine: which instance
// saw which cases before is part of the described space.
const shards = 32

type job struct {
	n    int
	toks []string
	es   []*entry
}

// pastViolation reports a below-quorum acceptance that needs a past.
func pastViolation(bst *best, viol map[string]int, c Case, base, need string, what string) {
	key := histKey(need, base)
	viol[c.Seam+" "+key]++
	bst.offer(c, core.Violation{Key: key, Summary: histSummary(c, what),
		Expected: "refused, as by a fresh instance: what an instance verified before must not change the verdict on a certificate",
		Observed: "accepted"})
}

func run(tier core.Tier) *core.Report {
	rep := core.NewReport("C14", tier, "exploration")
	world.Init()
	prep()
	// maxN/capSize: the case space; histSingleN: validator sets shown to the single-step histories;
	// bcs: tdpos / xpoa
	// reencAllN: validator sets whose repeats are spelled once per re-encoding (above: once, rotating)
	// (above, up to reencOnceN: once, with rotating re-encodings; above that: identical and fresh copies only)
	// chgMaxSet / chgMaxSigners / chgMaxLieSigners: validator-set change dimension (change.go): sizes of the old
	// and the new set, size of the signer multisets under the true / under another claimed view
	maxN, capSize, histSingleN, reencAllN, reencOnceN, maxNBcs, reencAllNBcs := 7, 6, 4, 3, 5, 4, 3
	chgMaxSet, chgMaxSigners, chgMaxLieSigners := 4, 4, 3
	// shapeMaxN / shapeBaseSize: storage-shape dimension (shape.go): validator sets, size of the enumerated base lists
	shapeMaxN, shapeBaseSize := 4, 1
	if tier == core.Thorough {
		shapeMaxN, shapeBaseSize = 5, 3
		maxN, capSize, histSingleN, reencAllN, reencOnceN, maxNBcs, reencAllNBcs = 10, 8, 6, 5, 7, 5, 4
		chgMaxSet, chgMaxSigners, chgMaxLieSigners = 5, 5, 4
	}
	t0 := time.Now()
	phase := func(name string) {
		if os.Getenv("C14_TIMING") != "" {
			var ru syscall.Rusage
			_ = syscall.Getrusage(syscall.RUSAGE_SELF, &ru)
			fmt.Fprintf(os.Stderr, "C14 phase %s done at %.1fs (cpu %.1fs)\n", name, time.Since(t0).Seconds(),
				float64(ru.Utime.Sec+ru.Stime.Sec)+float64(ru.Utime.Usec+ru.Stime.Usec)/1e6)
		}
	}
	renc, rencRefused := reencodings()
	if len(renc) == 0 {
		core.HarnessError("C14: the crypto client accepts no re-encoding of a public key or signature: the repeated-member-in-other-bytes dimension would be empty")
	}
	hists := historiesFor(historySteps, maxN, histSingleN)
	bst := &best{m: map[string]core.Violation{}, c: map[string]Case{}}
	cnt := &counters{violations: map[string]int{}, acceptedByN: map[int]int{}}
	hst := &histStats{}

	// --- CalVotesThreshold against the formula -------------------------------
	r0 := newRules("V2")
	thr := 0
	for n := 1; n <= 10; n++ {
		for in := 0; in <= n; in++ {
			got := r0.CalVotesThreshold(in, n)
			want := in >= threshold(n)
			thr++
			if got != want {
				c := Case{Seam: "CalVotesThreshold", N: n, Input: in}
				kind := "too_low"
				if want {
					kind = "too_high"
				}
				bst.offer(c, core.Violation{Key: "c14.threshold_" + kind, Summary: fmt.Sprintf("CalVotesThreshold(%d, %d) = %v, formula input >= n-floor((n-1)/3)-1 = %d says %v", in, n, got, threshold(n), want)})
				cnt.violations["CalVotesThreshold c14.threshold_"+kind]++
			}
		}
	}
	rep.Set("threshold_pairs", thr)
	rep.Set("threshold_n0_observed", fmt.Sprintf("CalVotesThreshold(0,0)=%v (empty validator set, outside the quantifier; CheckProposal refuses nil validators only)", r0.CalVotesThreshold(0, 0)))

	// --- CheckProposal: all multisets x all histories -------------------------
	perN := map[string]int{}
	var wg sync.WaitGroup
	var chans [shards]chan job
	for w := 0; w < shards; w++ {
		chans[w] = make(chan job, 256)
		wg.Add(1)
		go func(ch chan job) {
			defer wg.Done()
			loc := counters{violations: map[string]int{}, acceptedByN: map[int]int{}}
			lh := &histStats{}
			var set *primedSet
			for j := range ch {
				if set == nil || set.n != j.n {
					set = newPrimedSet("V2", j.n, hists, lh)
				}
				t := tallyOf(j.n, collector, j.es)
				below := t.Distinct < t.Threshold
				accNone := false
				for hi, h := range set.hists {
					acc := acceptsProposal(set.inst[hi], j.n, j.es)
					if hi == 0 { // the history-free instance: the counts of the statement's space
						accNone = acc
						loc.evals++
						if nonTrivial(t) {
							loc.nontrivial++
						}
						if acc {
							loc.accepted++
							loc.acceptedByN[j.n]++
						} else {
							loc.rejected++
							if !below {
								loc.rejectedAbove++
							}
						}
						if j.n <= histSingleN {
							lh.again++
							if again := acceptsProposal(set.inst[hi], j.n, j.es); again != acc {
								lh.againDiffers++
								acc = acc || again
							}
						}
					} else {
						lh.evals++
						if acc {
							lh.accepted++
						} else {
							lh.rejected++
						}
						if acc != accNone {
							if acc {
								lh.differsAccept++
							} else {
								lh.differsRefuse++
							}
						}
					}
					if !acc || !below {
						continue
					}
					// accepted below quorum: first on a blank instance (then no past is needed) ...
					if fr := newRules("V2"); acceptsProposal(fr, j.n, j.es) {
						if hi == 0 {
							key := keyFor(j.n, j.es, t, func(x []*entry) bool { return acceptsProposal(fr, j.n, x) })
							c, v := proposalViolation("CheckProposal", j.n, j.toks, key, t)
							loc.violations["CheckProposal "+v.Key]++
							bst.offer(c, v)
						}
						continue
					}
					// ... else it took what this long-lived instance saw before
					lh.suspected++
					if set.conf[hi] >= maxConfirm {
						continue
					}
					set.conf[hi]++
					et := 1
					if hi == 0 && j.n <= histSingleN {
						et = 2
					}
					c, r, need := explain("V2", "CheckProposal", j.n, h, j.toks, set.seen, et)
					if r == nil {
						lh.unconfirmed++
						continue
					}
					lh.confirmed++
					base := keyFor(j.n, j.es, t, func(x []*entry) bool { return acceptsProposal(r, j.n, x) })
					pastViolation(bst, loc.violations, c, base, need, fmt.Sprintf("%d distinct members validly signed the certified id, %d needed", t.Distinct, t.Threshold))
				}
				set.seen = append(set.seen, j.toks)
			}
			cnt.mu.Lock()
			cnt.evals += loc.evals
			cnt.accepted += loc.accepted
			cnt.rejected += loc.rejected
			cnt.nontrivial += loc.nontrivial
			cnt.rejectedAbove += loc.rejectedAbove
			for k, v := range loc.violations {
				cnt.violations[k] += v
			}
			for k, v := range loc.acceptedByN {
				cnt.acceptedByN[k] += v
			}
			hst.add(lh)
			cnt.mu.Unlock()
		}(chans[w])
	}
	complete := true
	var sampleToks [][]string
	reencCases, reuseCases, sampledReenc := 0, 0, false
	// the producer builds every signature once (memoised), so workers only read
	for n := 1; n <= maxN && complete; n++ {
		max := n + 1
		if max > capSize {
			max = capSize
		}
		sent := 0
		total := forEachCase(n, max, reencFor(n, reencAllN, reencOnceN), func(ms int, toks []string) {
			if !complete {
				return
			}
			if sent%8192 == 0 && rep.Expired() {
				complete = false
				return
			}
			sent++
			joined := strings.Join(toks, ",")
			reenc := strings.Contains(joined, "~")
			if reenc {
				reencCases++
			}
			if strings.Contains(joined, ":otherid") {
				reuseCases++
			}
			if n == 4 && (len(toks) == 2 && toks[0] == "V2" && toks[1] == "V3" || sent == 4000 || reenc && !sampledReenc && len(toks) == 3) {
				sampleToks = append(sampleToks, toks)
				sampledReenc = sampledReenc || reenc
			}
			chans[ms%shards] <- job{n, toks, mustEntries(toks)}
		})
		perN[fmt.Sprintf("n=%d(size<=%d)", n, max)] = total
	}
	for w := range chans {
		close(chans[w])
	}
	wg.Wait()
	phase("proposal")
	rep.Set("proposal_cases", cnt.evals)
	rep.Set("proposal_cases_per_n", perN)
	rep.Set("proposal_accepted", cnt.accepted)
	rep.Set("proposal_rejected", cnt.rejected)
	rep.Set("proposal_accepted_per_n", strMap(cnt.acceptedByN))
	rep.Set("proposal_rejected_although_quorum_present", cnt.rejectedAbove)
	rep.Set("proposal_cases_with_a_reencoded_repeat", reencCases)
	rep.Set("proposal_cases_reusing_a_vote_the_history_verified_for_the_other_id", reuseCases)
	rep.Set("reencodings_accepted_by_the_crypto_client", reencodingNames())
	rep.Set("reencodings_refused_by_the_crypto_client", rencRefused)
	rep.Set("histories", historyNames(hists))
	rep.Set("history_shards", shards)
	hst.report(rep, "proposal_")

	// --- CheckVote: every vote x every history ----------------------------------
	voteEvals, voteAcc := 0, 0
	vst := &histStats{}
	var rvNone rules
	for n := 1; n <= maxN; n++ {
		firsts := []string{}
		for i := 1; i <= n; i++ {
			firsts = append(firsts, vname(i))
		}
		top := vname(n)
		firsts = append(firsts, "X", "X:otherid", top+":otherid", top+":corrupt", top+":empty", top+":key=X", "X:key="+top)
		if n >= 2 {
			firsts = append(firsts, fmt.Sprintf("%s:key=%s", top, vname(n-1)))
		}
		if n < 10 {
			firsts = append(firsts, vname(n+1), vname(n+1)+":otherid") // a validator of a larger set, not of this one
		}
		for _, r := range renc {
			firsts = append(firsts, top+"~"+r.name)
		}
		seconds := []string{"", top, "X", top + ":corrupt"}
		lists := [][]string{{}}
		for _, f := range firsts {
			for _, s := range seconds {
				if s == "" {
					lists = append(lists, []string{f})
				} else {
					lists = append(lists, []string{f, s})
				}
			}
		}
		set := newPrimedSet(collector, n, historiesFor(historySteps, maxN, maxN), vst) // the collector checks incoming votes
		rvNone = set.inst[0]
		for _, toks := range lists {
			es := mustEntries(toks)
			t := tallyOf(n, collector, es)
			accNone := false
			for hi, h := range set.hists {
				acc, _ := evalVote(set.inst[hi], n, es)
				if hi == 0 {
					accNone = acc
					voteEvals++
					if acc {
						voteAcc++
					}
					vst.again++
					if again, _ := evalVote(set.inst[hi], n, es); again != acc {
						vst.againDiffers++
						acc = acc || again
					}
				} else {
					vst.evals++
					if acc {
						vst.accepted++
					} else {
						vst.rejected++
					}
					if acc != accNone {
						if acc {
							vst.differsAccept++
						} else {
							vst.differsRefuse++
						}
					}
				}
				if !acc || t.FirstIsMember {
					continue
				}
				if fr, _ := evalVote(newRules(collector), n, es); fr {
					if hi == 0 {
						c := Case{Seam: "CheckVote", N: n, Collector: collector, Entries: toks}
						key := voteKey(n, es)
						cnt.violations["CheckVote "+key]++
						bst.offer(c, core.Violation{Key: key, Summary: fmt.Sprintf("CheckVote accepted a vote for n=%d validators whose first signature entry (of %v) is not a member's valid signature over the voted id", n, toks),
							Expected: "refused", Observed: "accepted (the collector then counts this vote towards the threshold)"})
					}
					continue
				}
				vst.suspected++
				et := 1
				if hi == 0 {
					et = 2
				}
				c, r, need := explain(collector, "CheckVote", n, h, toks, set.seen, et)
				if r == nil {
					vst.unconfirmed++
					continue
				}
				vst.confirmed++
				pastViolation(bst, cnt.violations, c, voteKey(n, es), need, "its first signature entry is not a member's valid signature over the voted id")
			}
			set.seen = append(set.seen, toks)
		}
	}
	phase("vote")
	rep.Set("vote_cases", voteEvals)
	rep.Set("vote_accepted", voteAcc)
	vst.report(rep, "vote_")

	// --- tdpos / xpoa CheckMinerMatch with BFT enabled, small n ---------------
	type bcsOut struct {
		evals, acc, fullRefused, primedEvals, primedAcc, stepsAcc, stepsRef, differs, below, suspected, unconfirmed int
		samples                                                                                                     []interface{}
		violations                                                                                                  map[string]int
		expired                                                                                                     bool
	}
	// one pair of long-lived instances (history-free, primed) per consensus, validator-set size and
	// shard of the multisets (fixed deal, as above)
	type bcsJob struct {
		name             string
		n, shard, nshard int
	}
	var bjobs []bcsJob
	for _, name := range []string{"tdpos", "xpoa"} {
		for n := 1; n <= maxNBcs; n++ {
			ns := 1
			if n >= 4 {
				ns = 4 * (n - 3)
			}
			for sh := 0; sh < ns; sh++ {
				bjobs = append(bjobs, bcsJob{name, n, sh, ns})
			}
		}
	}
	bcsInstances := 2 * len(bjobs)
	bouts := make([]bcsOut, len(bjobs))
	var bwg sync.WaitGroup
	for bi := range bjobs {
		bwg.Add(1)
		go func(bi int) {
			defer bwg.Done()
			name, n, o := bjobs[bi].name, bjobs[bi].n, &bouts[bi]
			shard, nshard := bjobs[bi].shard, bjobs[bi].nshard
			o.violations = map[string]int{}
			drv, err := newBcs(name, n)
			if err != nil {
				core.HarnessError("C14: cannot construct %s with %d validators: %v", name, n, err)
			}
			defer drv.stop()
			// the second long-lived instance has first accepted honest blocks: one justified by the honest
			// certificate for the OTHER id, one by the honest certificate for the certified id
			prm, err := newBcs(name, n)
			if err != nil {
				core.HarnessError("C14: cannot construct %s with %d validators: %v", name, n, err)
			}
			defer prm.stop()
			a, rf := prm.prime(bcsHistory)
			o.stepsAcc, o.stepsRef = a, rf
			if full := drv.fullVotes(); shard == 0 && !mustCheck(drv, full) {
				// every other validator signed and the block is refused: the fixture's fault unless
				// CheckProposal itself refuses the same certificate (then the acceptance count shows it)
				if acceptsProposal(newRules("V2"), n, full) {
					core.HarnessError("C14: %s fixture with %d validators refuses a block carrying all votes that CheckProposal accepts", name, n)
				}
				o.fullRefused++
			}
			idx, explained := 0, 0
			var seen [][]string
			var pool []*bcsDriver // fresh instances made to explain an acceptance, stopped when the shard is done
			defer func() {
				for _, d := range pool {
					d.stop()
				}
			}()
			forEachCase(n, n+1, reencFor(n, reencAllNBcs, maxNBcs), func(ms int, toks []string) {
				if o.expired || ms%nshard != shard {
					return
				}
				if idx%512 == 0 && rep.Expired() {
					o.expired = true
					return
				}
				es := mustEntries(toks)
				acc := mustCheck(drv, es)
				accP := mustCheck(prm, es)
				t := tallyOf(n, collector, es)
				o.evals++
				o.primedEvals++
				if idx++; n == 4 && shard == 0 && idx == 400 {
					o.samples = append(o.samples, map[string]interface{}{"case": Case{Seam: name + ".CheckMinerMatch", N: n, Collector: collector, Entries: toks}, "accepted": acc, "accepted_after_history": accP, "distinct_valid_non_collector_members": t.Distinct, "needed": t.Threshold})
				}
				if acc {
					o.acc++
				}
				if accP {
					o.primedAcc++
				}
				if acc != accP {
					o.differs++
				}
				if (acc || accP) && t.Distinct < t.Threshold {
					o.below++
					if explained < maxConfirm {
						explained++
						seam := name + ".CheckMinerMatch"
						c, d, need := explainBcs(name, n, toks, seen, &pool)
						switch {
						case d == nil:
							o.unconfirmed++
						case need == "nothing":
							key := keyFor(n, es, t, func(x []*entry) bool { return mustCheck(d, x) })
							c, v := proposalViolation(seam, n, toks, key, t)
							o.violations[seam+" "+v.Key]++
							bst.offer(c, v)
						default:
							o.suspected++
							base := keyFor(n, es, t, func(x []*entry) bool { return mustCheck(d, x) })
							pastViolation(bst, o.violations, c, base, need, fmt.Sprintf("%d distinct members validly signed the certified id, %d needed", t.Distinct, t.Threshold))
						}
					}
				}
				seen = append(seen, toks)
			})
		}(bi)
	}
	bwg.Wait()
	phase("bcs")
	bcsEvals, bcsAcc, bcsFullRefused := 0, 0, 0
	var bcsSamples []interface{}
	bsum := bcsOut{}
	for i := range bouts {
		o := &bouts[i]
		bcsEvals += o.evals
		bcsAcc += o.acc
		bcsFullRefused += o.fullRefused
		bcsSamples = append(bcsSamples, o.samples...)
		bsum.primedEvals += o.primedEvals
		bsum.primedAcc += o.primedAcc
		bsum.stepsAcc += o.stepsAcc
		bsum.stepsRef += o.stepsRef
		bsum.differs += o.differs
		bsum.below += o.below
		bsum.suspected += o.suspected
		bsum.unconfirmed += o.unconfirmed
		for k, v := range o.violations {
			cnt.violations[k] += v
		}
		if o.expired {
			complete = false
		}
	}
	rep.Set("bcs_cases", bcsEvals)
	rep.Set("bcs_accepted", bcsAcc)
	rep.Set("bcs_instances_refusing_a_full_certificate", bcsFullRefused)
	rep.Set("bcs_history", bcsHistory)
	rep.Set("bcs_long_lived_instances", bcsInstances)
	rep.Set("bcs_honest_blocks_accepted", bsum.stepsAcc)
	rep.Set("bcs_honest_blocks_refused", bsum.stepsRef)
	rep.Set("bcs_cases_after_history", bsum.primedEvals)
	rep.Set("bcs_accepted_after_history", bsum.primedAcc)
	rep.Set("bcs_verdict_differs_from_history_free_instance", bsum.differs)
	rep.Set("bcs_below_quorum_acceptances_on_long_lived_instances", map[string]int{"seen": bsum.below, "rerun_on_fresh_instances_and_needing_a_past": bsum.suspected + bsum.unconfirmed, "not_reproduced": bsum.unconfirmed})

	// --- tdpos / xpoa CheckMinerMatch across a change of the validator set --------
	chg := runSetChange(rep, chgMaxSet, chgMaxSigners, chgMaxLieSigners, bst)
	phase("set_change")
	if chg.expired {
		complete = false
	}
	for k, v := range chg.violations {
		cnt.violations[k] += v
	}
	rep.Set("setchange_scenarios", chg.scenarios)
	rep.Set("setchange_scenarios_per_consensus_relation_and_view_the_new_set_is_in_force_from", chg.perRel)
	rep.Set("setchange_schedule_probes_agreeing_with_the_model", chg.probes)
	rep.Set("setchange_cases", chg.evals)
	rep.Set("setchange_accepted", chg.accepted)
	rep.Set("setchange_accepted_per_consensus_relation_and_view", chg.accPerRel)
	rep.Set("setchange_rejected", chg.refused)
	rep.Set("setchange_rejected_although_quorum_of_the_certified_views_set", chg.refusedWithQuorum)
	rep.Set("setchange_full_certificates_of_the_certified_views_set_rejected", chg.honestRefused)
	rep.Set("setchange_cases_whose_verdict_depends_on_the_set_chosen", chg.dependsOnSet)
	rep.Set("setchange_cases_with_another_claimed_view", chg.lieEvals)
	rep.Set("setchange_accepted_with_another_claimed_view", chg.lieAccepted)
	rep.Set("setchange_verdict_differs_with_another_claimed_view", chg.lieVerdictDiffers)
	rep.Set("setchange_verdict_differs_from_fixed_set_instance", map[string]int{"compared": chg.refEvals, "differs": chg.refDiffers})
	if !chg.expired && (chg.dependsOnSet["quorum_of_the_carrying_views_set_only"] == 0 || chg.dependsOnSet["quorum_of_the_certified_views_set_only"] == 0 || chg.accepted == 0 || chg.refused == 0) {
		core.HarnessError("C14: the validator-set change dimension is vacuous: %+v", chg.dependsOnSet)
	}

	// --- tdpos / xpoa CheckMinerMatch: every shape of the carrying block's consensus storage ---
	shp := runShapes(rep, shapeMaxN, shapeBaseSize, bst)
	phase("storage_shapes")
	if shp.expired {
		complete = false
	}
	for k, v := range shp.violations {
		cnt.violations[k] += v
	}
	shp.report(rep)
	if !shp.expired && (shp.canonQuorumAbove == 0 || shp.canonRefused > 0 || shp.noCertAbove == 0 || shp.accPerRel["at_start_height"] == 0 || shp.accPerRel["below_start_height"] == 0) {
		core.HarnessError("C14: the storage-shape dimension is vacuous or its fixture refuses honest blocks: canonical blocks with a quorum above the start height %d (refused %d), cases without a quorum to be found %d, accepted at / below the start height %d / %d",
			shp.canonQuorumAbove, shp.canonRefused, shp.noCertAbove, shp.accPerRel["at_start_height"], shp.accPerRel["below_start_height"])
	}

	// --- report ---------------------------------------------------------------
	keys := make([]string, 0, len(bst.m))
	for k := range bst.m {
		keys = append(keys, k)
	}
	sort.Strings(keys)
	perKey := map[string]int{}
	for sk, c := range cnt.violations {
		perKey[sk[strings.Index(sk, " ")+1:]] += c
	}
	for _, k := range keys {
		for i := 0; i < perKey[k] || i == 0; i++ {
			rep.Violation(bst.m[k])
		}
	}
	histEvals := hst.evals + hst.again + vst.evals + vst.again + bsum.primedEvals
	rep.Set("violating_cases_per_seam_and_key", cnt.violations)
	rep.Set("evaluations", thr+cnt.evals+voteEvals+bcsEvals+histEvals+chg.evals+chg.lieEvals+shp.evals)
	rep.Set("evaluations_on_instances_with_a_past", histEvals)
	rep.Set("distinct_nontrivial", cnt.nontrivial)
	rep.Set("rule", "cases = every multiset of signature entries of size <= min(n+1, cap) over the kinds {valid member Vi (i=2..n), collector V1, non-member X, member over another id, corrupted, empty, member address with another member's key, member address with X's key}, each in canonical and reversed order; the further copies of a repeated member in every spelling: identical copies, fresh signatures of the same member (the signer is randomised), and each re-encoding the crypto client accepts (public-key JSON respelled: white space, member order, member-name case, extra member, trailing newline, escaped string, duplicated member; signature respelled: trailing byte after the DER value, (r,N-s)) - a repeated member must count once however its entries are spelled; a case is non-trivial when its list holds at least one entry that must not count (repeat, collector, non-member, other id, invalid, mismatch); counted over the CheckProposal seam on the history-free instance. HISTORY dimension: every case is judged by long-lived instances (fixed deal of the multisets to "+fmt.Sprint(shards)+" shards, one instance per shard, validator-set size and history, never reset between cases) that were first shown honest traffic through the same seams: none / each single step / all steps of {every member's vote for the other id - the very entries the cases re-use as Vi:otherid -, the honest certificate for the other id, every member's vote and the honest certificate for the certified id, votes of former members X and V(n+1) under the wider earlier validator set}; the history-free instance is shown every list twice in a row (validator sets up to the single-step bound; CheckVote: all). Judged on every instance: accepted => quorum of distinct valid member signatures (absolute), and compared with the history-free verdict (differential, counted). A below-quorum acceptance that a blank instance does not show is re-run on fresh instances to find the smallest past that reproduces it (history alone, second presentation, one earlier certificate, all earlier certificates of the shard). VALIDATOR-SET CHANGE dimension (setchange_* keys): the real tdpos / xpoa CheckMinerMatch over a stub chain on which the validator set changes from OLD to NEW through the real kernel contract methods (xpoa editValidates; tdpos nominateCandidate + voteCandidate, the new set elected for term 2), their writes read back by the real schedule through per-block snapshots; every pair old = V1..Va, new = any subset of old followed by f fresh members (sizes 1.."+fmt.Sprint(chgMaxSet)+" each; tdpos |new| = |old|: same, grow, shrink, disjoint replace, overlap) x the view from which the new set is in force (the carrying view h, h-1, h+1) x every multiset of size <= "+fmt.Sprint(chgMaxSigners)+" of valid signatures over the certified id by the members of old + new + the outsider X x the view the certificate claims for the certified id (the true view h-1, or - multisets of size <= "+fmt.Sprint(chgMaxLieSigners)+" - h, h-2, h+1: the signed message is the id alone, the view an unauthenticated field); one long-lived instance per scenario; judged: accepted => a quorum of distinct signers are members of the set in force for the view of the CERTIFIED block (threshold from that set's size), and compared with a plain CheckProposal instance handed that set (differential, counted); per scenario the model's sets in force for the views h-1 and h are first cross-checked against the proposers CheckMinerMatch entitles in every slot. STORAGE-SHAPE dimension (shape_* keys): the ENCODING of the carrying block's consensus storage at the real tdpos / xpoa CheckMinerMatch: consensus x validator sets V1..Vn (n=1.."+fmt.Sprint(shapeMaxN)+") x relation of the block to the chained-BFT start height (above: start 1, height 2; at: start 2, height 2; below: start 2, height 1) x base list (the honest carrying blocks - every validator signed, every validator but the proposer, exactly a quorum - and forged ones: one short of a quorum, none, every case of the main enumeration with <= "+fmt.Sprint(shapeBaseSize)+" entries) x every shape of the fixed catalogue shape_catalogue (justify absent / null / empty object / another JSON type / twice; storage zero bytes / not JSON / truncated / null / array / string / number / `{}` / unknown fields only; unknown extra fields beside, inside the certificate and inside the signature container; signature container absent / null / empty / list null / empty / of empty or null entries / of another JSON type; certificate fields absent), each through its carrier: the real state.BlockAgent over a wire-round-tripped InternalBlock with the protobuf field absent / empty, or a plain BlockInterface value returning the bytes; one history-free long-lived instance per consensus, n and relation plus, above the start height, one that first accepted the honest blocks; judged above the start height: accepted => a quorum of distinct valid member signatures over the certified id can be found in the storage bytes (the catalogue says per shape whether the base list's entries are still in the bytes; shapes that remove them must be refused whenever the threshold is positive), at / below the start height the exemption applies: verdicts counted only; a panic of the implementation counts as a refusal (counted)")
	rep.Set("bounds", fmt.Sprintf("n=1..%d, list size <= min(n+1,%d); histories none+all n<=%d, single steps and second presentation n<=%d; CalVotesThreshold 0<=input<=n<=10; CheckVote n=1..%d, all histories; tdpos/xpoa n=1..%d size<=n+1, history-free and after %v; repeats once per re-encoding for n<=%d (tdpos/xpoa n<=%d), once with rotating re-encodings for n<=%d (tdpos/xpoa: all larger n), identical and fresh copies only above; validator-set change: old and new sets of 1..%d members, signer multisets of size <= %d, new set in force from view h-1 / h / h+1, claimed view h-1 (true) or h / h-2 / h+1 (multisets of size <= %d); storage shapes: %d shapes x n=1..%d x {above, at, below the start height} x honest and forged base lists (enumerated ones of size <= %d)", maxN, capSize, maxN, histSingleN, maxN, maxNBcs, bcsHistory, reencAllN, reencAllNBcs, reencOnceN, chgMaxSet, chgMaxSigners, chgMaxLieSigners, len(shapeCatalogue()), shapeMaxN, shapeBaseSize))
	rep.Set("accepted_total", cnt.accepted+voteAcc+bcsAcc)
	rep.Set("exhaustive", complete)
	if chg.sample != nil {
		rep.Sample(chg.sample)
	}
	if shp.sample != nil {
		rep.Sample(shp.sample)
	}
	if len(bcsSamples) > 0 {
		rep.Sample(bcsSamples[0])
	}
	if len(sampleToks) > 1 {
		sampleToks = sampleToks[:1] // five samples are kept: set change, storage shape, tdpos/xpoa, CheckProposal, CheckVote
	}
	for _, toks := range sampleToks {
		acc, t := evalProposal(r0, 4, mustEntries(toks))
		rep.Sample(map[string]interface{}{"case": Case{Seam: "CheckProposal", N: 4, Collector: collector, Entries: toks}, "accepted": acc, "distinct_valid_non_collector_members": t.Distinct, "needed": t.Threshold})
	}
	{
		toks := []string{"V3:key=X", "V3"}
		acc, t := evalVote(rvNone, 3, mustEntries(toks))
		rep.Sample(map[string]interface{}{"case": Case{Seam: "CheckVote", N: 3, Collector: collector, Entries: toks}, "accepted": acc, "first_is_valid_member_signature": t.FirstIsMember})
	}
	rep.Assume("a certificate does not name its collector; the sender of the proposal / proposer of the block (V1) may carry a certificate another validator collected, so V1's own valid signature counts as one member signature (excluding it would refuse the honest fork case of TestSMR); judged: accepted => distinct valid member signatures >= n-floor((n-1)/3)-1")
	rep.Assume("entries of one kind are interchangeable: invalid entries are attributed to the members Vn, Vn-1, ... in turn; lists are tried in canonical and reversed order, not in every permutation")
	rep.Assume("tdpos / xpoa run over a stub LedgerRely, network and kernel registry (two stored blocks, initial validator set), block at height 2 wrapped by the real state.BlockAgent")
	rep.Assume("validator-set change: the set in force for a view is the chain's own rule - xpoa: the set written by block c is in force from view c+4 on (the schedule reads the snapshot of block view-4), tdpos: the initial proposers serve the term that holds the start height, the top-K elected from the nominations and votes serve from the first block of the next term on; the rule is not taken on trust: for the views h-1 and h of every scenario the proposers the real CheckMinerMatch entitles slot by slot must be the model's set (harness error otherwise). The stub chain stores block headers and the key/value writes of the kernel-contract calls per block; TargetBits (rollback target) stays 0")
	rep.Assume("storage shapes: the model does not decode the storage; per shape the catalogue states whether the base list's signature entries are still contained in the bytes (generously: also inside a JSON string / array / after a duplicate member), and only acceptance is bounded; the raw carrier reaches shapes the real BlockAgent cannot render (it marshals protobuf fields), the seam's signature admits them")
	rep.Assume("binding of the certificate to the block's parent (justify id vs PreHash) is outside this statement and not judged here")
	rep.Assume("histories consist of CheckVote / CheckProposal (CheckMinerMatch) calls only; VoteProposal / UpdatePreferredRound, which legitimately raise the view floors of an instance, are not part of a history")
	rep.Assume("a verdict that differs from the history-free one without breaking the threshold bound (e.g. a list with a quorum and one invalid entry) is counted, not reported: the statement bounds acceptance only")
	fmt.Printf("C14 %s: threshold pairs=%d; CheckProposal cases=%d accepted=%d rejected=%d (rejected with quorum present=%d); CheckVote cases=%d accepted=%d; tdpos/xpoa cases=%d accepted=%d; on instances with a past: %d evaluations, verdict differs from the history-free one in %d; across a validator-set change: scenarios=%d cases=%d accepted=%d, with another claimed view cases=%d accepted=%d; storage shapes: cases=%d, above the start height without a quorum in the storage=%d accepted=%d, with a quorum=%d accepted=%d\n",
		tier, thr, cnt.evals, cnt.accepted, cnt.rejected, cnt.rejectedAbove, voteEvals, voteAcc, bcsEvals, bcsAcc, histEvals, hst.differsAccept+hst.differsRefuse+hst.againDiffers+vst.differsAccept+vst.differsRefuse+vst.againDiffers+bsum.differs,
		chg.scenarios, chg.evals, chg.accepted, chg.lieEvals, chg.lieAccepted,
		shp.evals, shp.noCertAbove, shp.noCertAboveAcc, shp.quorumAbove, shp.quorumAboveAcc)
	return rep
}

// voteKey classifies an accepted vote whose first entry is not a member's valid signature.
func voteKey(n int, es []*entry) string {
	if len(es) == 0 {
		return "c14.vote_without_signature_accepted"
	}
	t := tallyOf(n, collector, es[:1])
	switch {
	case t.NonMember > 0:
		return "c14.vote_non_member_accepted"
	case t.OtherID > 0 || t.Corrupt > 0:
		return "c14.vote_invalid_signature_accepted"
	case t.Mismatch > 0:
		return "c14.vote_address_key_mismatch_accepted"
	}
	return "c14.vote_accepted_without_valid_member_signature"
}

func mustCheck(d *bcsDriver, es []*entry) bool {
	ok, err := d.check(es)
	if err != nil {
		core.HarnessError("C14: %s fixture: %v", d.name, err)
	}
	return ok
}

func strMap(m map[int]int) map[string]int {
	out := map[string]int{}
	for k, v := range m {
		out[fmt.Sprintf("n=%d", k)] = v
	}
	return out
}

func replay(raw json.RawMessage) (bool, string, error) {
	var c Case
	if err := json.Unmarshal(raw, &c); err != nil {
		return false, "", err
	}
	world.Init()
	if c.Seam == "CalVotesThreshold" {
		got := newRules("V2").CalVotesThreshold(c.Input, c.N)
		want := c.Input >= threshold(c.N)
		return got != want, fmt.Sprintf("CalVotesThreshold(%d,%d)=%v formula=%v", c.Input, c.N, got, want), nil
	}
	if len(c.Old) > 0 || len(c.New) > 0 {
		return replayChange(c)
	}
	if c.N < 1 || c.N > 10 {
		return false, "", fmt.Errorf("n out of range")
	}
	if c.Shape != "" {
		for _, t := range c.Entries {
			if _, err := parseEntry(t); err != nil {
				return false, "", err
			}
		}
		_, acc, sh, err := replayShape(c)
		if err != nil {
			return false, "", err
		}
		found, needed := shapeQuorum(sh, c.N, mustEntries(c.Entries))
		bad := acc && c.Height > c.StartHeight && found < needed
		return bad, fmt.Sprintf("%s n=%d block height=%d start height=%d storage shape=%s [%s] base entries=%v earlier_blocks=%d accepted=%v distinct valid member signatures to be found in the storage=%d needed=%d", c.Seam, c.N, c.Height, c.StartHeight, c.Shape, sh.class, c.Entries, len(c.EarlierBlocks), acc, found, needed), nil
	}
	es := make([]*entry, len(c.Entries))
	for i, t := range c.Entries {
		e, err := parseEntry(t)
		if err != nil {
			return false, "", err
		}
		es[i] = e
	}
	need := "history"
	if len(c.Earlier) > 0 || c.Times > 1 {
		need = "earlier"
	}
	past := ""
	if c.hasPast() {
		past = fmt.Sprintf(" after history=%v earlier_certificates=%d presentations=%d", c.History, len(c.Earlier), c.Times)
	}
	switch c.Seam {
	case "CheckProposal":
		// a fresh instance, or a fresh instance shown the recorded past first
		r, acc := replayHistory("V2", c.Seam, c.N, c.History, c.Earlier, c.EarlierTimes, es, c.Times)
		t := tallyOf(c.N, collector, es)
		bad := acc && t.Distinct < t.Threshold
		msg := fmt.Sprintf("CheckProposal%s n=%d entries=%v accepted=%v distinct=%d needed=%d", past, c.N, c.Entries, acc, t.Distinct, t.Threshold)
		if bad {
			class := keyFor(c.N, es, t, func(x []*entry) bool { return acceptsProposal(r, c.N, x) })
			if c.hasPast() {
				class = histKey(need, class)
			}
			msg += " class=" + class
		}
		return bad, msg, nil
	case "CheckVote":
		_, acc := replayHistory(collector, c.Seam, c.N, c.History, c.Earlier, c.EarlierTimes, es, c.Times)
		t := tallyOf(c.N, collector, es)
		msg := fmt.Sprintf("CheckVote%s n=%d entries=%v accepted=%v first_is_valid_member=%v", past, c.N, c.Entries, acc, t.FirstIsMember)
		if acc && !t.FirstIsMember {
			class := voteKey(c.N, es)
			if c.hasPast() {
				class = histKey(need, class)
			}
			msg += " class=" + class
		}
		return acc && !t.FirstIsMember, msg, nil
	case "tdpos.CheckMinerMatch", "xpoa.CheckMinerMatch":
		_, acc, err := replayBcs(strings.TrimSuffix(c.Seam, ".CheckMinerMatch"), c.N, c.History, c.Earlier, es)
		if err != nil {
			return false, "", err
		}
		t := tallyOf(c.N, collector, es)
		return acc && t.Distinct < t.Threshold, fmt.Sprintf("%s%s n=%d entries=%v accepted=%v distinct=%d needed=%d", c.Seam, past, c.N, c.Entries, acc, t.Distinct, t.Threshold), nil
	}
	return false, "", fmt.Errorf("unknown seam %q", c.Seam)
}

func init() {
	core.Register(&core.Check{ID: "C14", Run: run, Replay: replay})
}
