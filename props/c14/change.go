package c14

import (
	"errors"
	"fmt"
	"math/big"
	"runtime"
	"strconv"
	"strings"
	"sync"
	"time"

	"github.com/xuperchain/xupercore/bcs/ledger/xledger/state"
	lpb "github.com/xuperchain/xupercore/bcs/ledger/xledger/xldgpb"
	"github.com/xuperchain/xupercore/kernel/common/xcontext"
	"github.com/xuperchain/xupercore/kernel/consensus/base"
	bcommon "github.com/xuperchain/xupercore/kernel/consensus/base/common"
	bft "github.com/xuperchain/xupercore/kernel/consensus/base/driver/chained-bft"
	bftpb "github.com/xuperchain/xupercore/kernel/consensus/base/driver/chained-bft/pb"
	cctx "github.com/xuperchain/xupercore/kernel/consensus/context"
	"github.com/xuperchain/xupercore/kernel/consensus/def"
	"github.com/xuperchain/xupercore/kernel/contract"
	"github.com/xuperchain/xupercore/kernel/ledger"
	"github.com/xuperchain/xupercore/kernel/network/p2p"
	"github.com/xuperchain/xupercore/lib/timer"
	"github.com/xuperchain/xupercore/protos"

	"verif/core"
	"verif/world"
)

// VALIDATOR-SET CHANGE. The statement binds a certificate to the validator set
// IN FORCE FOR THE CERTIFIED VIEW. A block of view h carries the certificate
// for the block of view h-1, so whenever the set changes between the two views
// the set that entitles the block's proposer (view h) is NOT the set that must
// have signed the certificate (view h-1). This file drives the real tdpos /
// xpoa CheckMinerMatch over a chain on which the set changes from OLD to NEW:
//
//	xpoa   the new set is installed by the real kernel contract method
//	       editValidates (captured from the kernel registry the constructor
//	       registers it with); its write is stored in block c of the stub chain
//	       and read back by the real schedule through ledger snapshots. The
//	       chain's rule: a write in block c is in force from view c+4 on
//	       (GetLocalValidates reads the snapshot of block view-4).
//	tdpos  the members of the new set are nominated and voted into the top-K by
//	       the real kernel contract methods nominateCandidate / voteCandidate
//	       (writes in blocks 3..8, all older than any snapshot a case reads);
//	       the initial proposers serve term 1, the voted top-K serve from term 2
//	       on, so the set changes at the first block F of term 2.
//
// Enumerated: every pair (old, new) of a bounded family (setPairs), the view
// from which the new set is in force relative to the carrying view h (h-1: both
// views new; h: the certified view is the LAST of the old set, the carrying
// view the FIRST of the new one; h+1: both old), every multiset of valid
// signatures over the certified id drawn from old + new + the outsider X, and
// the view the certificate CLAIMS for the certified id (the signed message is
// the id alone, the view is an unauthenticated field of the certificate): the
// true one (h-1), the carrying view h, h-2, h+1 (under a claimed view other
// than the true one the multisets are bounded one size lower, runSetChange).
//
// Oracle (absolute): accepted => at least threshold(|S|) distinct signers are
// members of S, S = the set in force for the view of the certified block (the
// model's rule above, cross-checked per scenario against the proposers the
// real CheckMinerMatch entitles for the views h-1 and h). Differential
// (counted): the verdict equals the one of a plain CheckProposal instance that
// is handed S as a fixed set.

// setPair is one (old, new) pair of validator sets, symbolic names in schedule order.
type setPair struct {
	Old, New []string
	Rel      string // same | grow | shrink | disjoint | overlap
}

// setPairs enumerates the family of a consensus: old = V1..Va (a = 1..maxSize);
// new = any subset of old (order kept) followed by f fresh members
// V(maxSize+1).., 1 <= |new| <= maxSize. tdpos elects exactly proposer_num
// members, so there |new| = |old|.
func setPairs(cons string, maxSize int) []setPair {
	var out []setPair
	for a := 1; a <= maxSize; a++ {
		var old []string
		for i := 1; i <= a; i++ {
			old = append(old, vname(i))
		}
		for mask := 0; mask < 1<<uint(a); mask++ {
			var kept []string
			for i := 0; i < a; i++ {
				if mask&(1<<uint(i)) != 0 {
					kept = append(kept, vname(i+1))
				}
			}
			for f := 0; f <= maxSize; f++ {
				size := len(kept) + f
				if size < 1 || size > maxSize || cons == "tdpos" && size != a {
					continue
				}
				nw := append([]string{}, kept...)
				for j := 1; j <= f; j++ {
					nw = append(nw, vname(maxSize+j))
				}
				rel := "overlap"
				switch {
				case len(kept) == a && f == 0:
					rel = "same"
				case len(kept) == a:
					rel = "grow"
				case len(kept) == 0:
					rel = "disjoint"
				case f == 0:
					rel = "shrink"
				}
				out = append(out, setPair{Old: old, New: nw, Rel: rel})
			}
		}
	}
	return out
}

// effNames: from which view on the new set is in force, relative to the carrying view h.
var effNames = map[int]string{-1: "carrying_view-1", 0: "carrying_view", 1: "carrying_view+1"}

// claims: the views a certificate claims for the certified id, relative to the
// true one (h-1): the true view first, then h (the carrying view), h-2, h+1.
var claims = []int{0, 1, -1, 2}

// claimNames: the view the certificate claims for the certified id, relative to the true one.
var claimNames = map[int]string{0: "", 1: "true_view+1", -1: "true_view-1", 2: "true_view+2"}

func effOf(s string) (int, bool) {
	for k, v := range effNames {
		if v == s {
			return k, true
		}
	}
	return 0, false
}

func claimOf(s string) (int, bool) {
	for k, v := range claimNames {
		if v == s {
			return k, true
		}
	}
	return 0, false
}

// ---------------------------------------------------------------------------
// stub chain: block headers + the key/value writes of each block, read back
// through snapshots

type kvWrite struct {
	block       int64
	bucket, key string
	value       []byte
}

type chainLedger struct {
	blocks []*state.BlockAgent
	writes []kvWrite
}

// valueAt is the value of a key in the state after block h.
func (l *chainLedger) valueAt(h int64, bucket string, key []byte) []byte {
	var v []byte
	at := int64(-1)
	for _, w := range l.writes {
		if w.block <= h && w.block >= at && w.bucket == bucket && w.key == string(key) {
			v, at = w.value, w.block
		}
	}
	return v
}

func (l *chainLedger) GetConsensusConf() ([]byte, error) { return []byte(`{}`), nil }
func (l *chainLedger) QueryBlock(id []byte) (ledger.BlockHandle, error) {
	for _, b := range l.blocks {
		if string(b.GetBlockid()) == string(id) {
			return b, nil
		}
	}
	return nil, errors.New("block not found")
}
func (l *chainLedger) QueryBlockByHeight(h int64) (ledger.BlockHandle, error) {
	if h < 0 || int(h) >= len(l.blocks) {
		return nil, errors.New("block not found")
	}
	return l.blocks[h], nil
}
func (l *chainLedger) GetTipBlock() ledger.BlockHandle { return l.blocks[len(l.blocks)-1] }
func (l *chainLedger) GetTipXMSnapshotReader() (ledger.XMSnapshotReader, error) {
	return tipReader{l}, nil
}
func (l *chainLedger) CreateSnapshot(blkId []byte) (ledger.XMReader, error) {
	b, err := l.QueryBlock(blkId)
	if err != nil {
		return nil, err
	}
	return snapReader{l, b.GetHeight()}, nil
}
func (l *chainLedger) GetTipSnapshot() (ledger.XMReader, error) {
	return snapReader{l, l.GetTipBlock().GetHeight()}, nil
}

type tipReader struct{ l *chainLedger }

func (r tipReader) Get(bucket string, key []byte) ([]byte, error) {
	return r.l.valueAt(r.l.GetTipBlock().GetHeight(), bucket, key), nil
}

type snapReader struct {
	l *chainLedger
	h int64
}

func (r snapReader) Get(bucket string, key []byte) (*ledger.VersionedData, error) {
	// a key never written reads as an entry without value, as from the real xmodel
	return &ledger.VersionedData{PureData: &ledger.PureData{Bucket: bucket, Key: key, Value: r.l.valueAt(r.h, bucket, key)}}, nil
}
func (r snapReader) Select(bucket string, startKey []byte, endKey []byte) (ledger.XMIterator, error) {
	return nil, errors.New("no iterator in stub")
}

// capRegistry keeps the kernel methods the consensus registers, by method name.
type capRegistry struct {
	mu sync.Mutex
	m  map[string]contract.KernMethod
}

func (r *capRegistry) RegisterKernMethod(c, method string, handler contract.KernMethod) {
	r.mu.Lock()
	defer r.mu.Unlock()
	r.m[method] = handler
}
func (r *capRegistry) RegisterShortcut(oldmethod, contract, method string) {}
func (r *capRegistry) GetKernMethod(c, method string) (contract.KernMethod, error) {
	r.mu.Lock()
	defer r.mu.Unlock()
	if h, ok := r.m[method]; ok {
		return h, nil
	}
	return nil, errors.New("not registered")
}

// chgNet is the stub network of a fixture. The constructor starts the smr in a
// goroutine of its own that registers three subscribers; Stop must not run
// before that goroutine is done registering (its subscriber list is not
// synchronised), so the stub tells when the third registration arrived.
type chgNet struct {
	stubNet
	mu    sync.Mutex
	n     int
	ready chan struct{}
}

func (n *chgNet) Register(p2p.Subscriber) error {
	n.mu.Lock()
	defer n.mu.Unlock()
	if n.n++; n.n == 3 {
		close(n.ready)
	}
	return nil
}

type capManager struct{ reg *capRegistry }

func (capManager) NewContext(cfg *contract.ContextConfig) (contract.Context, error) {
	return nil, errors.New("stub")
}
func (capManager) NewStateSandbox(cfg *contract.SandboxConfig) (contract.StateSandbox, error) {
	return nil, errors.New("stub")
}
func (m capManager) GetKernRegistry() contract.KernRegistry { return m.reg }

// txCtx is the kernel-contract context of one transaction that reads the state
// after block `at`; its writes are collected for the block that includes it.
type txCtx struct {
	args      map[string][]byte
	initiator string
	led       *chainLedger
	at        int64
	puts      []kvWrite
}

func (c *txCtx) Args() map[string][]byte { return c.args }
func (c *txCtx) Initiator() string       { return c.initiator }
func (c *txCtx) Caller() string          { return "" }
func (c *txCtx) AuthRequire() []string   { return []string{c.initiator} }
func (c *txCtx) Get(bucket string, key []byte) ([]byte, error) {
	v := c.led.valueAt(c.at, bucket, key)
	if v == nil {
		return nil, errors.New("not found")
	}
	return v, nil
}
func (c *txCtx) Select(bucket string, startKey []byte, endKey []byte) (contract.Iterator, error) {
	return nil, errors.New("no iterator in stub")
}
func (c *txCtx) Put(bucket string, key, value []byte) error {
	c.puts = append(c.puts, kvWrite{bucket: bucket, key: string(key), value: append([]byte{}, value...)})
	return nil
}
func (c *txCtx) Del(bucket string, key []byte) error                    { return errors.New("no delete in stub") }
func (c *txCtx) Transfer(from string, to string, amount *big.Int) error { return nil }
func (c *txCtx) AddEvent(events ...*protos.ContractEvent)               {}
func (c *txCtx) Flush() error                                           { return nil }
func (c *txCtx) RWSet() *contract.RWSet                                 { return nil }
func (c *txCtx) UTXORWSet() *contract.UTXORWSet                         { return nil }
func (c *txCtx) AddResourceUsed(delta contract.Limits)                  {}
func (c *txCtx) ResourceLimit() contract.Limits                         { return contract.Limits{} }
func (c *txCtx) Call(module, contractName, method string, args map[string][]byte) (*contract.Response, error) {
	return &contract.Response{Status: 200}, nil // the govern-token lock of tdpos
}

// ---------------------------------------------------------------------------
// fixture

const (
	chgPeriod      = 3000 // ms, both consensuses
	xpoaBlockNum   = 10
	tdAlternate    = 3000
	tdTermInterval = 6000
	tdBlockNum     = 20
)

// carryingView is the height h of the block that carries the certificate: the
// smallest view for which every snapshot a case reads lies behind the writes
// that install the new set (see the file comment).
func carryingView(cons string) int64 {
	if cons == "xpoa" {
		return 6
	}
	return 14
}

type changeFixture struct {
	cons string
	pair setPair
	eff  int
	h    int64
	led  *chainLedger
	impl base.ConsensusImplInterface
	reg  *capRegistry
	net  *chgNet
}

// setAt is the model's validator set in force for a view.
func (f *changeFixture) setAt(view int64) []string {
	if view >= f.h+int64(f.eff) {
		return f.pair.New
	}
	return f.pair.Old
}

func (f *changeFixture) term(view int64) int64 {
	if f.cons == "tdpos" && view >= f.h+int64(f.eff) {
		return 2
	}
	return 1
}

// ts is a timestamp of the slot of the validator at position pos for a block of the given view.
func (f *changeFixture) ts(view int64, pos int) int64 {
	if f.cons == "xpoa" {
		// term 1 of the epoch schedule: position = ms / (period*blockNum) whatever the set size
		// (pos = |set| wraps into position 0 of the next term), block slot view%9+1 <= blockNum
		ms := int64(pos)*chgPeriod*xpoaBlockNum + (view%9)*chgPeriod + 1
		return ms * 1e6
	}
	n := int64(len(f.pair.Old))
	term := f.term(view)
	first := int64(1) // first height of the term
	if term == 2 {
		first = f.h + int64(f.eff)
	}
	blockPos := view - first
	if blockPos < 0 {
		blockPos = 0
	}
	termTime := tdTermInterval + (tdBlockNum-1)*n*chgPeriod + (n-1)*tdAlternate
	termBegin := (term-1)*termTime + tdTermInterval - tdAlternate
	posTime := int64(tdAlternate + chgPeriod*(tdBlockNum-1))
	ms := termBegin + int64(pos)*posTime + blockPos*chgPeriod + 1
	return tdposInitTs + ms*1e6
}

func (f *changeFixture) id(view int64) []byte {
	switch view {
	case f.h:
		return idProp
	case f.h - 1:
		return idCert
	case f.h - 2:
		return idRoot
	}
	return h32(fmt.Sprintf("c14-chain-%d", view))
}

func quotedAddrs(names []string) string {
	q := make([]string, len(names))
	for i, n := range names {
		q[i] = `"` + world.Addr(n) + `"`
	}
	return strings.Join(q, ",")
}

func addrsOfNames(names []string) []string {
	out := make([]string, len(names))
	for i, n := range names {
		out[i] = world.Addr(n)
	}
	return out
}

// newChangeFixture builds the chain 0..h-1, a real consensus instance over it,
// and installs the new set through the kernel contract methods.
func newChangeFixture(cons string, pair setPair, eff int) (*changeFixture, error) {
	f := &changeFixture{cons: cons, pair: pair, eff: eff, h: carryingView(cons), led: &chainLedger{}, reg: &capRegistry{m: map[string]contract.KernMethod{}}}
	for v := int64(0); v < f.h; v++ {
		var pre []byte
		if v > 0 {
			pre = f.id(v - 1)
		}
		f.led.blocks = append(f.led.blocks, state.NewBlockAgent(&lpb.InternalBlock{Version: 1, Blockid: f.id(v), PreHash: pre, Height: v,
			Proposer: []byte(world.Addr(f.setAt(v)[0])), Timestamp: f.ts(v, 0), CurTerm: f.term(v), InTrunk: true}))
	}
	self := pair.Old[0]
	var conf string
	switch cons {
	case "tdpos":
		conf = fmt.Sprintf(`{"timestamp":"%d","proposer_num":"%d","period":"%d","alternate_interval":"%d","term_interval":"%d","block_num":"%d","vote_unit_price":"1","init_proposer":{"1":[%s]},"bft_config":{}}`,
			tdposInitTs, len(pair.Old), chgPeriod, tdAlternate, tdTermInterval, tdBlockNum, quotedAddrs(pair.Old))
	case "xpoa":
		conf = fmt.Sprintf(`{"version":0,"period":%d,"block_num":%d,"init_proposer":{"address":[%s]},"bft_config":{}}`, chgPeriod, xpoaBlockNum, quotedAddrs(pair.Old))
	default:
		return nil, fmt.Errorf("unknown consensus %q", cons)
	}
	f.net = &chgNet{stubNet: stubNet{account: world.Addr(self)}, ready: make(chan struct{})}
	cc := cctx.ConsensusCtx{BcName: world.BCName, Address: address(self), Crypto: world.Crypto, Contract: capManager{f.reg}, Ledger: f.led, Network: f.net}
	cc.XLog = world.NopLogger{}
	cc.Timer = timer.NewXTimer()
	impl, err := newImpl(cons, cc, def.ConsensusConfig{ConsensusName: cons, Config: conf, StartHeight: 1, Index: 0})
	if err != nil {
		return nil, err
	}
	f.impl = impl
	if err := f.install(); err != nil {
		f.stop()
		return nil, err
	}
	return f, nil
}

// invoke runs one kernel method as a transaction of block `block` (it reads the state after block-1).
func (f *changeFixture) invoke(method string, block int64, initiator string, args map[string]string) error {
	h, err := f.reg.GetKernMethod("", method)
	if err != nil {
		return fmt.Errorf("kernel method %s: %v", method, err)
	}
	ctx := &txCtx{args: map[string][]byte{}, initiator: world.Addr(initiator), led: f.led, at: block - 1}
	for k, v := range args {
		ctx.args[k] = []byte(v)
	}
	resp, err := h(ctx)
	if err != nil {
		return fmt.Errorf("kernel method %s: %v", method, err)
	}
	if resp == nil || resp.Status >= 400 || len(ctx.puts) == 0 {
		return fmt.Errorf("kernel method %s refused: %+v", method, resp)
	}
	for _, w := range ctx.puts {
		w.block = block
		f.led.writes = append(f.led.writes, w)
	}
	return nil
}

func (f *changeFixture) install() error {
	if f.cons == "xpoa" {
		// a write of block c is in force from view c+4 on
		c := f.h + int64(f.eff) - 4
		aks := make([]string, len(f.pair.Old))
		for i, n := range f.pair.Old {
			aks[i] = fmt.Sprintf("%q:1", world.Addr(n))
		}
		return f.invoke("editValidates", c, f.pair.Old[0], map[string]string{
			"aksWeight":   "{" + strings.Join(aks, ",") + "}",
			"rule":        "1",
			"acceptValue": strconv.Itoa(len(f.pair.Old)),
			"validates":   strings.Join(addrsOfNames(f.pair.New), ";"),
		})
	}
	// tdpos: one nomination per block (they rewrite one key), then the votes: member k gets 100-k ballots,
	// so the elected top-K is the new set in its order
	for k, n := range f.pair.New {
		if err := f.invoke("nominateCandidate", int64(3+k), n, map[string]string{"candidate": world.Addr(n), "height": strconv.Itoa(2 + k), "amount": "1"}); err != nil {
			return err
		}
	}
	for k, n := range f.pair.New {
		if err := f.invoke("voteCandidate", int64(3+len(f.pair.New)), n, map[string]string{"candidate": world.Addr(n), "height": strconv.Itoa(2 + len(f.pair.New)), "amount": strconv.Itoa(100 - k)}); err != nil {
			return err
		}
	}
	return nil
}

// stop stops the instance once its smr goroutine has registered (see chgNet).
// The enumeration stops its fixtures together when all scenarios are done.
func (f *changeFixture) stop() {
	if f.impl == nil {
		return
	}
	select {
	case <-f.net.ready:
		time.Sleep(time.Millisecond) // the third subscriber is listed right after its registration
		f.impl.Stop()
	case <-time.After(5 * time.Second):
		// the smr never registered: nothing to unregister, leave the instance alone
	}
	f.impl = nil
}

// checkBlock asks CheckMinerMatch about a block of `view` on top of the chain's
// block view-1, proposed by `proposer` in the slot of position pos, whose
// justify certifies the id of block view-1 under the claimed view.
func (f *changeFixture) checkBlock(view int64, blockid []byte, proposer string, pos int, claimedView int64, signs []*bftpb.QuorumCertSign) bool {
	just, err := bcommon.NewToOldQC(&bft.QuorumCert{VoteInfo: &bft.VoteInfo{ProposalId: f.id(view - 1), ProposalView: claimedView, ParentId: f.id(view - 2), ParentView: view - 2}, SignInfos: signs})
	if err != nil {
		core.HarnessError("C14: %s set-change fixture: %v", f.cons, err)
	}
	blk := &lpb.InternalBlock{Version: 1, Blockid: blockid, PreHash: f.id(view - 1), Height: view, Proposer: []byte(world.Addr(proposer)),
		Timestamp: f.ts(view, pos), CurTerm: f.term(view), CurBlockNum: 1, Justify: just}
	ctx := &xcontext.BaseCtx{XLog: world.NopLogger{}, Timer: timer.NewXTimer()}
	ok, _ := f.impl.CheckMinerMatch(ctx, state.NewBlockAgent(world.WireBlock(blk)))
	return ok
}

// accepts presents the carrying block: view h, proposed by the first member of
// the set in force for h in its own slot, certificate for the block of view h-1.
func (f *changeFixture) accepts(es []*entry, claim int) bool {
	return f.checkBlock(f.h, idProp, f.setAt(f.h)[0], 0, f.h-1+int64(claim), signsOf(es))
}

func signOver(name string, id []byte) *bftpb.QuorumCertSign {
	sigMu.Lock()
	defer sigMu.Unlock()
	return mkSign(name, name, sigBytes(name, id, 0))
}

// universe lists the identities of a pair: old, then the fresh members of new.
func (p setPair) universe() []string {
	out := append([]string{}, p.Old...)
	for _, n := range p.New {
		if !inNames(n, out) {
			out = append(out, n)
		}
	}
	return out
}

func inNames(n string, s []string) bool {
	for _, x := range s {
		if x == n {
			return true
		}
	}
	return false
}

// verifySchedule cross-checks the model's set in force for the views h-1 and h
// against the proposers the real CheckMinerMatch entitles: in the slot of
// every position the model's member is accepted and another identity (the
// member the OTHER set has there, else the outsider) is refused; for xpoa the
// position |set| must wrap to the first member (which pins the set's size).
// The probe blocks carry a certificate signed by everybody, a quorum of any set.
func (f *changeFixture) verifySchedule() (probes int, err error) {
	uni := f.pair.universe()
	probe := h32("c14-probe")
	for _, view := range []int64{f.h - 1, f.h} {
		set := f.setAt(view)
		other := f.pair.Old
		if len(set) == len(f.pair.Old) && strings.Join(set, ",") == strings.Join(f.pair.Old, ",") {
			other = f.pair.New
		}
		signs := make([]*bftpb.QuorumCertSign, len(uni))
		for i, n := range uni {
			signs[i] = signOver(n, f.id(view-1))
		}
		positions := len(set)
		if f.cons == "xpoa" {
			positions++
		}
		for p := 0; p < positions; p++ {
			want := set[p%len(set)]
			wrong := "X"
			if p < len(other) && other[p] != want {
				wrong = other[p]
			}
			probes += 2
			if !f.checkBlock(view, probe, want, p, view-1, signs) {
				return probes, fmt.Errorf("view %d position %d: the block of %s, member %d of the set the model has in force (%v), is refused", view, p, want, p%len(set), set)
			}
			if f.checkBlock(view, probe, wrong, p, view-1, signs) {
				return probes, fmt.Errorf("view %d position %d: the block of %s is accepted, the model has %v in force", view, p, wrong, set)
			}
		}
	}
	return probes, nil
}

// ---------------------------------------------------------------------------
// enumeration

type changeScenario struct {
	cons string
	pair setPair
	eff  int
}

type changeStats struct {
	scenarios, probes        int
	evals, accepted, refused int // true claimed view
	lieEvals, lieAccepted    int // the certificate claims another view
	refusedWithQuorum        int // true claimed view: refused although a quorum of the certified view's set signed
	honestRefused            int // ... of which the certificate signed by every member of that set
	dependsOnSet             map[string]int
	refEvals, refDiffers     int
	perRel                   map[string]int // scenarios per relation and offset
	accPerRel                map[string]int // accepted (true claimed view) per relation and offset
	violations               map[string]int
	expired                  bool
	sample                   interface{}
	lieVerdictDiffers        int
}

func newChangeStats() *changeStats {
	return &changeStats{dependsOnSet: map[string]int{}, perRel: map[string]int{}, accPerRel: map[string]int{}, violations: map[string]int{}}
}

func (s *changeStats) add(o *changeStats) {
	s.scenarios += o.scenarios
	s.probes += o.probes
	s.evals += o.evals
	s.accepted += o.accepted
	s.refused += o.refused
	s.lieEvals += o.lieEvals
	s.lieAccepted += o.lieAccepted
	s.refusedWithQuorum += o.refusedWithQuorum
	s.honestRefused += o.honestRefused
	s.refEvals += o.refEvals
	s.refDiffers += o.refDiffers
	s.lieVerdictDiffers += o.lieVerdictDiffers
	for k, v := range o.dependsOnSet {
		s.dependsOnSet[k] += v
	}
	for k, v := range o.perRel {
		s.perRel[k] += v
	}
	for k, v := range o.accPerRel {
		s.accPerRel[k] += v
	}
	for k, v := range o.violations {
		s.violations[k] += v
	}
	s.expired = s.expired || o.expired
}

// signersIn counts the distinct signers of a list that are members of set.
func signersIn(toks []string, set []string) int {
	seen := map[string]bool{}
	for _, t := range toks {
		if inNames(t, set) {
			seen[t] = true
		}
	}
	return len(seen)
}

func quorumOf(toks []string, set []string) bool {
	return signersIn(toks, set) >= threshold(len(set))
}

func changeCase(sc changeScenario, f *changeFixture, toks []string, claim int) Case {
	return Case{Seam: sc.cons + ".CheckMinerMatch", N: len(f.setAt(f.h - 1)), Entries: append([]string{}, toks...),
		Old: sc.pair.Old, New: sc.pair.New, Effective: effNames[sc.eff], ClaimedView: claimNames[claim]}
}

// changeKey classifies an acceptance below the quorum of the certified view's set.
func changeKey(f *changeFixture, toks []string, claim int) string {
	cert, carry := f.setAt(f.h-1), f.setAt(f.h)
	if claim != 0 {
		if claimed := f.setAt(f.h - 1 + int64(claim)); strings.Join(claimed, ",") != strings.Join(cert, ",") && quorumOf(toks, claimed) {
			return "c14.set_change.claimed_view_selects_the_validator_set"
		}
		return "c14.set_change.accepted_below_quorum_with_another_claimed_view"
	}
	if strings.Join(carry, ",") != strings.Join(cert, ",") && quorumOf(toks, carry) {
		return "c14.set_change.certificate_judged_by_the_carrying_views_set"
	}
	return "c14.set_change.accepted_below_quorum_of_the_certified_views_set"
}

func changeSummary(f *changeFixture, c Case, acc bool) string {
	cert := f.setAt(f.h - 1)
	claimed := "its true view"
	if c.ClaimedView != "" {
		claimed = c.ClaimedView + " as its view"
	}
	verdict := "refused"
	if acc {
		verdict = "accepted"
	}
	return fmt.Sprintf("%s %s the block of view h=%d (proposer %s) whose certificate for the block of view h-1 (claiming %s) is signed by %v; validator set %v, replaced by %v from view %s on: the set in force for the certified view is %v, %d of its members signed, %d needed",
		c.Seam, verdict, f.h, f.setAt(f.h)[0], claimed, c.Entries, c.Old, c.New, strings.Replace(c.Effective, "carrying_view", "h", 1), cert, signersIn(c.Entries, cert), threshold(len(cert)))
}

// runScenario evaluates every certificate of one scenario on one long-lived instance.
func runScenario(rep *core.Report, sc changeScenario, maxSigners, maxLieSigners int, bst *best) (*changeStats, *changeFixture) {
	st := newChangeStats()
	f, err := newChangeFixture(sc.cons, sc.pair, sc.eff)
	if err != nil {
		core.HarnessError("C14: cannot build the %s validator-set change %v -> %v (%s): %v", sc.cons, sc.pair.Old, sc.pair.New, effNames[sc.eff], err)
	}
	probes, err := f.verifySchedule()
	if err != nil {
		core.HarnessError("C14: %s validator-set change %v -> %v in force from %s: the proposers CheckMinerMatch entitles do not match the model's set in force: %v", sc.cons, sc.pair.Old, sc.pair.New, effNames[sc.eff], err)
	}
	st.scenarios, st.probes = 1, probes
	rel := sc.cons + " " + sc.pair.Rel + " " + effNames[sc.eff]
	st.perRel[rel]++
	cert, carry := f.setAt(f.h-1), f.setAt(f.h)
	ref := newRules(sc.pair.Old[0])
	certAddrs := addrsOfNames(cert)
	ids := append(sc.pair.universe(), "X")
	idx := 0
	forEachMultiset(len(ids), maxSigners, func(counts []int) {
		if st.expired {
			return
		}
		if idx++; idx%256 == 0 && rep.Expired() {
			st.expired = true
			return
		}
		var toks []string
		for i, c := range counts {
			for k := 0; k < c; k++ {
				toks = append(toks, ids[i])
			}
		}
		es := mustEntries(toks)
		d, need := signersIn(toks, cert), threshold(len(cert))
		want := d >= need
		if wc := quorumOf(toks, carry); wc != want {
			if wc {
				st.dependsOnSet["quorum_of_the_carrying_views_set_only"]++
			} else {
				st.dependsOnSet["quorum_of_the_certified_views_set_only"]++
			}
		}
		accTrue := false
		for _, claim := range claims {
			if claim != 0 && len(toks) > maxLieSigners {
				continue
			}
			acc := f.accepts(es, claim)
			if claim == 0 {
				accTrue = acc
				st.evals++
				if acc {
					st.accepted++
					st.accPerRel[rel]++
				} else {
					st.refused++
					if want {
						st.refusedWithQuorum++
						if d == len(cert) && len(toks) == len(cert) {
							st.honestRefused++
						}
					}
				}
				// differential: a plain CheckProposal instance handed the certified view's set as a fixed set
				st.refEvals++
				refAcc := ref.CheckProposal(qc(idProp, f.h, idCert, f.h-1, []*bftpb.QuorumCertSign{proposalSign}), qc(idCert, f.h-1, idRoot, f.h-2, signsOf(es)), certAddrs) == nil
				if refAcc != acc {
					st.refDiffers++
				}
				if st.sample == nil && sc.pair.Rel == "overlap" && sc.eff == 0 && len(toks) == 2 && want != quorumOf(toks, carry) {
					st.sample = map[string]interface{}{"case": changeCase(sc, f, toks, 0), "accepted": acc, "signers_in_the_set_in_force_for_the_certified_view": d, "needed": need}
				}
			} else {
				st.lieEvals++
				if acc {
					st.lieAccepted++
				}
				if acc != accTrue {
					st.lieVerdictDiffers++
				}
			}
			if !acc || want {
				continue
			}
			if claim != 0 && accTrue {
				continue // the same list is accepted under the true view: reported there
			}
			c := changeCase(sc, f, toks, claim)
			key := changeKey(f, toks, claim)
			st.violations[c.Seam+" "+key]++
			bst.offer(c, core.Violation{Key: key, Summary: changeSummary(f, c, true),
				Expected: fmt.Sprintf("refused: fewer than n-floor((n-1)/3)-1 = %d distinct members of the set in force for the certified view signed", need),
				Observed: "accepted"})
		}
	})
	return st, f
}

// runSetChange enumerates the validator-set change dimension: signer multisets
// of size <= maxSigners under the true claimed view, of size <= maxLieSigners
// under every other claimed view.
func runSetChange(rep *core.Report, maxSize, maxSigners, maxLieSigners int, bst *best) *changeStats {
	var scs []changeScenario
	for _, cons := range []string{"xpoa", "tdpos"} {
		for _, p := range setPairs(cons, maxSize) {
			for _, eff := range []int{-1, 0, 1} {
				scs = append(scs, changeScenario{cons, p, eff})
			}
		}
	}
	outs := make([]*changeStats, len(scs))
	fixtures := make([]*changeFixture, len(scs))
	jobs := make(chan int)
	var wg sync.WaitGroup
	for w := 0; w < runtime.GOMAXPROCS(0); w++ {
		wg.Add(1)
		go func() {
			defer wg.Done()
			for i := range jobs {
				if rep.Expired() {
					outs[i] = newChangeStats()
					outs[i].expired = true
					continue
				}
				outs[i], fixtures[i] = runScenario(rep, scs[i], maxSigners, maxLieSigners, bst)
			}
		}()
	}
	for i := range scs {
		jobs <- i
	}
	close(jobs)
	wg.Wait()
	var swg sync.WaitGroup
	for _, f := range fixtures {
		if f != nil {
			swg.Add(1)
			go func(f *changeFixture) {
				defer swg.Done()
				f.stop()
			}(f)
		}
	}
	swg.Wait()
	sum := newChangeStats()
	for _, o := range outs {
		sum.add(o)
		if sum.sample == nil && o.sample != nil {
			sum.sample = o.sample
		}
	}
	return sum
}

// lessChange orders the counterexamples of the set-change dimension: fewest
// signatures, smallest sets, honest claimed view first, then by text.
func lessChange(a, b Case) bool {
	if len(a.Entries) != len(b.Entries) {
		return len(a.Entries) < len(b.Entries)
	}
	if la, lb := len(a.Old)+len(a.New), len(b.Old)+len(b.New); la != lb {
		return la < lb
	}
	ka := strings.Join([]string{a.ClaimedView, strings.Join(a.Old, ","), strings.Join(a.New, ","), strings.Join(a.Entries, ","), a.Effective, a.Seam}, "|")
	kb := strings.Join([]string{b.ClaimedView, strings.Join(b.Old, ","), strings.Join(b.New, ","), strings.Join(b.Entries, ","), b.Effective, b.Seam}, "|")
	return ka < kb
}

// replayChange re-executes one case of the set-change dimension on a fresh fixture.
func replayChange(c Case) (bool, string, error) {
	cons := strings.TrimSuffix(c.Seam, ".CheckMinerMatch")
	eff, ok := effOf(c.Effective)
	if !ok {
		return false, "", fmt.Errorf("bad new_set_in_force_from %q", c.Effective)
	}
	claim, ok := claimOf(c.ClaimedView)
	if !ok {
		return false, "", fmt.Errorf("bad claimed_view %q", c.ClaimedView)
	}
	for _, n := range append(append(append([]string{}, c.Old...), c.New...), c.Entries...) {
		if _, ok := world.Keys[n]; !ok {
			return false, "", fmt.Errorf("unknown identity %q", n)
		}
	}
	if len(c.Old) == 0 || len(c.New) == 0 {
		return false, "", fmt.Errorf("empty validator set")
	}
	prep()
	f, err := newChangeFixture(cons, setPair{Old: c.Old, New: c.New}, eff)
	if err != nil {
		return false, "", err
	}
	defer f.stop()
	if _, err := f.verifySchedule(); err != nil {
		return false, "", fmt.Errorf("the proposers CheckMinerMatch entitles do not match the model's set in force: %v", err)
	}
	acc := f.accepts(mustEntries(c.Entries), claim)
	bad := acc && !quorumOf(c.Entries, f.setAt(f.h-1))
	msg := changeSummary(f, c, acc)
	if bad {
		msg += " class=" + changeKey(f, c.Entries, claim)
	}
	return bad, msg, nil
}
