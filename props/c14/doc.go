// Package c14 holds the check for property C14.
package c14
