package c14

import (
	"fmt"
	"strings"

	bftpb "github.com/xuperchain/xupercore/kernel/consensus/base/driver/chained-bft/pb"

	"verif/core"
	"verif/world"
)

// HISTORY. A node keeps ONE safety-rules / crypto object for its whole life, so
// a certificate is never judged by a blank object: the object has seen the
// honest traffic of earlier rounds. The verdict on a certificate must not
// depend on that. A history is a sequence of honest steps presented to one
// instance through the same seams (CheckVote / CheckProposal) BEFORE the cases
// of the enumerated space are presented to that same instance:
//
//	votes:other   every member V1..Vn votes for the OTHER id (the proposal's own
//	              id): n CheckVote calls with the very signature entries the
//	              cases re-use as Vi:otherid
//	cert:other    the honest certificate for the other id, all members' votes,
//	              justifying a proposal on top of it: one CheckProposal
//	votes:cert    every member votes for the certified id (entries Vi)
//	cert:cert     the honest full certificate for the certified id
//	former        X and V(n+1) vote for the certified id and for the other id
//	              while they ARE members (validator set V1..Vn+1, X of an earlier
//	              view); the cases then judge them against V1..Vn, where they are
//	              not
//
// Every step is honest traffic and must be accepted (counted, guard against a
// vacuous history).
var historySteps = []string{"votes:other", "cert:other", "votes:cert", "cert:cert", "former"}

// idNext is the id of the proposal that carries the certificate for the other id.
var idNext = h32("c14-next")

// prime presents the steps of one history to an instance and returns how many
// of the honest messages it accepted / refused.
func prime(r rules, n int, steps []string) (accepted, refused int) {
	prep()
	note := func(err error) {
		if err == nil {
			accepted++
		} else {
			refused++
		}
	}
	voteOver := func(id []byte, view int64, parent []byte, pview int64, tok string, validators []string) {
		note(r.CheckVote(qc(id, view, parent, pview, signsOf(mustEntries([]string{tok}))), "c14-history", validators))
	}
	for _, st := range steps {
		switch st {
		case "votes:other":
			for i := 1; i <= n; i++ {
				voteOver(idProp, 2, idCert, 1, vname(i)+":otherid", addrsOf[n])
			}
		case "cert:other":
			var toks []string
			for i := 2; i <= n; i++ {
				toks = append(toks, vname(i)+":otherid")
			}
			toks = append(toks, collector+":otherid")
			proposal := qc(idNext, 3, idProp, 2, []*bftpb.QuorumCertSign{proposalSign})
			note(r.CheckProposal(proposal, qc(idProp, 2, idCert, 1, signsOf(mustEntries(toks))), addrsOf[n]))
		case "votes:cert":
			for i := 1; i <= n; i++ {
				voteOver(idCert, 1, idRoot, 0, vname(i), addrsOf[n])
			}
		case "cert:cert":
			var toks []string
			for i := 2; i <= n; i++ {
				toks = append(toks, vname(i))
			}
			toks = append(toks, collector)
			note(r.CheckProposal(qc(idProp, 2, idCert, 1, []*bftpb.QuorumCertSign{proposalSign}), qc(idCert, 1, idRoot, 0, signsOf(mustEntries(toks))), addrsOf[n]))
		case "former":
			former := []string{"X"}
			if n < 10 {
				former = append(former, vname(n+1))
			}
			wider := append([]string{}, addrsOf[n]...)
			for _, f := range former {
				wider = append(wider, world.Addr(f))
			}
			for _, f := range former {
				voteOver(idCert, 1, idRoot, 0, f, wider)
				voteOver(idProp, 2, idCert, 1, f+":otherid", wider)
			}
		default:
			panic("c14: unknown history step " + st)
		}
	}
	return
}

// history is one element of the history dimension.
type history struct {
	Name  string
	Steps []string
	MaxN  int // presented to validator sets up to this size
}

// historiesFor lists the histories of a tier: none (the instance has seen
// nothing but the earlier cases), all steps together, and every single step.
// `none` and `all` run over the whole case space, the single steps over the
// validator sets up to singleMaxN. `none` comes first: its verdict is the
// reference of the differential comparison.
func historiesFor(steps []string, allMaxN, singleMaxN int) []history {
	hs := []history{{Name: "none", MaxN: allMaxN}, {Name: "all", Steps: steps, MaxN: allMaxN}}
	for _, st := range steps {
		hs = append(hs, history{Name: st, Steps: []string{st}, MaxN: singleMaxN})
	}
	return hs
}

func historyNames(hs []history) []string {
	var out []string
	for _, h := range hs {
		out = append(out, fmt.Sprintf("%s(n<=%d)", h.Name, h.MaxN))
	}
	return out
}

// primedSet is the set of long-lived instances of one shard for one validator
// set size: one per history, each primed once and then shown every case of the
// shard in enumeration order. The instances are never reset between cases: what
// they judged before is part of their history. The `none` instance is shown
// every list TWICE in a row (for the smaller validator sets): the second
// presentation of a list must get the verdict of the first.
type primedSet struct {
	n     int
	hists []history
	inst  []rules
	conf  []int      // confirmations spent, per history
	seen  [][]string // the cases this shard presented so far for this n, in order
}

func newPrimedSet(self string, n int, hists []history, st *histStats) *primedSet {
	p := &primedSet{n: n}
	for _, h := range hists {
		if n > h.MaxN {
			continue
		}
		r := newRules(self)
		a, rf := prime(r, n, h.Steps)
		st.stepsAccepted += a
		st.stepsRefused += rf
		st.instances++
		p.hists = append(p.hists, h)
		p.inst = append(p.inst, r)
	}
	p.conf = make([]int, len(p.hists))
	return p
}

type histStats struct {
	instances, stepsAccepted, stepsRefused int
	evals, accepted, rejected              int // presentations to primed instances
	again, againDiffers                    int // second presentations to the `none` instance
	differsAccept, differsRefuse           int // verdict after history != verdict without, by direction
	suspected, confirmed, unconfirmed      int
}

func (s *histStats) add(o *histStats) {
	s.instances += o.instances
	s.stepsAccepted += o.stepsAccepted
	s.stepsRefused += o.stepsRefused
	s.evals += o.evals
	s.accepted += o.accepted
	s.rejected += o.rejected
	s.again += o.again
	s.againDiffers += o.againDiffers
	s.differsAccept += o.differsAccept
	s.differsRefuse += o.differsRefuse
	s.suspected += o.suspected
	s.confirmed += o.confirmed
	s.unconfirmed += o.unconfirmed
}

func (s *histStats) report(rep *core.Report, prefix string) {
	rep.Set(prefix+"instances_primed", s.instances)
	rep.Set(prefix+"honest_steps_accepted", s.stepsAccepted)
	rep.Set(prefix+"honest_steps_refused", s.stepsRefused)
	rep.Set(prefix+"cases_after_history", s.evals)
	rep.Set(prefix+"accepted_after_history", s.accepted)
	rep.Set(prefix+"rejected_after_history", s.rejected)
	rep.Set(prefix+"second_presentations", s.again)
	rep.Set(prefix+"second_presentation_verdict_differs", s.againDiffers)
	rep.Set(prefix+"verdict_differs_from_history_free_instance", map[string]int{"accepted_only_after_history": s.differsAccept, "refused_only_after_history": s.differsRefuse})
	rep.Set(prefix+"below_quorum_acceptances_on_long_lived_instances", map[string]int{"seen": s.suspected, "rerun_on_fresh_instances": s.confirmed + s.unconfirmed, "not_reproduced": s.unconfirmed})
}

// maxConfirm bounds, per shard, validator-set size and history, how many
// below-quorum acceptances that a blank instance does not show are re-run on
// fresh instances to produce a replayable counterexample (all are counted).
const maxConfirm = 16

// maxEarlierTries bounds the search for ONE earlier certificate that explains a
// verdict the history alone does not explain.
const maxEarlierTries = 128

// replayHistory is the replayable form of "what the instance saw before": a
// fresh instance, the history steps, the earlier certificates (each
// earlierTimes times), then the case `times` times; the verdict is that of the
// last presentation.
func replayHistory(self, seam string, n int, steps []string, earlier [][]string, earlierTimes int, es []*entry, times int) (r rules, accepted bool) {
	r = newRules(self)
	prime(r, n, steps)
	if earlierTimes < 1 {
		earlierTimes = 1
	}
	for _, e := range earlier {
		for i := 0; i < earlierTimes; i++ {
			present(r, seam, n, mustEntries(e))
		}
	}
	if times < 1 {
		times = 1
	}
	for i := 0; i < times; i++ {
		accepted = present(r, seam, n, es)
	}
	return r, accepted
}

func present(r rules, seam string, n int, es []*entry) bool {
	if seam == "CheckVote" {
		acc, _ := evalVote(r, n, es)
		return acc
	}
	return acceptsProposal(r, n, es)
}

// explain re-runs, on fresh instances, a list that a long-lived instance
// accepted although the model refuses it, and looks for the smallest past that
// reproduces the acceptance: nothing (a defect that needs no history), the
// honest history alone, a second presentation, one earlier certificate of the
// shard, all earlier certificates of the shard. It returns the replayable case,
// the instance that reproduced it (for classification) and what was needed.
func explain(self, seam string, n int, h history, toks []string, seen [][]string, earlierTimes int) (c Case, r rules, need string) {
	es := mustEntries(toks)
	c = Case{Seam: seam, N: n, Collector: collector, Entries: toks}
	if r, acc := replayHistory(self, seam, n, nil, nil, 1, es, 1); acc {
		return c, r, "nothing"
	}
	c.History = h.Steps
	if len(h.Steps) > 0 {
		if r, acc := replayHistory(self, seam, n, h.Steps, nil, 1, es, 1); acc {
			return c, r, "history"
		}
	}
	c.Times = 2
	if r, acc := replayHistory(self, seam, n, h.Steps, nil, 1, es, 2); acc {
		return c, r, "second_presentation"
	}
	c.Times = 0
	c.EarlierTimes = earlierTimes
	for k, tries := len(seen)-1, 0; k >= 0 && tries < maxEarlierTries; k, tries = k-1, tries+1 {
		if r, acc := replayHistory(self, seam, n, h.Steps, seen[k:k+1], earlierTimes, es, 1); acc {
			c.Earlier = [][]string{seen[k]}
			return c, r, "earlier"
		}
	}
	if r, acc := replayHistory(self, seam, n, h.Steps, seen, earlierTimes, es, 1); acc {
		c.Earlier = append([][]string{}, seen...)
		return c, r, "earlier"
	}
	return c, nil, ""
}

// histKey names an acceptance that needs a past: honest traffic only
// (after_history) or certificates presented before (after_earlier_certificates).
func histKey(need, base string) string {
	base = strings.TrimPrefix(base, "c14.")
	if need == "history" {
		return "c14.after_history." + base
	}
	return "c14.after_earlier_certificates." + base
}

func histSummary(c Case, t string) string {
	s := c.Seam + " on an instance that had"
	if len(c.History) > 0 {
		s += fmt.Sprintf(" first been shown the honest traffic %v", c.History)
	} else {
		s += " seen no honest traffic"
	}
	if len(c.Earlier) > 0 {
		s += fmt.Sprintf(" and then %d earlier certificate(s) (last: %v)", len(c.Earlier), c.Earlier[len(c.Earlier)-1])
	}
	if c.Times > 1 {
		s += fmt.Sprintf(", at presentation %d of the same list,", c.Times)
	}
	return s + fmt.Sprintf(" accepted for n=%d validators the entries %v: %s; a fresh instance refuses the same list", c.N, c.Entries, t)
}
