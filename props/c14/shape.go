package c14

// STORAGE-SHAPE dimension: the ENCODING of the carrying block's consensus
// storage at the tdpos / xpoa CheckMinerMatch seams. The other parts of the
// check always hand over a present, well-formed certificate; here every honest
// carrying block (and every block carrying a small forged list) is re-encoded
// in every shape of a fixed catalogue - the justify field absent, null, an
// empty object, of another JSON type, twice; the storage empty, not JSON, not
// an object, `{}`, with unknown fields; the signature container absent, null,
// empty, of another type; fields of the certificate absent - through two
// carriers: the real state.BlockAgent over a wire-round-tripped InternalBlock
// whose protobuf fields are absent / empty (what a producer can put on the
// wire), and a plain BlockInterface value returning the storage bytes as given
// (what the seam's signature admits). Each block is presented ABOVE, AT and
// BELOW the chained-BFT start height.
//
// Oracle (one-sided, accept / refuse only): above the start height a block is
// accepted only if a quorum of distinct valid member signatures over the
// certified id can be found in its storage; the model knows, by construction of
// the shape, whether the signature entries of the base list are still in the
// bytes. At or below the start height the existing exemption applies: verdicts
// are counted, never judged.

import (
	"encoding/json"
	"fmt"
	"sort"
	"strings"
	"sync"

	"github.com/xuperchain/xupercore/bcs/ledger/xledger/state"
	lpb "github.com/xuperchain/xupercore/bcs/ledger/xledger/xldgpb"
	"github.com/xuperchain/xupercore/kernel/common/xcontext"
	bcommon "github.com/xuperchain/xupercore/kernel/consensus/base/common"
	bft "github.com/xuperchain/xupercore/kernel/consensus/base/driver/chained-bft"
	bftpb "github.com/xuperchain/xupercore/kernel/consensus/base/driver/chained-bft/pb"
	cctx "github.com/xuperchain/xupercore/kernel/consensus/context"
	"github.com/xuperchain/xupercore/lib/timer"

	"verif/core"
	"verif/world"
)

// rawBlock is a carrying block whose consensus storage is the given bytes.
type rawBlock struct {
	id, pre  []byte
	height   int64
	proposer []byte
	ts       int64
	storage  []byte
}

func (b *rawBlock) GetProposer() []byte                  { return b.proposer }
func (b *rawBlock) GetHeight() int64                     { return b.height }
func (b *rawBlock) GetBlockid() []byte                   { return b.id }
func (b *rawBlock) GetConsensusStorage() ([]byte, error) { return b.storage, nil }
func (b *rawBlock) GetTimestamp() int64                  { return b.ts }
func (b *rawBlock) SetItem(string, interface{}) error    { return fmt.Errorf("read-only block") }
func (b *rawBlock) MakeBlockId() ([]byte, error)         { return b.id, nil }
func (b *rawBlock) GetPreHash() []byte                   { return b.pre }
func (b *rawBlock) GetNextHash() []byte                  { return nil }
func (b *rawBlock) GetPublicKey() string                 { return world.Keys[collector].PubJSON }
func (b *rawBlock) GetSign() []byte                      { return nil }
func (b *rawBlock) GetTxIDs() []string                   { return nil }
func (b *rawBlock) GetInTrunk() bool                     { return false }
func (b *rawBlock) String() string                       { return fmt.Sprintf("rawBlock(h=%d)", b.height) }

func jsonObj(raw []byte) map[string]json.RawMessage {
	m := map[string]json.RawMessage{}
	if len(raw) == 0 {
		return m
	}
	if err := json.Unmarshal(raw, &m); err != nil {
		panic(fmt.Sprintf("c14 shape: canonical storage is not an object: %v", err))
	}
	return m
}

func jsonEnc(m map[string]json.RawMessage) []byte {
	b, err := json.Marshal(m) // keys in sorted order: deterministic
	if err != nil {
		panic(err)
	}
	return b
}

// setTop replaces (val != "") or removes (val == "") a member of the storage object.
func setTop(canon []byte, key, val string) []byte {
	m := jsonObj(canon)
	delete(m, key)
	if val != "" {
		m[key] = json.RawMessage(val)
	}
	return jsonEnc(m)
}

func editJustify(canon []byte, f func(j map[string]json.RawMessage)) []byte {
	m := jsonObj(canon)
	j := jsonObj(m["justify"])
	f(j)
	m["justify"] = jsonEnc(j)
	return jsonEnc(m)
}

func editSignInfos(canon []byte, f func(si map[string]json.RawMessage)) []byte {
	return editJustify(canon, func(j map[string]json.RawMessage) {
		si := jsonObj(j["SignInfos"])
		f(si)
		j["SignInfos"] = jsonEnc(si)
	})
}

func justifyOf(canon []byte) string {
	if j, ok := jsonObj(canon)["justify"]; ok {
		return string(j)
	}
	return "{}"
}

// signCount is the number of signature entries of the canonical storage.
func signCount(canon []byte) int {
	var l []json.RawMessage
	if raw, ok := jsonObj(jsonObj(jsonObj(canon)["justify"])["SignInfos"])["QCSignInfos"]; ok {
		_ = json.Unmarshal(raw, &l)
	}
	return len(l)
}

// shapeDef is one storage shape. Exactly one of raw / agent is set.
type shapeDef struct {
	name  string
	class string // the defect class an acceptance without quorum is reported under
	keeps bool   // the signature entries of the base list are still in the storage bytes
	// raw carrier: the storage bytes, from the canonical ones (what the real BlockAgent renders for the honest block)
	raw func(canon []byte) []byte
	// agent carrier: the protobuf justify message of the InternalBlock (nil: none), from the honest one
	agent func(j *lpb.QuorumCert) *lpb.QuorumCert
}

func (s shapeDef) carrier() string {
	if s.agent != nil {
		return "block_agent"
	}
	return "raw_storage"
}

func cloneQC(j *lpb.QuorumCert) *lpb.QuorumCert {
	c := &lpb.QuorumCert{ProposalId: j.ProposalId, ProposalMsg: j.ProposalMsg, Type: j.Type, ViewNumber: j.ViewNumber}
	if j.SignInfos != nil {
		c.SignInfos = &lpb.QCSignInfos{QCSignInfos: append([]*lpb.SignInfo{}, j.SignInfos.QCSignInfos...)}
	}
	return c
}

// shapeCatalogue is the fixed, ordered catalogue of storage shapes.
func shapeCatalogue() []shapeDef {
	lit := func(s string) func([]byte) []byte { return func([]byte) []byte { return []byte(s) } }
	var out []shapeDef
	add := func(name, class string, keeps bool, raw func([]byte) []byte) {
		out = append(out, shapeDef{name: name, class: class, keeps: keeps, raw: raw})
	}
	addPB := func(name, class string, keeps bool, f func(*lpb.QuorumCert) *lpb.QuorumCert) {
		out = append(out, shapeDef{name: name, class: class, keeps: keeps, agent: f})
	}
	// --- controls: the certificate is still there
	add("canonical", "reshaped_certificate", true, func(c []byte) []byte { return c })
	addPB("agent_canonical", "reshaped_certificate", true, func(j *lpb.QuorumCert) *lpb.QuorumCert { return j })
	add("unknown_fields_beside_justify", "reshaped_certificate", true, func(c []byte) []byte {
		return setTop(setTop(c, "zz_unknown", `{"a":[1,2,3]}`), "aa_unknown", `"x"`)
	})
	add("unknown_fields_inside_justify", "reshaped_certificate", true, func(c []byte) []byte {
		return editJustify(c, func(j map[string]json.RawMessage) { j["Unknown"] = json.RawMessage(`[null]`) })
	})
	add("unknown_fields_inside_sign_infos", "reshaped_certificate", true, func(c []byte) []byte {
		return editSignInfos(c, func(si map[string]json.RawMessage) { si["Unknown"] = json.RawMessage(`{"QCSignInfos":[]}`) })
	})
	add("justify_key_in_upper_case", "reshaped_certificate", true, func(c []byte) []byte {
		m := jsonObj(c)
		j := m["justify"]
		delete(m, "justify")
		m["JUSTIFY"] = j
		return jsonEnc(m)
	})
	add("white_space_around_members", "reshaped_certificate", true, func(c []byte) []byte {
		return []byte(" \n\t" + strings.Replace(string(c), `"justify":`, "\"justify\" :\n ", 1) + "\n ")
	})
	add("proposal_msg_absent", "certificate_field_absent", true, func(c []byte) []byte {
		return editJustify(c, func(j map[string]json.RawMessage) { delete(j, "ProposalMsg") })
	})
	addPB("agent_proposal_msg_absent", "certificate_field_absent", true, func(j *lpb.QuorumCert) *lpb.QuorumCert {
		c := cloneQC(j)
		c.ProposalMsg = nil
		return c
	})
	add("view_number_absent", "certificate_field_absent", true, func(c []byte) []byte {
		return editJustify(c, func(j map[string]json.RawMessage) { delete(j, "ViewNumber") })
	})
	// --- the justify member twice (the decoder keeps one of them)
	add("justify_twice_certificate_then_null", "justify_member_twice", true, func(c []byte) []byte {
		return []byte(`{"justify":` + justifyOf(c) + `,"curTerm":1,"justify":null}`)
	})
	add("justify_twice_null_then_certificate", "justify_member_twice", true, func(c []byte) []byte {
		return []byte(`{"justify":null,"curTerm":1,"justify":` + justifyOf(c) + `}`)
	})
	add("justify_twice_certificate_then_empty_object", "justify_member_twice", true, func(c []byte) []byte {
		return []byte(`{"justify":` + justifyOf(c) + `,"curTerm":1,"justify":{}}`)
	})
	// --- no justify member
	add("justify_absent", "justify_absent", false, func(c []byte) []byte { return setTop(c, "justify", "") })
	addPB("agent_justify_absent", "justify_absent", false, func(*lpb.QuorumCert) *lpb.QuorumCert { return nil })
	add("storage_empty_object", "justify_absent", false, lit(`{}`))
	add("unknown_fields_only", "justify_absent", false, lit(`{"zz_unknown":{"justify":1},"curTerm":1,"curBlockNum":1}`))
	add("justify_nested_one_level_down", "justify_absent", true, func(c []byte) []byte {
		return []byte(`{"curTerm":1,"storage":{"justify":` + justifyOf(c) + `}}`)
	})
	// --- justify null / empty / of another JSON type
	add("justify_null", "justify_null", false, func(c []byte) []byte { return setTop(c, "justify", "null") })
	add("justify_empty_object", "justify_empty_object", false, func(c []byte) []byte { return setTop(c, "justify", "{}") })
	addPB("agent_justify_empty_message", "justify_empty_object", false, func(*lpb.QuorumCert) *lpb.QuorumCert { return &lpb.QuorumCert{} })
	add("justify_string", "justify_of_another_json_type", false, func(c []byte) []byte { return setTop(c, "justify", `"certificate"`) })
	add("justify_number", "justify_of_another_json_type", false, func(c []byte) []byte { return setTop(c, "justify", `1`) })
	add("justify_true", "justify_of_another_json_type", false, func(c []byte) []byte { return setTop(c, "justify", `true`) })
	add("justify_empty_array", "justify_of_another_json_type", false, func(c []byte) []byte { return setTop(c, "justify", `[]`) })
	add("justify_array_holding_the_certificate", "justify_of_another_json_type", true, func(c []byte) []byte {
		return setTop(c, "justify", "["+justifyOf(c)+"]")
	})
	add("justify_string_holding_the_certificate", "justify_of_another_json_type", true, func(c []byte) []byte {
		q, _ := json.Marshal(justifyOf(c))
		return setTop(c, "justify", string(q))
	})
	// --- the storage is not a JSON object
	add("storage_zero_bytes", "storage_not_a_json_object", false, func([]byte) []byte { return nil })
	add("storage_not_json", "storage_not_a_json_object", false, lit(`justify`))
	add("storage_truncated", "storage_not_a_json_object", true, func(c []byte) []byte { return c[:len(c)-1] })
	add("storage_null", "storage_not_a_json_object", false, lit(`null`))
	add("storage_empty_array", "storage_not_a_json_object", false, lit(`[]`))
	add("storage_array_holding_the_object", "storage_not_a_json_object", true, func(c []byte) []byte { return []byte("[" + string(c) + "]") })
	add("storage_string", "storage_not_a_json_object", false, lit(`"justify"`))
	add("storage_number", "storage_not_a_json_object", false, lit(`0`))
	add("storage_object_then_garbage", "storage_not_a_json_object", true, func(c []byte) []byte { return []byte(string(c) + "}") })
	// --- the signature container
	add("sign_infos_absent", "sign_infos_absent", false, func(c []byte) []byte {
		return editJustify(c, func(j map[string]json.RawMessage) { delete(j, "SignInfos") })
	})
	addPB("agent_sign_infos_absent", "sign_infos_absent", false, func(j *lpb.QuorumCert) *lpb.QuorumCert {
		c := cloneQC(j)
		c.SignInfos = nil
		return c
	})
	add("sign_infos_null", "sign_infos_null", false, func(c []byte) []byte {
		return editJustify(c, func(j map[string]json.RawMessage) { j["SignInfos"] = json.RawMessage(`null`) })
	})
	add("sign_infos_empty_object", "sign_infos_empty", false, func(c []byte) []byte {
		return editJustify(c, func(j map[string]json.RawMessage) { j["SignInfos"] = json.RawMessage(`{}`) })
	})
	addPB("agent_sign_infos_empty_message", "sign_infos_empty", false, func(j *lpb.QuorumCert) *lpb.QuorumCert {
		c := cloneQC(j)
		c.SignInfos = &lpb.QCSignInfos{}
		return c
	})
	add("sign_list_null", "sign_infos_empty", false, func(c []byte) []byte {
		return editSignInfos(c, func(si map[string]json.RawMessage) { si["QCSignInfos"] = json.RawMessage(`null`) })
	})
	add("sign_list_empty_array", "sign_infos_empty", false, func(c []byte) []byte {
		return editSignInfos(c, func(si map[string]json.RawMessage) { si["QCSignInfos"] = json.RawMessage(`[]`) })
	})
	add("sign_list_of_empty_objects", "sign_infos_empty", false, func(c []byte) []byte {
		k := signCount(c)
		return editSignInfos(c, func(si map[string]json.RawMessage) {
			si["QCSignInfos"] = json.RawMessage("[" + strings.TrimSuffix(strings.Repeat("{},", k+1), ",") + "]")
		})
	})
	addPB("agent_sign_list_of_empty_messages", "sign_infos_empty", false, func(j *lpb.QuorumCert) *lpb.QuorumCert {
		c := cloneQC(j)
		l := make([]*lpb.SignInfo, len(c.SignInfos.QCSignInfos)+1)
		for i := range l {
			l[i] = &lpb.SignInfo{}
		}
		c.SignInfos.QCSignInfos = l
		return c
	})
	add("sign_list_of_nulls", "sign_infos_empty", false, func(c []byte) []byte {
		k := signCount(c)
		return editSignInfos(c, func(si map[string]json.RawMessage) {
			si["QCSignInfos"] = json.RawMessage("[" + strings.TrimSuffix(strings.Repeat("null,", k+1), ",") + "]")
		})
	})
	add("sign_infos_string", "sign_infos_of_another_json_type", false, func(c []byte) []byte {
		return editJustify(c, func(j map[string]json.RawMessage) { j["SignInfos"] = json.RawMessage(`"signatures"`) })
	})
	add("sign_infos_is_the_list_itself", "sign_infos_of_another_json_type", true, func(c []byte) []byte {
		return editJustify(c, func(j map[string]json.RawMessage) {
			if l, ok := jsonObj(j["SignInfos"])["QCSignInfos"]; ok {
				j["SignInfos"] = l
			} else {
				j["SignInfos"] = json.RawMessage(`[]`)
			}
		})
	})
	add("sign_list_number", "sign_infos_of_another_json_type", false, func(c []byte) []byte {
		return editSignInfos(c, func(si map[string]json.RawMessage) { si["QCSignInfos"] = json.RawMessage(`3`) })
	})
	add("sign_list_object", "sign_infos_of_another_json_type", false, func(c []byte) []byte {
		return editSignInfos(c, func(si map[string]json.RawMessage) { si["QCSignInfos"] = json.RawMessage(`{"0":{}}`) })
	})
	return out
}

func shapeByName(name string) (shapeDef, bool) {
	for _, s := range shapeCatalogue() {
		if s.name == name {
			return s, true
		}
	}
	return shapeDef{}, false
}

// relation of the carrying block's height to the chained-BFT start height.
type shapeRel struct {
	name          string
	start, height int64
}

var shapeRels = []shapeRel{
	{"above_start_height", 1, 2},
	{"at_start_height", 2, 2},
	{"below_start_height", 2, 1},
}

// ShapeRef names one earlier block of a shape case's past.
type ShapeRef struct {
	Shape   string   `json:"storage_shape"`
	Height  int64    `json:"block_height"`
	Entries []string `json:"entries"`
}

// shapeBlock builds the carrying block of a shape case for driver d: height 2
// on top of idCert, or height 1 on top of idRoot, proposed by V1 in its slot;
// the honest justify certifies the parent with the given signatures.
func (d *bcsDriver) shapeBlock(sh shapeDef, height int64, signs []*bftpb.QuorumCertSign) (cctx.BlockInterface, error) {
	certified, pre, ppre := idCert, idCert, idRoot
	if height == 1 {
		certified, pre, ppre = idRoot, idRoot, nil
	}
	just, err := bcommon.NewToOldQC(&bft.QuorumCert{VoteInfo: &bft.VoteInfo{ProposalId: certified, ProposalView: height - 1, ParentId: ppre, ParentView: height - 2}, SignInfos: signs})
	if err != nil {
		return nil, err
	}
	ts := d.ts - 3000*1e6*(2-height)
	blk := &lpb.InternalBlock{Version: 1, Blockid: idProp, PreHash: pre, Height: height, Proposer: []byte(world.Addr(collector)), Timestamp: ts, CurTerm: 1, CurBlockNum: 1, Justify: just}
	if sh.agent != nil {
		blk.Justify = sh.agent(just)
		return state.NewBlockAgent(world.WireBlock(blk)), nil
	}
	canon, err := state.NewBlockAgent(world.WireBlock(blk)).GetConsensusStorage()
	if err != nil {
		return nil, err
	}
	return &rawBlock{id: idProp, pre: pre, height: height, proposer: []byte(world.Addr(collector)), ts: ts, storage: sh.raw(canon)}, nil
}

// checkShape asks CheckMinerMatch; a panic of the implementation is a refusal (counted).
func (d *bcsDriver) checkShape(sh shapeDef, height int64, es []*entry) (ok, panicked bool) {
	b, err := d.shapeBlock(sh, height, signsOf(es))
	if err != nil {
		core.HarnessError("C14: %s storage-shape fixture: %v", d.name, err)
	}
	defer func() {
		if r := recover(); r != nil {
			ok, panicked = false, true
		}
	}()
	ctx := &xcontext.BaseCtx{XLog: world.NopLogger{}, Timer: timer.NewXTimer()}
	ok, _ = d.cons.CheckMinerMatch(ctx, b)
	return ok, false
}

// shapeQuorum is the model: can a quorum of distinct valid member signatures
// over the certified id be found in the storage of this block?
func shapeQuorum(sh shapeDef, n int, es []*entry) (found, needed int) {
	t := tallyOf(n, collector, es)
	if !sh.keeps {
		return 0, t.Threshold
	}
	return t.Distinct, t.Threshold
}

func shapeKey(sh shapeDef) string {
	return "c14.block_accepted_without_quorum_certificate." + sh.class
}

// shapeBases are the signature lists the shapes are applied to: the honest
// carrying blocks (every validator signed; every validator but the proposer;
// exactly a quorum) and the forged ones (one short of a quorum, none, and every
// case of the main enumeration up to `size` entries).
func shapeBases(n, size int) (out [][]string, honest int) {
	seen := map[string]bool{}
	add := func(t []string) {
		k := strings.Join(t, ",")
		if !seen[k] {
			seen[k] = true
			out = append(out, append([]string{}, t...))
		}
	}
	var others []string
	for i := 2; i <= n; i++ {
		others = append(others, vname(i))
	}
	add(append([]string{collector}, others...))
	add(others)
	thr := threshold(n)
	if thr <= len(others) {
		add(others[:thr])
	}
	honest = len(out)
	if thr >= 1 && thr <= len(others) {
		add(others[:thr-1])
	}
	add(nil)
	forEachCase(n, size, reencNone, func(ms int, toks []string) { add(toks) })
	return out, honest
}

// shapeConfirm bounds, per instance pair and defect class, how many acceptances
// without a quorum are re-run on fresh instances to produce a replayable
// counterexample (all are counted).
const shapeConfirm = 4

type shapeStats struct {
	evals, panics, differs         int
	perRel, accPerRel              map[string]int
	panicsPer                      map[string]int
	accAbovePerShape               map[string]int
	refAbovePerShape               map[string]int
	noCertAbove, noCertAboveAcc    int // above the start height, no quorum to be found in the storage
	quorumAbove, quorumAboveAcc    int // above the start height, quorum to be found
	canonQuorumAbove, canonRefused int
	suspected, unconfirmed         int
	violations                     map[string]int
	basesPerN                      map[string]int
	expired                        bool
	sample                         interface{}
}

func newShapeStats() *shapeStats {
	return &shapeStats{panicsPer: map[string]int{}, perRel: map[string]int{}, accPerRel: map[string]int{}, accAbovePerShape: map[string]int{}, refAbovePerShape: map[string]int{}, violations: map[string]int{}, basesPerN: map[string]int{}}
}

func (s *shapeStats) add(o *shapeStats) {
	s.evals += o.evals
	s.panics += o.panics
	s.differs += o.differs
	s.noCertAbove += o.noCertAbove
	s.noCertAboveAcc += o.noCertAboveAcc
	s.quorumAbove += o.quorumAbove
	s.quorumAboveAcc += o.quorumAboveAcc
	s.canonQuorumAbove += o.canonQuorumAbove
	s.canonRefused += o.canonRefused
	s.suspected += o.suspected
	s.unconfirmed += o.unconfirmed
	s.expired = s.expired || o.expired
	for _, p := range []struct{ d, s map[string]int }{{s.perRel, o.perRel}, {s.accPerRel, o.accPerRel}, {s.accAbovePerShape, o.accAbovePerShape}, {s.refAbovePerShape, o.refAbovePerShape}, {s.violations, o.violations}, {s.basesPerN, o.basesPerN}, {s.panicsPer, o.panicsPer}} {
		for k, v := range p.s {
			p.d[k] += v
		}
	}
	if s.sample == nil {
		s.sample = o.sample
	}
}

// replayShape re-executes one shape case on a fresh instance: the honest
// blocks, the earlier blocks, the case.
func replayShape(c Case) (d *bcsDriver, acc bool, sh shapeDef, err error) {
	name := strings.TrimSuffix(c.Seam, ".CheckMinerMatch")
	sh, ok := shapeByName(c.Shape)
	if !ok {
		return nil, false, sh, fmt.Errorf("unknown storage shape %q", c.Shape)
	}
	if c.StartHeight < 1 || c.StartHeight > 2 || c.Height < 1 || c.Height > 2 {
		return nil, false, sh, fmt.Errorf("start height / block height out of range")
	}
	d, err = newBcsStart(name, c.N, c.StartHeight)
	if err != nil {
		return nil, false, sh, err
	}
	d.prime(c.History)
	for _, e := range c.EarlierBlocks {
		esh, ok := shapeByName(e.Shape)
		if !ok {
			return d, false, sh, fmt.Errorf("unknown storage shape %q", e.Shape)
		}
		d.checkShape(esh, e.Height, mustEntries(e.Entries))
	}
	acc, _ = d.checkShape(sh, c.Height, mustEntries(c.Entries))
	return d, acc, sh, nil
}

// runShapes enumerates consensus x validator-set size x relation to the start
// height x base list x shape, on long-lived instances (one history-free and,
// above the start height, one that first accepted the honest blocks).
func runShapes(rep *core.Report, maxN, baseSize int, bst *best) *shapeStats {
	shapes := shapeCatalogue()
	type sjob struct {
		name string
		n    int
		rel  shapeRel
	}
	var jobs []sjob
	for _, name := range []string{"tdpos", "xpoa"} {
		for n := 1; n <= maxN; n++ {
			for _, rel := range shapeRels {
				jobs = append(jobs, sjob{name, n, rel})
			}
		}
	}
	outs := make([]*shapeStats, len(jobs))
	var wg sync.WaitGroup
	for ji := range jobs {
		wg.Add(1)
		go func(ji int) {
			defer wg.Done()
			j, o := jobs[ji], newShapeStats()
			outs[ji] = o
			seam := j.name + ".CheckMinerMatch"
			var pool []*bcsDriver
			defer func() {
				for _, d := range pool {
					d.stop()
				}
			}()
			mk := func(hist []string) *bcsDriver {
				d, err := newBcsStart(j.name, j.n, j.rel.start)
				if err != nil {
					core.HarnessError("C14: cannot construct %s with %d validators, start height %d: %v", j.name, j.n, j.rel.start, err)
				}
				pool = append(pool, d)
				d.prime(hist)
				return d
			}
			insts := []*bcsDriver{mk(nil)}
			hists := [][]string{nil}
			above := j.rel.height > j.rel.start
			if above {
				insts = append(insts, mk(bcsHistory))
				hists = append(hists, bcsHistory)
			}
			bases, honest := shapeBases(j.n, baseSize)
			if j.rel.name == shapeRels[0].name && j.name == "tdpos" {
				o.basesPerN[fmt.Sprintf("n=%d", j.n)] = len(bases)
			}
			var seen []ShapeRef
			explained := map[string]int{} // per defect class: acceptances re-run on fresh instances (all are counted)
			for bi, toks := range bases {
				if bi%16 == 0 && rep.Expired() {
					o.expired = true
					return
				}
				es := mustEntries(toks)
				for _, sh := range shapes {
					found, needed := shapeQuorum(sh, j.n, es)
					var accs [2]bool
					for ii, d := range insts {
						acc, pan := d.checkShape(sh, j.rel.height, es)
						accs[ii] = acc
						o.evals++
						if pan {
							o.panics++
							o.panicsPer[j.name+" "+j.rel.name+" "+sh.name]++
						}
						o.perRel[j.rel.name]++
						if acc {
							o.accPerRel[j.rel.name]++
						}
						if ii == 1 && accs[0] != accs[1] {
							o.differs++
						}
						if !above {
							continue
						}
						if ii == 0 {
							if acc {
								o.accAbovePerShape[sh.name]++
							} else {
								o.refAbovePerShape[sh.name]++
							}
							if found >= needed {
								o.quorumAbove++
								if acc {
									o.quorumAboveAcc++
								}
								if bi < honest && (sh.name == "canonical" || sh.name == "agent_canonical") {
									o.canonQuorumAbove++
									if !acc {
										o.canonRefused++
									}
								}
							} else {
								o.noCertAbove++
								if acc {
									o.noCertAboveAcc++
								}
							}
							if o.sample == nil && j.n == 4 && sh.name == "justify_absent" && bi == 0 {
								o.sample = map[string]interface{}{"case": Case{Seam: seam, N: j.n, Collector: collector, Entries: toks, Shape: sh.name, StartHeight: j.rel.start, Height: j.rel.height},
									"carrier": sh.carrier(), "accepted": acc, "distinct_valid_member_signatures_to_be_found_in_the_storage": found, "needed": needed}
							}
						}
						if !acc || found >= needed {
							continue
						}
						// accepted above the start height without a quorum to be found in the storage
						if explained[sh.class] >= shapeConfirm {
							o.violations[seam+" "+shapeKey(sh)]++
							continue
						}
						explained[sh.class]++
						c := Case{Seam: seam, N: j.n, Collector: collector, Entries: toks, Shape: sh.name, StartHeight: j.rel.start, Height: j.rel.height}
						confirmed := false
						for pi, past := range []struct {
							hist    []string
							earlier []ShapeRef
						}{{nil, nil}, {hists[ii], nil}, {hists[ii], seen}} {
							if pi == 1 && past.hist == nil {
								continue // same as the blank instance
							}
							c.History, c.EarlierBlocks = past.hist, append([]ShapeRef{}, past.earlier...)
							d2, acc2, _, err := replayShape(c)
							if d2 != nil {
								pool = append(pool, d2)
							}
							if err != nil {
								core.HarnessError("C14: %s storage-shape fixture: %v", j.name, err)
							}
							if acc2 {
								confirmed = true
								break
							}
						}
						if !confirmed {
							o.suspected++
							o.unconfirmed++
							continue
						}
						key := shapeKey(sh)
						if c.hasPast() || len(c.EarlierBlocks) > 0 {
							o.suspected++
							need := "history"
							if len(c.EarlierBlocks) > 0 {
								need = "earlier"
							}
							key = histKey(need, key)
						}
						o.violations[seam+" "+key]++
						bst.offer(c, core.Violation{Key: key,
							Summary:  shapeSummary(c, sh, found, needed),
							Expected: fmt.Sprintf("refused: the block is above the chained-BFT start height and no quorum (%d distinct valid member signatures over the certified id) can be found in its consensus storage", needed),
							Observed: "accepted"})
					}
					seen = append(seen, ShapeRef{Shape: sh.name, Height: j.rel.height, Entries: toks})
				}
			}
		}(ji)
	}
	wg.Wait()
	sum := newShapeStats()
	for _, o := range outs {
		sum.add(o)
	}
	return sum
}

func shapeSummary(c Case, sh shapeDef, found, needed int) string {
	past := ""
	if len(c.History) > 0 || len(c.EarlierBlocks) > 0 {
		past = fmt.Sprintf(" (instance first shown the honest blocks %v and %d earlier blocks)", c.History, len(c.EarlierBlocks))
	}
	return fmt.Sprintf("%s accepted a block of height %d (chained-BFT start height %d) for n=%d validators whose consensus storage has the shape %q [%s, carrier %s] applied to the certificate with entries %v: %d distinct valid member signatures over the certified id can be found in the storage, %d needed%s",
		c.Seam, c.Height, c.StartHeight, c.N, sh.name, sh.class, sh.carrier(), c.Entries, found, needed, past)
}

func shapeNames() []string {
	var out []string
	for _, s := range shapeCatalogue() {
		k := "signatures removed"
		if s.keeps {
			k = "signatures still in the bytes"
		}
		out = append(out, fmt.Sprintf("%s [%s; %s; %s]", s.name, s.class, s.carrier(), k))
	}
	return out
}

func (s *shapeStats) report(rep *core.Report) {
	rep.Set("shape_catalogue", shapeNames())
	rep.Set("shape_relations_to_the_start_height", []string{"above_start_height (start 1, block height 2)", "at_start_height (start 2, block height 2)", "below_start_height (start 2, block height 1)"})
	rep.Set("shape_base_lists_per_n", s.basesPerN)
	rep.Set("shape_cases", s.evals)
	rep.Set("shape_cases_per_relation", s.perRel)
	rep.Set("shape_accepted_per_relation", s.accPerRel)
	rep.Set("shape_above_start_no_quorum_to_be_found_in_storage", map[string]int{"cases": s.noCertAbove, "accepted": s.noCertAboveAcc})
	rep.Set("shape_above_start_quorum_to_be_found_in_storage", map[string]int{"cases": s.quorumAbove, "accepted": s.quorumAboveAcc, "refused": s.quorumAbove - s.quorumAboveAcc})
	rep.Set("shape_above_start_honest_blocks_in_canonical_encoding", map[string]int{"cases": s.canonQuorumAbove, "refused": s.canonRefused})
	rep.Set("shape_above_start_accepted_per_shape", s.accAbovePerShape)
	rep.Set("shape_above_start_refused_per_shape", s.refAbovePerShape)
	rep.Set("shape_panics_counted_as_refusals", s.panics)
	rep.Set("shape_panic_observations_per_consensus_relation_and_shape", s.panicsPer)
	rep.Set("shape_verdict_differs_from_history_free_instance", s.differs)
	rep.Set("shape_acceptances_without_quorum_needing_a_past", map[string]int{"seen": s.suspected, "not_reproduced": s.unconfirmed})
	keys := make([]string, 0, len(s.accAbovePerShape))
	for k := range s.accAbovePerShape {
		keys = append(keys, k)
	}
	sort.Strings(keys)
	rep.Set("shape_shapes_accepted_above_start_with_some_base", keys)
}
