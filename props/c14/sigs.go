package c14

import (
	"crypto/sha256"
	"fmt"
	"strconv"
	"strings"
	"sync"

	bftpb "github.com/xuperchain/xupercore/kernel/consensus/base/driver/chained-bft/pb"

	"verif/world"
)

// Fixed ids of the three-node proposal chain every case uses:
// idRoot (view 0) <- idCert (view 1, the certified proposal) <- idProp (view 2,
// the proposal / block that carries the certificate for idCert).
var (
	idRoot = h32("c14-root")
	idCert = h32("c14-certified")
	idProp = h32("c14-proposal")
)

func h32(s string) []byte {
	h := sha256.Sum256([]byte(s))
	return h[:]
}

// Entry tokens (the replayable, symbolic form of one signature entry):
//
//	Vi            valid signature of validator Vi over the certified id
//	Vi#k          k-th further (fresh, different bytes) valid signature of Vi
//	X             non-member X, valid signature over the certified id
//	Vi:otherid    Vi's valid signature over ANOTHER id (the proposal's own id)
//	Vi:corrupt    Vi's signature over the certified id with one bit flipped
//	Vi:empty      Vi's address and key with empty signature bytes
//	Vi:key=Vj     address Vi, public key and (valid) signature of Vj
//	Vi:key=X      address Vi, public key and (valid) signature of non-member X
//
// An entry "helps" in the sense of the statement iff it is a valid signature
// over the certified id under a key that hashes to the entry's address: only
// the first three forms (first two for members).
type entry struct {
	tok   string
	addr  string // symbolic name of the claimed address
	valid bool   // valid signature of addr over idCert
	sign  *bftpb.QuorumCertSign
}

var (
	sigMu   sync.Mutex
	sigMemo = map[string]*entry{}
)

func rawSign(name string, msg []byte) []byte {
	k := world.Keys[name]
	s, err := world.Crypto.SignECDSA(k.Priv, msg)
	if err != nil {
		panic(err)
	}
	return s
}

// indepValid verifies a (key name, signature, msg) triple with the crypto
// client directly: used only to validate the construction of the tables.
func indepValid(keyName string, sig, msg []byte) bool {
	k := world.Keys[keyName]
	ok, err := world.Crypto.VerifyECDSA(&k.Priv.PublicKey, sig, msg)
	return err == nil && ok
}

func mkSign(addrName, keyName string, sig []byte) *bftpb.QuorumCertSign {
	return &bftpb.QuorumCertSign{Address: world.Keys[addrName].Address, PublicKey: world.Keys[keyName].PubJSON, Sign: sig}
}

// parseEntry builds (memoised) the entry for a token.
func parseEntry(tok string) (*entry, error) {
	sigMu.Lock()
	defer sigMu.Unlock()
	if e, ok := sigMemo[tok]; ok {
		return e, nil
	}
	e, err := buildEntry(tok)
	if err != nil {
		return nil, err
	}
	sigMemo[tok] = e
	return e, nil
}

func buildEntry(tok string) (*entry, error) {
	name, mod := tok, ""
	if i := strings.IndexAny(tok, ":#"); i >= 0 {
		name, mod = tok[:i], tok[i:]
	}
	if _, ok := world.Keys[name]; !ok {
		return nil, fmt.Errorf("unknown identity in token %q", tok)
	}
	e := &entry{tok: tok, addr: name}
	switch {
	case mod == "":
		sig := rawSign(name, idCert)
		if !indepValid(name, sig, idCert) {
			return nil, fmt.Errorf("fresh signature of %s does not verify", name)
		}
		e.valid = true
		e.sign = mkSign(name, name, sig)
	case strings.HasPrefix(mod, "#"):
		if _, err := strconv.Atoi(mod[1:]); err != nil {
			return nil, fmt.Errorf("bad token %q", tok)
		}
		var sig []byte
		for try := 0; ; try++ {
			sig = rawSign(name, idCert)
			dup := false
			for _, o := range sigMemo {
				if o.addr == name && o.valid && string(o.sign.Sign) == string(sig) {
					dup = true
				}
			}
			if !dup {
				break
			}
			if try > 8 {
				// deterministic signer: a fresh signature cannot differ; an identical copy is still a repeat
				break
			}
		}
		e.valid = true
		e.sign = mkSign(name, name, sig)
	case mod == ":otherid":
		sig := rawSign(name, idProp)
		if indepValid(name, sig, idCert) {
			return nil, fmt.Errorf("signature over another id verifies over the certified id")
		}
		e.sign = mkSign(name, name, sig)
	case mod == ":corrupt":
		base := rawSign(name, idCert)
		var sig []byte
		for bit := 0; bit < 8*len(base); bit++ {
			sig = append([]byte{}, base...)
			sig[len(sig)-1-bit/8] ^= 1 << uint(bit%8)
			if !indepValid(name, sig, idCert) {
				break
			}
		}
		e.sign = mkSign(name, name, sig)
	case mod == ":empty":
		e.sign = mkSign(name, name, nil)
	case strings.HasPrefix(mod, ":key="):
		kn := mod[len(":key="):]
		if _, ok := world.Keys[kn]; !ok || kn == name {
			return nil, fmt.Errorf("bad key identity in token %q", tok)
		}
		sig := rawSign(kn, idCert)
		e.sign = mkSign(name, kn, sig)
	default:
		return nil, fmt.Errorf("bad token %q", tok)
	}
	return e, nil
}

func mustEntries(toks []string) []*entry {
	out := make([]*entry, len(toks))
	for i, t := range toks {
		e, err := parseEntry(t)
		if err != nil {
			panic(err)
		}
		out[i] = e
	}
	return out
}

func vname(i int) string { return "V" + strconv.Itoa(i) }

// members returns the symbolic names and addresses of V1..Vn.
func members(n int) (names, addrs []string) {
	for i := 1; i <= n; i++ {
		names = append(names, vname(i))
		addrs = append(addrs, world.Addr(vname(i)))
	}
	return
}

// threshold is the statement's bound: n - floor((n-1)/3) - 1 distinct members
// besides the collector.
func threshold(n int) int {
	f := 0
	if n >= 1 {
		f = (n - 1) / 3
	}
	return n - f - 1
}

// tally is the model's reading of a signature list.
type tally struct {
	Distinct      int // distinct non-collector members with a valid signature over the certified id
	Repeats       int // further valid signatures of non-collector members already counted
	Collector     int // valid signatures of the collector itself
	NonMember     int
	OtherID       int
	Corrupt       int // corrupt or empty
	Mismatch      int // member address with a key that does not hash to it
	FirstIsMember bool
	Threshold     int
}

// kindsOf gives the model's reading of every entry of a list: "first" (first
// valid signature of a non-collector member: the only entries that count),
// "repeat" (further valid signature of such a member), "collector" (any valid
// signature of the collector itself), "nonmember", "otherid",
// "corrupt" (corrupt or empty), "mismatch".
func kindsOf(n int, collector string, es []*entry) []string {
	mem := map[string]bool{}
	for i := 1; i <= n; i++ {
		mem[vname(i)] = true
	}
	seen := map[string]bool{}
	out := make([]string, len(es))
	for i, e := range es {
		switch {
		case !mem[e.addr]:
			out[i] = "nonmember"
		case e.valid:
			switch {
			case e.addr == collector:
				out[i] = "collector"
			case seen[e.addr]:
				out[i] = "repeat"
			default:
				out[i] = "first"
			}
			seen[e.addr] = true
		case strings.HasSuffix(e.tok, ":otherid"):
			out[i] = "otherid"
		case strings.HasSuffix(e.tok, ":corrupt"), strings.HasSuffix(e.tok, ":empty"):
			out[i] = "corrupt"
		default:
			out[i] = "mismatch"
		}
	}
	return out
}

func tallyOf(n int, collector string, es []*entry) tally {
	t := tally{Threshold: threshold(n)}
	seenSender := false
	for i, k := range kindsOf(n, collector, es) {
		if i == 0 {
			t.FirstIsMember = k == "first" || k == "collector"
		}
		switch k {
		case "first":
			t.Distinct++
		case "repeat":
			t.Repeats++
		case "collector":
			// A certificate does not name its collector, and the sender of a
			// proposal may carry a certificate that ANOTHER validator collected and
			// that contains the sender's own vote (the fork case of the repository's
			// TestSMR: A re-proposes round 2 with the round-1 certificate B
			// collected, votes [A, C]). Excluding the sender's signature would
			// refuse that honest certificate, so the sound reading of "besides the
			// collector" without knowing the collector is: the sender's signature
			// counts like any other member's, once.
			if !seenSender {
				seenSender = true
				t.Distinct++
			} else {
				t.Repeats++
			}
		case "nonmember":
			t.NonMember++
		case "otherid":
			t.OtherID++
		case "corrupt":
			t.Corrupt++
		case "mismatch":
			t.Mismatch++
		}
	}
	return t
}

// classify names the cheapest wrong explanation of an acceptance below quorum.
func (t tally) classify() string {
	need := t.Threshold
	col1 := 0
	if t.Collector > 0 {
		col1 = 1
	}
	switch {
	case t.Repeats > 0 && t.Distinct+t.Repeats >= need:
		return "c14.repeated_member_signature_counts"
	case t.Distinct+col1 >= need:
		return "c14.collector_own_signature_counts"
	case t.Distinct+t.Repeats+t.Collector >= need:
		if t.Repeats == 0 { // the collector's own signature, listed more than once
			return "c14.collector_own_signature_counts"
		}
		return "c14.repeated_member_signature_counts"
	case t.NonMember > 0 && t.Distinct+t.Repeats+t.Collector+t.NonMember >= need:
		return "c14.non_member_signature_counts"
	case t.OtherID > 0 && t.Distinct+t.Repeats+t.Collector+t.OtherID >= need:
		return "c14.signature_over_another_id_counts"
	case t.Corrupt > 0 && t.Distinct+t.Repeats+t.Collector+t.Corrupt >= need:
		return "c14.invalid_signature_counts"
	case t.Mismatch > 0 && t.Distinct+t.Repeats+t.Collector+t.Mismatch >= need:
		return "c14.address_key_mismatch_counts"
	}
	return "c14.accepted_below_quorum"
}
