package c14

import (
	"crypto/sha256"
	"encoding/asn1"
	"fmt"
	"math/big"
	"strconv"
	"strings"
	"sync"

	bftpb "github.com/xuperchain/xupercore/kernel/consensus/base/driver/chained-bft/pb"

	"verif/world"
)

// Fixed ids of the three-node proposal chain every case uses:
// idRoot (view 0) <- idCert (view 1, the certified proposal) <- idProp (view 2,
// the proposal / block that carries the certificate for idCert).
var (
	idRoot = h32("c14-root")
	idCert = h32("c14-certified")
	idProp = h32("c14-proposal")
)

func h32(s string) []byte {
	h := sha256.Sum256([]byte(s))
	return h[:]
}

// Entry tokens (the replayable, symbolic form of one signature entry):
//
//	Vi            valid signature of validator Vi over the certified id
//	Vi#k          k-th further (fresh, different bytes) valid signature of Vi
//	X             non-member X, valid signature over the certified id
//	Vi:otherid    Vi's valid signature over ANOTHER id (the proposal's own id)
//	Vi:corrupt    Vi's signature over the certified id with one bit flipped
//	Vi:empty      Vi's address and key with empty signature bytes
//	Vi:key=Vj     address Vi, public key and (valid) signature of Vj
//	Vi:key=X      address Vi, public key and (valid) signature of non-member X
//	Vi~r          the entry Vi RE-ENCODED: the same member, the same key, the
//	              same (r,s) signature values, other bytes in a field that is not
//	              the identity (r = name of a re-encoding, see reencodings): the
//	              public-key JSON text spelled differently, or the signature
//	              bytes spelled differently
//
// Every signature value exists once (sigBytes): Vi, Vi~r, Vi:corrupt and
// Vj:key=Vi all derive from the one signature of Vi over the certified id, and
// Vi:otherid is the one signature of Vi over the other id, the very bytes the
// histories (hist.go) present as Vi's honest vote for that other id.
//
// An entry "helps" in the sense of the statement iff it is a valid signature
// over the certified id under a key that hashes to the entry's address: the
// forms Vi, Vi#k, Vi~r (and X, for a member of the set).
type entry struct {
	tok   string
	addr  string // symbolic name of the claimed address
	valid bool   // valid signature of addr over idCert
	sign  *bftpb.QuorumCertSign
}

var (
	sigMu   sync.Mutex
	sigMemo = map[string]*entry{}
	rawMemo = map[string][]byte{}
)

// sigBytes is the k-th signature of `name` over msg (k=0: the one every derived
// entry form shares). The signer is randomised, so k>0 gives other bytes of the
// same signer over the same message. Caller holds sigMu.
func sigBytes(name string, msg []byte, k int) []byte {
	key := fmt.Sprintf("%s|%x|%d", name, msg, k)
	if s, ok := rawMemo[key]; ok {
		return s
	}
	var sig []byte
	for try := 0; ; try++ {
		sig = rawSign(name, msg)
		dup := false
		for j := 0; j < k; j++ {
			if string(sigBytes(name, msg, j)) == string(sig) {
				dup = true
			}
		}
		// a deterministic signer cannot give other bytes; an identical copy is still a repeat
		if !dup || try > 8 {
			break
		}
	}
	if !indepValid(name, sig, msg) {
		panic(fmt.Sprintf("signature of %s does not verify", name))
	}
	rawMemo[key] = sig
	return sig
}

// ---------------------------------------------------------------------------
// re-encodings: the same entry in other bytes

// reencoding rewrites one field of a valid entry without changing what it
// means: key != nil respells the public-key JSON (x, y = the decimal
// coordinates), sig != nil respells the signature bytes.
type reencoding struct {
	name string
	key  func(x, y string) string
	sig  func(sig []byte) ([]byte, error)
}

// reencodingCandidates is the explicit alphabet. Which of them the real parser /
// verifier takes for the same key and a valid signature is MEASURED
// (reencodings()); the others are reported and left out (they are then merely
// invalid entries, a kind the space holds already).
var reencodingCandidates = []reencoding{
	{name: "ws", key: func(x, y string) string { return `{"Curvname": "P-256", "X": ` + x + `, "Y": ` + y + `}` }},
	{name: "order", key: func(x, y string) string { return `{"Y":` + y + `,"X":` + x + `,"Curvname":"P-256"}` }},
	{name: "case", key: func(x, y string) string { return `{"curvname":"P-256","x":` + x + `,"y":` + y + `}` }},
	{name: "extra", key: func(x, y string) string { return `{"Curvname":"P-256","X":` + x + `,"Y":` + y + `,"Z":0}` }},
	{name: "nl", key: func(x, y string) string { return `{"Curvname":"P-256","X":` + x + `,"Y":` + y + "}\n" }},
	{name: "esc", key: func(x, y string) string { return `{"Curvname":"P\u002d256","X":` + x + `,"Y":` + y + `}` }},
	{name: "dup", key: func(x, y string) string { return `{"Curvname":"P-256","X":0,"X":` + x + `,"Y":` + y + `}` }},
	{name: "exp", key: func(x, y string) string { return `{"Curvname":"P-256","X":` + x + `e0,"Y":` + y + `e0}` }},
	{name: "frac", key: func(x, y string) string { return `{"Curvname":"P-256","X":` + x + `.0,"Y":` + y + `.0}` }},
	{name: "quoted", key: func(x, y string) string { return `{"Curvname":"P-256","X":"` + x + `","Y":"` + y + `"}` }},
	{name: "lead0", key: func(x, y string) string { return `{"Curvname":"P-256","X":0` + x + `,"Y":0` + y + `}` }},
	{name: "sigtail", sig: func(sig []byte) ([]byte, error) { return append(append([]byte{}, sig...), 0), nil }},
	{name: "sigflip", sig: func(sig []byte) ([]byte, error) {
		// (r, s) -> (r, N-s): the other signature value every ECDSA signature implies
		var rs struct{ R, S *big.Int }
		if _, err := asn1.Unmarshal(sig, &rs); err != nil {
			return nil, err
		}
		rs.S = new(big.Int).Sub(world.Keys["V1"].Priv.Curve.Params().N, rs.S)
		return asn1.Marshal(rs)
	}},
}

var (
	reencMeasure  sync.Once
	reencAccepted []reencoding
	reencRefused  []string
)

// reencode applies one re-encoding to the canonical entry of `name`; ok tells
// whether the crypto client reads the result as the same member's valid
// signature over the certified id, in bytes other than the canonical entry's.
// Caller holds sigMu.
func reencode(name string, r reencoding) (sign *bftpb.QuorumCertSign, ok bool) {
	k := world.Keys[name]
	pub, sig := k.PubJSON, sigBytes(name, idCert, 0)
	if r.key != nil {
		pub = r.key(k.Priv.PublicKey.X.String(), k.Priv.PublicKey.Y.String())
	}
	if r.sig != nil {
		s, err := r.sig(sig)
		if err != nil {
			return nil, false
		}
		sig = s
	}
	sign = &bftpb.QuorumCertSign{Address: k.Address, PublicKey: pub, Sign: sig}
	if pub == k.PubJSON && string(sig) == string(sigBytes(name, idCert, 0)) {
		return sign, false
	}
	pk, err := world.Crypto.GetEcdsaPublicKeyFromJsonStr(pub)
	if err != nil {
		return sign, false
	}
	if a, err := world.Crypto.GetAddressFromPublicKey(pk); err != nil || a != k.Address {
		return sign, false
	}
	v, err := world.Crypto.VerifyECDSA(pk, sig, idCert)
	return sign, err == nil && v
}

// reencodings measures which candidates the real key parser / verifier accept
// (for every validator key alike) and returns them in candidate order.
func reencodings() (accepted []reencoding, refused []string) {
	reencMeasure.Do(func() {
		sigMu.Lock()
		defer sigMu.Unlock()
		for _, r := range reencodingCandidates {
			all := true
			for i := 1; i <= 10; i++ {
				if _, ok := reencode(vname(i), r); !ok {
					all = false
				}
			}
			if all {
				reencAccepted = append(reencAccepted, r)
			} else {
				reencRefused = append(reencRefused, r.name)
			}
		}
	})
	return reencAccepted, reencRefused
}

func reencodingNames() []string {
	acc, _ := reencodings()
	out := make([]string, len(acc))
	for i, r := range acc {
		out[i] = r.name
	}
	return out
}

// reencodesKey tells whether token t is a re-encoding of the public-key text.
func reencodesKey(t string) bool {
	i := strings.Index(t, "~")
	if i < 0 {
		return false
	}
	for _, r := range reencodingCandidates {
		if r.name == t[i+1:] {
			return r.key != nil
		}
	}
	return false
}

func rawSign(name string, msg []byte) []byte {
	k := world.Keys[name]
	s, err := world.Crypto.SignECDSA(k.Priv, msg)
	if err != nil {
		panic(err)
	}
	return s
}

// indepValid verifies a (key name, signature, msg) triple with the crypto
// client directly: used only to validate the construction of the tables.
func indepValid(keyName string, sig, msg []byte) bool {
	k := world.Keys[keyName]
	ok, err := world.Crypto.VerifyECDSA(&k.Priv.PublicKey, sig, msg)
	return err == nil && ok
}

func mkSign(addrName, keyName string, sig []byte) *bftpb.QuorumCertSign {
	return &bftpb.QuorumCertSign{Address: world.Keys[addrName].Address, PublicKey: world.Keys[keyName].PubJSON, Sign: sig}
}

// parseEntry builds (memoised) the entry for a token.
func parseEntry(tok string) (*entry, error) {
	sigMu.Lock()
	defer sigMu.Unlock()
	if e, ok := sigMemo[tok]; ok {
		return e, nil
	}
	e, err := buildEntry(tok)
	if err != nil {
		return nil, err
	}
	sigMemo[tok] = e
	return e, nil
}

func buildEntry(tok string) (*entry, error) {
	name, mod := tok, ""
	if i := strings.IndexAny(tok, ":#~"); i >= 0 {
		name, mod = tok[:i], tok[i:]
	}
	if _, ok := world.Keys[name]; !ok {
		return nil, fmt.Errorf("unknown identity in token %q", tok)
	}
	e := &entry{tok: tok, addr: name}
	switch {
	case mod == "":
		e.valid = true
		e.sign = mkSign(name, name, sigBytes(name, idCert, 0))
	case strings.HasPrefix(mod, "#"):
		k, err := strconv.Atoi(mod[1:])
		if err != nil || k < 1 {
			return nil, fmt.Errorf("bad token %q", tok)
		}
		e.valid = true
		e.sign = mkSign(name, name, sigBytes(name, idCert, k))
	case strings.HasPrefix(mod, "~"):
		var sign *bftpb.QuorumCertSign
		ok := false
		for _, r := range reencodingCandidates {
			if r.name == mod[1:] {
				sign, ok = reencode(name, r)
			}
		}
		if !ok {
			return nil, fmt.Errorf("token %q: not a re-encoding the crypto client reads as %s's valid signature", tok, name)
		}
		e.valid = true
		e.sign = sign
	case mod == ":otherid":
		sig := sigBytes(name, idProp, 0)
		if indepValid(name, sig, idCert) {
			return nil, fmt.Errorf("signature over another id verifies over the certified id")
		}
		e.sign = mkSign(name, name, sig)
	case mod == ":corrupt":
		base := sigBytes(name, idCert, 0)
		var sig []byte
		for bit := 0; bit < 8*len(base); bit++ {
			sig = append([]byte{}, base...)
			sig[len(sig)-1-bit/8] ^= 1 << uint(bit%8)
			if !indepValid(name, sig, idCert) {
				break
			}
		}
		e.sign = mkSign(name, name, sig)
	case mod == ":empty":
		e.sign = mkSign(name, name, nil)
	case strings.HasPrefix(mod, ":key="):
		kn := mod[len(":key="):]
		if _, ok := world.Keys[kn]; !ok || kn == name {
			return nil, fmt.Errorf("bad key identity in token %q", tok)
		}
		e.sign = mkSign(name, kn, sigBytes(kn, idCert, 0))
	default:
		return nil, fmt.Errorf("bad token %q", tok)
	}
	return e, nil
}

func mustEntries(toks []string) []*entry {
	out := make([]*entry, len(toks))
	for i, t := range toks {
		e, err := parseEntry(t)
		if err != nil {
			panic(err)
		}
		out[i] = e
	}
	return out
}

func vname(i int) string { return "V" + strconv.Itoa(i) }

// members returns the symbolic names and addresses of V1..Vn.
func members(n int) (names, addrs []string) {
	for i := 1; i <= n; i++ {
		names = append(names, vname(i))
		addrs = append(addrs, world.Addr(vname(i)))
	}
	return
}

// threshold is the statement's bound: n - floor((n-1)/3) - 1 distinct members
// besides the collector.
func threshold(n int) int {
	f := 0
	if n >= 1 {
		f = (n - 1) / 3
	}
	return n - f - 1
}

// tally is the model's reading of a signature list.
type tally struct {
	Distinct      int // distinct non-collector members with a valid signature over the certified id
	Repeats       int // further valid signatures of non-collector members already counted
	Collector     int // valid signatures of the collector itself
	NonMember     int
	OtherID       int
	Corrupt       int // corrupt or empty
	Mismatch      int // member address with a key that does not hash to it
	FirstIsMember bool
	Threshold     int
}

// kindsOf gives the model's reading of every entry of a list: "first" (first
// valid signature of a non-collector member: the only entries that count),
// "repeat" (further valid signature of such a member), "collector" (any valid
// signature of the collector itself), "nonmember", "otherid",
// "corrupt" (corrupt or empty), "mismatch".
func kindsOf(n int, collector string, es []*entry) []string {
	mem := map[string]bool{}
	for i := 1; i <= n; i++ {
		mem[vname(i)] = true
	}
	seen := map[string]bool{}
	out := make([]string, len(es))
	for i, e := range es {
		switch {
		case !mem[e.addr]:
			out[i] = "nonmember"
		case e.valid:
			switch {
			case e.addr == collector:
				out[i] = "collector"
			case seen[e.addr]:
				out[i] = "repeat"
			default:
				out[i] = "first"
			}
			seen[e.addr] = true
		case strings.HasSuffix(e.tok, ":otherid"):
			out[i] = "otherid"
		case strings.HasSuffix(e.tok, ":corrupt"), strings.HasSuffix(e.tok, ":empty"):
			out[i] = "corrupt"
		default:
			out[i] = "mismatch"
		}
	}
	return out
}

func tallyOf(n int, collector string, es []*entry) tally {
	t := tally{Threshold: threshold(n)}
	seenSender := false
	for i, k := range kindsOf(n, collector, es) {
		if i == 0 {
			t.FirstIsMember = k == "first" || k == "collector"
		}
		switch k {
		case "first":
			t.Distinct++
		case "repeat":
			t.Repeats++
		case "collector":
			// A certificate does not name its collector, and the sender of a
			// proposal may carry a certificate that ANOTHER validator collected and
			// that contains the sender's own vote (the fork case of the repository's
			// TestSMR: A re-proposes round 2 with the round-1 certificate B
			// collected, votes [A, C]). Excluding the sender's signature would
			// refuse that honest certificate, so the sound reading of "besides the
			// collector" without knowing the collector is: the sender's signature
			// counts like any other member's, once.
			if !seenSender {
				seenSender = true
				t.Distinct++
			} else {
				t.Repeats++
			}
		case "nonmember":
			t.NonMember++
		case "otherid":
			t.OtherID++
		case "corrupt":
			t.Corrupt++
		case "mismatch":
			t.Mismatch++
		}
	}
	return t
}

// classify names the cheapest wrong explanation of an acceptance below quorum.
func (t tally) classify() string {
	need := t.Threshold
	col1 := 0
	if t.Collector > 0 {
		col1 = 1
	}
	switch {
	case t.Repeats > 0 && t.Distinct+t.Repeats >= need:
		return "c14.repeated_member_signature_counts"
	case t.Distinct+col1 >= need:
		return "c14.collector_own_signature_counts"
	case t.Distinct+t.Repeats+t.Collector >= need:
		if t.Repeats == 0 { // the collector's own signature, listed more than once
			return "c14.collector_own_signature_counts"
		}
		return "c14.repeated_member_signature_counts"
	case t.NonMember > 0 && t.Distinct+t.Repeats+t.Collector+t.NonMember >= need:
		return "c14.non_member_signature_counts"
	case t.OtherID > 0 && t.Distinct+t.Repeats+t.Collector+t.OtherID >= need:
		return "c14.signature_over_another_id_counts"
	case t.Corrupt > 0 && t.Distinct+t.Repeats+t.Collector+t.Corrupt >= need:
		return "c14.invalid_signature_counts"
	case t.Mismatch > 0 && t.Distinct+t.Repeats+t.Collector+t.Mismatch >= need:
		return "c14.address_key_mismatch_counts"
	}
	return "c14.accepted_below_quorum"
}
