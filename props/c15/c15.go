// Package c15: the pending-proposal tree of the chained-BFT SMR stays a tree;
// certified and committed markers only advance.
//
// Explicit-state search on the real code. Layer 1 drives a real QCPendingTree
// through exactly the calls the Smr makes on it, in all arrival orders; layer 2
// drives a real Smr (real safety rules, pacemaker, crypto; recording network)
// through its message handlers and exported entry points.
package c15

import (
	"encoding/json"
	"fmt"
	"os"
	"sort"
	"strconv"
	"strings"
	"sync/atomic"
	"time"

	"verif/core"
	"verif/engine/xplore"
	"verif/world"
)

type plan struct {
	u     *universe
	depth int
}

func treePlans(tier core.Tier) []plan {
	if tier == core.Thorough {
		return []plan{{uChain, 12}, {uFork, 10}, {uForkH, 9}, {uOrph, 12}, {uRestart4, 9}, {uRestart2, 9}, {uMix, 8}}
	}
	return []plan{{uChain, 9}, {uFork, 8}, {uForkH, 7}, {uOrph, 10}, {uRestart4, 7}, {uRestart2, 7}, {uMix, 6}}
}

// quiet hands the violations of every transition to the per-exploration
// collector instead of the report: workers finish in a racy order, and the
// report keeps the first counterexample per key. The collector keeps the
// shortest, lexicographically first history; those are reported afterwards.
type quiet struct{ xplore.Instance }

func (q quiet) Check(hist []string) []core.Violation { q.Instance.Check(hist); return nil }

func explore(rep *core.Report, layer string, p plan, stateless bool) (xplore.Stats, *counters) {
	u := p.u
	cnt := &counters{}
	cfg := xplore.Config{Name: "c15/" + layer + "/" + u.Name, New: func() xplore.Instance { return quiet{newInstanceFor(layer, u, cnt)} },
		MaxDepth: p.depth, Report: rep, Stateless: stateless}
	start := time.Now()
	st := xplore.Explore(cfg)
	prefix := layer + "." + u.Name + "."
	if stateless {
		return st, cnt
	}
	st.Fill(rep, prefix)
	cnt.fill(rep, prefix)
	rep.Set(prefix+"wall_s", float64(int(time.Since(start).Seconds()*10))/10)
	// report in a deterministic order
	keys := make([]string, 0, len(cnt.keys))
	for k := range cnt.keys {
		keys = append(keys, k)
	}
	sort.Strings(keys)
	for _, k := range keys {
		n := cnt.keys[k]
		_, viol := xplore.Replay(func() xplore.Instance { return newInstanceFor(layer, u, &counters{}) }, n.History)
		found := false
		for _, v := range viol {
			if v.Key == k {
				found = true
				for c := 0; c < n.Count; c++ {
					rep.Violation(v)
				}
			}
		}
		if !found { // never expected: the explorer saw it, the replay did not
			rep.Violation(core.Violation{Key: k, Summary: fmt.Sprintf("[%s/%s] after %v (seen by the explorer, not reproduced by the replay)", layer, u.Name, n.History),
				Case: map[string]interface{}{"layer": layer, "universe": u.Name, "history": n.History}})
		}
	}
	return st, cnt
}

func run(tier core.Tier) *core.Report {
	rep := core.NewReport("C15", tier, "model_checking")
	world.Init()
	exhaustive := true
	var bounds []string

	// development aid: C15_PLAN=<layer>:<universe>:<depth> runs one exploration
	if f := strings.Split(os.Getenv("C15_PLAN"), ":"); len(f) == 3 && universes[f[1]] != nil {
		d, _ := strconv.Atoi(f[2])
		smrPlans(tier)
		explore(rep, f[0], plan{universes[f[1]], d}, false)
		rep.Set("exhaustive", false)
		return rep
	}
	// layer 1: the tree alone
	for _, p := range treePlans(tier) {
		st, _ := explore(rep, "tree", p, false)
		exhaustive = exhaustive && st.Completed
		bounds = append(bounds, fmt.Sprintf("tree/%s: %d proposals, every sequence of ins/dup/high/rb/cmt events up to depth %d", p.u.Name, len(p.u.Nodes), p.depth))
	}
	// stateless cross-check of the de-duplication key on the smallest universe
	{
		d := 5
		st, _ := explore(rep, "tree", plan{uOrph, d}, true)
		rep.Set("stateless_pass", map[string]interface{}{"universe": uOrph.Name, "depth": d, "histories": st.Transitions, "completed": st.Completed})
		rep.Add("transitions", st.Transitions)
		rep.Add("traces_validated_against_impl", st.Transitions)
		exhaustive = exhaustive && st.Completed
	}
	// layer 2: the real Smr
	for _, p := range smrPlans(tier) {
		if os.Getenv("C15_LAYERS") == "tree" { // development aid
			exhaustive = false
			break
		}
		st, _ := explore(rep, "smr", p, false)
		exhaustive = exhaustive && st.Completed
		bounds = append(bounds, fmt.Sprintf("smr/%s: %d proposals, 4 validators, every sequence of prop/propc/vote/conf/rb events up to depth %d", p.u.Name, len(p.u.Nodes), p.depth))
	}
	sharedNet.mu.Lock()
	sent := map[string]int{}
	for k, v := range sharedNet.sends {
		sent[k] = v
	}
	sharedNet.mu.Unlock()
	rep.Set("smr.messages_sent_by_the_node", sent)

	rep.Set("bound", bounds)
	rep.Set("exhaustive", exhaustive)
	rep.Set("reporting_rule", "a state-invariant violation is reported on the transition that creates it (absent in the pre-state); the key names invariant, state class and the code path of that transition; exploration continues through violating states; per key the shortest, lexicographically first history is kept")
	rep.Assume("Genesis stands for its own (committed, never stored) ancestors: a marker equal to Genesis is accepted where the k-th ancestor of HighQC would lie above Genesis (InitQCTree starts with CommitQC = Genesis = HighQC)")
	rep.Assume("markers are compared by proposal id with the universe's ancestor relation; GenericQC/LockedQC/CommitQC pointing at nodes pruned above the committed root are not judged, only HighQC must hang under Root")
	rep.Assume("'every accepted proposal is stored exactly once' is demanded for accepted proposals that descend from the current committed root; proposals on branches conflicting with the committed root may be pruned")
	rep.Assume("handlers run one at a time (arrival orders are enumerated, not goroutine interleavings inside one handler; smr.go:204-206 starts them unsynchronised)")
	rep.Assume("layer 2: the crypto client's pure functions (verify, key parsing, address, sign) are memoised; the network only records sends; validators are interchangeable, so votes are offered for the next new voter and one repeated voter")
	rep.Set("observed_highqc_outside_root_states", int(atomic.LoadInt64(&ObservedHighQCOutsideRoot)))
	rep.Assume("HighQC hanging under the committed root is not part of the statement: states where updateCommit left it on a pruned branch or behind the new root are counted (observed_highqc_outside_root_states), not judged")
	return rep
}

func newInstanceFor(layer string, u *universe, c *counters) xplore.Instance {
	if layer == "smr" {
		return newSmrInst(u, c)
	}
	return newTreeInst(u, c)
}

func replay(c json.RawMessage) (violated bool, msg string, err error) {
	var cs struct {
		Layer    string   `json:"layer"`
		Universe string   `json:"universe"`
		Engine   string   `json:"engine"` // panic cases recorded by the explorer: c15/<layer>/<universe>
		History  []string `json:"history"`
	}
	if err := json.Unmarshal(c, &cs); err != nil {
		return false, "", err
	}
	if cs.Universe == "" && cs.Engine != "" {
		parts := strings.Split(cs.Engine, "/")
		if len(parts) == 3 {
			cs.Layer, cs.Universe = parts[1], parts[2]
		}
	}
	u := universes[cs.Universe]
	if u == nil {
		return false, "", fmt.Errorf("unknown universe %q", cs.Universe)
	}
	world.Init()
	defer func() {
		if r := recover(); r != nil {
			violated, msg, err = true, fmt.Sprintf("panic while replaying %v: %v", cs.History, r), nil
		}
	}()
	obs, viol := xplore.Replay(func() xplore.Instance { return newInstanceFor(cs.Layer, u, &counters{}) }, cs.History)
	if os.Getenv("C15_TRACE") != "" {
		for k, e := range cs.History {
			fmt.Printf("  %-10s -> %s\n", e, obs[k])
		}
	}
	if len(viol) > 0 {
		return true, viol[0].Key + ": " + viol[0].Summary, nil
	}
	return false, "history replayed without violation", nil
}

func init() {
	core.Register(&core.Check{ID: "C15", Run: run, Replay: replay})
}
