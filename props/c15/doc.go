// Package c15 holds the check for property C15.
package c15
