package c15

import (
	"fmt"
	"sort"
	"strings"

	bft "github.com/xuperchain/xupercore/kernel/consensus/base/driver/chained-bft"
)

// place is one occurrence of a node object in root tree ∪ orphan forest.
type place struct {
	node       *bft.ProposalNode
	father     *bft.ProposalNode
	inTree     bool
	orphanRoot bool
	depth      int // links from Root / from the orphan root
}

// snap is everything the oracles read from a QCPendingTree, taken through its
// exported fields only.
type snap struct {
	rootID   string
	rootPtr  *bft.ProposalNode
	places   map[string][]place
	order    []string // ids in first-visit order
	treePtrs map[*bft.ProposalNode]bool
	again    []string // ids whose node object was reached a second time
	treeStr  string
	orphStr  []string // in list order
	orphMap  []string
	marker   [4]string // high, generic, locked, commit ("-" = unset)
	mreach   [4]bool   // marker object reachable from Root
	highView int64
}

func idOf(n *bft.ProposalNode) string {
	if n == nil || n.In == nil {
		return "-"
	}
	return string(n.In.GetProposalId())
}

func takeSnap(t *bft.QCPendingTree) *snap {
	s := &snap{places: map[string][]place{}, treePtrs: map[*bft.ProposalNode]bool{}}
	seen := map[*bft.ProposalNode]bool{}
	var walk func(n, father *bft.ProposalNode, inTree, oroot bool, depth int)
	walk = func(n, father *bft.ProposalNode, inTree, oroot bool, depth int) {
		id := idOf(n)
		if _, ok := s.places[id]; !ok {
			s.order = append(s.order, id)
		}
		s.places[id] = append(s.places[id], place{n, father, inTree, oroot, depth})
		if seen[n] {
			s.again = append(s.again, id)
			return
		}
		seen[n] = true
		if inTree {
			s.treePtrs[n] = true
		}
		for _, c := range n.Sons {
			walk(c, n, inTree, false, depth+1)
		}
	}
	s.rootPtr = t.Root
	s.rootID = idOf(t.Root)
	walk(t.Root, nil, true, false, 0)
	for e := t.OrphanList.Front(); e != nil; e = e.Next() {
		n, ok := e.Value.(*bft.ProposalNode)
		if !ok || n == nil {
			continue
		}
		walk(n, nil, false, true, 0)
	}
	dups := false
	for _, ps := range s.places {
		if len(ps) > 1 {
			dups = true
		}
	}
	// sons are rendered sorted unless some id occurs twice (only then can the
	// order of sons influence a lookup)
	s.treeStr = render(t.Root, !dups, map[*bft.ProposalNode]bool{})
	for e := t.OrphanList.Front(); e != nil; e = e.Next() {
		n, _ := e.Value.(*bft.ProposalNode)
		s.orphStr = append(s.orphStr, render(n, !dups, map[*bft.ProposalNode]bool{}))
	}
	for k := range t.OrphanMap {
		s.orphMap = append(s.orphMap, k)
	}
	sort.Strings(s.orphMap)
	for i, m := range []*bft.ProposalNode{t.HighQC, t.GenericQC, t.LockedQC, t.CommitQC} {
		s.marker[i] = idOf(m)
		s.mreach[i] = m != nil && s.treePtrs[m]
	}
	if t.HighQC != nil {
		s.highView = t.HighQC.In.GetProposalView()
	}
	return s
}

func render(n *bft.ProposalNode, sorted bool, seen map[*bft.ProposalNode]bool) string {
	if n == nil {
		return "?"
	}
	if seen[n] {
		return idOf(n) + "^"
	}
	seen[n] = true
	if len(n.Sons) == 0 {
		return idOf(n)
	}
	parts := make([]string, 0, len(n.Sons))
	for _, c := range n.Sons {
		parts = append(parts, render(c, sorted, seen))
	}
	if sorted {
		sort.Strings(parts)
	}
	return idOf(n) + "(" + strings.Join(parts, " ") + ")"
}

func (s *snap) key() string {
	return fmt.Sprintf("T=%s|O=%s|M=%v|H=%s/%v G=%s/%v L=%s/%v C=%s/%v", s.treeStr, strings.Join(s.orphStr, ","), s.orphMap,
		s.marker[0], s.mreach[0], s.marker[1], s.mreach[1], s.marker[2], s.mreach[2], s.marker[3], s.mreach[3])
}

func (s *snap) inTree(id string) bool {
	for _, p := range s.places[id] {
		if p.inTree {
			return true
		}
	}
	return false
}

var titled = map[string]string{"generic": "Generic", "locked": "Locked", "commit": "Commit"}

// issue is one violated state invariant. ident identifies the violation
// instance (a transition "creates" the issue when ident is absent before it).
type issue struct {
	family string // invariant name
	class  string
	ident  string
	detail string
}

// stateIssues evaluates the state invariants of C15.
func stateIssues(u *universe, s *snap, accepted map[string]bool) []issue {
	var out []issue
	add := func(family, class, subject, detail string) {
		out = append(out, issue{family, class, family + "|" + class + "|" + subject, detail})
	}
	// I1 tree-ness of what hangs under Root (and of the orphan forest)
	for _, id := range s.again {
		add("tree", "node_object_linked_twice", id, fmt.Sprintf("node object %s is linked at two places (tree %s, orphans %v)", id, s.treeStr, s.orphStr))
	}
	for _, id := range s.order {
		nTree := 0
		for _, p := range s.places[id] {
			if p.inTree {
				nTree++
			}
			if p.father != nil && string(p.node.In.GetParentProposalId()) != idOf(p.father) {
				add("tree", "son_parent_mismatch", id, fmt.Sprintf("%s (parent id %q) hangs under %s", id, p.node.In.GetParentProposalId(), idOf(p.father)))
			}
		}
		if nTree > 1 {
			add("tree", "id_reachable_twice_from_root", id, fmt.Sprintf("%s occurs %d times under Root: %s", id, nTree, s.treeStr))
		}
	}
	if !u.known(s.rootID) {
		add("tree", "unknown_root", s.rootID, "root "+s.rootID)
	}
	// I2 every accepted proposal is stored exactly once
	names := make([]string, 0, len(accepted))
	for n := range accepted {
		names = append(names, n)
	}
	sort.Strings(names)
	for _, n := range names {
		cnt := len(s.places[n])
		if cnt > 1 {
			where := map[bool]int{}
			for _, p := range s.places[n] {
				where[p.inTree]++
			}
			cl := "in_tree_and_orphans"
			if where[false] == 0 {
				cl = "twice_in_tree"
			} else if where[true] == 0 {
				cl = "twice_in_orphans"
			}
			add("stored_once", "proposal_stored_twice."+cl, n, fmt.Sprintf("accepted proposal %s is stored %d times (tree %s, orphans %v)", n, cnt, s.treeStr, s.orphStr))
		}
		if cnt == 0 && n != s.rootID && u.descends(n, s.rootID) {
			add("stored_once", "accepted_proposal_lost", n, fmt.Sprintf("accepted proposal %s (view %d, a descendant of root %s) is stored nowhere (tree %s, orphans %v)", n, u.view(n), s.rootID, s.treeStr, s.orphStr))
		}
	}
	// I3 a stored node whose parent is stored hangs under it
	for _, id := range s.order {
		for _, p := range s.places[id] {
			if p.node == s.rootPtr || p.father != nil {
				continue // linked nodes are judged by son_parent_mismatch
			}
			pid := string(p.node.In.GetParentProposalId())
			pp := s.places[pid]
			if len(pp) == 0 {
				continue
			}
			linked := false
			for _, q := range pp {
				for _, c := range q.node.Sons {
					if c == p.node {
						linked = true
					}
				}
			}
			if linked {
				continue
			}
			cl := "orphan_root_not_adopted.parent_in_tree"
			if !pp[0].inTree {
				cl = "orphan_root_not_linked.parent_in_orphans"
				if len(pp[0].node.Sons) > 0 {
					cl = "sibling_orphan_not_adopted"
				}
			}
			// the instance is the detached node, wherever its parent currently is
			out = append(out, issue{"adoption", cl, "adoption|" + id,
				fmt.Sprintf("%s is a detached orphan root although its parent %s is stored (tree %s, orphans %v)", id, pid, s.treeStr, s.orphStr)})
		}
	}
	// I4 HighQC hangs under Root
	if s.marker[0] == "-" {
		add("high_reachable", "highqc_unset", "-", "HighQC is nil")
	} else if !s.mreach[0] {
		cl := "highqc_on_pruned_branch"
		if s.inTree(s.marker[0]) {
			cl = "highqc_is_detached_copy"
		} else if u.descends(s.rootID, s.marker[0]) {
			cl = "highqc_behind_committed_root"
		} else if u.descends(s.marker[0], s.rootID) {
			cl = "highqc_not_stored_under_root"
		}
		add("high_reachable", cl, s.marker[0], fmt.Sprintf("HighQC %s is not reachable from Root (tree %s)", s.marker[0], s.treeStr))
	}
	// I5 generic / locked / commit are the 1st / 2nd / 3rd ancestors of HighQC
	if u.known(s.marker[0]) {
		for k, which := range []string{"", "generic", "locked", "commit"} {
			if k == 0 || s.marker[k] == "-" {
				continue
			}
			want, exists := u.anc(s.marker[0], k)
			if s.marker[k] == want {
				continue
			}
			// stale: the true ancestor is not stored under Root (pruned, or
			// above Genesis), i.e. updateHighQC's walk stopped before reaching
			// this marker and an older value survived; wrong: it is stored.
			cl := which + "_stale"
			if exists && s.inTree(want) {
				cl = which + "_wrong"
			}
			add("markers", cl, which, fmt.Sprintf("HighQC=%s Generic=%s Locked=%s Commit=%s: %sQC should be %s, the %d. ancestor of HighQC (tree %s)",
				s.marker[0], s.marker[1], s.marker[2], s.marker[3], titled[which], want, k, s.treeStr))
		}
	}
	return out
}

// transitionIssues evaluates the two transition invariants.
func transitionIssues(u *universe, before, after *snap, rollback bool) []issue {
	var out []issue
	if after.highView < before.highView && !rollback {
		out = append(out, issue{"high_monotone", "view_decreased", "t", fmt.Sprintf("HighQC went from %s (view %d) to %s (view %d) without a rollback",
			before.marker[0], before.highView, after.marker[0], after.highView)})
	}
	// HighQC is only ever moved onto a node found under Root (updateHighQC / enforceUpdateHighQC look the
	// target up from Root): a transition that leaves Root alone and moves HighQC onto an object that is
	// not reachable from Root has acted on a detached node. (HighQC left behind by a commit that prunes
	// its branch is the other, not judged, case: there HighQC does not move.)
	if after.rootPtr == before.rootPtr && after.marker[0] != before.marker[0] && after.marker[0] != "-" && !after.mreach[0] {
		out = append(out, issue{"high_reachable", "highqc_moved_off_tree", "t", fmt.Sprintf("HighQC moved from %s to %s, which is not reachable from Root %s (tree %s)",
			before.marker[0], after.marker[0], after.rootID, after.treeStr)})
	}
	if after.rootPtr != before.rootPtr {
		if !before.treePtrs[after.rootPtr] || !u.descends(after.rootID, before.rootID) {
			out = append(out, issue{"root_descendant", "root_moved_to_non_descendant", "t", fmt.Sprintf("Root moved from %s to %s which is not one of its stored descendants (tree before %s)",
				before.rootID, after.rootID, before.treeStr)})
		}
	}
	return out
}

// acceptedNowIssues: a proposal whose insertion THIS transition acknowledged for the first time and whose
// view is above the committed root's is stored right after it, wherever its parent is (a late child of a
// pruned branch is kept as an orphan; orphans at or below the root's view may be dropped later, and a
// repeated insertion of such a dropped orphan is acknowledged without storing it - neither is demanded).
func acceptedNowIssues(u *universe, after *snap, p string) []issue {
	if p == "" || u.by[p] == nil || u.view(p) <= u.view(after.rootID) || len(after.places[p]) > 0 {
		return nil
	}
	return []issue{{"stored_once", "accepted_proposal_lost.on_acceptance", "stored_once|lost_now|" + p,
		fmt.Sprintf("proposal %s (view %d, parent %s) was accepted by this call and is stored nowhere (root %s, tree %s, orphans %v)", p, u.view(p), u.parent(p), after.rootID, after.treeStr, after.orphStr)}}
}

// probeLookups performs the lookup DFSQueryNode(id) for every proposal id of the universe, as stray votes
// or certificates for those ids make the Smr do (handleReceivedVoteMsg, UpdateJustifyQcStatus, the
// duplicate test of updateQcStatus). The answers are not judged. On a tree whose lookup is a pure walk
// from Root this changes nothing; it keeps state that a lookup may leave behind (memoisation) a function
// of the trees the history went through rather than of which calls happened to look a node up, so that
// histories merged on the canonical tree do not differ in it.
func probeLookups(u *universe, t *bft.QCPendingTree) {
	t.DFSQueryNode([]byte(genesis))
	for _, n := range u.Nodes {
		t.DFSQueryNode([]byte(n.Name))
	}
}
